#!/bin/bash
# Developer tool: seedone.sh <seed-id> <Cnn>... -- applies one seeded change to /repo, runs the given checks (evidence to a scratch dir), reverts.
cd /verif; ./run.sh build >/dev/null 2>&1
id=$1; shift
git -C /repo status --short | grep -q . && { echo "/repo dirty"; exit 1; }
mkdir -p /tmp/seedcheck; cp known_findings.json /tmp/seedcheck/
export GOFLAGS=-mod=mod GOPROXY=off GOSUMDB=off GOTOOLCHAIN=local; unset GOWORK
git -C /repo apply /verif/seeded/$id/patch.diff || { echo "$id does not apply"; exit 1; }
for p in "$@"; do
  bin/gmverif check -prop $p -tier quick -repo /repo -verif /tmp/seedcheck 2>&1 | grep -E "^VIOLATION|^UNDECIDED|^  (rule|why)|^property=" | head -${LINES_MAX:-8}
done
git -C /repo checkout -- .

#!/bin/bash
# Developer tool: seed5one.sh <Cnn> <a|b|c> <props...> -- applies a round-5 patch from /tmp/seed5/out, runs checks, reverts
cd /verif; ./run.sh build >/dev/null 2>&1
id=$1; v=$2; shift; shift
git -C /repo status --short | grep -q . && { echo "/repo dirty"; exit 1; }
mkdir -p /tmp/seedcheck; cp known_findings.json /tmp/seedcheck/
export GOFLAGS=-mod=mod GOPROXY=off GOSUMDB=off GOTOOLCHAIN=local; unset GOWORK
git -C /repo apply /tmp/seed5/out/$id/$v/patch.diff || { echo "$id$v does not apply"; exit 1; }
for p in "$@"; do
  bin/gmverif check -prop $p -tier quick -repo /repo -verif /tmp/seedcheck 2>&1 | grep -E "^VIOLATION|^UNDECIDED|^  (rule|why)|^property=" | cut -c1-400 | head -${LINES_MAX:-4}
done
git -C /repo checkout -- .

#!/bin/bash
# validates MANIFEST.json and every evidence file against the schemas
python3-vt - <<'PY'
import json, jsonschema, glob
jsonschema.validate(json.load(open('/verif/MANIFEST.json')), json.load(open('/root/.vp/MANIFEST.schema.json')))
s=json.load(open('/root/.vp/EVIDENCE.schema.json'))
for f in sorted(glob.glob('/verif/evidence/C*.json')):
    jsonschema.validate(json.load(open(f)), s)
print("schemas ok:", len(glob.glob('/verif/evidence/C*.json')), "evidence files")
PY

#!/bin/bash
# usage: mut.sh <prop> <file-rel> <python-regex-old> <new>   -- applies one textual edit to /repo, builds, runs the check, reverts
set -u
PROP="$1"; FILE="$2"; OLD="$3"; NEW="$4"
export GOFLAGS=-mod=mod GOPROXY=off GOSUMDB=off GOTOOLCHAIN=local; unset GOWORK
cd /repo
cp "$FILE" /tmp/mut.bak.$$
python3 - "$FILE" "$OLD" "$NEW" <<'PY'
import sys,re
f,old,new=sys.argv[1:4]
s=open(f).read()
n=len(re.findall(old,s,flags=re.S))
if n!=1:
    print("MUT: pattern matches",n,"times"); sys.exit(3)
s=re.sub(old,lambda m:new,s,count=1,flags=re.S)
open(f,'w').write(s)
PY
rc=$?
if [ $rc -eq 0 ]; then
  if go build ./analysis ./analysis/sql ./analysis/httpapi ./generator ./generator/dart ./generator/sql ./generator/typescript ./generator/go/gounions ./generator/go/randdata ./generator/go/sqlcrud ./cmd 2>/tmp/mut.build.$$ >/dev/null; then
    /verif/run.sh "$PROP" quick | grep -E 'VIOLATION|UNDECIDED|^  (rule|why|construct)|^property=' | head -${MUT_LINES:-12}
  else
    echo "MUT: does not build"; head -5 /tmp/mut.build.$$
  fi
fi
cp /tmp/mut.bak.$$ "$FILE"; rm -f /tmp/mut.bak.$$ /tmp/mut.build.$$
git -C /repo status --short | head -3

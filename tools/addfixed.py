#!/usr/bin/env python3
# Developer tool: record a defect that a check found and a "fix:" commit repaired.
# usage: addfixed.py Cnn rule function construct commit witness
import json, sys
prop, rule, fn, cons, commit, wit = sys.argv[1:7]
kf = json.load(open('known_findings.json'))
kf['findings'].append({"property": prop, "rule": rule, "function": fn, "construct": cons, "status": "fixed", "commit": commit,
  "witness": wit, "note": "fixed: property=%s %s %s" % (prop, commit, cons)})
json.dump(kf, open('known_findings.json', 'w'), indent=1)

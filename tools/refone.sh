#!/bin/bash
# Developer tool: refone.sh <Rnn-k> [props...] -- applies a behaviour-preserving refactoring from /tmp/refac/out (or benign/<id>), runs checks (all by default), reverts
cd /verif; ./run.sh build >/dev/null 2>&1
id=$1; shift
p=/tmp/refac/out/${id%-*}/${id#*-}/patch.diff; [ -f $p ] || p=/tmp/refac2/out/${id%-*}/${id#*-}/patch.diff; [ -f $p ] || p=/tmp/refac3/out/${id%-*}/${id#*-}/patch.diff
[ -f $p ] || p=/verif/benign/$id/patch.diff
git -C /repo status --short | grep -q . && { echo "/repo dirty"; exit 1; }
mkdir -p /tmp/refcheck; cp known_findings.json /tmp/refcheck/
export GOFLAGS=-mod=mod GOPROXY=off GOSUMDB=off GOTOOLCHAIN=local; unset GOWORK
git -C /repo apply $p || { echo "$id does not apply"; exit 1; }
props="${*:-all}"
for q in $props; do
  bin/gmverif check -prop $q -tier quick -repo /repo -verif /tmp/refcheck 2>&1 | grep -E "^VIOLATION|^UNDECIDED|^  (rule|why|construct)" | cut -c1-${COLS:-300} | head -${LINES_MAX:-12}
done
git -C /repo checkout -- .
echo "-- $id done"

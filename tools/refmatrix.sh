#!/bin/bash
# Developer tool: runs all checks on every behaviour-preserving refactoring under $1 (default /verif/benign); none may be flagged
cd /verif; ./run.sh build >/dev/null 2>&1
ROOT=${1:-/verif/benign}
git -C /repo status --short | grep -q . && { echo "/repo dirty"; exit 1; }
mkdir -p /tmp/refcheck; cp known_findings.json /tmp/refcheck/
export GOFLAGS=-mod=mod GOPROXY=off GOSUMDB=off GOTOOLCHAIN=local; unset GOWORK
for p in $(ls $ROOT/*/patch.diff $ROOT/*/*/patch.diff 2>/dev/null | sort); do
  id=$(echo $p | sed "s#$ROOT/##; s#/patch.diff##; s#/#-#")
  if git -C /repo apply $p 2>/dev/null; then
    bin/gmverif check -prop all -tier quick -repo /repo -verif /tmp/refcheck > /tmp/refcheck/$id.out 2>&1
    git -C /repo checkout -- .
    v=$(grep -c "^VIOLATION" /tmp/refcheck/$id.out); u=$(grep -c "^UNDECIDED" /tmp/refcheck/$id.out)
    echo "$id violations=$v undecided=$u $(grep -A1 '^VIOLATION' /tmp/refcheck/$id.out | grep -o 'rule=[A-Za-z0-9-]*' | sort -u | tr '\n' ' ') $(grep '^UNDECIDED' /tmp/refcheck/$id.out | sed 's/UNDECIDED property=\(C[0-9]*\).*/\1/' | sort -u | tr '\n' ' ')"
  else echo "$id does not apply"; fi
done

#!/usr/bin/env python3
# Generates MANIFEST.json from tools/manifest_src.py tables. Run from /verif.
import json, sys
sys.path.insert(0, 'tools')
from manifest_src import CHECKS, NOT_APPLICABLE, NOTES
props = [json.loads(l)['id'] for l in open('properties.jsonl')]
checks = []
for pid in props:
    if pid not in CHECKS: continue
    c = CHECKS[pid]
    checks.append({
        "property_id": pid,
        "quick_cmd": "./run.sh %s quick" % pid,
        "thorough_cmd": "./run.sh %s thorough" % pid,
        "evidence_file": "/verif/evidence/%s.json" % pid,
        "replay_cmd_template": "./run.sh explain {path}",
        "engine": "gmverif",
        "level_claimed": {"category": c["level"], "text": c["text"], "design_ref": c["ref"]},
        "level_note": c["note"],
        "technique": c["technique"],
    })
na = [{"property_id": p, "reason": NOT_APPLICABLE[p]} for p in props if p not in CHECKS]
for p in props:
    assert (p in CHECKS) != (p in NOT_APPLICABLE), p
m = {
 "version": 1,
 "setup_cmd": "./run.sh build",
 "hooks": {
   "guard": "verif",
   "enable": "packages are loaded with -tags verif; no hook commits exist (a static checker reads the source)",
   "baseline_off_cmd": "cd /repo && export GOFLAGS=-mod=mod GOPROXY=off GOSUMDB=off GOTOOLCHAIN=local && go test -json -vet=off -count=1 -timeout 25m ./...",
   "source_commits": [],
   "add_only": True
 },
 "engines": [{"name": "gmverif", "path": "/verif/checker", "serves_properties": [c["property_id"] for c in checks],
              "kind_free_text": "repository-specific static analyser (go/packages + go/types + go/ssa + call graph, x/tools v0.29.0): obligation discharge, lock/typestate dataflow, order non-interference, template sketches"}],
 "checks": checks,
 "not_applicable": na,
 "notes": NOTES,
}
json.dump(m, open('MANIFEST.json', 'w'), indent=1)
print("checks:", len(checks), "not_applicable:", len(na))

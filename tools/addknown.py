#!/usr/bin/env python3
# Developer tool (never run by a check): add the violations currently recorded in evidence/<prop>.violations/ to known_findings.json.
# usage: addknown.py Cnn "note" [substring filter on construct/function]
import json, sys, glob
prop, note = sys.argv[1], sys.argv[2]
flt = sys.argv[3] if len(sys.argv) > 3 else None
kf = json.load(open('known_findings.json'))
have = {(f['property'], f['rule'], f['function'], f['construct']) for f in kf['findings']}
n = 0
for p in sorted(glob.glob('evidence/%s.violations/*.json' % prop)):
    o = json.load(open(p))['obligation']
    if flt and flt not in o['construct'] and flt not in o['function']:
        continue
    key = (prop, o['rule'], o['function'], o['construct'])
    if key in have: continue
    kf['findings'].append({"property": prop, "rule": o['rule'], "function": o['function'], "construct": o['construct'],
                           "status": "known", "witness": "", "note": note})
    have.add(key); n += 1
json.dump(kf, open('known_findings.json', 'w'), indent=1)
print("added", n)

#!/bin/bash
# runs every claimed check (tier from $1, default quick) on /repo and validates the evidence; use before committing evidence
cd /verif
TIER=${1:-quick}
git -C /repo status --short | grep -q . && { echo "WARNING: /repo working tree is dirty"; git -C /repo status --short | head -5; }
rc=0
for p in $(python3 -c "import json;print(' '.join(c['property_id'] for c in json.load(open('MANIFEST.json'))['checks']))"); do
  ./run.sh $p $TIER | grep -E "^property=|VIOLATION|UNDECIDED" ; [ ${PIPESTATUS[0]} -ne 0 ] && rc=1
done
tools/validate.sh || rc=1
exit $rc

#!/usr/bin/env python3
# Developer tool: mark known findings as fixed. usage: markfixed.py Cnn <substring of construct or function> <commit> [witness]
import json, sys
prop, sub, commit = sys.argv[1:4]
wit = sys.argv[4] if len(sys.argv) > 4 else None
kf = json.load(open('known_findings.json'))
n = 0
for f in kf['findings']:
    if f['property'] == prop and f['status'] == 'known' and (sub in f['construct'] or sub in f['function']):
        f['status'] = 'fixed'; f['commit'] = commit
        if wit: f['witness'] = wit
        f['note'] = 'fixed: property=%s %s %s' % (prop, commit, f['construct'])
        n += 1
json.dump(kf, open('known_findings.json', 'w'), indent=1)
print("marked", n)

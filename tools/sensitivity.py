#!/usr/bin/env python3
"""Sensitivity run of the thorough tier (evidence only, never changes a verdict).

For property Cnn: every frozen single-edit variant (mutants/mutants.json) and every kept seeded change
(seeded/<id>/meta.json + patch.diff) of that property is applied to a scratch copy of /repo outside
/repo and /verif, the production packages are type-checked by the checker itself, the quick check is
run against the scratch copy, and the outcome (applied? flagged? by which rules?) is merged into
evidence/Cnn.json under coverage.sensitivity. The scratch copy is removed afterwards.
"""
import json, os, re, shutil, subprocess, sys, tempfile, glob

prop = sys.argv[1]
verif = os.path.dirname(os.path.dirname(os.path.abspath(__file__)))
repo = os.environ.get("VERIF_REPO", "/repo")
binp = os.path.join(verif, "bin", "gmverif")
evp = os.path.join(verif, "evidence", prop + ".json")
if not os.path.exists(evp):
    sys.exit(0)

env = dict(os.environ, GOFLAGS="-mod=mod", GOPROXY="off", GOSUMDB="off", GOTOOLCHAIN="local")
env.pop("GOWORK", None)

variants = []
for m in json.load(open(os.path.join(verif, "mutants", "mutants.json")))["mutants"]:
    if m["prop"] == prop:
        variants.append(("mutant:" + m["name"], m))
for meta in sorted(glob.glob(os.path.join(verif, "seeded", "*", "meta.json"))):
    md = json.load(open(meta))
    if prop in md.get("checked_by", [md.get("property")]) and md.get("status") == "kept":
        variants.append(("seed:" + md["id"], {"patch": os.path.join(os.path.dirname(meta), md.get("patch", "patch.diff")), "expect": md.get("caught_by_rule", "").split(",")[0].strip()}))
    # seeded changes that a repo fix made behaviour-preserving: no check may flag them
    if md.get("status") == "obsolete" and "behaviour-preserving" in md.get("why", "") + md.get("needs_to_manifest", "") and os.path.exists(os.path.join(os.path.dirname(meta), "patch.diff")):
        variants.append(("benign-seed:" + md["id"], {"patch": os.path.join(os.path.dirname(meta), "patch.diff"), "benign": True}))
# behaviour-preserving edits: no check may flag them
for b in json.load(open(os.path.join(verif, "mutants", "benign.json")))["edits"]:
    variants.append(("benign:" + b["name"], dict(b, benign=True)))

# behaviour-preserving refactorings written by agents that never saw the checker (DESIGN.md section 16)
for pd in sorted(glob.glob(os.path.join(verif, "benign", "*", "patch.diff"))):
    variants.append(("refactoring:" + os.path.basename(os.path.dirname(pd)), {"patch": pd, "benign": True}))

def run_chunk(chunk):
    """Applies the variants of chunk (list of (index, name, spec)) one at a time to a private scratch copy."""
    out = []
    scratch = tempfile.mkdtemp(prefix="gmverif-sens-")
    try:
        work = os.path.join(scratch, "repo")
        subprocess.run(["rsync", "-a", "--exclude", ".git", repo + "/", work + "/"], check=True)
        sv = os.path.join(scratch, "verif")
        os.makedirs(sv)
        shutil.copy(os.path.join(verif, "known_findings.json"), sv)
        for idx, name, m in chunk:
            res = {"variant": name, "expected_rule": m.get("expect", ""), "applied": False, "flagged": False, "rules": [], "benign": bool(m.get("benign"))}
            touched = []
            try:
                if "patch" in m:
                    p = subprocess.run(["git", "apply", "--unsafe-paths", "--directory", work, m["patch"]], capture_output=True, text=True, cwd=scratch)
                    if p.returncode != 0:
                        p = subprocess.run(["patch", "-p1", "-s", "-d", work, "-i", m["patch"]], capture_output=True, text=True)
                    res["applied"] = p.returncode == 0
                    touched = None
                elif "subs" in m:
                    f = os.path.join(work, m["file"])
                    s0 = s = open(f).read()
                    okall = True
                    for old, new in m["subs"]:
                        if len(re.findall(old, s, flags=re.S | re.M)) != 1:
                            okall = False
                            break
                        s = re.sub(old, lambda _: new, s, count=1, flags=re.S | re.M)
                    if okall:
                        open(f, "w").write(s)
                        res["applied"] = True
                    touched = [(f, s0)]
                else:
                    f = os.path.join(work, m["file"])
                    s = open(f).read()
                    if len(re.findall(m["old"], s, flags=re.S)) == 1:
                        open(f, "w").write(re.sub(m["old"], lambda _: m["new"], s, count=1, flags=re.S))
                        res["applied"] = True
                        touched = [(f, s)]
                if res["applied"]:
                    p = subprocess.run([binp, "check", "-prop", prop, "-tier", "quick", "-repo", work, "-verif", sv], capture_output=True, text=True, env=env)
                    o = p.stdout
                    res["exit"] = p.returncode
                    res["flagged"] = "VIOLATION property=" + prop in o
                    res["undecided"] = "UNDECIDED" in o
                    res["rules"] = sorted(set(re.findall(r"^  rule=(\S+)", o, flags=re.M)))
                    res["expected_hit"] = (not m.get("expect")) or any(r.startswith(m["expect"]) for r in res["rules"])
            finally:
                if touched is None:
                    # restore the whole copy after a patch
                    subprocess.run(["rsync", "-a", "--delete", "--exclude", ".git", repo + "/", work + "/"], check=False)
                else:
                    for f, s in touched:
                        open(f, "w").write(s)
            out.append((idx, res))
    finally:
        shutil.rmtree(scratch, ignore_errors=True)
    return out


results = []
if variants:
    from concurrent.futures import ThreadPoolExecutor
    nworkers = max(1, min(8, (os.cpu_count() or 2) // 2, len(variants)))
    chunks = [[] for _ in range(nworkers)]
    for i, (name, m) in enumerate(variants):
        chunks[i % nworkers].append((i, name, m))
    with ThreadPoolExecutor(max_workers=nworkers) as ex:
        merged = [r for part in ex.map(run_chunk, chunks) for r in part]
    results = [r for _, r in sorted(merged, key=lambda t: t[0])]

ev = json.load(open(evp))
ev["coverage"]["sensitivity"] = {
    "note": "frozen variants, kept seeded changes (must be flagged) and behaviour-preserving edits (must not be flagged) applied one at a time to a scratch copy of /repo; evidence only",
    "variants": len(results),
    "applied": sum(1 for r in results if r["applied"]),
    "breaking_variants": sum(1 for r in results if not r["benign"]),
    "flagged": sum(1 for r in results if r["flagged"] and not r["benign"]),
    "flagged_by_expected_rule": sum(1 for r in results if r.get("expected_hit") and r["flagged"] and not r["benign"]),
    "benign_variants": sum(1 for r in results if r["benign"]),
    "benign_flagged": sum(1 for r in results if r["flagged"] and r["benign"]),
    "results": results,
}
json.dump(ev, open(evp, "w"), indent=1)
n = ev["coverage"]["sensitivity"]
print("sensitivity property=%s breaking=%d flagged=%d benign=%d benign_flagged=%d" % (prop, n["breaking_variants"], n["flagged"], n["benign_variants"], n["benign_flagged"]))

#!/bin/bash
# Developer tool: ref4one.sh <Vnn-k> [props...] -- applies a batch-4 refactoring (from /tmp/refac4/out or benign/), runs checks, reverts
cd /verif; ./run.sh build >/dev/null 2>&1
id=$1; shift
p=/tmp/refac4/out/${id%-*}/${id#*-}/patch.diff; [ -f $p ] || p=/verif/benign/$id/patch.diff
git -C /repo status --short | grep -q . && { echo "/repo dirty"; exit 1; }
mkdir -p /tmp/ref4check; cp known_findings.json /tmp/ref4check/
export GOFLAGS=-mod=mod GOPROXY=off GOSUMDB=off GOTOOLCHAIN=local; unset GOWORK
git -C /repo apply $p || { echo "$id does not apply"; exit 1; }
props="${*:-all}"
for q in $props; do
  bin/gmverif check -prop $q -tier quick -repo /repo -verif /tmp/ref4check 2>&1 | grep -E "^VIOLATION|^UNDECIDED|^  (rule|why|construct)" | cut -c1-${COLS:-300} | head -${LINES_MAX:-12}
done
git -C /repo checkout -- .
echo "-- $id done"

#!/bin/bash
# usage: [SRCROOT=/tmp/seed2/out] confirm_seed.sh <Cnn> <a|b|c> [stored-letter]   -- confirms a seeded change in a scratch worktree of /repo HEAD and stores it under /verif/seeded
# steps: demo passes on clean tree; patch applies; production packages build; demo fails with patch; test-suite pass set unchanged.
set -u
ID="$1"; V="$2"
S="${3:-$V}"
SRC=${SRCROOT:-/tmp/seed/out}/$ID/$V
WT=/tmp/confirm/$ID$S
export GOFLAGS=-mod=mod GOPROXY=off GOSUMDB=off GOTOOLCHAIN=local; unset GOWORK
[ -f "$SRC/patch.diff" ] || { echo "$ID$V: no patch"; exit 3; }
mkdir -p /tmp/confirm
git -C /repo worktree remove --force "$WT" 2>/dev/null
git -C /repo worktree add -q --detach "$WT" HEAD || exit 3
cleanup() { git -C /repo worktree remove --force "$WT" 2>/dev/null; }
trap cleanup EXIT
suite() { # prints sorted list of "pkg::Test PASS|FAIL"
  (cd "$WT" && go test -json -vet=off -count=1 -timeout 25m ./... 2>/dev/null) | python3 -c '
import sys, json
res = {}
for l in sys.stdin:
    try: e = json.loads(l)
    except Exception: continue
    if e.get("Test") and e.get("Action") in ("pass", "fail") and "/" not in e["Test"]:
        res[e["Package"] + "::" + e["Test"]] = e["Action"]
for k in sorted(res): print(k, res[k])'
}
OUT=/verif/seeded/$ID$S
mkdir -p "$OUT"
res=ok
# 1. demo on clean
(cd "$WT" && bash "$SRC/demo.sh" "$WT" > "$OUT/demo_clean.log" 2>&1); dc=$?
git -C "$WT" checkout -q -- . ; git -C "$WT" clean -fdq
# 2. apply
if ! git -C "$WT" apply "$SRC/patch.diff" 2>"$OUT/apply.log"; then echo "$ID$V: patch does not apply to HEAD"; res=noapply; fi
if [ $res = ok ]; then
  (cd "$WT" && go build ./analysis ./analysis/sql ./analysis/httpapi ./generator ./generator/dart ./generator/sql ./generator/typescript ./generator/go/gounions ./generator/go/randdata ./generator/go/sqlcrud ./cmd) > "$OUT/build.log" 2>&1 || res=nobuild
  (cd "$WT" && go vet ./analysis ./analysis/sql ./analysis/httpapi ./generator ./generator/dart ./generator/sql ./generator/typescript ./generator/go/... ./cmd >/dev/null 2>&1)
  # 3. demo with patch
  (cd "$WT" && bash "$SRC/demo.sh" "$WT" > "$OUT/demo_patched.log" 2>&1); dp=$?
  git -C "$WT" checkout -q -- . ; git -C "$WT" clean -fdq
  git -C "$WT" apply "$SRC/patch.diff"
  # 4. suite with patch
  suite > "$OUT/suite_patched.txt"
  if [ ! -f /tmp/confirm/suite_clean.txt ]; then echo "missing /tmp/confirm/suite_clean.txt"; fi
  if diff -q <(grep -v "::TestSQL " /tmp/confirm/suite_clean.txt) <(grep -v "::TestSQL " "$OUT/suite_patched.txt") >/dev/null; then sd=same; else sd=differs; fi
else dp=-1; sd=na; fi
cp "$SRC/patch.diff" "$OUT/patch.diff"
cp "$SRC"/demo.sh "$SRC"/*_test.go "$SRC"/*.go "$OUT/" 2>/dev/null
cp "$SRC/NOTES.md" "$OUT/NOTES.md" 2>/dev/null
echo "$ID$S demo_clean_exit=$dc demo_patched_exit=$dp suite=$sd apply=$res" | tee "$OUT/confirm.txt"

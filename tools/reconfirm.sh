#!/bin/bash
# usage: reconfirm.sh <seed-id>   -- re-confirms a stored seeded change against /repo HEAD in a scratch worktree:
# demo passes on the clean tree; patch applies; production packages build; demo fails with the patch; test pass-set unchanged.
set -u
ID="$1"
SRC=/verif/seeded/$ID
WT=/tmp/confirm/re_$ID
export GOFLAGS=-mod=mod GOPROXY=off GOSUMDB=off GOTOOLCHAIN=local; unset GOWORK
mkdir -p /tmp/confirm
git -C /repo worktree remove --force "$WT" 2>/dev/null
git -C /repo worktree add -q --detach "$WT" HEAD || exit 3
trap 'git -C /repo worktree remove --force "$WT" 2>/dev/null' EXIT
suite() {
  (cd "$WT" && go test -json -vet=off -count=1 -timeout 25m ./... 2>/dev/null) | python3 -c '
import sys, json
res = {}
for l in sys.stdin:
    try: e = json.loads(l)
    except Exception: continue
    if e.get("Test") and e.get("Action") in ("pass", "fail") and "/" not in e["Test"]:
        res[e["Package"] + "::" + e["Test"]] = e["Action"]
for k in sorted(res): print(k, res[k])'
}
res=ok
(cd "$WT" && bash "$SRC/demo.sh" "$WT" > "$SRC/demo_clean.log" 2>&1); dc=$?
git -C "$WT" checkout -q -- . ; git -C "$WT" clean -fdq
if ! git -C "$WT" apply "$SRC/patch.diff" 2>"$SRC/apply.log"; then res=noapply; fi
dp=-1; sd=na
if [ $res = ok ]; then
  (cd "$WT" && go build ./analysis ./analysis/sql ./analysis/httpapi ./generator ./generator/dart ./generator/sql ./generator/typescript ./generator/go/gounions ./generator/go/randdata ./generator/go/sqlcrud ./cmd) > "$SRC/build.log" 2>&1 || res=nobuild
  (cd "$WT" && bash "$SRC/demo.sh" "$WT" > "$SRC/demo_patched.log" 2>&1); dp=$?
  git -C "$WT" checkout -q -- . ; git -C "$WT" clean -fdq
  git -C "$WT" apply "$SRC/patch.diff"
  suite > "$SRC/suite_patched.txt"
  if diff -q <(grep -v "::TestSQL " /tmp/confirm/suite_clean.txt) <(grep -v "::TestSQL " "$SRC/suite_patched.txt") >/dev/null; then sd=same; else sd=differs; fi
fi
echo "$ID demo_clean_exit=$dc demo_patched_exit=$dp suite=$sd apply=$res head=$(git -C /repo log --format=%h -1)" | tee "$SRC/confirm.txt"

#!/bin/bash
# Developer tool: applies every stored seeded change to /repo in turn, runs all checks (evidence redirected to a scratch dir), reverts.
# Prints one line per seed and writes /tmp/seedcheck/matrix.json {seed: {prop: [rules...]}}.
cd /verif; ./run.sh build
git -C /repo status --short | grep -q . && { echo "/repo dirty"; exit 1; }
mkdir -p /tmp/seedcheck; cp known_findings.json /tmp/seedcheck/
export GOFLAGS=-mod=mod GOPROXY=off GOSUMDB=off GOTOOLCHAIN=local; unset GOWORK
echo "{" > /tmp/seedcheck/matrix.json; first=1
for d in seeded/C*; do
  id=$(basename $d)
  [ -f $d/patch.diff ] || continue
  grep -q "apply=ok" $d/confirm.txt 2>/dev/null || { echo "$id skipped"; continue; }
  if git -C /repo apply /verif/$d/patch.diff 2>/dev/null; then
    bin/gmverif check -prop all -tier quick -repo /repo -verif /tmp/seedcheck > /tmp/seedcheck/$id.out 2>&1
    git -C /repo checkout -- .
    flagged=$(grep -o "^VIOLATION property=C[0-9]*" /tmp/seedcheck/$id.out | sort -u | sed 's/VIOLATION property=//' | tr '\n' ' ')
    undec=$(grep -o "^UNDECIDED property=C[0-9]*" /tmp/seedcheck/$id.out | sort -u | sed 's/UNDECIDED property=//' | tr '\n' ' ')
    echo "$id flagged_by: $flagged undecided: $undec"
    [ $first = 1 ] || echo "," >> /tmp/seedcheck/matrix.json; first=0
    python3 - $id >> /tmp/seedcheck/matrix.json <<'PY'
import re,sys,json
id=sys.argv[1]; out=open('/tmp/seedcheck/%s.out'%id).read().split('\n')
res={}; cur=None
for l in out:
    m=re.match(r'VIOLATION property=(C\d+)',l)
    if m: cur=m.group(1); res.setdefault(cur,[]); continue
    m=re.match(r'\s+rule=(\S+)',l)
    if m and cur:
        if m.group(1) not in res[cur]: res[cur].append(m.group(1))
sys.stdout.write(json.dumps(id)+": "+json.dumps(res))
PY
  else echo "$id does not apply"; fi
done
echo "}" >> /tmp/seedcheck/matrix.json

#!/bin/bash
# Developer tool: applies every seeded change to /repo in turn, runs all checks (evidence redirected to a scratch dir), reverts.
cd /verif; ./run.sh build
git -C /repo status --short | grep -q . && { echo "/repo dirty"; exit 1; }
mkdir -p /tmp/seedcheck; cp known_findings.json /tmp/seedcheck/
export GOFLAGS=-mod=mod GOPROXY=off GOSUMDB=off GOTOOLCHAIN=local; unset GOWORK
for d in seeded/C*; do
  id=$(basename $d)
  [ -f $d/patch.diff ] || continue
  grep -q "apply=ok" $d/confirm.txt 2>/dev/null || { echo "$id skipped"; continue; }
  if git -C /repo apply /verif/$d/patch.diff 2>/dev/null; then
    bin/gmverif check -prop all -tier quick -repo /repo -verif /tmp/seedcheck > /tmp/seedcheck/$id.out 2>&1
    git -C /repo checkout -- .
    flagged=$(grep -o "^VIOLATION property=C[0-9]*" /tmp/seedcheck/$id.out | sort -u | sed 's/VIOLATION property=//' | tr '\n' ' ')
    undec=$(grep -o "^UNDECIDED property=C[0-9]*" /tmp/seedcheck/$id.out | sort -u | sed 's/UNDECIDED property=//' | tr '\n' ' ')
    echo "$id flagged_by: $flagged undecided: $undec"
  else echo "$id does not apply"; fi
done

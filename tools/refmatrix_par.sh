#!/bin/bash
# Developer tool: parallel refmatrix -- runs all checks on every benign refactoring in scratch worktrees of /repo HEAD (never touches /repo's tree)
# usage: [PROPS="C03 C04"] refmatrix_par.sh [root] [shards]
cd /verif; ./run.sh build >/dev/null 2>&1
ROOT=${1:-/verif/benign}; N=${2:-8}
export GOFLAGS=-mod=mod GOPROXY=off GOSUMDB=off GOTOOLCHAIN=local; unset GOWORK
mkdir -p /tmp/refpar; cp /verif/bin/gmverif /tmp/refpar/gmverif; ls $ROOT/*/patch.diff | sort > /tmp/refpar/all.txt
shard() {
  k=$1; WT=/tmp/refpar/wt$k; V=/tmp/refpar/v$k
  git -C /repo worktree remove --force $WT 2>/dev/null; git -C /repo worktree add -q --detach $WT HEAD || exit 3
  mkdir -p $V; cp /verif/known_findings.json $V/
  awk -v n=$N -v k=$k 'NR%n==k' /tmp/refpar/all.txt | while read p; do
    id=$(basename $(dirname $p))
    if git -C $WT apply $p 2>/dev/null; then
      : > $V/$id.out
      for q in ${PROPS:-all}; do /tmp/refpar/gmverif check -prop $q -tier quick -repo $WT -verif $V >> $V/$id.out 2>&1; done
      git -C $WT checkout -q -- . ; git -C $WT clean -fdq
      v=$(grep -c "^VIOLATION" $V/$id.out); u=$(grep -c "^UNDECIDED" $V/$id.out)
      echo "$id violations=$v undecided=$u $(grep -A1 '^VIOLATION' $V/$id.out | grep -o 'rule=[A-Za-z0-9-]*' | sort -u | tr '\n' ' ') $(grep '^UNDECIDED' $V/$id.out | sed 's/UNDECIDED property=\(C[0-9]*\).*/\1/' | sort -u | tr '\n' ' ')"
    else echo "$id does not apply"; fi
  done
  git -C /repo worktree remove --force $WT
}
for k in $(seq 0 $((N-1))); do shard $k & done; wait

#!/bin/bash
# Developer tool: applies each behaviour-preserving edit of mutants/benign.json to /repo, runs ALL checks, reverts.
cd /verif; ./run.sh build
git -C /repo status --short | grep -q . && { echo "/repo dirty"; exit 1; }
mkdir -p /tmp/benigncheck; cp known_findings.json /tmp/benigncheck/
export GOFLAGS=-mod=mod GOPROXY=off GOSUMDB=off GOTOOLCHAIN=local; unset GOWORK
N=$(python3 -c "import json;print(len(json.load(open('mutants/benign.json'))['edits']))")
for i in $(seq 0 $((N-1))); do
  name=$(python3 - $i <<'PY'
import json,sys,re
e=json.load(open('/verif/mutants/benign.json'))['edits'][int(sys.argv[1])]
f='/repo/'+e['file']; s=open(f).read()
for old,new in e['subs']:
    n=len(re.findall(old,s,flags=re.S|re.M))
    if n!=1: print(e['name']+" PATTERN("+str(n)+"):"+old[:30]); sys.exit(0)
    s=re.sub(old,lambda m:new,s,count=1,flags=re.S|re.M)
open(f,'w').write(s); print(e['name'])
PY
)
  PK="./analysis ./analysis/sql ./analysis/httpapi ./generator ./generator/dart ./generator/sql ./generator/typescript ./generator/go/gounions ./generator/go/randdata ./generator/go/sqlcrud ./cmd"
  if ! (cd /repo && go build $PK >/tmp/benigncheck/build.out 2>&1); then echo "$name: DOES NOT BUILD"; head -3 /tmp/benigncheck/build.out; git -C /repo checkout -- .; continue; fi
  bin/gmverif check -prop all -tier quick -repo /repo -verif /tmp/benigncheck > /tmp/benigncheck/$i.out 2>&1
  git -C /repo checkout -- .
  v=$(grep -c "^VIOLATION" /tmp/benigncheck/$i.out); u=$(grep -c "^UNDECIDED" /tmp/benigncheck/$i.out)
  echo "$name: violations=$v undecided=$u $(grep -A1 '^VIOLATION' /tmp/benigncheck/$i.out | grep rule= | sort -u | head -3 | tr '\n' ' ') $(grep '^UNDECIDED' /tmp/benigncheck/$i.out | cut -c1-120 | head -2 | tr '\n' ' ')"
done
# benign seeds: seeded changes that a repo fix made behaviour-preserving
for d in seeded/C*; do
  id=$(basename $d)
  [ -f $d/meta.json ] || continue
  python3 -c "
import json,sys
m=json.load(open('$d/meta.json'))
sys.exit(0 if m.get('status')=='obsolete' and 'behaviour-preserving' in (m.get('why','')+m.get('needs_to_manifest','')) else 1)" 2>/dev/null || continue
  git -C /repo apply /verif/$d/patch.diff 2>/dev/null || { echo "$id (benign seed): does not apply"; continue; }
  bin/gmverif check -prop all -tier quick -repo /repo -verif /tmp/benigncheck > /tmp/benigncheck/$id.out 2>&1
  git -C /repo checkout -- .
  v=$(grep -c "^VIOLATION" /tmp/benigncheck/$id.out); u=$(grep -c "^UNDECIDED" /tmp/benigncheck/$id.out)
  echo "$id (benign seed): violations=$v undecided=$u $(grep -A1 '^VIOLATION' /tmp/benigncheck/$id.out | grep rule= | sort -u | head -3 | tr '\n' ' ')"
done

package main

// E-ORD: sources of nondeterminism must not interfere with generated text.

import (
	"fmt"
	"go/ast"
	"go/token"
	"go/types"
	"strings"

	"golang.org/x/tools/go/packages"
)

type ordCtx struct {
	w    *World
	r    *Result
	pkg  *packages.Package
	fd   *ast.FuncDecl
	fn   string
	info *types.Info
}

// receiverConfined: the method writes only through its receiver (fields, elements) or locals.
func receiverConfined(w *World, fn *types.Func) (bool, string) {
	fi := w.Funcs[fn]
	if fi == nil || fi.Decl.Recv == nil {
		return false, "no body / not a method"
	}
	info := fi.Pkg.TypesInfo
	var recv types.Object
	if len(fi.Decl.Recv.List[0].Names) > 0 {
		recv = info.Defs[fi.Decl.Recv.List[0].Names[0]]
	}
	okAll, why := true, ""
	rootOf := func(e ast.Expr) types.Object {
		for {
			switch x := ast.Unparen(e).(type) {
			case *ast.SelectorExpr:
				e = x.X
			case *ast.IndexExpr:
				e = x.X
			case *ast.StarExpr:
				e = x.X
			case *ast.Ident:
				return objOf(info, x)
			default:
				return nil
			}
		}
	}
	ast.Inspect(fi.Decl.Body, func(n ast.Node) bool {
		switch s := n.(type) {
		case *ast.AssignStmt:
			for _, l := range s.Lhs {
				if id, ok := ast.Unparen(l).(*ast.Ident); ok && id.Name == "_" {
					continue // the blank identifier: no effect
				}
				root := rootOf(l)
				if root == nil {
					okAll, why = false, "writes "+es(l)
					continue
				}
				if v, ok := root.(*types.Var); ok && v.Pkg() != nil && v.Parent() == v.Pkg().Scope() {
					okAll, why = false, "writes package variable "+v.Name()
				}
				if _, isSel := ast.Unparen(l).(*ast.Ident); !isSel && root != recv {
					// a write through something that is not the receiver: allow locals created in the method
					if v, ok := root.(*types.Var); ok && !isLocalFresh(info, fi.Decl, v) {
						okAll, why = false, "writes through "+v.Name()
					}
				}
			}
		case *ast.CallExpr:
			// calls that may have effects elsewhere: only sort.* on receiver-rooted data and pure helpers are accepted
			if fnc := calleeOf(info, s); fnc != nil && fnc.Pkg() != nil {
				p := fnc.Pkg().Path()
				if p == "sort" || p == "slices" || p == "strings" || p == "go/constant" || p == "go/types" {
					return true
				}
				if w.Funcs[fnc] != nil {
					if ok2, _ := receiverConfinedOrPure(w, fnc, 0); !ok2 {
						okAll, why = false, "calls "+fnc.Name()
					}
				}
			}
		case *ast.GoStmt, *ast.SendStmt:
			okAll, why = false, "concurrency"
		}
		return true
	})
	return okAll, why
}

func isLocalFresh(info *types.Info, fd *ast.FuncDecl, v *types.Var) bool {
	// declared inside the function body (not a parameter)
	return v.Pos() > fd.Body.Pos() && v.Pos() < fd.Body.End()
}

// receiverConfinedOrPure: module function without writes outside its receiver/locals.
func receiverConfinedOrPure(w *World, fn *types.Func, depth int) (bool, string) {
	fi := w.Funcs[fn]
	if fi == nil || depth > 3 {
		return false, "unknown"
	}
	if fi.Decl.Recv != nil {
		return receiverConfined(w, fn)
	}
	info := fi.Pkg.TypesInfo
	okAll := true
	ast.Inspect(fi.Decl.Body, func(n ast.Node) bool {
		switch s := n.(type) {
		case *ast.AssignStmt:
			for _, l := range s.Lhs {
				id := identOf(l)
				if id == nil {
					// element/field write: only if rooted at a fresh local
					root := l
					for {
						switch x := ast.Unparen(root).(type) {
						case *ast.SelectorExpr:
							root = x.X
							continue
						case *ast.IndexExpr:
							root = x.X
							continue
						}
						break
					}
					rid := identOf(root)
					if rid == nil {
						okAll = false
						continue
					}
					if v, ok := objOf(info, rid).(*types.Var); !ok || !isLocalFresh(info, fi.Decl, v) {
						okAll = false
					}
					continue
				}
				if v, ok := objOf(info, id).(*types.Var); ok && v.Pkg() != nil && v.Parent() == v.Pkg().Scope() {
					okAll = false
				}
			}
		case *ast.GoStmt, *ast.SendStmt:
			okAll = false
		}
		return true
	})
	return okAll, ""
}

// classifyMapRange decides whether the body's effects are independent of iteration order.
func (c *ordCtx) classifyMapRange(rs *ast.RangeStmt) (verdict, how string) {
	info := c.info
	var keyObj, valObj types.Object
	if id := identOf(rs.Key); id != nil && id.Name != "_" {
		keyObj = info.Defs[id]
		if keyObj == nil {
			keyObj = info.Uses[id]
		}
	}
	if rs.Value != nil {
		if id := identOf(rs.Value); id != nil && id.Name != "_" {
			valObj = info.Defs[id]
			if valObj == nil {
				valObj = info.Uses[id]
			}
		}
	}
	var reasons []string
	bad := ""
	appended := map[types.Object]*ast.Ident{}
	// locals derived injectively from the key: `named, ok := typ.(*T)`
	keyDerived := map[types.Object]bool{}
	valDerived := map[types.Object]bool{}
	if keyObj != nil {
		keyDerived[keyObj] = true
	}
	if valObj != nil {
		valDerived[valObj] = true
	}
	ast.Inspect(rs.Body, func(n ast.Node) bool {
		as, ok := n.(*ast.AssignStmt)
		if !ok || len(as.Rhs) != 1 || as.Tok != token.DEFINE {
			return true
		}
		if ta, ok := ast.Unparen(as.Rhs[0]).(*ast.TypeAssertExpr); ok {
			if id := identOf(ta.X); id != nil {
				src := objOf(info, id)
				if l := identOf(as.Lhs[0]); l != nil {
					if keyDerived[src] {
						keyDerived[info.Defs[l]] = true
					}
					if valDerived[src] {
						valDerived[info.Defs[l]] = true
					}
				}
			}
		}
		return true
	})
	isKeyExpr := func(e ast.Expr) bool {
		e = ast.Unparen(e)
		if ta, ok := e.(*ast.TypeAssertExpr); ok {
			e = ast.Unparen(ta.X)
		}
		if call, ok := e.(*ast.CallExpr); ok && len(call.Args) == 1 {
			if tv, ok := info.Types[call.Fun]; ok && tv.IsType() {
				e = ast.Unparen(call.Args[0]) // conversion
			}
		}
		id := identOf(e)
		return id != nil && keyDerived[objOf(info, id)]
	}
	var isConst func(e ast.Expr) bool
	isConst = func(e ast.Expr) bool {
		if tv, ok := info.Types[e]; ok && tv.Value != nil {
			return true
		}
		// a composite literal all of whose elements are constants (struct{}{}, [2]int{1, 2}) is the same value on every iteration
		if lit, ok := ast.Unparen(e).(*ast.CompositeLit); ok {
			for _, el := range lit.Elts {
				if kv, ok := el.(*ast.KeyValueExpr); ok {
					el = kv.Value
				}
				if !isConst(el) {
					return false
				}
			}
			return true
		}
		return false
	}
	declaredInBody := func(o types.Object) bool {
		return o != nil && o.Pos() >= rs.Body.Pos() && o.Pos() <= rs.Body.End()
	}
	var check func(st ast.Stmt)
	checkList := func(l []ast.Stmt) {
		for _, s := range l {
			check(s)
		}
	}
	check = func(st ast.Stmt) {
		switch s := st.(type) {
		case *ast.AssignStmt:
			for i, l := range s.Lhs {
				switch lx := ast.Unparen(l).(type) {
				case *ast.IndexExpr:
					t := info.TypeOf(lx.X)
					if _, isMap := t.Underlying().(*types.Map); isMap {
						if isKeyExpr(lx.Index) {
							reasons = append(reasons, "map store keyed by the range key")
							continue
						}
						if i < len(s.Rhs) && isConst(s.Rhs[i]) {
							reasons = append(reasons, "map store of a constant")
							continue
						}
						bad = "store into map " + es(lx.X) + " under a key that is not the range key with a non-constant value: the surviving value depends on iteration order"
						continue
					}
					bad = "indexed store " + es(lx)
				case *ast.Ident:
					o := objOf(info, lx)
					if lx.Name == "_" || (s.Tok == token.DEFINE && declaredInBody(o)) || declaredInBody(o) {
						continue
					}
					if i < len(s.Rhs) {
						if call, ok := s.Rhs[i].(*ast.CallExpr); ok && isBuiltinCall(info, call, "append") && len(call.Args) >= 1 {
							if a0 := identOf(call.Args[0]); a0 != nil && objOf(info, a0) == o {
								appended[o] = lx
								continue
							}
						}
					}
					bad = "assignment to outer variable " + lx.Name + " inside the loop"
				default:
					bad = "assignment to " + es(l)
				}
			}
		case *ast.IfStmt:
			if s.Init != nil {
				check(s.Init)
			}
			checkList(s.Body.List)
			if s.Else != nil {
				check(s.Else)
			}
		case *ast.BlockStmt:
			checkList(s.List)
		case *ast.BranchStmt:
			if s.Tok == token.BREAK {
				reasons = append(reasons, "break of an inner loop")
			}
		case *ast.ExprStmt:
			call, ok := s.X.(*ast.CallExpr)
			if !ok {
				bad = "expression statement " + es(s.X)
				return
			}
			if sel, ok := call.Fun.(*ast.SelectorExpr); ok {
				if fn, ok := info.Uses[sel.Sel].(*types.Func); ok {
					if rid := identOf(sel.X); rid != nil && valDerived[objOf(info, rid)] {
						if ok2, why := receiverConfined(c.w, fn); ok2 {
							reasons = append(reasons, "call of "+fn.Name()+" on the range value, whose writes are confined to its receiver")
							return
						} else {
							bad = "call of " + fn.Name() + " on the range value is not receiver-confined: " + why
							return
						}
					}
				}
			}
			bad = "call " + es(call.Fun) + " with effects outside the iteration"
		case *ast.RangeStmt:
			checkList(s.Body.List)
		case *ast.ForStmt:
			checkList(s.Body.List)
		case *ast.ReturnStmt:
			bad = "return inside the loop (first match in iteration order)"
		case *ast.DeclStmt, *ast.EmptyStmt:
		case *ast.IncDecStmt:
			if id := identOf(s.X); id == nil || !declaredInBody(objOf(info, id)) {
				reasons = append(reasons, "counter update (commutative)")
			}
		default:
			bad = fmt.Sprintf("statement %T", st)
		}
	}
	checkList(rs.Body.List)
	if bad != "" {
		return VViolation, bad
	}
	for o, id := range appended {
		if how, ok := c.sortedBeforeUse(rs, o); ok {
			reasons = append(reasons, "append to "+id.Name+" followed by "+how)
		} else {
			return VViolation, "slice " + id.Name + " is filled in map-iteration order and is used (returned, joined or passed on) without first being sorted by a total order"
		}
	}
	if len(reasons) == 0 {
		reasons = append(reasons, "body has no effect outside the iteration")
	}
	return VOK, strings.Join(uniqStr(reasons), "; ")
}

func uniqStr(xs []string) []string {
	m := map[string]bool{}
	var out []string
	for _, x := range xs {
		if !m[x] {
			m[x] = true
			out = append(out, x)
		}
	}
	return out
}

// sortedBeforeUse: in the block containing rs, the first statement after rs that mentions the slice is
// sort.Strings / slices.Sort / sort.Ints on it (a total order on the element type).
func (c *ordCtx) sortedBeforeUse(rs *ast.RangeStmt, slice types.Object) (string, bool) {
	info := c.info
	res, found := "", false
	mentions := func(n ast.Node) bool {
		m := false
		ast.Inspect(n, func(x ast.Node) bool {
			if id, ok := x.(*ast.Ident); ok && info.Uses[id] == slice {
				m = true
			}
			return true
		})
		return m
	}
	var visit func(list []ast.Stmt) bool
	visit = func(list []ast.Stmt) bool {
		for i, st := range list {
			contains := false
			ast.Inspect(st, func(x ast.Node) bool {
				if x == ast.Node(rs) {
					contains = true
				}
				return !contains
			})
			if !contains {
				continue
			}
			if st != ast.Stmt(rs) {
				// rs is nested deeper: first look inside, then continue after st in this list
				inner := false
				ast.Inspect(st, func(x ast.Node) bool {
					if b, ok := x.(*ast.BlockStmt); ok && !inner {
						if visit(b.List) {
							inner = true
						}
					}
					return !inner
				})
				if inner {
					return true
				}
			}
			for _, nx := range list[i+1:] {
				if !mentions(nx) {
					continue
				}
				if e, ok := nx.(*ast.ExprStmt); ok {
					if call, ok := e.X.(*ast.CallExpr); ok && len(call.Args) >= 1 {
						if a0 := identOf(call.Args[0]); a0 != nil && info.Uses[a0] == slice {
							switch fullName(calleeOf(info, call)) {
							case "sort.Strings", "sort.Ints", "sort.Float64s", "slices.Sort":
								res, found = fullName(calleeOf(info, call))+" before any other use", true
								return true
							case "sort.Slice", "sort.SliceStable", "slices.SortFunc", "slices.SortStableFunc":
								res, found = "custom", true
								// declarations taken out of a map keyed by their ID have pairwise distinct IDs: a comparator that
								// orders every two declarations with different IDs is a total order on them
								if t := info.TypeOf(call.Args[0]); t != nil && strings.HasSuffix(t.String(), "generator.Declaration") && len(call.Args) == 2 {
									if mt, ok := info.TypeOf(rs.X).Underlying().(*types.Map); ok && isStringType(mt.Key()) && keyedByID(info, c.fd, rs.X) {
										if fiHere := c.w.Funcs[info.Defs[c.fd.Name].(*types.Func)]; fiHere != nil {
											if fl := comparatorLit(info, fiHere, call.Args[1]); fl != nil {
												if tab, err := comparatorTable(info, es(call.Args[0]), fl); err == "" {
													total := true
													for _, a := range absDomain {
														for _, b := range absDomain {
															if a.id != b.id && tab[[2]absDecl{a, b}] == tab[[2]absDecl{b, a}] {
																total = false
															}
														}
													}
													if total {
														res = "a comparator that orders any two declarations with different IDs (the map holds one declaration per ID)"
													}
												}
											}
										}
									}
								}
								return true
							}
						}
					}
				}
				return true // first mention is not a sort
			}
			return true
		}
		return false
	}
	visit(c.fd.Body.List)
	if found && res == "custom" {
		return "", false
	}
	return res, found
}

// keyedByID: every store into the map m inside fd has the form m[x.ID] = x.
func keyedByID(info *types.Info, fd *ast.FuncDecl, m ast.Expr) bool {
	n, ok := 0, true
	ast.Inspect(fd, func(x ast.Node) bool {
		as, isAs := x.(*ast.AssignStmt)
		if !isAs || len(as.Lhs) != 1 || len(as.Rhs) != 1 {
			return true
		}
		ix, isIx := ast.Unparen(as.Lhs[0]).(*ast.IndexExpr)
		if !isIx || es(ix.X) != es(m) {
			return true
		}
		n++
		sel, isSel := ast.Unparen(ix.Index).(*ast.SelectorExpr)
		if !isSel || sel.Sel.Name != "ID" {
			ok = false
		}
		return true
	})
	return n > 0 && ok
}

// justifiedORD: map loops whose order-insensitivity needs a non-local argument. key: function|range expr.
type ordJust struct {
	why  string
	side func(c *ordCtx, rs *ast.RangeStmt) (bool, string) // machine-checked side condition
}

var justifiedORD = map[string]ordJust{
	"analysis.fetchEnumsAndUnions|$packages.Package.Imports": {
		why: "the walk merges, per visited package, tables whose keys are named types declared in that very package (fetchPkgEnums keeps only constants of locally declared types; fetchPkgUnions keys are the package's own type names): distinct packages write disjoint keys and a package always writes the same values, so neither the order nor the number of visits matters",
		side: func(c *ordCtx, rs *ast.RangeStmt) (bool, string) {
			// (1) the loop body only skips ignored packages and recurses
			for _, st := range rs.Body.List {
				switch s := st.(type) {
				case *ast.IfStmt:
					onlyCalls := s.Else == nil
					for _, b := range s.Body.List {
						es0, ok := b.(*ast.ExprStmt)
						if !ok {
							onlyCalls = false
							continue
						}
						if _, ok := es0.X.(*ast.CallExpr); !ok {
							onlyCalls = false
						}
					}
					// `if skip { continue }` or `if !skip { recurse }`
					if s.Else != nil || !(terminates(s.Body) || onlyCalls) {
						return false, "the import loop has a conditional effect other than skipping a package"
					}
				case *ast.ExprStmt:
					if _, ok := s.X.(*ast.CallExpr); !ok {
						return false, "unexpected statement in the import loop"
					}
				default:
					return false, fmt.Sprintf("unexpected %T in the import loop", st)
				}
			}
			// (2) key ownership in fetchPkgEnums: the append of a member is guarded by `named.Obj().Pkg() == pa.Types`
			fe := c.w.Func("analysis.fetchPkgEnums")
			if fe == nil {
				return false, "fetchPkgEnums not found"
			}
			owned := false
			for _, cf := range calleeClosure(c.w, fe, 2) {
				ast.Inspect(cf.Decl.Body, func(n ast.Node) bool {
					be, ok := n.(*ast.BinaryExpr)
					if !ok || (be.Op != token.NEQ && be.Op != token.EQL) {
						return true
					}
					l, r := es(be.X), es(be.Y)
					if (strings.HasSuffix(l, ".Obj().Pkg()") && strings.HasSuffix(r, ".Types")) || (strings.HasSuffix(r, ".Obj().Pkg()") && strings.HasSuffix(l, ".Types")) {
						owned = true
					}
					return true
				})
			}
			if !owned {
				return false, "fetchPkgEnums no longer restricts enum keys to types declared in the visited package: a type whose constants live in two packages gets the members of whichever package is merged last"
			}
			// (3) union keys are the package's own type names
			if cfi, _ := candidatesSite(c.w); cfi == nil {
				return false, "fetchPkgUnions no longer takes its candidates from the visited package's own scope (no collection of the scope's named types found)"
			}
			// (4) the per-package merge is idempotent: every store into a table declared outside the walker is
			// `T[k] = v` with k, v the key and value of an enclosing range (a package may be visited several times)
			var walker *ast.FuncLit
			ast.Inspect(c.fd.Body, func(n ast.Node) bool {
				if fl, ok := n.(*ast.FuncLit); ok && fl.Body.Pos() <= rs.Pos() && rs.End() <= fl.Body.End() {
					walker = fl
				}
				return true
			})
			var walkerBody *ast.BlockStmt
			if walker != nil {
				walkerBody = walker.Body
			} else {
				walkerBody = c.fd.Body // the walker is a declared function or method that calls itself
			}
			why := ""
			var ranges []*ast.RangeStmt
			var visit func(n ast.Node) bool
			visit = func(n ast.Node) bool {
				switch v := n.(type) {
				case *ast.RangeStmt:
					ranges = append(ranges, v)
					ast.Inspect(v.Body, visit)
					ranges = ranges[:len(ranges)-1]
					return false
				case *ast.AssignStmt:
					for i, l := range v.Lhs {
						ix, ok := ast.Unparen(l).(*ast.IndexExpr)
						if !ok {
							continue
						}
						root := rootIdent(ix.X)
						if root == nil {
							continue
						}
						o := objOf(c.info, root)
						if o == nil || (o.Pos() >= walkerBody.Pos() && o.Pos() <= walkerBody.End()) {
							continue // a table local to the walker
						}
						plain := false
						if len(v.Rhs) == len(v.Lhs) && v.Tok == token.ASSIGN {
							if tv := c.info.Types[v.Rhs[i]]; tv.Value != nil {
								plain = true // storing a constant is idempotent (a visited-set)
							}
							for _, r := range ranges {
								if k, val := identOf(r.Key), identOf(r.Value); k != nil && val != nil && es(ix.Index) == k.Name && es(v.Rhs[i]) == val.Name {
									plain = true
								}
							}
						}
						if !plain {
							why = "the merge `" + es(l) + " = " + es(v.Rhs[0]) + "` is not a plain store of a range key/value pair: a package reached through several import chains is merged several times, so an accumulating merge duplicates its entries (and the number of visits depends on the import graph)"
						}
					}
				case *ast.ReturnStmt:
					// (5) an early return is only allowed under a visited-set keyed by the package's identity
					okRet := false
					for _, pc := range pathConds(c.fd, v) {
						if pc.expr == nil {
							continue
						}
						ast.Inspect(pc.expr, func(y ast.Node) bool {
							if ix, ok := y.(*ast.IndexExpr); ok {
								k := pkgStringKind(c.info, ix.Index)
								if k == "path" || k == "obj" {
									okRet = true
								}
							}
							return true
						})
					}
					if !okRet && v.Pos() < rs.Pos() {
						why = "the walker returns early at " + c.w.Pos(v.Pos()) + " under a condition that is not a visited-set keyed by the package's identity: which packages are scanned then depends on the order of the Imports map"
					}
				}
				return true
			}
			ast.Inspect(walkerBody, visit)
			if why != "" {
				return false, why
			}
			return true, ""
		},
	},
	"analysis.(*Struct).setImplements|$analysis.unionsMap": {
		why: "the collected unions are sorted afterwards by the qualified name of the union type, which is injective on distinct named types",
		side: func(c *ordCtx, rs *ast.RangeStmt) (bool, string) {
			ok := false
			fiHere := c.w.Funcs[c.pkg.TypesInfo.Defs[c.fd.Name].(*types.Func)]
			ast.Inspect(c.fd.Body, func(n ast.Node) bool {
				call, isCall := n.(*ast.CallExpr)
				if !isCall || call.Pos() < rs.End() || fiHere == nil {
					return true
				}
				// whatever the sorting API: elements compared by their name.String()
				if sp := sortSpecOf(c.info, fiHere, call); sp != nil && sp.key == "$e.name.String()" {
					ok = true
				}
				return true
			})
			if !ok {
				return false, "no sort of the collected unions by `.name.String()` follows the loop"
			}
			return true, ""
		},
	},
	"analysis.(PkgSelector).findPackage|$packages.Package.Imports": {why: "depth-first search for the package with a given import path: at most one package of the import graph has that path, so the result does not depend on the visiting order", side: searchSideUniquePkg},
	"analysis/httpapi.selectFileByPos|$packages.Package.Imports":   {why: "search for the file containing a position: file position ranges are disjoint, at most one file matches", side: searchSide},
	"analysis/httpapi.selectPackage|$packages.Package.Imports":     {why: "search for the package with a given path: unique in the import graph", side: searchSideUniquePkg},
	"generator/dart.Generate|$dart.buffer.files": {
		why: "the result is a set of output files keyed by file name; each element's content depends only on its own map entry, and both consumers write each element to its own path",
		side: func(c *ordCtx, rs *ast.RangeStmt) (bool, string) {
			// the only outer effect of the body is the append of one Output per entry
			n := 0
			bad := ""
			for _, st := range rs.Body.List {
				ast.Inspect(st, func(x ast.Node) bool {
					as, ok := x.(*ast.AssignStmt)
					if !ok {
						return true
					}
					for _, l := range as.Lhs {
						id := identOf(l)
						if id == nil {
							bad = "non-identifier assignment " + es(l)
							continue
						}
						o := objOf(c.info, id)
						if o.Pos() >= rs.Body.Pos() && o.Pos() <= rs.Body.End() {
							continue
						}
						if call, ok := as.Rhs[0].(*ast.CallExpr); ok && isBuiltinCall(c.info, call, "append") && es(call.Args[0]) == id.Name {
							n++
						} else {
							bad = "assignment to outer " + id.Name
						}
					}
					return true
				})
			}
			if bad != "" || n != 1 {
				return false, "body has outer effects other than one append per file: " + bad
			}
			return true, ""
		},
	},
}

// searchSide: the loop only skips ignored packages and returns the first non-nil recursive result.
func searchSide(c *ordCtx, rs *ast.RangeStmt) (bool, string) {
	for _, st := range rs.Body.List {
		is, ok := st.(*ast.IfStmt)
		if !ok {
			return false, fmt.Sprintf("unexpected %T in a search loop", st)
		}
		if !terminates(is.Body) {
			return false, "search loop has a non-terminating conditional effect"
		}
	}
	return true, ""
}

// searchSideUniquePkg: searchSide, and the walker accepts a package only by an equality of package identities
// (import path, ID, or the object itself): at most one package of the import graph satisfies it.
func searchSideUniquePkg(c *ordCtx, rs *ast.RangeStmt) (bool, string) {
	if ok, why := searchSide(c, rs); !ok {
		return false, why
	}
	// the walker: innermost function literal (or the function) containing the loop
	var body *ast.BlockStmt = c.fd.Body
	var params *ast.FieldList = c.fd.Type.Params
	ast.Inspect(c.fd.Body, func(n ast.Node) bool {
		if fl, ok := n.(*ast.FuncLit); ok && fl.Body.Pos() <= rs.Pos() && rs.End() <= fl.Body.End() {
			body, params = fl.Body, fl.Type.Params
		}
		return true
	})
	isParam := func(e ast.Expr) bool {
		id := identOf(e)
		if id == nil {
			return false
		}
		for _, f := range params.List {
			for _, nm := range f.Names {
				if c.info.Defs[nm] == objOf(c.info, id) {
					return true
				}
			}
		}
		return false
	}
	found := false
	for _, st := range body.List {
		is, ok := st.(*ast.IfStmt)
		if !ok || st.Pos() > rs.Pos() {
			continue
		}
		// accepts the visited package itself?
		accepts := false
		for _, bs := range is.Body.List {
			if ret, ok := bs.(*ast.ReturnStmt); ok && len(ret.Results) == 1 && isParam(ret.Results[0]) {
				accepts = true
			}
		}
		if !accepts {
			continue
		}
		found = true
		be, ok := ast.Unparen(is.Cond).(*ast.BinaryExpr)
		if !ok || be.Op != token.EQL {
			return false, "the walker accepts the visited package under `" + es(is.Cond) + "`, which is not an equality of package identities: several packages of the import graph can satisfy it (a path that extends another one, a shared name), and the first one met in map order wins"
		}
		kx, ky := pkgKindThroughParam(c, be.X), pkgKindThroughParam(c, be.Y)
		if !((kx == "path" || kx == "obj") && (ky == "path" || ky == "obj")) {
			return false, "the walker accepts the visited package under `" + es(is.Cond) + "`, which does not compare import paths or package objects: the match is not unique in the import graph"
		}
	}
	if !found {
		return false, "no test accepting the visited package was found before the import loop"
	}
	return true, ""
}

// runORD1 enumerates all range-over-map loops.
func runORD1(w *World, r *Result, only func(rel string) bool) int {
	n := 0
	for _, p := range w.Pkgs {
		rel := w.Rel(p.Types)
		if only != nil && !only(rel) {
			continue
		}
		for _, f := range p.Syntax {
			for _, d := range f.Decls {
				fd, ok := d.(*ast.FuncDecl)
				if !ok || fd.Body == nil {
					continue
				}
				obj, _ := p.TypesInfo.Defs[fd.Name].(*types.Func)
				if obj == nil {
					continue
				}
				c := &ordCtx{w: w, r: r, pkg: p, fd: fd, fn: w.QualName(obj), info: p.TypesInfo}
				ast.Inspect(fd.Body, func(x ast.Node) bool {
					rs, ok := x.(*ast.RangeStmt)
					if !ok {
						return true
					}
					t := p.TypesInfo.TypeOf(rs.X)
					if t == nil {
						return true
					}
					if _, isMap := t.Underlying().(*types.Map); !isMap {
						return true
					}
					n++
					cons := "range " + es(rs.X)
					pos := w.Pos(rs.Pos())
					j, ok := justifiedORD[c.fn+"|"+normLocals(c.info, rs.X)]

					if !ok && enumUnionWalker(c, rs) {
						// the import walk of the enum and union tables, wherever it lives (closure, function, method)
						j, ok = justifiedORD["analysis.fetchEnumsAndUnions|$packages.Package.Imports"]
					}
					if ok {
						if good, why := j.side(c, rs); good {
							r.justified("ORD-1", c.fn, cons, pos, j.why+" [side condition re-checked on this run]")
						} else {
							r.bad("ORD-1", c.fn, cons, pos, "the justification for this map loop no longer holds: "+why)
						}
						return true
					}
					v, how := c.classifyMapRange(rs)
					if v == VOK {
						r.ok("ORD-1", c.fn, cons, pos, how, true)
					} else if good, why := uniquePkgSearch(c, rs); good {
						r.justified("ORD-1", c.fn, cons, pos, why)
					} else {
						r.bad("ORD-1", c.fn, cons, pos, "iteration order of a Go map is random per run; "+how)
					}
					return true
				})
			}
		}
	}
	return n
}

// enumUnionWalker: rs ranges over the Imports of a *packages.Package inside a function that merges the per-package
// enum and union tables (it calls fetchPkgEnums and fetchPkgUnions) and calls itself on the imports.
func enumUnionWalker(c *ordCtx, rs *ast.RangeStmt) bool {
	if normLocals(c.info, rs.X) != "$packages.Package.Imports" {
		return false
	}
	self, _ := c.info.Defs[c.fd.Name].(*types.Func)
	enums, unions, recurses := false, false, false
	ast.Inspect(c.fd.Body, func(n ast.Node) bool {
		call, ok := n.(*ast.CallExpr)
		if !ok {
			return true
		}
		fn := calleeOf(c.info, call)
		switch {
		case fn == nil:
		case strings.HasSuffix(fullName(fn), "analysis.fetchPkgEnums"):
			enums = true
		case strings.HasSuffix(fullName(fn), "analysis.fetchPkgUnions"):
			unions = true
		case fn == self && rs.Body.Pos() <= call.Pos() && call.End() <= rs.Body.End():
			recurses = true
		}
		return true
	})
	return enums && unions && recurses
}

var nondetFuncs = map[string]bool{
	"time.Now": true, "time.Since": true, "time.Until": true,
	"os.Getenv": true, "os.Environ": true, "os.LookupEnv": true, "os.Getpid": true, "os.Getppid": true, "os.Hostname": true,
	"os.ReadDir": true, "(*os.File).Readdir": true, "(*os.File).Readdirnames": true, "(*os.File).ReadDir": true, "io/ioutil.ReadDir": true, "path/filepath.Glob": false,
	"os.Getwd": true, "os.TempDir": true, "os.MkdirTemp": true, "os.CreateTemp": true,
}

// runORD2: no clock / randomness / environment in analysis and generator packages.
func runORD2(w *World, r *Result) int {
	n := 0
	for _, p := range w.Pkgs {
		rel := w.Rel(p.Types)
		if rel == "cmd" {
			continue
		}
		bad := 0
		for _, f := range p.Syntax {
			ast.Inspect(f, func(x ast.Node) bool {
				call, ok := x.(*ast.CallExpr)
				if !ok {
					return true
				}
				fn := calleeOf(p.TypesInfo, call)
				if fn == nil || fn.Pkg() == nil {
					return true
				}
				n++
				full := fn.FullName()
				pp := fn.Pkg().Path()
				if nondetFuncs[full] || pp == "math/rand" || pp == "math/rand/v2" || pp == "crypto/rand" {
					bad++
					r.bad("ORD-2", w.EnclosingFunc(p, call.Pos()), "call "+full, w.Pos(call.Pos()), "clock, randomness, environment or process identity consulted in an analysis/generator package: output may differ between runs")
				}
				return true
			})
		}
		if bad == 0 {
			r.ok("ORD-2", rel+".<package>", "no clock/random/environment call", rel, "every resolved call of the package inspected", false)
		}
	}
	return n
}

var fmtFuncs = map[string]int{ // index of first formatted operand
	"fmt.Sprintf": 1, "fmt.Sprint": 0, "fmt.Sprintln": 0, "fmt.Fprintf": 2, "fmt.Fprint": 1, "fmt.Fprintln": 1, "fmt.Errorf": 1, "fmt.Appendf": 2, "fmt.Append": 1,
	"strconv.Itoa": 0, "strconv.FormatInt": 0, "strconv.FormatUint": 0,
}

func hasStringer(t types.Type) bool {
	for _, tt := range []types.Type{t, types.NewPointer(t)} {
		ms := types.NewMethodSet(tt)
		for i := 0; i < ms.Len(); i++ {
			n := ms.At(i).Obj().Name()
			if n == "String" || n == "Error" {
				return true
			}
		}
	}
	return false
}

// runORD3: no token.Pos / raw pointer value reaches formatted text outside a panic or log argument.
func runORD3(w *World, r *Result) int {
	n := 0
	for _, p := range w.Pkgs {
		rel := w.Rel(p.Types)
		if rel == "cmd" {
			continue
		}
		info := p.TypesInfo
		for _, f := range p.Syntax {
			var stack []ast.Node
			ast.Inspect(f, func(x ast.Node) bool {
				if x == nil {
					stack = stack[:len(stack)-1]
					return false
				}
				stack = append(stack, x)
				call, ok := x.(*ast.CallExpr)
				if !ok {
					return true
				}
				fn := calleeOf(info, call)
				first, isFmt := fmtFuncs[fullName(fn)]
				if !isFmt {
					return true
				}
				// inside panic(...) or log.*(...) : diagnostics, not generated text
				diag := false
				for _, anc := range stack[:len(stack)-1] {
					if ac, ok := anc.(*ast.CallExpr); ok {
						if isBuiltinCall(info, ac, "panic") {
							diag = true
						}
						if afn := calleeOf(info, ac); afn != nil && afn.Pkg() != nil && afn.Pkg().Path() == "log" {
							diag = true
						}
					}
					if rs, ok := anc.(*ast.ReturnStmt); ok {
						// fmt.Errorf returned as an error value
						_ = rs
						if fullName(fn) == "fmt.Errorf" {
							diag = true
						}
					}
				}
				if fullName(fn) == "fmt.Errorf" {
					diag = true
				}
				for i, a := range call.Args {
					if i < first {
						continue
					}
					t := info.TypeOf(a)
					if t == nil {
						continue
					}
					n++
					fnName := w.EnclosingFunc(p, call.Pos())
					cons := fullName(fn) + "(… " + es(a) + " …)"
					reason := ""
					if t.String() == "go/token.Pos" {
						reason = "a token.Pos (file-set offset: depends on the order in which go/packages parsed the files)"
					} else {
						switch t.Underlying().(type) {
						case *types.Pointer, *types.Signature, *types.Chan, *types.Map:
							if !hasStringer(t) {
								reason = "a pointer/func/chan/map value without String/Error method (prints an address or map order)"
							}
						}
						if b, ok := t.Underlying().(*types.Basic); ok && b.Kind() == types.UnsafePointer {
							reason = "an unsafe.Pointer"
						}
					}
					if reason == "" {
						continue
					}
					if diag {
						r.ok("ORD-3", fnName, cons, w.Pos(call.Pos()), "formats "+reason+", but only inside a panic/log/error diagnostic", true)
					} else {
						r.bad("ORD-3", fnName, cons, w.Pos(call.Pos()), "formats "+reason+" into a string that is not a diagnostic: the value differs between runs")
					}
				}
				return true
			})
		}
	}
	return n
}

// goroutineGenerates: a goroutine started by the command may only format and write files. It returns a reason when the
// goroutine reaches an analysis or generator function other than the formatter cache (text would then be produced
// concurrently), or appends to a variable declared outside it (results gathered in completion order, mutex or not).
func goroutineGenerates(w *World, p *packages.Package, gs *ast.GoStmt) string {
	info := p.TypesInfo
	var body ast.Node
	var lit *ast.FuncLit
	switch f := ast.Unparen(gs.Call.Fun).(type) {
	case *ast.FuncLit:
		body, lit = f.Body, f
	default:
		if fn := calleeOf(info, gs.Call); fn != nil && w.Funcs[fn] != nil {
			body = w.Funcs[fn].Decl.Body
		}
	}
	if body == nil {
		return ""
	}
	why := ""
	seen := map[*FuncInfo]bool{}
	var reach func(n ast.Node, inf *types.Info, depth int)
	reach = func(n ast.Node, inf *types.Info, depth int) {
		ast.Inspect(n, func(x ast.Node) bool {
			call, ok := x.(*ast.CallExpr)
			if !ok || why != "" {
				return why == ""
			}
			fn := calleeOf(inf, call)
			cf := w.Funcs[fn]
			if cf == nil || cf.Decl.Body == nil {
				return true
			}
			rel := w.Rel(fn.Pkg())
			if rel != "cmd" {
				sig, _ := fn.Type().(*types.Signature)
				onFormatters := sig != nil && sig.Recv() != nil && strings.HasSuffix(sig.Recv().Type().String(), "generator.Formatters")
				if !onFormatters {
					why = "the goroutine reaches " + cf.Name + ": analysis or generation runs concurrently, so what is produced (shared caches, the order of the results) depends on the schedule"
				}
				return true
			}
			if !seen[cf] && depth < 5 {
				seen[cf] = true
				reach(cf.Decl.Body, cf.Pkg.TypesInfo, depth+1)
			}
			return true
		})
	}
	reach(body, info, 0)
	generates := why
	why = ""
	if lit != nil {
		ast.Inspect(lit.Body, func(x ast.Node) bool {
			as, ok := x.(*ast.AssignStmt)
			if !ok || len(as.Lhs) != 1 || len(as.Rhs) != 1 {
				return true
			}
			call, ok := as.Rhs[0].(*ast.CallExpr)
			if !ok || !isBuiltinCall(info, call, "append") {
				return true
			}
			if id := rootIdent(as.Lhs[0]); id != nil {
				if o := objOf(info, id); o != nil && !(o.Pos() >= lit.Pos() && o.Pos() <= lit.End()) {
					why = "the goroutine appends to " + id.Name + ", which is declared outside it: the elements end up in the order the goroutines finish (a mutex removes the race, not the dependence on the schedule)"
					if generates != "" {
						why += "; and " + generates
					}
				}
			}
			return true
		})
	}
	// generation inside goroutines is not by itself order-dependent (results stored at the goroutine's own index are
	// not): only the gathering in completion order is reported; shared package-level state is STATE-PKG's business
	return why
}

// runORD4: goroutines and channel operations only in cmd.
func runORD4(w *World, r *Result) int {
	n := 0
	for _, p := range w.Pkgs {
		rel := w.Rel(p.Types)
		cnt := 0
		for _, f := range p.Syntax {
			ast.Inspect(f, func(x ast.Node) bool {
				switch s := x.(type) {
				case *ast.GoStmt, *ast.SendStmt, *ast.SelectStmt:
					n++
					cnt++
					fn := w.EnclosingFunc(p, s.Pos())
					if rel == "cmd" {
						if gs, isGo := s.(*ast.GoStmt); isGo {
							if why := goroutineGenerates(w, p, gs); why != "" {
								r.bad("ORD-4", fn, fmt.Sprintf("%T", s), w.Pos(s.Pos()), why)
								return true
							}
						}
						r.ok("ORD-4", fn, fmt.Sprintf("%T", s), w.Pos(s.Pos()), "concurrency confined to the command, and the goroutine appends to nothing declared outside it: no result is gathered in completion order", true)
					} else {
						r.bad("ORD-4", fn, fmt.Sprintf("%T", s), w.Pos(s.Pos()), "goroutine/channel operation in an analysis/generator package: scheduling may order effects differently between runs")
					}
				case *ast.UnaryExpr:
					if s.Op == token.ARROW {
						n++
						cnt++
						if rel != "cmd" {
							r.bad("ORD-4", w.EnclosingFunc(p, s.Pos()), "channel receive", w.Pos(s.Pos()), "channel receive in an analysis/generator package")
						}
					}
				}
				return true
			})
		}
		if cnt == 0 {
			r.ok("ORD-4", rel+".<package>", "no goroutine or channel operation", rel, "whole package scanned", false)
		}
	}
	return n
}

// uniquePkgSearch recognises, whatever the function is called, the search of the import graph for the one package
// with a given identity: a range over a map of *packages.Package whose body only skips packages (`if c {continue}`)
// and returns the first non-nil result of a recursive call of the enclosing function (or function literal), that
// function accepting the visited package only under an equality of package identities (searchSideUniquePkg). At most
// one package of the graph satisfies the equality, so the result does not depend on the visiting order.
func uniquePkgSearch(c *ordCtx, rs *ast.RangeStmt) (bool, string) {
	mt, ok := c.info.TypeOf(rs.X).Underlying().(*types.Map)
	if !ok || !strings.HasSuffix(mt.Elem().String(), "golang.org/x/tools/go/packages.Package") {
		return false, ""
	}
	// the enclosing walker: a function literal bound to a variable, or the declared function
	var self types.Object = c.info.Defs[c.fd.Name]
	ast.Inspect(c.fd.Body, func(n ast.Node) bool {
		as, ok := n.(*ast.AssignStmt)
		if !ok || len(as.Lhs) != 1 || len(as.Rhs) != 1 {
			return true
		}
		if fl, ok := as.Rhs[0].(*ast.FuncLit); ok && fl.Body.Pos() <= rs.Pos() && rs.End() <= fl.Body.End() {
			if id := identOf(as.Lhs[0]); id != nil {
				self = objOf(c.info, id)
			}
		}
		return true
	})
	for _, st := range rs.Body.List {
		is, ok := st.(*ast.IfStmt)
		if !ok || is.Else != nil {
			return false, ""
		}
		if is.Init == nil {
			if len(is.Body.List) != 1 {
				return false, ""
			}
			if br, ok := is.Body.List[0].(*ast.BranchStmt); !ok || br.Tok != token.CONTINUE {
				return false, ""
			}
			continue
		}
		as, ok := is.Init.(*ast.AssignStmt)
		if !ok || len(as.Rhs) != 1 || len(as.Lhs) != 1 {
			return false, ""
		}
		call, ok := as.Rhs[0].(*ast.CallExpr)
		if !ok {
			return false, ""
		}
		var callee types.Object
		switch f := ast.Unparen(call.Fun).(type) {
		case *ast.Ident:
			callee = objOf(c.info, f)
		case *ast.SelectorExpr:
			callee = objOf(c.info, f.Sel)
		}
		if callee == nil || callee != self {
			return false, ""
		}
		be, ok := ast.Unparen(is.Cond).(*ast.BinaryExpr)
		if !ok || be.Op != token.NEQ || es(be.Y) != "nil" || identOf(be.X) == nil || objOf(c.info, identOf(be.X)) != objOf(c.info, identOf(as.Lhs[0])) {
			return false, ""
		}
		if len(is.Body.List) != 1 {
			return false, ""
		}
		ret, ok := is.Body.List[0].(*ast.ReturnStmt)
		if !ok || len(ret.Results) != 1 || identOf(ret.Results[0]) == nil || objOf(c.info, identOf(ret.Results[0])) != objOf(c.info, identOf(as.Lhs[0])) {
			return false, ""
		}
	}
	if good, _ := searchSideUniquePkg(c, rs); !good {
		// a generic walker: the visited package is accepted by a callback parameter (`if out := match(pa); out != nil
		// { return out }` before the loop); every callback passed at the non-recursive call sites must accept at
		// most one package of the graph
		if callbackWalker(c, rs, self) {
			return true, "depth-first search of the import graph with the acceptance test passed as a callback: the loop only skips packages and returns the first non-nil result of the recursive call, and every callback passed to the walker accepts a package under an equality of package identities or a containment test of a position in a file's Pos()..End() range, which at most one package satisfies; the result does not depend on the visiting order [recognised structurally on this run]"
		}
		return false, ""
	}
	return true, "depth-first search of the import graph for the package with a given identity: the loop only skips packages and returns the first non-nil result of the recursive call, and the walker accepts a package only under an equality of import paths or package objects, which at most one package of the graph satisfies; the result does not depend on the visiting order [recognised structurally on this run]"
}

// pkgKindThroughParam: pkgStringKind, and for a string parameter of the enclosing declared function the common kind
// of what its non-recursive call sites pass (a walker taking the searched import path as a parameter).
func pkgKindThroughParam(c *ordCtx, e ast.Expr) string {
	if k := pkgStringKind(c.info, e); k != "" {
		return k
	}
	id := identOf(e)
	if id == nil {
		return ""
	}
	obj := objOf(c.info, id)
	fobj, _ := c.pkg.TypesInfo.Defs[c.fd.Name].(*types.Func)
	fi := c.w.Funcs[fobj]
	if fi == nil {
		return ""
	}
	pi := paramIndex(fi, obj)
	if pi < 0 {
		return ""
	}
	kind := ""
	for _, caller := range sortedFuncs(c.w) {
		if caller.Decl.Body == nil {
			continue
		}
		cinfo := caller.Pkg.TypesInfo
		bad := false
		ast.Inspect(caller.Decl.Body, func(x ast.Node) bool {
			call, ok := x.(*ast.CallExpr)
			if !ok || calleeOf(cinfo, call) != fobj || pi >= len(call.Args) {
				return true
			}
			arg := call.Args[pi]
			// the recursive call hands the parameter on unchanged
			if caller == fi {
				if aid := identOf(arg); aid != nil && objOf(cinfo, aid) == obj {
					return true
				}
			}
			k := pkgStringKind(cinfo, arg)
			if k == "" || (kind != "" && k != kind) {
				bad = true
			}
			kind = k
			return true
		})
		if bad {
			return ""
		}
	}
	return kind
}

// uniqueMatcher: a callback handed to a generic package walker accepts at most one package of the import graph. Every
// return of a non-nil value is reached under an equality of package identities (import paths or package objects), or
// under a containment test of a position in the Pos()..End() range of a syntax node (file ranges are disjoint).
func uniqueMatcher(w *World, fi *FuncInfo, cb ast.Expr) bool {
	body, info, _ := callbackOf(w, fi, cb)
	if body == nil {
		return false
	}
	// path conditions are computed on the enclosing declaration of the callback
	host := funcContaining(body)
	if host == nil {
		return false
	}
	ok, n := true, 0
	ast.Inspect(body, func(x ast.Node) bool {
		if lit, isLit := x.(*ast.FuncLit); isLit && lit.Body != body {
			return false
		}
		ret, isRet := x.(*ast.ReturnStmt)
		if !isRet || len(ret.Results) != 1 {
			return true
		}
		if es(ret.Results[0]) == "nil" {
			return true
		}
		n++
		unique := false
		for _, c := range pathConds(host.Decl, ret) {
			if c.expr == nil || !c.truth || c.expr.Pos() < body.Pos() || c.expr.End() > body.End() {
				continue
			}
			be, isBin := c.expr.(*ast.BinaryExpr)
			if !isBin {
				continue
			}
			switch be.Op {
			case token.EQL:
				kx, ky := pkgStringKind(info, be.X), pkgStringKind(info, be.Y)
				if (kx == "path" || kx == "obj") && (ky == "path" || ky == "obj") {
					unique = true
				}
			case token.LEQ, token.LSS, token.GEQ, token.GTR:
				for _, side := range []ast.Expr{be.X, be.Y} {
					if call, isCall := ast.Unparen(side).(*ast.CallExpr); isCall {
						if fn := calleeOf(info, call); fn != nil && (fn.Name() == "Pos" || fn.Name() == "End") && fn.Pkg() != nil && fn.Pkg().Path() == "go/ast" {
							unique = true
						}
					}
				}
			}
		}
		if !unique {
			ok = false
		}
		return true
	})
	return ok && n > 0
}

// callbackWalker: the declared function holding rs accepts the visited package through a function-typed parameter, and
// every call of it from another function passes a uniqueMatcher.
func callbackWalker(c *ordCtx, rs *ast.RangeStmt, self types.Object) bool {
	fobj, _ := c.pkg.TypesInfo.Defs[c.fd.Name].(*types.Func)
	fi := c.w.Funcs[fobj]
	if fi == nil || types.Object(fobj) != self {
		return false
	}
	// the acceptance: a statement before the loop `if out := P(x); out != nil { return out }` with P a parameter
	pi := -1
	for _, st := range c.fd.Body.List {
		is, ok := st.(*ast.IfStmt)
		if !ok || st.Pos() > rs.Pos() || is.Init == nil {
			continue
		}
		as, ok := is.Init.(*ast.AssignStmt)
		if !ok || len(as.Rhs) != 1 {
			continue
		}
		call, ok := as.Rhs[0].(*ast.CallExpr)
		if !ok {
			continue
		}
		if id := identOf(call.Fun); id != nil {
			if k := paramIndex(fi, objOf(c.info, id)); k >= 0 {
				pi = k
			}
		}
	}
	if pi < 0 {
		return false
	}
	sites := 0
	for _, caller := range sortedFuncs(c.w) {
		if caller.Decl.Body == nil {
			continue
		}
		cinfo := caller.Pkg.TypesInfo
		bad := false
		ast.Inspect(caller.Decl.Body, func(x ast.Node) bool {
			call, ok := x.(*ast.CallExpr)
			if !ok || pi >= len(call.Args) {
				return true
			}
			fn := calleeOf(cinfo, call)
			if fn == nil || (fn != fobj && fn.Origin() != fobj) {
				return true
			}
			arg := call.Args[pi]
			if caller == fi {
				if aid := identOf(arg); aid != nil && paramIndex(fi, objOf(cinfo, aid)) == pi {
					return true // the recursive call hands the callback on
				}
			}
			sites++
			if !uniqueMatcher(c.w, caller, arg) {
				bad = true
			}
			return true
		})
		if bad {
			return false
		}
	}
	return sites > 0
}

// runORD6: map order can also enter through an iterator: maps.Keys / maps.Values / maps.All yield in the random order
// of the map. The sequence (or the slice collected from it) must be sorted before it is used: wrapped in
// slices.Sorted*/SortedFunc, or the variable it is collected into is sorted in place by a later statement of the same
// block (sort.Strings, sort.Slice, slices.Sort, slices.SortFunc) before any other use.
func runORD6(w *World, r *Result, only func(rel string) bool) int {
	n := 0
	sortsInPlace := map[string]bool{"sort.Strings": true, "sort.Ints": true, "sort.Slice": true, "sort.SliceStable": true, "sort.Sort": true, "sort.Stable": true, "slices.Sort": true, "slices.SortFunc": true, "slices.SortStableFunc": true}
	for _, fi := range sortedFuncs(w) {
		rel := w.Rel(fi.Obj.Pkg())
		if fi.Decl.Body == nil || (only != nil && !only(rel)) {
			continue
		}
		info := fi.Pkg.TypesInfo
		// parent map
		parent := map[ast.Node]ast.Node{}
		var stack []ast.Node
		ast.Inspect(fi.Decl.Body, func(x ast.Node) bool {
			if x == nil {
				stack = stack[:len(stack)-1]
				return false
			}
			if len(stack) > 0 {
				parent[x] = stack[len(stack)-1]
			}
			stack = append(stack, x)
			return true
		})
		ast.Inspect(fi.Decl.Body, func(x ast.Node) bool {
			call, ok := x.(*ast.CallExpr)
			if !ok {
				return true
			}
			full := fullName(calleeOf(info, call))
			if full != "maps.Keys" && full != "maps.Values" && full != "maps.All" {
				return true
			}
			n++
			cons := full + "(" + es(call.Args[0]) + ")"
			pos := w.Pos(call.Pos())
			// climb: wrapped in a sorting collector?
			var stmt ast.Stmt
			sorted := false
			for p := parent[call]; p != nil; p = parent[p] {
				if c2, ok := p.(*ast.CallExpr); ok {
					if f := fullName(calleeOf(info, c2)); strings.HasPrefix(f, "slices.Sorted") {
						sorted = true
					}
				}
				if s, ok := p.(ast.Stmt); ok {
					stmt = s
					break
				}
			}
			if sorted {
				r.ok("ORD-1", fi.Name, cons, pos, "the keys are collected through slices.Sorted*: a sorted slice, independent of the map order", true)
				return true
			}
			// collected into a variable that a later statement of the same block sorts in place before any other use
			if as, ok := stmt.(*ast.AssignStmt); ok && len(as.Lhs) == 1 && identOf(as.Lhs[0]) != nil {
				v := objOf(info, identOf(as.Lhs[0]))
				if blk, ok := parent[as].(*ast.BlockStmt); ok {
					after := false
					for _, st := range blk.List {
						if st == ast.Stmt(as) {
							after = true
							continue
						}
						if !after || !usesObj(info, st, v) {
							continue
						}
						if es0, ok := st.(*ast.ExprStmt); ok {
							if c2, ok := es0.X.(*ast.CallExpr); ok && sortsInPlace[fullName(calleeOf(info, c2))] && len(c2.Args) >= 1 && identOf(c2.Args[0]) != nil && objOf(info, identOf(c2.Args[0])) == v {
								sorted = true
							}
						}
						break // the first statement that mentions the variable decides
					}
				}
			}
			if sorted {
				r.ok("ORD-1", fi.Name, cons, pos, "the collected slice is sorted in place by the next statement that mentions it", true)
			} else {
				r.bad("ORD-1", fi.Name, cons, pos, "the iterator yields the keys in the random order of the map and nothing sorts them before they are used (a result of slices.Sorted that is discarded sorts nothing): the order of what follows differs from run to run")
			}
			return true
		})
	}
	return n
}

package main

// BASIC-ID: go/types basic types are not identified by pointer. The universe holds two more *types.Basic objects,
// `byte` and `rune`, which are aliases of uint8 and int32 with their own identity (types.Universe.Lookup("byte").Type()
// != types.Typ[types.Uint8]) but the same Kind(). A map keyed by *types.Basic, or an `==` between two *types.Basic
// values, therefore treats a field declared `byte` differently from one declared `uint8`. Obligations: every map type
// with key *types.Basic used in the production packages and every comparison of two *types.Basic values.
//
// UNUSED-PURE: a call of a function that only computes a value (slices.Sorted, slices.Compact, slices.Clone,
// maps.Keys, strings.ToLower …) whose result is discarded does nothing; written after a refactoring from an in-place
// API (sort.Strings -> slices.Sorted) it silently drops the effect. Obligations: every expression statement calling
// one of the listed functions.

import (
	"go/ast"
	"go/token"
	"go/types"
	"strings"
)

func isBasicPtr(t types.Type) bool { return t != nil && t.String() == "*go/types.Basic" }

func basicIDRule(w *World, r *Result, only func(rel string) bool) int {
	n := 0
	for _, p := range w.Pkgs {
		rel := w.Rel(p.Types)
		if only != nil && !only(rel) {
			continue
		}
		info := p.TypesInfo
		for _, f := range p.Syntax {
			ast.Inspect(f, func(x ast.Node) bool {
				switch v := x.(type) {
				case *ast.MapType:
					if isBasicPtr(info.TypeOf(v.Key)) {
						n++
						r.bad("BASIC-ID", w.EnclosingFunc(p, v.Pos()), "map keyed by *types.Basic", w.Pos(v.Pos()),
							"a table keyed by *types.Basic distinguishes `byte` from `uint8` and `rune` from `int32` (the universe aliases are separate objects with the same Kind): a type written with the alias misses the entry of its kind; key by Kind()")
					}
				case *ast.BinaryExpr:
					if (v.Op == token.EQL || v.Op == token.NEQ) && isBasicPtr(info.TypeOf(v.X)) && isBasicPtr(info.TypeOf(v.Y)) && es(v.X) != "nil" && es(v.Y) != "nil" {
						n++
						r.bad("BASIC-ID", w.EnclosingFunc(p, v.Pos()), "comparison of *types.Basic values: "+es(v), w.Pos(v.Pos()),
							"two *types.Basic are compared by identity: `byte` and `uint8` (and `rune`/`int32`) are different objects of the same Kind; compare Kind()")
					}
				}
				return true
			})
		}
	}
	if n == 0 {
		r.ok("BASIC-ID", "production packages", "no table keyed by, no comparison of, *types.Basic", "", "basic types are only told apart by Kind()/Info()", true)
	}
	return n
}

var pureFuncs = map[string]bool{
	"slices.Sorted": true, "slices.SortedFunc": true, "slices.SortedStableFunc": true, "slices.Clone": true, "slices.Compact": true,
	"slices.CompactFunc": true, "slices.Collect": true, "slices.Concat": true, "slices.Repeat": true, "slices.Insert": true,
	"slices.Delete": true, "slices.DeleteFunc": true, "slices.Grow": true, "slices.Clip": true, "slices.Values": true, "slices.All": true,
	"maps.Keys": true, "maps.Values": true, "maps.Collect": true, "maps.Clone": true,
	"strings.ToLower": true, "strings.ToUpper": true, "strings.TrimSpace": true, "strings.Trim": true, "strings.TrimPrefix": true,
	"strings.TrimSuffix": true, "strings.ReplaceAll": true, "strings.Replace": true, "strings.Join": true, "strings.Fields": true,
	"strings.Split": true, "strings.Title": true, "strings.Repeat": true, "fmt.Sprintf": true, "fmt.Sprint": true, "strconv.Quote": true,
	"strconv.Itoa": true, "sort.StringSlice": true, "path/filepath.Clean": true, "path/filepath.Join": true, "path/filepath.Abs": false,
}

func unusedPureRule(w *World, r *Result, only func(rel string) bool) int {
	n := 0
	for _, fi := range sortedFuncs(w) {
		rel := w.Rel(fi.Obj.Pkg())
		if fi.Decl.Body == nil || (only != nil && !only(rel)) {
			continue
		}
		info := fi.Pkg.TypesInfo
		ast.Inspect(fi.Decl.Body, func(x ast.Node) bool {
			st, ok := x.(*ast.ExprStmt)
			if !ok {
				return true
			}
			call, ok := st.X.(*ast.CallExpr)
			if !ok {
				return true
			}
			full := fullName(calleeOf(info, call))
			if !pureFuncs[full] && !(isBuiltinCall(info, call, "append")) {
				return true
			}
			n++
			r.bad("UNUSED-PURE", fi.Name, "result of "+strings.TrimPrefix(full, "")+" discarded", w.Pos(call.Pos()),
				"`"+es(call)+"` computes a new value and changes nothing in place; its result is thrown away, so the statement has no effect (the collection it was meant to order, compact or copy stays as it was)")
			return true
		})
	}
	return n
}

// constFitsRule (CONST-EXACT, second half): constant.Int64Val and constant.Uint64Val report with their second result whether the
// value fits; when it does not, the first result is undefined. A caller that throws the flag away (`n, _ := ...`)
// works with a wrong number for every constant outside the range (a uint64 enum value above MaxInt64, an untyped big
// constant). The same holds for a function of the repository that returns the two results unchanged.
func constFitsRule(w *World, r *Result, only func(rel string) bool) int {
	n := 0
	// wrappers: functions whose every return is a direct call of an exact-reporting conversion
	wrappers := map[types.Object]bool{}
	isConv := func(info *types.Info, call *ast.CallExpr) bool {
		f := calleeOf(info, call)
		if f == nil {
			return false
		}
		switch fullName(f) {
		case "go/constant.Int64Val", "go/constant.Uint64Val":
			return true
		}
		return wrappers[f]
	}
	for pass := 0; pass < 2; pass++ {
		for _, fi := range sortedFuncs(w) {
			if fi.Decl.Body == nil || fi.Decl.Type.Results == nil || fi.Decl.Type.Results.NumFields() != 2 {
				continue
			}
			all, any := true, false
			ast.Inspect(fi.Decl.Body, func(x ast.Node) bool {
				if _, ok := x.(*ast.FuncLit); ok {
					return false
				}
				if ret, ok := x.(*ast.ReturnStmt); ok {
					if len(ret.Results) == 1 {
						if c, ok := ret.Results[0].(*ast.CallExpr); ok && isConv(fi.Pkg.TypesInfo, c) {
							any = true
							return true
						}
					}
					all = false
				}
				return true
			})
			if all && any {
				wrappers[fi.Obj] = true
			}
		}
	}
	for _, fi := range sortedFuncs(w) {
		rel := w.Rel(fi.Obj.Pkg())
		if fi.Decl.Body == nil || (only != nil && !only(rel)) {
			continue
		}
		info := fi.Pkg.TypesInfo
		ast.Inspect(fi.Decl.Body, func(x ast.Node) bool {
			as, ok := x.(*ast.AssignStmt)
			if !ok || len(as.Lhs) != 2 || len(as.Rhs) != 1 {
				return true
			}
			call, ok := as.Rhs[0].(*ast.CallExpr)
			if !ok || !isConv(info, call) {
				return true
			}
			n++
			cons := normLocals(info, call)
			if id := identOf(as.Lhs[1]); id != nil && id.Name == "_" {
				r.bad("CONST-EXACT", fi.Name, cons, w.Pos(call.Pos()), "the second result says whether the constant fits in the integer type; it is thrown away, so a constant outside the range (a uint64 value above MaxInt64, a big untyped constant) is silently replaced by an undefined number in what is generated")
			} else {
				r.ok("CONST-EXACT", fi.Name, cons, w.Pos(call.Pos()), "the flag that says whether the constant fits is bound to a variable", true)
			}
			return true
		})
	}
	return n
}

// litValueRule (LIT-VALUE): the Value field of an *ast.BasicLit is the literal as written in the source, quotes and
// escape sequences included. Its value is what strconv.Unquote / strconv.Parse* / constant.MakeFromLiteral (or the type
// checker) compute from it. A function that derives a string from the raw text by other means (trimming the quotes,
// slicing off the first and last byte) returns "a\tb" with a backslash and a t, and leaves escaped quotes escaped.
func litValueRule(w *World, r *Result, only func(rel string) bool) int {
	n := 0
	decoders := map[string]bool{"strconv.Unquote": true, "strconv.UnquoteChar": true, "strconv.Atoi": true, "strconv.ParseInt": true, "strconv.ParseUint": true, "strconv.ParseFloat": true, "strconv.ParseBool": true, "go/constant.MakeFromLiteral": true}
	for _, fi := range sortedFuncs(w) {
		rel := w.Rel(fi.Obj.Pkg())
		if fi.Decl.Body == nil || (only != nil && !only(rel)) {
			continue
		}
		info := fi.Pkg.TypesInfo
		parent := map[ast.Node]ast.Node{}
		var stack []ast.Node
		ast.Inspect(fi.Decl.Body, func(x ast.Node) bool {
			if x == nil {
				stack = stack[:len(stack)-1]
				return false
			}
			if len(stack) > 0 {
				parent[x] = stack[len(stack)-1]
			}
			stack = append(stack, x)
			return true
		})
		ast.Inspect(fi.Decl.Body, func(x ast.Node) bool {
			sel, ok := x.(*ast.SelectorExpr)
			if !ok || sel.Sel.Name != "Value" {
				return true
			}
			f, ok := info.Uses[sel.Sel].(*types.Var)
			if !ok || !f.IsField() || f.Pkg() == nil || f.Pkg().Path() != "go/ast" {
				return true
			}
			if t := info.TypeOf(sel.X); t == nil || !strings.HasSuffix(t.String(), "go/ast.BasicLit") {
				return true
			}
			n++
			cons := normLocals(info, sel)
			pos := w.Pos(sel.Pos())
			p := parent[sel]
			for {
				if pe, ok := p.(*ast.ParenExpr); ok {
					p = parent[pe]
					continue
				}
				break
			}
			switch v := p.(type) {
			case *ast.CallExpr:
				full := fullName(calleeOf(info, v))
				if decoders[full] {
					r.ok("LIT-VALUE", fi.Name, cons, pos, "the raw literal is decoded by "+full, true)
					return true
				}
				if strings.HasPrefix(full, "fmt.") || strings.HasPrefix(full, "log.") || strings.HasPrefix(full, "errors.") {
					r.ok("LIT-VALUE", fi.Name, cons, pos, "the raw literal is printed (a message), not interpreted", true)
					return true
				}
				if isBuiltinCall(info, v, "len") {
					r.ok("LIT-VALUE", fi.Name, cons, pos, "only the length of the source text is used", true)
					return true
				}
				r.bad("LIT-VALUE", fi.Name, cons, pos, "the source text of the literal (quotes and escape sequences included) is handed to "+full+" to obtain its value: only strconv.Unquote / constant.MakeFromLiteral decode escapes (\"a\\tb\", an escaped quote, a raw string containing the other quote) — the string obtained differs from the Go value for every literal that uses one")
			case *ast.BinaryExpr:
				if v.Op == token.EQL || v.Op == token.NEQ {
					r.ok("LIT-VALUE", fi.Name, cons, pos, "compared as source text", true)
					return true
				}
				r.bad("LIT-VALUE", fi.Name, cons, pos, "the source text of the literal is concatenated as if it were its value")
			case *ast.SliceExpr, *ast.IndexExpr:
				r.bad("LIT-VALUE", fi.Name, cons, pos, "the source text of the literal is sliced to strip its quotes: escape sequences stay undecoded, so the string differs from the Go value for every literal that uses one")
			default:
				r.bad("LIT-VALUE", fi.Name, cons, pos, "the source text of the literal (quotes and escapes included) is used where its value is meant; decode it with strconv.Unquote or constant.MakeFromLiteral")
			}
			return true
		})
	}
	return n
}

// goTypesAPIRule: two go/types lookups that answer a narrower question than the one the analysis asks.
// IDENT-SCOPE: an identifier of the analysed source (an *ast.Ident that stands on its own, not the Sel of a qualified
// name) is resolved by `(*types.Scope).Lookup(id.Name)`: one scope, by name, ignoring the position of the identifier —
// a local declaration that shadows the name is missed. The type checker already resolved it (types.Info.Uses / Defs,
// ObjectOf), and types.Eval / Scope.LookupParent take the position into account.
// METHOD-SET: `types.NewMethodSet(T)` of a type that is not known to be a pointer lists the methods with value receivers
// only; a method value `v.m` on an addressable variable also reaches the pointer-receiver methods, so resolving such
// an expression needs the method set of *T (types.NewPointer) or types.LookupFieldOrMethod(T, true, …).
func goTypesAPIRule(w *World, r *Result, only func(rel string) bool) int {
	n := 0
	for _, fi := range sortedFuncs(w) {
		rel := w.Rel(fi.Obj.Pkg())
		if fi.Decl.Body == nil || (only != nil && !only(rel)) {
			continue
		}
		info := fi.Pkg.TypesInfo
		ast.Inspect(fi.Decl.Body, func(x ast.Node) bool {
			call, ok := x.(*ast.CallExpr)
			if !ok {
				return true
			}
			switch fullName(calleeOf(info, call)) {
			case "(*go/types.Scope).Lookup":
				if len(call.Args) != 1 {
					return true
				}
				sel, ok := ast.Unparen(call.Args[0]).(*ast.SelectorExpr)
				if !ok || sel.Sel.Name != "Name" {
					return true
				}
				if t := info.TypeOf(sel.X); t == nil || t.String() != "*go/ast.Ident" {
					return true
				}
				n++
				cons := normLocals(info, call)
				qualified := false
				if inner, isSel := ast.Unparen(sel.X).(*ast.SelectorExpr); isSel && inner.Sel.Name == "Sel" {
					qualified = true
				}
				// a local bound once to `<x>.Sel`
				if lid := identOf(sel.X); lid != nil {
					if ds := defsIn(info, fi.Decl, objOf(info, lid)); len(ds) == 1 {
						if inner, isSel := ast.Unparen(ds[0]).(*ast.SelectorExpr); isSel && inner.Sel.Name == "Sel" {
							qualified = true
						}
					}
				}
				// the scope of an imported package (`pkgName.Imported().Scope()`) only holds package-level objects, and
				// nothing of the importing file can shadow them there
				if fsel, isSel := ast.Unparen(call.Fun).(*ast.SelectorExpr); isSel && strings.Contains(es(fsel.X), ".Imported()") {
					qualified = true
				}
				if qualified {
					r.ok("IDENT-SCOPE", fi.Name, cons, w.Pos(call.Pos()), "the name is the selector of a qualified identifier: it can only live in the scope of the package named before the dot", true)
				} else {
					r.bad("IDENT-SCOPE", fi.Name, cons, w.Pos(call.Pos()), "an identifier of the analysed source is looked up by name in a single scope: a declaration that shadows the name where the identifier stands (a local constant with the name of a package-level one) is ignored and the outer object is used silently; the type checker's own resolution (Info.Uses/ObjectOf) or a lookup at the identifier's position (types.Eval, Scope.LookupParent) is what answers `what does this identifier denote here`")
				}
			case "go/types.NewMethodSet":
				if len(call.Args) != 1 {
					return true
				}
				n++
				cons := normLocals(info, call)
				ptr := false
				if c2, ok := ast.Unparen(call.Args[0]).(*ast.CallExpr); ok && fullName(calleeOf(info, c2)) == "go/types.NewPointer" {
					ptr = true
				}
				if t := info.TypeOf(call.Args[0]); t != nil && t.String() == "*go/types.Pointer" {
					ptr = true
				}
				if ptr {
					r.ok("METHOD-SET", fi.Name, cons, w.Pos(call.Pos()), "method set of a pointer type: value- and pointer-receiver methods", true)
				} else {
					r.bad("METHOD-SET", fi.Name, cons, w.Pos(call.Pos()), "the method set of a type that may be a non-pointer lists value-receiver methods only: a method value taken on an addressable variable of that type (`v.m` with `func (*T) m()`) is legal Go and is not found here; use the method set of the pointer type or types.LookupFieldOrMethod(T, true, …)")
				}
			}
			return true
		})
	}
	return n
}

package main

// C17: source loading.

import (
	"go/ast"
	"go/constant"
	"go/token"
	"go/types"
	"strings"
)

func init() { register("C17", "other", checkC17) }

func checkC17(w *World, r *Result) {
	r.Explanation = "Decides structural necessary conditions on analysis.LoadSources and its helpers: FLW-C17a the common root handed to go/packages and returned to the caller is derived from the per-file directories only through path-separator-aware operations (an input element, filepath.Dir/Clean of the running value, or the empty string): a byte-wise common prefix is not a directory ancestor in general; every input directory takes part (a loop over all of them updates the result); the per-file value is filepath.Dir(filepath.Abs(file)); ERR-C17b every error returned by os.Stat, filepath.Abs and packages.Load is tested right after the call and propagated by a return, and type errors are counted over the whole import graph (packages.PrintErrors) and turned into an error; SHP-C17o the result slice has one slot per input, filled at the input's own index from a match of that file's absolute path, and a missing match is an error; one `file=` pattern per input; OBL-* no unguarded partial operation in these functions. Does not decide: that go/packages returns the package containing a file, nor that the root is the deepest possible one."
	r.Rules = []string{"FLW-C17a", "ERR-C17b", "SHP-C17o", "OBL-*", "STATE-PKG", "SHP-C17o every store is a match"}
	statePkgRule(w, r, func(rel string) bool { return rel == "analysis" })
	checkCommonRoot(w, r)
	checkLoadErrors(w, r)
	checkLoadOrder(w, r)
	scope := map[string]bool{"analysis.LoadSources": true, "analysis.LoadSource": true, "analysis.commonPrefix": true, "analysis.selectByFile": true}
	n := 0
	for _, o := range runOBL(w, func(rel string) bool { return rel == "analysis" }) {
		if scope[o.Func] {
			r.add(o)
			n++
		}
	}
	r.note("obl_in_scope", n)
}

func checkCommonRoot(w *World, r *Result) {
	ls := w.MustFunc("analysis.LoadSources")
	info := ls.Pkg.TypesInfo
	// the function whose result becomes cfg.Dir
	var dirVar types.Object
	ast.Inspect(ls.Decl.Body, func(x ast.Node) bool {
		if kv, ok := x.(*ast.KeyValueExpr); ok && es(kv.Key) == "Dir" {
			if id := identOf(kv.Value); id != nil {
				dirVar = objOf(info, id)
			}
		}
		return true
	})
	if dirVar == nil {
		Undecided("LoadSources: packages.Config.Dir is not set from a variable")
	}
	var rootFn *FuncInfo
	var dirsArg ast.Expr
	for _, d := range defsIn(info, ls.Decl, dirVar) {
		if call, ok := d.(*ast.CallExpr); ok {
			if fn := calleeOf(info, call); fn != nil && w.Funcs[fn] != nil && len(call.Args) == 1 {
				rootFn = w.Funcs[fn]
				dirsArg = call.Args[0]
			}
		}
	}
	if rootFn == nil {
		Undecided("LoadSources: the common root is not computed by a module function of one argument")
	}
	// returned root is the same variable
	retOK := false
	ast.Inspect(ls.Decl.Body, func(x ast.Node) bool {
		if ret, ok := x.(*ast.ReturnStmt); ok && len(ret.Results) == 3 {
			if id := identOf(ret.Results[1]); id != nil && objOf(info, id) == dirVar {
				retOK = true
			}
		}
		return true
	})
	r.cond(retOK, "FLW-C17a", ls.Name, "returned root = directory handed to go/packages", fnPos(w, ls), "the same value is used as packages.Config.Dir and returned", "the returned root is not the directory the packages were loaded from")
	// per-file value: dirs[i] = filepath.Dir(abs) with abs from filepath.Abs(sourceFile)
	perFile := false
	ast.Inspect(ls.Decl.Body, func(x ast.Node) bool {
		as, ok := x.(*ast.AssignStmt)
		if !ok || len(as.Lhs) != 1 {
			return true
		}
		ix, ok := as.Lhs[0].(*ast.IndexExpr)
		if !ok || es(ix.X) != es(dirsArg) {
			return true
		}
		if call, ok := as.Rhs[0].(*ast.CallExpr); ok && fullName(calleeOf(info, call)) == "path/filepath.Dir" {
			if id := identOf(call.Args[0]); id != nil {
				for _, d := range defsIn(info, ls.Decl, objOf(info, id)) {
					if c2, ok := d.(*ast.CallExpr); ok && fullName(calleeOf(info, c2)) == "path/filepath.Abs" {
						perFile = true
					}
				}
			}
		}
		return true
	})
	r.cond(perFile, "FLW-C17a", ls.Name, "per-file value = Dir(Abs(file))", fnPos(w, ls), "dirs[i] = filepath.Dir(filepath.Abs(sourceFile))", "the per-file value is not the absolute directory of the file (e.g. the file itself, or a relative path)")

	// inside rootFn: classify every return expression and every update of the returned variable
	rinfo := rootFn.Pkg.TypesInfo
	param := rinfo.Defs[rootFn.Decl.Type.Params.List[0].Names[0]]
	allowedVar := map[types.Object]bool{}
	badWhy := map[types.Object]string{}
	var classify func(e ast.Expr) (bool, string)
	classify = func(e ast.Expr) (bool, string) {
		e = ast.Unparen(e)
		if tv := rinfo.Types[e]; tv.Value != nil && tv.Value.Kind() == constant.String && constant.StringVal(tv.Value) == "" {
			return true, ""
		}
		switch v := e.(type) {
		case *ast.IndexExpr:
			if id := identOf(v.X); id != nil && objOf(rinfo, id) == param {
				return true, ""
			}
		case *ast.Ident:
			o := objOf(rinfo, v)
			if allowedVar[o] {
				return true, ""
			}
			if why, isBad := badWhy[o]; isBad {
				return false, why
			}
			// range value over the parameter
			isElem := false
			ast.Inspect(rootFn.Decl.Body, func(y ast.Node) bool {
				if rs, ok := y.(*ast.RangeStmt); ok && identOf(rs.Value) != nil && rinfo.Defs[identOf(rs.Value)] == o {
					if root := rootIdent(rs.X); root != nil && objOf(rinfo, root) == param {
						isElem = true
					}
				}
				return true
			})
			if isElem {
				return true, ""
			}
			return false, "variable " + v.Name + " is not built from separator-aware operations"
		case *ast.CallExpr:
			switch fullName(calleeOf(rinfo, v)) {
			case "path/filepath.Dir", "path/filepath.Clean", "path/filepath.VolumeName", "path.Dir":
				return classify(v.Args[0])
			case "strings.TrimSuffix", "strings.TrimRight":
				// trimming the separator itself
				if len(v.Args) == 2 && strings.Contains(es(v.Args[1]), "eparator") {
					return classify(v.Args[0])
				}
			}
			return false, "call " + es(v.Fun) + " is not a recognised separator-aware operation"
		case *ast.SliceExpr:
			return false, "the path is cut at a byte index (" + es(v) + "): a byte-wise common prefix of `/a/foo1` and `/a/foo2` is `/a/foo`, which is not a directory"
		case *ast.BinaryExpr:
			return false, "the path is built by concatenation"
		}
		return false, "expression " + es(e) + " is not a recognised separator-aware operation"
	}
	// fixpoint over local variables
	for iter := 0; iter < 4; iter++ {
		ast.Inspect(rootFn.Decl.Body, func(x ast.Node) bool {
			as, ok := x.(*ast.AssignStmt)
			if !ok || len(as.Lhs) != len(as.Rhs) {
				return true
			}
			for i, l := range as.Lhs {
				id := identOf(l)
				if id == nil {
					continue
				}
				o := objOf(rinfo, id)
				if v, isVar := o.(*types.Var); !isVar || !isStringType(v.Type()) {
					continue
				}
				// optimistic: assume the variable itself is allowed while classifying its own updates
				was := allowedVar[o]
				allowedVar[o] = true
				good, why := classify(as.Rhs[i])
				allowedVar[o] = was
				if good {
					if _, isBad := badWhy[o]; !isBad {
						allowedVar[o] = true
					}
				} else {
					badWhy[o] = why
					allowedVar[o] = false
				}
			}
			return true
		})
	}
	nret := 0
	ast.Inspect(rootFn.Decl.Body, func(x ast.Node) bool {
		if _, ok := x.(*ast.FuncLit); ok {
			return false
		}
		ret, ok := x.(*ast.ReturnStmt)
		if !ok || len(ret.Results) != 1 {
			return true
		}
		nret++
		good, why := classify(ret.Results[0])
		r.cond(good, "FLW-C17a", rootFn.Name, "return "+es(ret.Results[0]), w.Pos(ret.Pos()), "an input directory, its filepath.Dir ancestors, or the empty string", "the common root is not computed with separator-aware operations: "+why)
		return true
	})
	if nret == 0 {
		Undecided("%s has no return", rootFn.Name)
	}
	// every input takes part: a loop over the parameter (all elements, possibly [1:]) in which the result is updated or compared
	loopAll := false
	ast.Inspect(rootFn.Decl.Body, func(x ast.Node) bool {
		if rs, ok := x.(*ast.RangeStmt); ok {
			if root := rootIdent(rs.X); root != nil && objOf(rinfo, root) == param {
				if sl, isSlice := ast.Unparen(rs.X).(*ast.SliceExpr); isSlice {
					if sl.High != nil {
						return true
					}
					if k, ok := constInt(rinfo, sl.Low); sl.Low != nil && (!ok || k > 1) {
						return true
					}
				}
				loopAll = true
			}
		}
		return true
	})
	// ... and the containment test itself is applied to every element: it sits inside such a loop and reads the
	// loop's element (comparing only selected elements -- the smallest and largest in byte order, the first and
	// the last -- is not enough: `store-gen` sorts between `store` and `store/pg`)
	ntests := 0
	ast.Inspect(rootFn.Decl.Body, func(x ast.Node) bool {
		call, ok := x.(*ast.CallExpr)
		if !ok {
			return true
		}
		// the containment test: strings.HasPrefix itself, or a predicate of the package built on it
		isTest := fullName(calleeOf(rinfo, call)) == "strings.HasPrefix"
		if h := w.Funcs[calleeOf(rinfo, call)]; h != nil && h.Pkg == rootFn.Pkg && h != rootFn && h.Decl.Body != nil {
			if containsStr(callsIn(h.Pkg.TypesInfo, h.Decl.Body), "strings.HasPrefix") {
				isTest = true
			}
		}
		if !isTest {
			return true
		}
		ntests++
		inLoop := false
		ast.Inspect(rootFn.Decl.Body, func(y ast.Node) bool {
			rs, ok := y.(*ast.RangeStmt)
			if !ok || !(rs.Body.Pos() <= call.Pos() && call.End() <= rs.Body.End()) {
				return true
			}
			root := rootIdent(rs.X)
			v := identOf(rs.Value)
			if root == nil || objOf(rinfo, root) != param || v == nil {
				return true
			}
			if usesObj(rinfo, call, rinfo.Defs[v]) {
				inLoop = true
			}
			return true
		})
		r.cond(inLoop, "FLW-C17a", rootFn.Name, "containment test applied to every input: "+es(call), w.Pos(call.Pos()),
			"the test is inside a loop over all inputs and reads the loop's element",
			"the containment test is not applied to each input directory (it is outside a loop over the inputs, or does not read the loop's element): the returned root is only checked against selected elements, and a file can lie outside it")
		return true
	})
	if ntests == 0 {
		Undecided("%s: no containment test (strings.HasPrefix) found", rootFn.Name)
	}
	r.cond(loopAll, "FLW-C17a", rootFn.Name, "every input directory takes part", fnPos(w, rootFn), "a loop over all elements of the input", "the common root is computed from some of the inputs only (e.g. first and last): with an unsorted list a file can lie outside the returned root")
}

func isStringType(t types.Type) bool {
	b, ok := t.Underlying().(*types.Basic)
	return ok && b.Info()&types.IsString != 0
}

func checkLoadErrors(w *World, r *Result) {
	fi := w.MustFunc("analysis.LoadSources")
	info := fi.Pkg.TypesInfo
	errT := types.Universe.Lookup("error").Type()
	n := 0
	var visit func(list []ast.Stmt)
	visit = func(list []ast.Stmt) {
		for i, st := range list {
			switch s := st.(type) {
			case *ast.AssignStmt:
				if len(s.Rhs) != 1 {
					continue
				}
				call, ok := s.Rhs[0].(*ast.CallExpr)
				if !ok {
					continue
				}
				var errVar types.Object
				for _, l := range s.Lhs {
					if id := identOf(l); id != nil && id.Name != "_" {
						if o := objOf(info, id); o != nil && types.Identical(o.Type(), errT) {
							errVar = o
						}
					}
				}
				// an error result assigned to _ is a dropped error
				if tup, ok := info.TypeOf(call).(*types.Tuple); ok && errVar == nil {
					if tup.Len() > 0 && types.Identical(tup.At(tup.Len()-1).Type(), errT) {
						n++
						r.bad("ERR-C17b", fi.Name, "error of "+es(call.Fun)+" discarded", w.Pos(s.Pos()), "the error result is assigned to the blank identifier: a missing file or load failure is not reported")
					}
					continue
				}
				if errVar == nil {
					continue
				}
				n++
				good := false
				if i+1 < len(list) {
					if is, ok := list[i+1].(*ast.IfStmt); ok {
						if be, ok := ast.Unparen(is.Cond).(*ast.BinaryExpr); ok && be.Op == token.NEQ && identOf(be.X) != nil && objOf(info, identOf(be.X)) == errVar && es(be.Y) == "nil" {
							if ret, ok := is.Body.List[len(is.Body.List)-1].(*ast.ReturnStmt); ok && len(ret.Results) > 0 {
								last := ret.Results[len(ret.Results)-1]
								if es(last) != "nil" {
									good = true
								}
							}
						}
					}
				}
				r.cond(good, "ERR-C17b", fi.Name, "error of "+es(call.Fun)+" propagated", w.Pos(s.Pos()), "tested right after the call and returned", "the error of "+es(call.Fun)+" is not tested and returned right after the call (dropped, or turned into a panic)")
			case *ast.ForStmt:
				visit(s.Body.List)
			case *ast.RangeStmt:
				visit(s.Body.List)
			case *ast.IfStmt:
				visit(s.Body.List)
			}
		}
	}
	visit(fi.Decl.Body.List)
	if n < 3 {
		Undecided("LoadSources: only %d error-returning calls found", n)
	}
	// type errors: counted over the whole import graph and turned into an error
	var cnt types.Object
	var cpos token.Pos
	ast.Inspect(fi.Decl.Body, func(x ast.Node) bool {
		if as, ok := x.(*ast.AssignStmt); ok && len(as.Rhs) == 1 {
			if call, ok := as.Rhs[0].(*ast.CallExpr); ok && fullName(calleeOf(info, call)) == "golang.org/x/tools/go/packages.PrintErrors" {
				cnt = objOf(info, identOf(as.Lhs[0]))
				cpos = call.Pos()
			}
		}
		return true
	})
	good := false
	if cnt != nil {
		ast.Inspect(fi.Decl.Body, func(x ast.Node) bool {
			if is, ok := x.(*ast.IfStmt); ok {
				if be, ok := ast.Unparen(is.Cond).(*ast.BinaryExpr); ok && identOf(be.X) != nil && objOf(info, identOf(be.X)) == cnt && (be.Op == token.GTR || be.Op == token.NEQ) && es(be.Y) == "0" {
					if ret, ok := is.Body.List[len(is.Body.List)-1].(*ast.ReturnStmt); ok && len(ret.Results) == 3 && es(ret.Results[2]) != "nil" {
						good = true
					}
				}
			}
			return true
		})
	}
	if !cpos.IsValid() {
		cpos = fi.Decl.Pos()
	}
	r.cond(good, "ERR-C17b", fi.Name, "type errors anywhere in the import graph are an error", w.Pos(cpos), "packages.PrintErrors (which visits every dependency) is counted and a positive count returns an error", "type errors are no longer collected over the whole import graph with packages.PrintErrors and turned into an error: a file whose own package is fine but imports an ill-typed package loads 'successfully'")
}

func checkLoadOrder(w *World, r *Result) {
	fi := w.MustFunc("analysis.LoadSources")
	info := fi.Pkg.TypesInfo
	param := info.Defs[fi.Decl.Type.Params.List[0].Names[0]]
	// out := make([]*packages.Package, len(sourceFiles)); out[i] = selected in a range over sourceFiles with key i
	var outVar types.Object
	ast.Inspect(fi.Decl.Body, func(x ast.Node) bool {
		if ret, ok := x.(*ast.ReturnStmt); ok && len(ret.Results) == 3 && es(ret.Results[2]) == "nil" {
			if id := identOf(ret.Results[0]); id != nil {
				outVar = objOf(info, id)
			}
		}
		return true
	})
	if outVar == nil {
		Undecided("LoadSources: success return not found")
	}
	ls, lsInfo := fi, info // LoadSources itself: where the patterns are built
	// the matching back may live in a helper that returns the slice: `out, err := selectAll(pkgs, sourceFiles)`
	for depth := 0; depth < 2; depth++ {
		defs := defsIn(info, fi.Decl, outVar)
		if len(defs) != 1 {
			break
		}
		call, ok := ast.Unparen(defs[0]).(*ast.CallExpr)
		if !ok {
			break
		}
		h := w.Funcs[calleeOf(info, call)]
		if h == nil || h.Decl.Body == nil || h.Pkg != fi.Pkg {
			break
		}
		// which parameter of the helper receives the list of files
		var hparam types.Object
		k := 0
		for _, f := range h.Decl.Type.Params.List {
			for _, nm := range f.Names {
				if k < len(call.Args) {
					if id := identOf(call.Args[k]); id != nil && objOf(info, id) == param {
						hparam = h.Pkg.TypesInfo.Defs[nm]
					}
				}
				k++
			}
		}
		if hparam == nil {
			break
		}
		var hout types.Object
		ast.Inspect(h.Decl.Body, func(x ast.Node) bool {
			if ret, ok := x.(*ast.ReturnStmt); ok && len(ret.Results) >= 2 && es(ret.Results[len(ret.Results)-1]) == "nil" {
				if id := identOf(ret.Results[0]); id != nil {
					hout = objOf(h.Pkg.TypesInfo, id)
				}
			}
			return true
		})
		if hout == nil {
			break
		}
		fi, info, param, outVar = h, h.Pkg.TypesInfo, hparam, hout
	}
	sized := false
	for _, d := range defsIn(info, fi.Decl, outVar) {
		if call, ok := d.(*ast.CallExpr); ok && isBuiltinCall(info, call, "make") && len(call.Args) == 2 {
			if l, ok := call.Args[1].(*ast.CallExpr); ok && isBuiltinCall(info, l, "len") && identOf(l.Args[0]) != nil && objOf(info, identOf(l.Args[0])) == param {
				sized = true
			}
		}
	}
	r.cond(sized, "SHP-C17o", fi.Name, "one result slot per input file", fnPos(w, fi), "out := make([]*packages.Package, len(sourceFiles))", "the result slice is not sized by the input list")
	filled, nilErr, sameFile := false, false, false
	matched := map[*ast.AssignStmt]bool{} // stores into the result that hold the package matched for the file of that index
	ast.Inspect(fi.Decl.Body, func(x ast.Node) bool {
		rs, ok := x.(*ast.RangeStmt)
		if !ok || identOf(rs.X) == nil || objOf(info, identOf(rs.X)) != param || identOf(rs.Key) == nil {
			return true
		}
		key := info.Defs[identOf(rs.Key)]
		val := types.Object(nil)
		if identOf(rs.Value) != nil {
			val = info.Defs[identOf(rs.Value)]
		}
		ast.Inspect(rs.Body, func(y ast.Node) bool {
			as, ok := y.(*ast.AssignStmt)
			if !ok || len(as.Lhs) != 1 {
				return true
			}
			ix, ok := as.Lhs[0].(*ast.IndexExpr)
			if !ok || identOf(ix.X) == nil || objOf(info, identOf(ix.X)) != outVar {
				return true
			}
			if identOf(ix.Index) != nil && objOf(info, identOf(ix.Index)) == key {
				filled = true
			}
			// selected := selectByFile(pkgs, abs) ; abs from filepath.Abs(sourceFile)
			{
				// the value stored: a variable (its definitions), or the expression itself
				var sel types.Object
				srcs := []ast.Expr{as.Rhs[0]}
				if sid := identOf(as.Rhs[0]); sid != nil {
					sel = objOf(info, sid)
					srcs = defsIn(info, fi.Decl, sel)
				}
				for _, d := range srcs {
					d = ast.Unparen(d)
					if call, ok := d.(*ast.CallExpr); ok && strings.HasSuffix(fullName(calleeOf(info, call)), "analysis.selectByFile") && len(call.Args) == 2 {
						if aid := identOf(call.Args[1]); aid != nil {
							for _, d2 := range defsInRange(info, rs, objOf(info, aid)) {
								if c2, ok := d2.(*ast.CallExpr); ok && fullName(calleeOf(info, c2)) == "path/filepath.Abs" && identOf(c2.Args[0]) != nil && objOf(info, identOf(c2.Args[0])) == val {
									sameFile = true
									matched[as] = true
								}
							}
						}
					}
				}
				// nil check
				ast.Inspect(rs.Body, func(z ast.Node) bool {
					if is, ok := z.(*ast.IfStmt); ok {
						if be, ok := ast.Unparen(is.Cond).(*ast.BinaryExpr); ok && be.Op == token.EQL && ((sel != nil && identOf(be.X) != nil && objOf(info, identOf(be.X)) == sel) || es(be.X) == es(as.Lhs[0])) && es(be.Y) == "nil" && terminates(is.Body) {
							nilErr = true
						}
					}
					return true
				})
			}
			return true
		})
		return true
	})
	r.cond(filled && sameFile, "SHP-C17o", fi.Name, "slot i holds the package matched for file i", fnPos(w, fi), "out[i] = selectByFile(pkgs, Abs(sourceFiles[i])) with i the range index", "the result is not filled at the input's own index with the package matched for that same file")
	// every store into the result is such a match: a slot filled any other way (a shortcut that copies one package into
	// every slot) reports a package for a file that is not among its sources
	ast.Inspect(fi.Decl.Body, func(x ast.Node) bool {
		as, ok := x.(*ast.AssignStmt)
		if !ok || len(as.Lhs) != 1 || matched[as] {
			return true
		}
		if ix, ok := as.Lhs[0].(*ast.IndexExpr); ok && identOf(ix.X) != nil && objOf(info, identOf(ix.X)) == outVar {
			r.bad("SHP-C17o", fi.Name, "store "+normLocals(info, as.Lhs[0])+" = "+normLocals(info, as.Rhs[0]), w.Pos(as.Pos()), "this slot of the result is filled with a package that was not matched against the file of that index (selectByFile on its absolute path): a file that belongs to no loaded package — or to another one — is reported as part of this package, and the missing-file error is skipped")
		}
		return true
	})
	r.cond(nilErr, "SHP-C17o", fi.Name, "a file found in no package is an error", fnPos(w, fi), "`if selected == nil { return …, error }`", "a file that matches no loaded package yields a nil entry instead of an error")
	// patterns
	pat := false
	ast.Inspect(ls.Decl.Body, func(x ast.Node) bool {
		if as, ok := x.(*ast.AssignStmt); ok && len(as.Lhs) == 1 {
			if _, ok := as.Lhs[0].(*ast.IndexExpr); ok {
				if be, ok := as.Rhs[0].(*ast.BinaryExpr); ok && be.Op == token.ADD {
					if tv := lsInfo.Types[be.X]; tv.Value != nil && constant.StringVal(tv.Value) == "file=" {
						pat = true
					}
				}
			}
		}
		return true
	})
	r.cond(pat, "SHP-C17o", ls.Name, "one file= pattern per input", fnPos(w, ls), "patterns[i] = \"file=\" + sourceFile", "the load patterns are no longer one `file=` query per input file")
	// selectByFile compares whole paths
	sb := w.MustFunc("analysis.selectByFile")
	eq := false
	ast.Inspect(sb.Decl.Body, func(x ast.Node) bool {
		if be, ok := x.(*ast.BinaryExpr); ok && be.Op == token.EQL && isStringType(sb.Pkg.TypesInfo.TypeOf(be.X)) {
			eq = true
		}
		// slices.Contains on a []string is the same equality
		if call, ok := x.(*ast.CallExpr); ok && fullName(calleeOf(sb.Pkg.TypesInfo, call)) == "slices.Contains" && len(call.Args) == 2 && isStringType(sb.Pkg.TypesInfo.TypeOf(call.Args[1])) {
			eq = true
		}
		return true
	})
	r.cond(eq, "SHP-C17o", sb.Name, "match by equality of the absolute path", fnPos(w, sb), "source == file", "files are matched to packages by something weaker than path equality (prefix/suffix/base name)")
}

func defsInRange(info *types.Info, rs *ast.RangeStmt, obj types.Object) []ast.Expr {
	var out []ast.Expr
	ast.Inspect(rs.Body, func(n ast.Node) bool {
		if as, ok := n.(*ast.AssignStmt); ok {
			for i, l := range as.Lhs {
				if id := identOf(l); id != nil && objOf(info, id) == obj {
					if len(as.Rhs) == len(as.Lhs) {
						out = append(out, as.Rhs[i])
					} else if len(as.Rhs) == 1 {
						out = append(out, as.Rhs[0])
					}
				}
			}
		}
		return true
	})
	return out
}

package main

// C01: generated Go compiles.

import (
	"fmt"
	"go/ast"
	"go/constant"
	"go/token"
	"go/types"
	"regexp"
	"sort"
	"strconv"
	"strings"
)

func init() { register("C01", "other", checkC01) }

var goGenerators = []string{"generator/go/gounions", "generator/go/randdata", "generator/go/sqlcrud"}

func checkC01(w *World, r *Result) {
	r.Explanation = "Decides, on the template language of the three Go generators (every Declaration content is abstractly evaluated from the generator source into a sketch: literal text, typed holes, repetitions, alternatives; 0 unclassified holes required): TPL-1 every instantiation (repetitions 0..2, thorough 0..3; every alternative chosen) parses as Go; TPL-3 no comma-separated list can contain an empty element; PRINTF every constant format has exactly the arguments it needs (no %!s(MISSING)/%!(EXTRA)); TPL-2 a stub type-check of the instantiations with holes declared as opaque types reports no literal selector on a user type and no literal identifier that neither the standard library nor a sibling template defines; AGR-C01a in randdata the declaration ID, the generated function name and the name used at call sites come from the same functionID, and the literal names of the basic generators equal go/types' names of their kinds; AGR-C01c every <T>ArrayToPQ / Scan<T>Array a template calls is declared by idArrayConverters(<T>) in the same function under no stronger condition (apart from the documented generateArrayConverter test); AGR-C01q type names are printed relative to the package the generated file belongs to; DECL-ID declaration IDs cover what their content reads (no two different declarations merged, none duplicated). Does not decide: well-formedness of hole fillers for every input (type strings of foreign generic types, identifier collisions between user types), import completeness after goimports. Known: NewDateFrom/.Time() convention required from the user package for local date types."
	r.Rules = []string{"TPL-1", "TPL-3", "TPL-5", "TPL-6", "TPL-7", "PRINTF", "TPL-2", "AGR-C01a", "AGR-C01c", "AGR-C01q", "AGR-C01u", "AGR-C01g", "TYPE-SRC", "AGR-C15d", "UTF8-SLICE", "DECL-ID", "GEN-ID", "PKG-ID", "ALIAS-APPEND", "CACHE-DROP", "AGR-C11c", "AGR-C11f", "FLW-C16b"}
	// the union table consumed by the templates: candidates are the defined named types of the scope, each once (rule shared with C11)
	checkCandidates(w, r)
	// the generated switches and literals name every member as a value of the interface: a member is a type whose own
	// method set implements it (rule shared with C11)
	shared(r, func(o Ob) bool { return o.Rule == "AGR-C11f" }, func(sub *Result) { checkMemberFilter(w, sub) })
	// enum values substituted into a custom query end up inside a Go string literal of the generated CRUD code: they
	// go through the one conversion the SQL side uses (rule shared with C16)
	shared(r, func(o Ob) bool { return o.Rule == "FLW-C16b" }, func(sub *Result) { checkQuoteConversion(w, sub) })
	cacheDropRule(w, r, func(rel string) bool {
		return rel == "generator/go/gounions" || rel == "generator/go/randdata" || rel == "generator/go/sqlcrud"
	})
	aliasAppendRule(w, r, func(rel string) bool {
		return rel == "generator" || rel == "generator/go/gounions" || rel == "generator/go/randdata" || rel == "generator/go/sqlcrud" || rel == "analysis/sql"
	})
	r.Assumptions = []string{"holes of class IDENT/TYPE are filled with well-formed Go identifiers/type expressions (they come from go/types)", "goimports adds/removes imports of the standard library and of the packages listed in the header"}
	maxRep := 2
	if w.Tier == "thorough" {
		maxRep = 3
	}
	np := 0
	for _, rel := range goGenerators {
		np += printfRule(w, r, rel)
	}
	r.note("printf_sites", np)
	for _, o := range r.Obs {
		if o.Rule == "PRINTF" && o.Verdict == VViolation {
			return // a format without its arguments cannot be instantiated: the PRINTF report is the verdict
		}
	}
	checkRandNames(w, r)
	nd, ni := 0, 0
	for _, rel := range goGenerators {
		a, b := runTPLGo(w, r, rel, maxRep)
		nd += a
		ni += b
	}
	r.note("declaration_templates", nd)
	r.note("instantiations", ni)
	if nd < 20 {
		Undecided("only %d declaration templates extracted from the Go generators", nd)
	}
	checkConverterClosure(w, r)
	checkQualifier(w, r)
	checkUniqueSelectors(w, r)
	checkArrayConverterPredicate(w, r)
	if typeSrcRule(w, r, goGenerators) < 1 {
		Undecided("TYPE-SRC: no types.TypeString over an analysis node found in the Go generators")
	}
	checkDeclaredOnEveryPath(w, r)
	utf8SliceRule(w, r, func(rel string) bool { return rel == "generator" || strings.HasPrefix(rel, "generator/go/") })
	pkgIDRule(w, r, func(rel string) bool { return rel == "generator" || strings.HasPrefix(rel, "generator/go/") })
	for _, rel := range goGenerators {
		declIDRule(w, r, rel)
		genIDRule(w, r, rel)
	}
	// the assembly keeps one declaration per ID (rule shared with C19): two declarations of one ID written twice are a
	// redeclaration in the generated file
	{
		sub := &Result{Prop: "C19"}
		checkC19(w, sub)
		for _, o := range sub.Obs {
			if o.Rule == "PTH-C19a" {
				r.add(o)
			}
		}
	}
	genIDAccumulation(w, r)
	n := stubTypeCheck(w, r)
	r.note("stub_typechecked_instantiations", n)
}

// printfRule: argument count of constant-format printf calls.
func printfRule(w *World, r *Result, rel string) int {
	n := 0
	p := w.ByRel[rel]
	info := p.TypesInfo
	for _, f := range p.Syntax {
		ast.Inspect(f, func(x ast.Node) bool {
			call, ok := x.(*ast.CallExpr)
			if !ok {
				return true
			}
			first, isFmt := map[string]int{"fmt.Sprintf": 0, "fmt.Errorf": 0, "fmt.Printf": 0, "fmt.Fprintf": 1, "log.Printf": 0, "fmt.Appendf": 1}[fullName(calleeOf(info, call))]
			if !isFmt || len(call.Args) <= first || call.Ellipsis.IsValid() {
				return true
			}
			tv := info.Types[call.Args[first]]
			var formats []string // the constant format, or every constant a helper's format parameter receives
			if tv.Value != nil && tv.Value.Kind() == constant.String {
				formats = []string{constant.StringVal(tv.Value)}
			} else if id := identOf(call.Args[first]); id != nil {
				// the format is a parameter of an unexported function that only ever receives constants
				if host := funcContaining(call); host != nil && !host.Obj.Exported() && paramIndex(host, objOf(info, id)) >= 0 {
					ds, wh := defsThroughAny(w, host, objOf(info, id))
					all := len(ds) > 0
					for i, d := range ds {
						dtv := wh[i].Pkg.TypesInfo.Types[d]
						if dtv.Value == nil || dtv.Value.Kind() != constant.String {
							all = false
							break
						}
						formats = append(formats, constant.StringVal(dtv.Value))
					}
					// every use of the function is a call (no unknown caller through a function value)
					if all {
						for _, fi2 := range sortedFuncs(w) {
							callees := map[*ast.Ident]bool{}
							ast.Inspect(fi2.Decl.Body, func(y ast.Node) bool {
								if c2, ok := y.(*ast.CallExpr); ok {
									switch f := ast.Unparen(c2.Fun).(type) {
									case *ast.Ident:
										callees[f] = true
									case *ast.SelectorExpr:
										callees[f.Sel] = true
									}
								}
								return true
							})
							ast.Inspect(fi2.Decl.Body, func(y ast.Node) bool {
								if i2, ok := y.(*ast.Ident); ok && fi2.Pkg.TypesInfo.Uses[i2] == types.Object(host.Obj) && !callees[i2] {
									all = false
								}
								return true
							})
						}
					}
					if !all {
						formats = nil
					}
				}
			}
			if formats == nil {
				// constants, locals every definition of which is a constant, and concatenations of those: one of the
				// finitely many constant formats
				if host := funcContaining(call); host != nil {
					if fs, ok := constStringAlts(info, host, call.Args[first], 0); ok {
						formats = fs
					}
				}
			}
			if formats == nil {
				n++
				fname := "?"
				for _, fi := range sortedFuncs(w) {
					if fi.Pkg == p && fi.Decl.Pos() <= call.Pos() && call.End() <= fi.Decl.End() {
						fname = fi.Name
					}
				}
				r.bad("PRINTF", fname, "format "+es(call.Args[first]), w.Pos(call.Pos()), "the format of "+fullName(calleeOf(info, call))+" is not a constant: text computed from the analysed program is interpreted as a format, so a `%` in it (an enum value \"%\", a comment `100 %`) corrupts the output and consumes the arguments meant for the real verbs")
				return true
			}
			for _, format := range formats {
				n++
				// %+q / %#q / %x of text are Go-specific spellings (\U0001d4b3, backquotes, hex): fine in Go sources, wrong in
				// every other target language
				if rel != "generator/go/gounions" && rel != "generator/go/randdata" && rel != "generator/go/sqlcrud" && (fullName(calleeOf(info, call)) == "fmt.Sprintf" || fullName(calleeOf(info, call)) == "fmt.Fprintf") {
					for _, m := range regexp.MustCompile(`%(\[\d+\])?[+#0 -]+[qsv]`).FindAllString(format, -1) {
						fname := "?"
						for _, fi := range sortedFuncs(w) {
							if fi.Pkg == p && fi.Decl.Pos() <= call.Pos() && call.End() <= fi.Decl.End() {
								fname = fi.Name
							}
						}
						r.bad("PRINTF", fname, "verb "+m+" in "+strconv.Quote(strings.TrimSpace(format)), w.Pos(call.Pos()), "the flagged verb "+m+" prints Go-specific escapes (`%+q` writes a character outside the BMP as \\U0001d4b3, which JavaScript, Dart and SQL do not read as that character): text that Go emits verbatim no longer matches the generated literal")
					}
				}
				nargs := len(call.Args) - first - 1
				argi, maxUsed, reordered := 0, 0, false
				missing := false
				for _, m := range verbRe.FindAllStringSubmatchIndex(format, -1) {
					if format[m[0]:m[1]] == "%%" {
						continue
					}
					if m[2] >= 0 {
						var k int
						fmtSscan(format[m[2]+1:m[3]-1], &k)
						argi = k - 1
						reordered = true
					}
					if argi >= nargs || argi < 0 {
						missing = true
					}
					argi++
					if argi > maxUsed {
						maxUsed = argi
					}
				}
				fn := w.EnclosingFunc(p, call.Pos())
				head := strings.Join(strings.Fields(format), " ")
				if len(head) > 40 {
					head = head[:40] + "…"
				}
				cons := fmt.Sprintf("%s(%q, %d args)", es(call.Fun), head, nargs)
				switch {
				case missing:
					r.bad("PRINTF", fn, cons, w.Pos(call.Pos()), "the format refers to an argument that is not passed: the output contains %!s(MISSING) / %!s(BADINDEX)")
				case !reordered && maxUsed < nargs:
					r.bad("PRINTF", fn, cons, w.Pos(call.Pos()), fmt.Sprintf("the format consumes %d arguments but %d are passed: the output ends with %%!(EXTRA …)", maxUsed, nargs))
				default:
					r.ok("PRINTF", fn, cons, w.Pos(call.Pos()), "every verb has its argument and (without explicit indices) no argument is left over", false)
				}
			}
			return true
		})
	}
	return n
}

// checkRandNames (AGR-C01a)
func checkRandNames(w *World, r *Result) {
	rel := "generator/go/randdata"
	fid := w.MustFunc("generator/go/randdata.(context).functionID")
	nameRe := regexp.MustCompile(`func rand(%s|%\[1\]s)\(`)
	n := 0
	for _, fi := range sortedFuncs(w) {
		if w.Rel(fi.Obj.Pkg()) != rel {
			continue
		}
		info := fi.Pkg.TypesInfo
		// id, … := ctx.functionID(ty) ; Declaration{ID: id, Content: Sprintf(`func rand%s() …`, id, …)}
		ast.Inspect(fi.Decl.Body, func(x ast.Node) bool {
			lit, ok := x.(*ast.CompositeLit)
			if !ok || info.TypeOf(lit) == nil || !strings.HasSuffix(info.TypeOf(lit).String(), "generator.Declaration") {
				return true
			}
			var idE ast.Expr
			var content *ast.CallExpr
			for _, el := range lit.Elts {
				if kv, ok := el.(*ast.KeyValueExpr); ok {
					switch es(kv.Key) {
					case "ID":
						idE = kv.Value
					case "Content":
						if c, ok := kv.Value.(*ast.CallExpr); ok {
							content = c
						} else if id := identOf(kv.Value); id != nil {
							for _, d := range defsIn(info, fi.Decl, objOf(info, id)) {
								if c := sprintfView(info, d); c != nil {
									content = c
								}
							}
						}
					}
				}
			}
			if idE == nil || content == nil || !isSprintf(info, &content) {
				return true
			}
			format, vas := verbArgs(info, content)
			loc := nameRe.FindStringIndex(format)
			if loc == nil {
				return true
			}
			n++
			var nameArg ast.Expr
			for _, va := range vas {
				if va.start >= loc[0] && va.start < loc[1] {
					nameArg = va.arg
				}
			}
			same := nameArg != nil && sameValue(info, fi, idE, nameArg)
			viaFID := derivesFrom(info, fi, idE, fid.Obj)
			r.cond(same && viaFID, "AGR-C01a", fi.Name, "ID and generated function name from one functionID", w.Pos(lit.Pos()),
				"Declaration.ID and the name after `func rand` are the same functionID value: deduplication by ID neither drops nor duplicates a function",
				"the declaration ID ("+es(idE)+") and the generated function name ("+exprStr(nameArg)+") are not the same functionID value: two functions with one ID (one is dropped: undefined at its call sites) or one function under two IDs (duplicate definition)")
			// callee names inside the content: every `rand%s()` call hole is functionID(child)
			for _, va := range vas {
				if va.arg == nil || va.start < 4 || format[va.start-4:va.start] != "rand" || (va.start >= loc[0] && va.start < loc[1]) {
					continue
				}
				r.cond(derivesFrom(info, fi, va.arg, fid.Obj), "AGR-C01a", fi.Name, "call rand<"+es(va.arg)+">()", w.Pos(content.Pos()), "the callee name is functionID of the child: the name under which the child's generator is declared", "a generated call `rand"+es(va.arg)+"()` is not named by functionID of the child type: it refers to a function that is declared under another name")
			}
			return true
		})
	}
	if n < 6 {
		Undecided("randdata: only %d `func rand<ID>` declarations recognised", n)
	}
	// basic kinds: literal name == go/types name of the kind
	cb := w.MustFunc("generator/go/randdata.(context).codeForBasic")
	info := cb.Pkg.TypesInfo
	nb := 0
	ast.Inspect(cb.Decl.Body, func(x ast.Node) bool {
		cc, ok := x.(*ast.CaseClause)
		if !ok || len(cc.List) == 0 || len(cc.Body) != 1 {
			return true
		}
		as, ok := cc.Body[0].(*ast.AssignStmt)
		if !ok {
			return true
		}
		call, ok := as.Rhs[0].(*ast.CallExpr)
		constCode := ""
		if !ok {
			// the template may be a (named) string constant instead of a function returning it
			if cv := info.Types[as.Rhs[0]]; cv.Value != nil && cv.Value.Kind() == constant.String {
				constCode = constant.StringVal(cv.Value)
			} else {
				return true
			}
		}
		for _, ke := range cc.List {
			tv := info.Types[ke]
			if tv.Value == nil {
				continue
			}
			k, _ := constant.Int64Val(tv.Value)
			if k <= 0 || int(k) >= len(types.Typ) {
				continue
			}
			want := types.Typ[k].Name()
			got := ""
			dynamic := ""
			if call == nil {
				if m := regexp.MustCompile(`func rand(\w+)\(`).FindStringSubmatch(constCode); m != nil {
					got = m[1]
				}
			} else if len(call.Args) == 1 {
				if av := info.Types[call.Args[0]]; av.Value != nil {
					got = constant.StringVal(av.Value)
				} else if c2, ok := ast.Unparen(call.Args[0]).(*ast.CallExpr); ok {
					switch fullName(calleeOf(info, c2)) {
					case "(*go/types.Basic).Name":
						dynamic = "basic-name"
						// types.Typ[kind].Name() is the canonical name of the kind ("uint8", never "byte"): what functionID uses
						if sel, ok := ast.Unparen(c2.Fun).(*ast.SelectorExpr); ok {
							if ix, ok := ast.Unparen(sel.X).(*ast.IndexExpr); ok {
								if ts, ok := ast.Unparen(ix.X).(*ast.SelectorExpr); ok {
									if v, ok := info.Uses[ts.Sel].(*types.Var); ok && v.Pkg() != nil && v.Pkg().Path() == "go/types" && v.Name() == "Typ" {
										dynamic = "function-id"
									}
								}
							}
						}
					default:
						if fn := calleeOf(info, c2); fn != nil && fn.Name() == "functionIDBasicOrNamed" {
							dynamic = "function-id"
						}
					}
				}
			} else if fn := calleeOf(info, call); fn != nil && w.Funcs[fn] != nil {
				ast.Inspect(w.Funcs[fn].Decl.Body, func(y ast.Node) bool {
					if bl, ok := y.(*ast.BasicLit); ok && bl.Kind == token.STRING {
						if m := regexp.MustCompile(`func rand(\w+)\(`).FindStringSubmatch(bl.Value); m != nil {
							got = m[1]
						}
					}
					return true
				})
			}
			nb++
			cons := "case " + es(ke) + ": rand" + got
			switch dynamic {
			case "function-id":
				r.ok("AGR-C01a", cb.Name, "case "+es(ke)+": rand<functionID>", w.Pos(cc.Pos()), "the function is named by the same functionID its call sites use", true)
			case "basic-name":
				r.bad("AGR-C01a", cb.Name, "case "+es(ke)+": rand<Basic.Name()>", w.Pos(cc.Pos()), "the generated function is named after (*types.Basic).Name(), which is `byte` / `rune` for the alias spellings of uint8 / int32, while the call sites use functionID, which normalises them to uint8 / int32: a byte or rune field calls randuint8 / randint32, which is never declared")
			default:
				r.cond(got == want, "AGR-C01a", cb.Name, cons, w.Pos(cc.Pos()), "the literal function name equals go/types' name of the kind ("+want+"), which is what functionID returns for it", "for "+es(ke)+" the generated function is rand"+got+" but call sites use rand"+want+" (functionID = go/types name of the kind)")
			}
		}
		return true
	})
	// default clause: nothing but a refusal may use the name of the basic type
	ast.Inspect(cb.Decl.Body, func(x ast.Node) bool {
		cc, ok := x.(*ast.CaseClause)
		if !ok || cc.List != nil {
			return true
		}
		ast.Inspect(&ast.BlockStmt{List: cc.Body}, func(y ast.Node) bool {
			call, ok := y.(*ast.CallExpr)
			if !ok || isBuiltinCall(info, call, "panic") {
				return !ok
			}
			for _, a := range call.Args {
				if c2, ok := ast.Unparen(a).(*ast.CallExpr); ok && fullName(calleeOf(info, c2)) == "(*go/types.Basic).Name" {
					if fn := calleeOf(info, call); fn != nil && w.Funcs[fn] != nil {
						r.bad("AGR-C01a", cb.Name, "default: "+es(call), w.Pos(call.Pos()), "the default branch generates a function for every remaining kind from (*types.Basic).Name(): kinds the templates cannot handle (complex64/128 get `complex128(rand.Intn(…))`, which is ill-typed; byte/rune are named differently at the call sites) are accepted instead of refused")
					}
				}
			}
			return true
		})
		return false
	})
	// kind -> name tables: every entry is the go/types name of its kind
	for _, f := range cb.Pkg.Syntax {
		ast.Inspect(f, func(x ast.Node) bool {
			lit, ok := x.(*ast.CompositeLit)
			if !ok {
				return true
			}
			mt, ok := info.TypeOf(lit).Underlying().(*types.Map)
			if !ok || mt.Key().String() != "go/types.BasicKind" || !isStringType(mt.Elem()) {
				return true
			}
			for _, el := range lit.Elts {
				kv, ok := el.(*ast.KeyValueExpr)
				if !ok {
					continue
				}
				ktv, vtv := info.Types[kv.Key], info.Types[kv.Value]
				if ktv.Value == nil || vtv.Value == nil {
					continue
				}
				k, _ := constant.Int64Val(ktv.Value)
				if k <= 0 || int(k) >= len(types.Typ) {
					continue
				}
				nb++
				want, got := types.Typ[k].Name(), constant.StringVal(vtv.Value)
				r.cond(got == want, "AGR-C01a", cb.Name, "table entry "+es(kv.Key)+": "+got, w.Pos(kv.Pos()), "the name equals go/types' name of the kind ("+want+")", "the kind table maps "+es(kv.Key)+" to \""+got+"\" but call sites use rand"+want+" (functionID = go/types name of the kind): the generated function is declared under another name than the one it is called by")
			}
			return true
		})
	}
	if nb < 8 {
		Undecided("randdata.codeForBasic: only %d kinds recognised", nb)
	}
}

func exprStr(e ast.Expr) string {
	if e == nil {
		return "?"
	}
	return es(e)
}

// sameValue: a and b are the same variable, or textually the same call.
func sameValue(info *types.Info, fi *FuncInfo, a, b ast.Expr) bool {
	if ia, ib := identOf(a), identOf(b); ia != nil && ib != nil {
		return objOf(info, ia) == objOf(info, ib)
	}
	return es(a) == es(b)
}

// derivesFrom: e is a call to fn or a local whose every definition is such a call (possibly via tuple assign).
func derivesFrom(info *types.Info, fi *FuncInfo, e ast.Expr, fn *types.Func) bool {
	e = ast.Unparen(e)
	if call, ok := e.(*ast.CallExpr); ok {
		return calleeOf(info, call) == fn
	}
	id := identOf(e)
	if id == nil {
		return false
	}
	obj := objOf(info, id)
	found, all := false, true
	ast.Inspect(fi.Decl, func(n ast.Node) bool {
		as, ok := n.(*ast.AssignStmt)
		if !ok {
			return true
		}
		for i, l := range as.Lhs {
			if li := identOf(l); li != nil && objOf(info, li) == obj && len(as.Lhs) == len(as.Rhs) {
				if call, ok := as.Rhs[i].(*ast.CallExpr); ok && calleeOf(info, call) == fn {
					found = true
				} else {
					all = false
				}
			}
		}
		return true
	})
	return found && all
}

// checkConverterClosure (AGR-C01c)
func checkConverterClosure(w *World, r *Result) {
	conv := w.MustFunc("generator/go/sqlcrud.(context).idArrayConverters")
	useRe := regexp.MustCompile(`(%(\[\d+\])?s)ArrayToPQ\(|Scan(%(\[\d+\])?s)Array\(`)
	n := 0
	for _, q := range []string{"generator/go/sqlcrud.(context).generatePrimaryTable", "generator/go/sqlcrud.(context).generateLinkTable"} {
		fi := w.MustFunc(q)
		info := fi.Pkg.TypesInfo
		type site struct {
			text  string
			conds []string
			pos   token.Pos
		}
		condsOf := func(n ast.Node) []string {
			var cs []string
			for _, c := range pathConds(fi.Decl, n) {
				if c.loop || c.expr == nil {
					continue
				}
				s := es(c.expr)
				if !c.truth {
					s = "!(" + s + ")"
				}
				cs = append(cs, s)
			}
			return cs
		}
		var defs []site
		ast.Inspect(fi.Decl.Body, func(x ast.Node) bool {
			if call, ok := x.(*ast.CallExpr); ok && calleeOf(info, call) == conv.Obj && len(call.Args) == 1 {
				defs = append(defs, site{es(call.Args[0]), condsOf(call), call.Pos()})
			}
			return true
		})
		seen := map[string]bool{}
		ast.Inspect(fi.Decl.Body, func(x ast.Node) bool {
			call := sprintfView(info, x)
			if call == nil {
				return true
			}
			format, vas := verbArgs(info, call)
			for _, m := range useRe.FindAllStringSubmatchIndex(format, -1) {
				vs := m[2]
				if vs < 0 {
					vs = m[6]
				}
				for _, va := range vas {
					if va.start != vs || va.arg == nil {
						continue
					}
					use := site{es(va.arg), condsOf(call), call.Pos()}
					key := use.text + "|" + strings.Join(use.conds, "&")
					if seen[key] {
						continue
					}
					seen[key] = true
					n++
					good := false
					why := "no idArrayConverters(" + use.text + ") in this function"
					for _, d := range defs {
						if d.text != use.text {
							continue
						}
						extra := []string{}
						for _, dc := range d.conds {
							if containsStr(use.conds, dc) || strings.Contains(dc, "generateArrayConverter(") {
								continue
							}
							extra = append(extra, dc)
						}
						if len(extra) == 0 {
							good = true
						} else {
							why = "idArrayConverters(" + use.text + ") is only appended under {" + strings.Join(extra, " ; ") + "}, which the use is not subject to"
						}
					}
					r.cond(good, "AGR-C01c", fi.Name, "use of <"+use.text+">ArrayToPQ / Scan<"+use.text+">Array", w.Pos(use.pos),
						"the converter for the same type name is declared in this function whenever the template that calls it is emitted",
						"a template calls the array converter of "+use.text+", but "+why+": for such a key (e.g. a nullable foreign key of a link table) the generated file calls an undefined function")
				}
			}
			return true
		})
	}
	if n < 3 {
		Undecided("sqlcrud: only %d converter uses recognised", n)
	}
}

// checkQualifier (AGR-C01q)
func checkQualifier(w *World, r *Result) {
	nr := w.MustFunc("generator.NameRelativeTo")
	n := 0
	for _, fi := range sortedFuncs(w) {
		rel := w.Rel(fi.Obj.Pkg())
		isGo := false
		for _, g := range goGenerators {
			if rel == g {
				isGo = true
			}
		}
		if !isGo {
			continue
		}
		info := fi.Pkg.TypesInfo
		ast.Inspect(fi.Decl.Body, func(x ast.Node) bool {
			call, ok := x.(*ast.CallExpr)
			if !ok || calleeOf(info, call) != nr.Obj || len(call.Args) != 1 {
				return true
			}
			n++
			pc := &pathCtx{w: w, fi: fi, seen: map[types.Object]bool{}, keepContext: true, noParams: true}
			ps := map[string]bool{}
			pc.pathsOf(call.Args[0], 0, ps)
			var paths []string
			for p := range ps {
				paths = append(paths, p)
			}
			sort.Strings(paths)
			good := len(paths) > 0
			for _, p := range paths {
				// the generated file's package: the context's target package, or the package of the node being declared itself
				okCtx := strings.HasPrefix(p, "ctx.targetPackage") || strings.HasPrefix(p, "ctx.ana.Pkg") || strings.HasPrefix(p, "ctx.srcPkg")
				okSelf := !strings.Contains(p, "[") && !strings.Contains(p, ".Fields") && !strings.Contains(p, ".Field.") && strings.Contains(p, ".Type()") && isOwnNodeParam(w, fi, strings.SplitN(p, ".", 2)[0])
				if !okCtx && !okSelf {
					good = false
				}
			}
			r.cond(good, "AGR-C01q", fi.Name, "NameRelativeTo("+es(call.Args[0])+")", w.Pos(call.Pos()),
				"type names are qualified relative to the package the generated code lives in (the target package of the context, or the package of the type the method is declared on)",
				"type names are printed relative to "+es(call.Args[0])+" {"+strings.Join(paths, ", ")+"}, which is not the package of the generated file: a type of another package comes out unqualified (undefined identifier) or a local one qualified")
			return true
		})
	}
	if n < 4 {
		Undecided("only %d NameRelativeTo calls in the Go generators", n)
	}
}

func isOwnNodeParam(w *World, fi *FuncInfo, name string) bool {
	sig := fi.Obj.Type().(*types.Signature)
	for i := 0; i < sig.Params().Len(); i++ {
		if sig.Params().At(i).Name() == name && len(kindsOfStatic(w, sig.Params().At(i).Type())) > 0 {
			return true
		}
	}
	return false
}

// checkUniqueSelectors (AGR-C01u): `Select<T>By<Field>` is declared by two generators -- the foreign-key loops of
// generatePrimaryTable / generateLinkTable (for a key under a UNIQUE constraint) and generateSelectByUniques (for the
// column lists of Table.AdditionalUniqueCols). The two domains are disjoint because AdditionalUniqueCols drops
// every single column that is a foreign key. Obligations: (1) the exclusion set is filled for every foreign key
// (no condition on the store); (2) each foreign-key loop declares the selector under `key.IsUnique` only.
// A narrower exclusion set declares the same function twice for the keys it leaves out.
func checkUniqueSelectors(w *World, r *Result) {
	au := w.MustFunc("analysis/sql.(Table).AdditionalUniqueCols")
	info := au.Pkg.TypesInfo
	fkMethod := w.MustFunc("analysis/sql.(Table).ForeignKeys").Obj
	var excl *ast.AssignStmt
	var loop *ast.RangeStmt
	ast.Inspect(au.Decl.Body, func(x ast.Node) bool {
		rs, ok := x.(*ast.RangeStmt)
		if !ok {
			return true
		}
		if call, ok := ast.Unparen(rs.X).(*ast.CallExpr); ok && calleeOf(info, call) == fkMethod {
			loop = rs
			ast.Inspect(rs.Body, func(y ast.Node) bool {
				if as, ok := y.(*ast.AssignStmt); ok && len(as.Lhs) == 1 {
					if _, isIx := as.Lhs[0].(*ast.IndexExpr); isIx {
						excl = as
					}
				}
				return true
			})
		}
		return true
	})
	// the same exclusion as a search: `slices.ContainsFunc(ta.ForeignKeys(), func(key) bool { return key… == name })`
	var search *ast.CallExpr
	searchWhole := false
	if loop == nil || excl == nil {
		fromFK := func(e ast.Expr) bool {
			if call, ok := ast.Unparen(e).(*ast.CallExpr); ok && calleeOf(info, call) == fkMethod {
				return true
			}
			if id := identOf(e); id != nil {
				ds := defsIn(info, au.Decl, objOf(info, id))
				if len(ds) == 1 {
					if call, ok := ast.Unparen(ds[0]).(*ast.CallExpr); ok && calleeOf(info, call) == fkMethod {
						return true
					}
				}
			}
			return false
		}
		ast.Inspect(au.Decl.Body, func(x ast.Node) bool {
			call, ok := x.(*ast.CallExpr)
			if !ok || len(call.Args) != 2 {
				return true
			}
			if f := fullName(calleeOf(info, call)); (f == "slices.ContainsFunc" || f == "slices.IndexFunc") && fromFK(call.Args[0]) {
				search = call
				if body, _, _ := callbackOf(w, au, call.Args[1]); body != nil && len(body.List) == 1 {
					if ret, ok := body.List[0].(*ast.ReturnStmt); ok && len(ret.Results) == 1 {
						if be, ok := ast.Unparen(ret.Results[0]).(*ast.BinaryExpr); ok && be.Op == token.EQL {
							searchWhole = true // one equality on the element: every foreign key takes part
						}
					}
				}
			}
			return true
		})
		if search == nil {
			Undecided("AGR-C01u: AdditionalUniqueCols no longer builds its exclusion set from a loop over ForeignKeys()")
		}
		r.cond(searchWhole, "AGR-C01u", au.Name, "every foreign key is excluded from the generic unique selectors", w.Pos(search.Pos()),
			"the exclusion test searches all of ForeignKeys() with a single equality on the element",
			"the search over ForeignKeys() has a predicate that is more than one equality: some foreign keys are left out of the exclusion, and for such a key under a single-column UNIQUE constraint Select<T>By<Field> is declared twice")
	} else {
		conds := condSet(info, pathCondsNoLoop(au, excl), nil)
		r.cond(len(conds) == 0, "AGR-C01u", au.Name, "every foreign key is excluded from the generic unique selectors", w.Pos(excl.Pos()),
			"the exclusion set gets every element of ForeignKeys(), unconditionally",
			"a foreign key is left out of the exclusion set when {"+strings.Join(conds, ", ")+"}: for such a key under a single-column UNIQUE constraint, Select<T>By<Field> is declared both by the foreign-key loop and by generateSelectByUniques (redeclared identifier)")
	}
	// the foreign-key loops of sqlcrud
	n := 0
	for _, fi := range sortedFuncs(w) {
		if w.Rel(fi.Obj.Pkg()) != "generator/go/sqlcrud" || fi.Decl.Body == nil {
			continue
		}
		finfo := fi.Pkg.TypesInfo
		ast.Inspect(fi.Decl.Body, func(x ast.Node) bool {
			rs, ok := x.(*ast.RangeStmt)
			if !ok {
				return true
			}
			call, ok := ast.Unparen(rs.X).(*ast.CallExpr)
			if !ok || calleeOf(finfo, call) != fkMethod {
				return true
			}
			v := identOf(rs.Value)
			if v == nil {
				return true
			}
			subst := map[types.Object]string{finfo.Defs[v]: "$key"}
			ast.Inspect(rs.Body, func(y ast.Node) bool {
				sp := sprintfView(finfo, y)
				if sp == nil || len(sp.Args) == 0 {
					return true
				}
				tv := finfo.Types[sp.Args[0]]
				if tv.Value == nil || !strings.Contains(constant.StringVal(tv.Value), "func Select%[1]sBy%[2]s(") {
					return true
				}
				n++
				var cs []string
				for _, c := range pathConds(fi.Decl, sp) {
					if c.loop || c.expr == nil || !(rs.Body.Pos() <= c.expr.Pos() && c.expr.End() <= rs.Body.End()) {
						continue
					}
					s := render(finfo, c.expr, subst)
					if !c.truth {
						s = "!(" + s + ")"
					}
					cs = append(cs, s)
				}
				r.cond(len(cs) == 1 && cs[0] == "$key.IsUnique", "AGR-C01u", fi.Name, "Select<T>By<Field> declared for unique foreign keys only", w.Pos(sp.Pos()),
					"declared under exactly `key.IsUnique`: its domain (unique foreign keys) is inside the set AdditionalUniqueCols excludes",
					"declared under {"+strings.Join(cs, ", ")+"} instead of exactly `key.IsUnique`: the domain of this declaration and that of generateSelectByUniques are no longer known to be disjoint")
				return true
			})
			return true
		})
	}
	if n < 1 {
		Undecided("AGR-C01u: no Select<T>By<Field> template found in a foreign-key loop of sqlcrud")
	}
}

// checkArrayConverterPredicate (AGR-C01g): idArrayConverters declares `func <T>ArrayToPQ`, `Scan<T>Array`,
// `type <T>Set` with <T> the printed name of the key's ID type, so it may only be generated when that name is a
// plain identifier of the target package: the type is int64 itself, or a named type declared in the analysed
// package. generateArrayConverter must therefore answer true only (a) under `typeName(ty) == "int64"` on the type
// itself (its Underlying() is int64 for every ID type, also the foreign ones) or (b) with the comparison of the
// type's package with the analysed package.
func checkArrayConverterPredicate(w *World, r *Result) {
	fi := w.MustFunc("generator/go/sqlcrud.(context).generateArrayConverter")
	info := fi.Pkg.TypesInfo
	n := 0
	ast.Inspect(fi.Decl.Body, func(x ast.Node) bool {
		ret, ok := x.(*ast.ReturnStmt)
		if !ok || len(ret.Results) != 1 {
			return true
		}
		n++
		res := ast.Unparen(ret.Results[0])
		cons := "return " + es(res)
		pos := w.Pos(ret.Pos())
		if tv := info.Types[res]; tv.Value != nil && tv.Value.Kind() == constant.Bool {
			if !constant.BoolVal(tv.Value) {
				r.ok("AGR-C01g", fi.Name, cons, pos, "no converter generated", false)
				return true
			}
			// return true: must be under typeName(<identifier>) == "int64"
			good, seen := false, ""
			for _, c := range pathConds(fi.Decl, ret) {
				be, ok := c.expr.(*ast.BinaryExpr)
				if !ok || !c.truth || be.Op != token.EQL {
					continue
				}
				call, ok := ast.Unparen(be.X).(*ast.CallExpr)
				if !ok || len(call.Args) != 1 {
					continue
				}
				if fn := calleeOf(info, call); fn == nil || fn.Name() != "typeName" {
					continue
				}
				seen = es(c.expr)
				if tv := info.Types[be.Y]; tv.Value != nil && tv.Value.Kind() == constant.String && constant.StringVal(tv.Value) == "int64" {
					if _, isIdent := ast.Unparen(call.Args[0]).(*ast.Ident); isIdent {
						good = true
					}
				}
			}
			r.cond(good, "AGR-C01g", fi.Name, cons, pos,
				"true only when the printed name of the type itself is int64",
				"the converters are generated under `"+seen+"`, which is not the test that the ID type itself prints as int64: every ID type has int64 as underlying type, so a key typed by a named int64 of another package gets `func shared.IdArrayToPQ`, `type shared.IdSet`, which do not parse")
			return true
		}
		// return <comparison of packages>
		// a conjunction of "is a named type" (the ok of an assertion to *types.Named) and the package equality
		good, hasPkgEq := true, false
		for _, cj := range splitCond(res, true) {
			if id := identOf(cj.expr); id != nil && cj.truth {
				if typ, _, _ := okVarInfo(info, fi.Decl, cj.expr); typ == "*go/types.Named" {
					continue
				}
			}
			be, ok := cj.expr.(*ast.BinaryExpr)
			if !ok || !cj.truth || be.Op != token.EQL {
				good = false
				continue
			}
			kx, ky := pkgStringKind(info, be.X), pkgStringKind(info, be.Y)
			if (kx == "obj" || kx == "path") && (ky == "obj" || ky == "path") {
				hasPkgEq = true
			} else {
				good = false
			}
		}
		good = good && hasPkgEq
		r.cond(good, "AGR-C01g", fi.Name, cons, pos, "true exactly when the named type is declared in the analysed package", "the converters are generated for a named type under a condition that is not `its package is the analysed package`: the generated identifiers are qualified names")
		return true
	})
	if n < 2 {
		Undecided("AGR-C01g: generateArrayConverter has %d returns", n)
	}
}

// constStringAlts: the finitely many constant strings e can evaluate to: a constant, a local (not a parameter) every
// definition of which is such an expression, or a concatenation of such expressions.
func constStringAlts(info *types.Info, host *FuncInfo, e ast.Expr, depth int) ([]string, bool) {
	if depth > 4 {
		return nil, false
	}
	if tv := info.Types[e]; tv.Value != nil && tv.Value.Kind() == constant.String {
		return []string{constant.StringVal(tv.Value)}, true
	}
	switch v := ast.Unparen(e).(type) {
	case *ast.Ident:
		obj := objOf(info, v)
		if lv, ok := obj.(*types.Var); !ok || lv.IsField() || paramIndex(host, obj) >= 0 {
			return nil, false
		}
		ds := defsIn(info, host.Decl, obj)
		if len(ds) == 0 {
			return nil, false
		}
		var out []string
		for _, d := range ds {
			alts, ok := constStringAlts(info, host, d, depth+1)
			if !ok {
				return nil, false
			}
			out = append(out, alts...)
		}
		return out, true
	case *ast.BinaryExpr:
		if v.Op != token.ADD {
			return nil, false
		}
		l, ok1 := constStringAlts(info, host, v.X, depth+1)
		r, ok2 := constStringAlts(info, host, v.Y, depth+1)
		if !ok1 || !ok2 || len(l)*len(r) > 64 {
			return nil, false
		}
		var out []string
		for _, a := range l {
			for _, b := range r {
				out = append(out, a+b)
			}
		}
		return out, true
	}
	return nil, false
}

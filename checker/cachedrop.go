package main

// CACHE-DROP: the declarations returned by a memoising generator are never dropped.
//
// generate / codeFor mark the type in the generator.Cache before they return its declarations (that is what
// cuts the recursion). A caller that drops the returned slice on some path -- the call was hoisted above a test,
// "for its side effect" -- leaves the type marked and never declared: every later use of the type finds the cache
// hit and returns nothing. Obligations: every call of a memoising generator (a module function that calls
// Cache.Check, directly or through its receiver's cache) whose result is a slice of declarations.
// Discharge: the call is an argument of append / a return operand, or it is bound to a variable whose uses
// include an append/return under no more conditions than the binding itself.

import (
	"go/ast"
	"go/types"
	"strings"
)

func memoGenerators(w *World) map[*types.Func]bool {
	out := map[*types.Func]bool{}
	for _, fi := range sortedFuncs(w) {
		if fi.Decl.Body == nil || !strings.HasPrefix(w.Rel(fi.Obj.Pkg()), "generator") {
			continue
		}
		sig := fi.Obj.Type().(*types.Signature)
		if sig.Results().Len() == 0 {
			continue
		}
		if _, isSlice := sig.Results().At(0).Type().Underlying().(*types.Slice); !isSlice {
			continue // e.g. the Dart generator, which stores its declarations in the buffer and returns a file name
		}
		found := false
		ast.Inspect(fi.Decl.Body, func(x ast.Node) bool {
			if call, ok := x.(*ast.CallExpr); ok {
				if fn := calleeOf(fi.Pkg.TypesInfo, call); fn != nil && strings.HasSuffix(fn.FullName(), "generator.Cache).Check") {
					found = true
				}
			}
			return true
		})
		if found {
			out[fi.Obj] = true
		}
	}
	return out
}

func cacheDropRule(w *World, r *Result, only func(rel string) bool) int {
	gens := memoGenerators(w)
	n := 0
	for _, fi := range sortedFuncs(w) {
		if fi.Decl.Body == nil || (only != nil && !only(w.Rel(fi.Obj.Pkg()))) {
			continue
		}
		info := fi.Pkg.TypesInfo
		// parent links for calls
		var stack []ast.Node
		ast.Inspect(fi.Decl.Body, func(x ast.Node) bool {
			if x == nil {
				stack = stack[:len(stack)-1]
				return false
			}
			stack = append(stack, x)
			call, ok := x.(*ast.CallExpr)
			if !ok {
				return true
			}
			fn := calleeOf(info, call)
			if fn == nil || !gens[fn] {
				return true
			}
			n++
			cons := es(call)
			pos := w.Pos(call.Pos())
			// immediate consumer
			var parent ast.Node
			for i := len(stack) - 2; i >= 0; i-- {
				if _, isParen := stack[i].(*ast.ParenExpr); isParen {
					continue
				}
				parent = stack[i]
				break
			}
			switch p := parent.(type) {
			case *ast.CallExpr:
				if isBuiltinCall(info, p, "append") {
					r.ok("CACHE-DROP", fi.Name, cons, pos, "the returned declarations are appended where the call is made", false)
					return true
				}
			case *ast.ReturnStmt, *ast.CompositeLit:
				r.ok("CACHE-DROP", fi.Name, cons, pos, "the returned declarations are returned where the call is made", false)
				return true
			case *ast.ExprStmt:
				r.bad("CACHE-DROP", fi.Name, cons, pos, "the generator is called for its side effect only: the type is marked as generated in the cache and its declarations are thrown away, so it is referenced and never declared")
				return true
			case *ast.AssignStmt:
				// bound to variables: find the one holding the declarations (first result)
				var v types.Object
				for i, rhs := range p.Rhs {
					if ast.Unparen(rhs) == ast.Expr(call) {
						idx := i
						if len(p.Lhs) != len(p.Rhs) {
							idx = 0
						}
						if id := identOf(p.Lhs[idx]); id != nil {
							if id.Name == "_" {
								r.bad("CACHE-DROP", fi.Name, cons, pos, "the declarations returned by the generator are assigned to the blank identifier: the type is marked as generated and never declared")
								return true
							}
							v = objOf(info, id)
						}
					}
				}
				if v == nil {
					break
				}
				// not a slice of declarations (e.g. the file name returned by the Dart generator): other rules apply
				if _, isSlice := v.Type().Underlying().(*types.Slice); !isSlice {
					r.ok("CACHE-DROP", fi.Name, cons, pos, "the bound result is not a declaration list", false)
					return true
				}
				bindConds := condSet(info, pathCondsNoLoop(fi, p), nil)
				used := false
				extra := ""
				ast.Inspect(fi.Decl.Body, func(y ast.Node) bool {
					var operands []ast.Expr
					var at ast.Node
					switch u := y.(type) {
					case *ast.CallExpr:
						if isBuiltinCall(info, u, "append") {
							operands, at = u.Args, u
						}
					case *ast.ReturnStmt:
						operands, at = u.Results, u
					}
					for _, o := range operands {
						if id := identOf(o); id != nil && objOf(info, id) == v && at.Pos() > p.Pos() {
							// conditions that only say "an earlier exit, which itself hands the declarations on, was not taken" do not count
							var conds []pcond
							for _, c := range pathCondsNoLoop(fi, at) {
								if c.exit != nil && usesObj(info, c.exit.Body, v) {
									continue
								}
								conds = append(conds, c)
							}
							uc := condSet(info, conds, nil)
							if subset(uc, bindConds) {
								used = true
							} else {
								extra = strings.Join(uc, ", ")
							}
						}
					}
					return true
				})
				if used {
					r.ok("CACHE-DROP", fi.Name, cons, pos, "the bound declarations reach an append/return under no further condition", true)
				} else if extra != "" {
					r.bad("CACHE-DROP", fi.Name, cons, pos, "the generator is called unconditionally (it marks the type as generated in the cache) but its declarations are only kept when {"+extra+"}: on the other paths the type is marked and never declared, so a later regular use of the type finds the cache hit and the output mentions a type it does not declare")
				} else {
					r.bad("CACHE-DROP", fi.Name, cons, pos, "the declarations returned by the generator are never appended or returned: the type is marked as generated and never declared")
				}
				return true
			}
			r.ok("CACHE-DROP", fi.Name, cons, pos, "result consumed by "+strings.TrimPrefix(strings.TrimPrefix(typeNameOf(parent), "*ast."), "ast."), false)
			return true
		})
	}
	return n
}

func typeNameOf(n ast.Node) string {
	switch n.(type) {
	case *ast.CallExpr:
		return "a call"
	case *ast.BinaryExpr:
		return "an expression"
	case *ast.RangeStmt:
		return "a range statement"
	case nil:
		return "nothing"
	}
	return "an enclosing expression"
}

package main

// C09: field selection and JSON naming.

import (
	"go/ast"
	"go/constant"
	"go/token"
	"go/types"
	"sort"
	"strings"
)

func init() { register("C09", "other", checkC09) }

// consumerTable classifies every loop over []analysis.StructField by what it produces.
// json: output keyed like encoding/json; go: Go code mirroring the struct; sql: SQL columns.
var consumerTable = map[string]string{
	"generator/typescript.codeForStruct":                 "json",
	"generator/dart.(buffer).codeForStruct":              "json",
	"generator/dart.jsonForStruct":                       "json",
	"generator/sql.codeForStruct":                        "json",
	"generator/go/gounions.(context).codeForStruct":      "go",
	"generator/go/randdata.(context).codeForStruct":      "go",
	"generator/go/sqlcrud.(context).compositeConverters": "go",
	"analysis.(*Analysis).handleStructFields":            "analysis", // builds the field list itself (flattening), checked by AGR-C09c
	"analysis/sql.NewTable":                              "sql",
	"analysis/sql.isComposite":                           "sql",
	"generator/sql.compositeDecl":                        "sql",
}

// checkJSONConsumers: guard-first, JSONName-only naming.
func checkJSONConsumers(w *World, r *Result, rule string) int {
	n := 0
	seen := map[string]bool{}
	seenPkg := map[string]bool{}
	jsonPkg := map[string]int{} // json loops found in unnamed helpers, per package
	for _, fl := range fieldLoops(w) {
		if fl.kind != "StructField" {
			continue
		}
		kind, ok := consumerTable[fl.fn.Name]
		cons := "loop over " + fl.over
		pos := w.Pos(fl.rs.Pos())
		if !ok {
			// a loop in a function the table does not name (an extracted helper): it consumes what the other loops
			// of its package consume, when they all agree
			kinds := map[string]bool{}
			for name, k := range consumerTable {
				if f := w.FuncBy[name]; f != nil && f.Pkg == fl.fn.Pkg {
					kinds[k] = true
				}
			}
			if len(kinds) == 1 {
				for k := range kinds {
					kind = k
				}
				seenPkg[fl.fn.Pkg.PkgPath] = true
				if kind != "json" {
					r.ok(rule, fl.fn.Name, cons, pos, "a loop over struct fields in a package whose field loops are all "+kind+" consumers (Go field names, not JSON keys): no JSON key is produced here", true)
					continue
				}
			} else {
				Undecided("loop over struct fields at %s in %s: its package has json and non-json consumers and the function is not classified", pos, fl.fn.Name)
			}
		}
		seen[fl.fn.Name] = true
		seenPkg[fl.fn.Pkg.PkgPath] = true
		if kind != "json" {
			continue
		}
		n++
		if !ok {
			jsonPkg[fl.fn.Pkg.PkgPath]++
		}
		info := fl.pkg.TypesInfo
		// 1. every use of the field in the body is reached only for fields with Exported() -- the guard-first form
		// `if !f.Exported() { continue }` and the nested form `if f.Exported() { … }` alike -- except the uses that make
		// up the test itself
		first := true
		nuses := 0
		ast.Inspect(fl.rs.Body, func(x ast.Node) bool {
			id, ok := x.(*ast.Ident)
			if !ok || objOf(info, id) != fl.v {
				return true
			}
			nuses++
			guarded := false
			for _, c := range reachConds(info, fl.fn.Decl, fl.rs, id, fl.subst) {
				if c == "$f.Exported()" {
					guarded = true
				}
			}
			if guarded {
				return true
			}
			// part of the test: the identifier is the receiver of an Exported() call that sits in a condition (or in
			// the init of the if holding it)
			inTest := false
			ast.Inspect(fl.rs.Body, func(y ast.Node) bool {
				is, ok := y.(*ast.IfStmt)
				if !ok {
					return true
				}
				for _, part := range []ast.Node{is.Cond, is.Init} {
					if part == nil || !(part.Pos() <= id.Pos() && id.End() <= part.End()) {
						continue
					}
					ast.Inspect(part, func(z ast.Node) bool {
						if call, ok := z.(*ast.CallExpr); ok && call.Pos() <= id.Pos() && id.End() <= call.End() {
							if fn := calleeOf(info, call); fn != nil && fn.Name() == "Exported" {
								inTest = true
							}
						}
						return true
					})
				}
				return true
			})
			if !inTest {
				first = false
			}
			return true
		})
		if nuses == 0 {
			first = false
		}
		r.cond(first, rule, fl.fn.Name, cons+": guard first", pos,
			"every use of the field is reached only under f.Exported() (early `continue` or enclosing `if`): ignored fields contribute nothing",
			"some use of the field is not dominated by the Exported() test: an ignored field (unexported, json:\"-\", gomacro:\"ignore\") can reach the output or trigger generation of its type")
		// 1b. no decision is taken on the unfiltered field list: a comparison of len(<struct>.Fields) in a json
		// consumer changes the output when an ignored field is added
		ast.Inspect(fl.fn.Decl.Body, func(x ast.Node) bool {
			be, ok := x.(*ast.BinaryExpr)
			if !ok {
				return true
			}
			for _, side := range []ast.Expr{be.X, be.Y} {
				call, ok := ast.Unparen(side).(*ast.CallExpr)
				if !ok || !isBuiltinCall(info, call, "len") || len(call.Args) != 1 {
					continue
				}
				if sel, ok := ast.Unparen(call.Args[0]).(*ast.SelectorExpr); ok && info.Uses[sel.Sel] == types.Object(w.Field("analysis", "Struct", "Fields")) {
					r.bad(rule, fl.fn.Name, "decision on "+es(be), w.Pos(be.Pos()), "a decision is taken on the number of analysed fields, ignored ones included: adding an unexported, json:\"-\" or gomacro:\"ignore\" field changes the output (the property requires it to be unchanged); test the list of kept fields instead")
				}
			}
			return true
		})
		// 2. names only from JSONName
		uses := usesOf(info, fl.rs.Body, fl.v, "$f")
		hasJSON, hasGoName := false, false
		for _, u := range uses {
			if strings.HasPrefix(u, "$f.JSONName()") {
				hasJSON = true
			}
			if strings.HasPrefix(u, "$f.Field.Name()") || u == "$f.Field.Name" {
				hasGoName = true
			}
		}
		r.cond(hasJSON && !hasGoName, rule, fl.fn.Name, cons+": keys from JSONName", pos,
			"the key is taken from f.JSONName() and never from the Go field name",
			"a json consumer must key by f.JSONName() only (uses: "+strings.Join(uses, ", ")+")")
	}
	for k, v := range consumerTable {
		if v == "json" && !seen[k] {
			// its loop may have moved into a helper of the package, which was checked as a json consumer above
			if f := w.FuncBy[k]; f != nil && jsonPkg[f.Pkg.PkgPath] > 0 {
				continue
			}
			Undecided("json consumer %s has no loop over struct fields any more", k)
		}
	}
	return n
}

func checkC09(w *World, r *Result) {
	r.Explanation = "Decides structural necessary conditions: CONS every loop over struct fields is classified, and each json consumer (TypeScript, Dart x2, SQL validator) starts with the Exported() guard and keys only by JSONName(); FLW-C09a the json tag reaches JSONName's result only through a split at the first comma, a tag-derived result is dominated by a non-emptiness test of that very value, and the fallback is the Go field name; AGR-C09b Exported() returns false exactly under json==\"-\" or gomacro==\"ignore\" and otherwise returns go/types' Exported(); AGR-C09c embedded fields are flattened exactly when Embedded() and the analysed type is a struct, and field, tag and type of a kept field come from the same index. Does not decide: full agreement with encoding/json on embedded-field conflicts/shadowing, nor invariance of the analysis itself (it analyses every field)."
	r.Rules = []string{"CONS json consumers", "FLW-C09a tag options", "AGR-C09b ignore rules", "AGR-C09c flattening", "ALIAS-APPEND", "SEP-INDEX", "ALIAS-STORE"}
	// an ignored field in first or last position must not move a separator of the emitted text
	sepIndexRule(w, r, func(rel string) bool { return strings.HasPrefix(rel, "generator") })
	aliasAppendRule(w, r, func(rel string) bool { return rel == "analysis" })
	aliasStoreRule(w, r, func(rel string) bool { return rel == "analysis" })
	r.Assumptions = []string{"reflect.StructTag.Get implements the conventional tag syntax"}
	n := checkJSONConsumers(w, r, "CONS")
	r.note("json_consumers", n)
	checkJSONName(w, r)
	checkExported(w, r)
	checkFlatten(w, r)
	// an ignored field leaves the SQL validator unchanged also when it is the only field (rule shared with C04)
	checkEmptyKeyList(w, r)
}

// tagGetKey: is e `X.Tag.Get("key")` / `X.Tag.Lookup("key")`? returns key.
func tagGetKey(info *types.Info, e ast.Expr) (string, bool) {
	call, ok := ast.Unparen(e).(*ast.CallExpr)
	if !ok || len(call.Args) != 1 {
		return "", false
	}
	fn := calleeOf(info, call)
	if fn == nil || (fn.FullName() != "(reflect.StructTag).Get" && fn.FullName() != "(reflect.StructTag).Lookup") {
		return "", false
	}
	tv := info.Types[call.Args[0]]
	if tv.Value == nil || tv.Value.Kind() != constant.String {
		return "", false
	}
	return constant.StringVal(tv.Value), true
}

func checkJSONName(w *World, r *Result) {
	fi := w.MustFunc("analysis.(StructField).JSONName")
	info := fi.Pkg.TypesInfo
	name := fi.Name
	// classify local variables: tagRaw (direct Tag.Get("json")), tagName (first component of a comma split of tagRaw)
	class := map[types.Object]string{}
	changed := true
	for changed {
		changed = false
		ast.Inspect(fi.Decl.Body, func(n ast.Node) bool {
			as, ok := n.(*ast.AssignStmt)
			if !ok || len(as.Rhs) != 1 {
				return true
			}
			rhs := ast.Unparen(as.Rhs[0])
			set := func(i int, c string) {
				if i < len(as.Lhs) {
					if id := identOf(as.Lhs[i]); id != nil && id.Name != "_" {
						o := objOf(info, id)
						if class[o] != c {
							class[o] = c
							changed = true
						}
					}
				}
			}
			if k, ok := tagGetKey(info, rhs); ok && k == "json" {
				set(0, "raw")
				return true
			}
			if call, ok := rhs.(*ast.CallExpr); ok {
				full := fullName(calleeOf(info, call))
				argIsRaw := func(i int) bool {
					if i >= len(call.Args) {
						return false
					}
					if id := identOf(call.Args[i]); id != nil && class[objOf(info, id)] == "raw" {
						return true
					}
					k, ok := tagGetKey(info, call.Args[i])
					return ok && k == "json"
				}
				sepIsComma := func(i int) bool {
					if i >= len(call.Args) {
						return false
					}
					tv := info.Types[call.Args[i]]
					return tv.Value != nil && tv.Value.Kind() == constant.String && constant.StringVal(tv.Value) == ","
				}
				switch full {
				case "strings.Cut":
					if argIsRaw(0) && sepIsComma(1) {
						set(0, "name")
					}
				case "strings.Split", "strings.SplitN":
					if argIsRaw(0) && sepIsComma(1) {
						set(0, "parts")
					}
				}
			}
			// name := parts[0]
			if ix, ok := rhs.(*ast.IndexExpr); ok {
				if id := identOf(ix.X); id != nil && class[objOf(info, id)] == "parts" {
					if tv := info.Types[ix.Index]; tv.Value != nil && tv.Value.ExactString() == "0" {
						set(0, "name")
					}
				}
			}
			// name := raw[:idx] with idx from strings.Index(raw, ",") is also a comma split
			if sl, ok := rhs.(*ast.SliceExpr); ok && sl.Low == nil {
				if id := identOf(sl.X); id != nil && class[objOf(info, id)] == "raw" {
					if hid := identOf(sl.High); hid != nil {
						for _, d := range defsIn(info, fi.Decl, objOf(info, hid)) {
							if call, ok := d.(*ast.CallExpr); ok && (fullName(calleeOf(info, call)) == "strings.Index" || fullName(calleeOf(info, call)) == "strings.IndexByte") {
								set(0, "name")
							}
						}
					}
				}
			}
			return true
		})
	}
	nret := 0
	fallback := false
	ast.Inspect(fi.Decl.Body, func(n ast.Node) bool {
		ret, ok := n.(*ast.ReturnStmt)
		if !ok || len(ret.Results) != 1 {
			return true
		}
		nret++
		res := ast.Unparen(ret.Results[0])
		pos := w.Pos(ret.Pos())
		cons := "return " + es(res)
		if call, ok := res.(*ast.CallExpr); ok && fullName(calleeOf(info, call)) == "(*go/types.object).Name" || isFieldName(info, res) {
			fallback = true
			r.ok("FLW-C09a", name, cons, pos, "fallback: the Go field name", false)
			return true
		}
		id := identOf(res)
		if id == nil {
			r.bad("FLW-C09a", name, cons, pos, "JSONName returns an expression that is neither the Go field name nor the name part of the json tag")
			return true
		}
		switch class[objOf(info, id)] {
		case "name":
			// dominated by a non-emptiness test of that variable
			nonEmpty := false
			for _, c := range pathConds(fi.Decl, ret) {
				if be, ok := c.expr.(*ast.BinaryExpr); ok {
					if tv := info.Types[be.Y]; tv.Value != nil && tv.Value.Kind() == constant.String && constant.StringVal(tv.Value) == "" {
						if xid := identOf(be.X); xid != nil && objOf(info, xid) == objOf(info, id) {
							if (be.Op == token.NEQ && c.truth) || (be.Op == token.EQL && !c.truth) {
								nonEmpty = true
							}
						}
					}
				}
			}
			r.cond(nonEmpty, "FLW-C09a", name, cons, pos,
				"the returned value is the part of the json tag before the first comma, and the return is dominated by a test that it is not empty",
				"the name part of the json tag is returned without a dominating non-emptiness test: `json:\",omitempty\"` or `json:\"\"` yields an empty key where encoding/json uses the Go field name")
		case "raw":
			r.bad("FLW-C09a", name, cons, pos, "the whole json tag value is returned: tag options are not split off at the comma (`json:\"a,omitempty\"` yields the key `a,omitempty`; encoding/json uses `a`)")
		default:
			r.bad("FLW-C09a", name, cons, pos, "JSONName returns a value that is not derived from the json tag by a split at the first comma")
		}
		return true
	})
	r.cond(fallback, "FLW-C09a", name, "fallback to Field.Name()", fnPos(w, fi), "some return yields the Go field name", "no return yields the Go field name: untagged fields get no key")
	if nret < 2 {
		Undecided("JSONName has %d returns: shape not recognised", nret)
	}
}

func isFieldName(info *types.Info, e ast.Expr) bool {
	call, ok := ast.Unparen(e).(*ast.CallExpr)
	if !ok || len(call.Args) != 0 {
		return false
	}
	sel, ok := call.Fun.(*ast.SelectorExpr)
	if !ok || sel.Sel.Name != "Name" {
		return false
	}
	t := info.TypeOf(sel.X)
	return t != nil && t.String() == "*go/types.Var"
}

func defsIn(info *types.Info, fd *ast.FuncDecl, obj types.Object) []ast.Expr {
	var out []ast.Expr
	ast.Inspect(fd, func(n ast.Node) bool {
		if as, ok := n.(*ast.AssignStmt); ok {
			for i, l := range as.Lhs {
				if id := identOf(l); id != nil && objOf(info, id) == obj {
					if len(as.Rhs) == len(as.Lhs) {
						out = append(out, as.Rhs[i])
					} else if len(as.Rhs) == 1 {
						out = append(out, as.Rhs[0])
					}
				}
			}
		}
		// `var x = e`
		if vs, ok := n.(*ast.ValueSpec); ok {
			for i, nm := range vs.Names {
				if info.Defs[nm] == obj && obj != nil {
					if len(vs.Values) == len(vs.Names) {
						out = append(out, vs.Values[i])
					} else if len(vs.Values) == 1 {
						out = append(out, vs.Values[0])
					}
				}
			}
		}
		// the variable bound by `switch v := x.(type)` in one of its clauses is x seen under that clause's type
		if ts, ok := n.(*ast.TypeSwitchStmt); ok {
			if as, ok := ts.Assign.(*ast.AssignStmt); ok && len(as.Rhs) == 1 {
				for _, cl := range ts.Body.List {
					if info.Implicits[cl] == obj && obj != nil {
						out = append(out, as.Rhs[0])
						break
					}
				}
			}
		}
		return true
	})
	return out
}

func checkExported(w *World, r *Result) {
	fi := w.MustFunc("analysis.(StructField).Exported")
	info := fi.Pkg.TypesInfo
	name := fi.Name
	// collect, for each `return false`, its path conditions rendered with tag lookups inlined
	falseConds := map[string]bool{}
	finalOK := false
	nret := 0
	ast.Inspect(fi.Decl.Body, func(n ast.Node) bool {
		ret, ok := n.(*ast.ReturnStmt)
		if !ok || len(ret.Results) != 1 {
			return true
		}
		nret++
		res := ast.Unparen(ret.Results[0])
		if tv := info.Types[res]; tv.Value != nil && tv.Value.Kind() == constant.Bool {
			if constant.BoolVal(tv.Value) {
				r.bad("AGR-C09b", name, "return true", w.Pos(ret.Pos()), "Exported() returns true without consulting go/types' Exported()")
				return true
			}
			// enclosing ifs, outermost first; a guard `A || B` gives two alternative rules, nesting and && conjoin
			alts := []string{""}
			ast.Inspect(fi.Decl.Body, func(m ast.Node) bool {
				is, ok := m.(*ast.IfStmt)
				if !ok || !(is.Body.Pos() <= ret.Pos() && ret.End() <= is.Body.End()) {
					return true
				}
				var next []string
				for _, d := range disjuncts(is.Cond, true) {
					cj := strings.Join(tagCondition(info, fi.Decl, is, d), " && ")
					for _, a := range alts {
						if a != "" {
							next = append(next, a+" && "+cj)
						} else {
							next = append(next, cj)
						}
					}
				}
				alts = next
				return true
			})
			var conds []string
			for _, a := range alts {
				if a != "" {
					conds = append(conds, a)
				}
			}
			for _, c := range conds {
				falseConds[c] = true
			}
			if len(conds) == 0 {
				r.bad("AGR-C09b", name, "return false", w.Pos(ret.Pos()), "unconditional / unrecognised `return false`")
			}
			return true
		}
		// final: st.Field.Exported()
		if call, ok := res.(*ast.CallExpr); ok {
			if fn := calleeOf(info, call); fn != nil && strings.HasSuffix(fn.FullName(), ".Exported") && fn.Pkg() != nil && fn.Pkg().Path() == "go/types" {
				// must not be inside an if
				conds := pathConds(fi.Decl, ret)
				pos := 0
				for _, c := range conds {
					if c.truth {
						pos++
					}
				}
				if pos == 0 {
					finalOK = true
				}
				return true
			}
		}
		r.bad("AGR-C09b", name, "return "+es(res), w.Pos(ret.Pos()), "unrecognised result of Exported()")
		return true
	})
	want := []string{`json == "-"`, `gomacro == "ignore"`}
	for _, wc := range want {
		r.cond(falseConds[wc], "AGR-C09b", name, "ignored when "+wc, fnPos(w, fi), "a `return false` is guarded by exactly this tag test", "the documented ignore rule `"+wc+"` is missing: such fields are no longer ignored")
		delete(falseConds, wc)
	}
	for extra := range falseConds {
		r.bad("AGR-C09b", name, "ignored when "+extra, fnPos(w, fi), "an extra ignore rule that encoding/json and the documentation do not have: fields that Go serialises are dropped")
	}
	r.cond(finalOK, "AGR-C09b", name, "otherwise go/types Exported()", fnPos(w, fi), "the remaining path returns the field's Exported()", "the fall-through path does not return the field's Exported()")
}

// tagCondition renders the conjunction cond, met under `if name := st.Tag.Get("k"); name == "v"` (or with the
// lookup bound by an earlier single assignment, or inline), as `k == "v"`.
func tagCondition(info *types.Info, fd *ast.FuncDecl, is *ast.IfStmt, cond pcond) []string {
	local := map[types.Object]string{}
	ndef := map[types.Object]int{}
	ast.Inspect(fd.Body, func(n ast.Node) bool {
		as, ok := n.(*ast.AssignStmt)
		if !ok {
			return true
		}
		for _, l := range as.Lhs {
			if id := identOf(l); id != nil {
				ndef[objOf(info, id)]++
			}
		}
		if len(as.Rhs) == 1 && len(as.Lhs) == 1 {
			if k, ok := tagGetKey(info, as.Rhs[0]); ok {
				if id := identOf(as.Lhs[0]); id != nil {
					local[objOf(info, id)] = k
				}
			}
		}
		return true
	})
	for o, n := range ndef {
		if n > 1 {
			delete(local, o)
		}
	}
	var out []string
	for _, c := range splitCond(cond.expr, cond.truth) {
		be, ok := c.expr.(*ast.BinaryExpr)
		if !ok {
			out = append(out, "?"+es(c.expr))
			continue
		}
		x, y := be.X, be.Y
		if tv := info.Types[x]; tv.Value != nil { // "v" == name
			x, y = y, x
		}
		lhs := ""
		if id := identOf(x); id != nil {
			lhs = local[objOf(info, id)]
		}
		if k, ok := tagGetKey(info, x); ok {
			lhs = k
		}
		rhs := es(y)
		if tv := info.Types[y]; tv.Value != nil {
			rhs = tv.Value.ExactString()
		}
		op := be.Op
		if !c.truth {
			op = negateTok(op)
		}
		if lhs == "" {
			out = append(out, "?"+es(c.expr))
			continue
		}
		out = append(out, lhs+" "+op.String()+" "+rhs)
	}
	sort.Strings(out)
	return out
}

func checkFlatten(w *World, r *Result) {
	fi := w.MustFunc("analysis.(*Analysis).handleStructFields")
	info := fi.Pkg.TypesInfo
	name := fi.Name
	// locate: the flattening site -- variadic append of X.Fields..., or a loop over X.Fields that appends one
	// element per promoted field -- and the regular append (StructField literal outside that loop)
	var flatten, regular *ast.CallExpr
	var regularLit *ast.CompositeLit
	var flattenLoop *ast.RangeStmt
	fieldsField := w.Field("analysis", "Struct", "Fields")
	ast.Inspect(fi.Decl.Body, func(n ast.Node) bool {
		rs, ok := n.(*ast.RangeStmt)
		if !ok {
			return true
		}
		if sel, ok := ast.Unparen(rs.X).(*ast.SelectorExpr); ok && info.Uses[sel.Sel] == types.Object(fieldsField) {
			flattenLoop = rs
		}
		return true
	})
	ast.Inspect(fi.Decl.Body, func(n ast.Node) bool {
		call, ok := n.(*ast.CallExpr)
		if !ok || !isBuiltinCall(info, call, "append") {
			return true
		}
		inLoop := flattenLoop != nil && flattenLoop.Body.Pos() <= call.Pos() && call.End() <= flattenLoop.Body.End()
		if call.Ellipsis.IsValid() {
			flatten = call
		} else if len(call.Args) == 2 {
			if inLoop {
				flatten = call
			} else if _, ok := call.Args[1].(*ast.CompositeLit); ok {
				regular = call
			} else if id := identOf(call.Args[1]); id != nil {
				if defs := defsIn(info, fi.Decl, objOf(info, id)); len(defs) == 1 {
					if _, ok := ast.Unparen(defs[0]).(*ast.CompositeLit); ok {
						regular = call
						regularLit = ast.Unparen(defs[0]).(*ast.CompositeLit)
					}
				}
			}
		}
		return true
	})
	if flatten == nil || regular == nil {
		Undecided("handleStructFields: flatten/regular appends not found (shape not recognised)")
	}
	// a promoted field copied element-wise keeps its own type, field object and tag
	if flattenLoop != nil && !flatten.Ellipsis.IsValid() {
		v := identOf(flattenLoop.Value)
		if v == nil {
			Undecided("handleStructFields: the flattening loop has no value variable")
		}
		vObj := info.Defs[v]
		arg := ast.Unparen(flatten.Args[1])
		okCopy := false
		why := "the appended element is neither the promoted field itself nor a StructField built from it"
		if id := identOf(arg); id != nil && objOf(info, id) == vObj {
			okCopy = true
		} else if lit, ok := arg.(*ast.CompositeLit); ok {
			okCopy = len(lit.Elts) == 3
			for _, el := range lit.Elts {
				kv, ok := el.(*ast.KeyValueExpr)
				if !ok {
					okCopy = false
					continue
				}
				sel, isSel := ast.Unparen(kv.Value).(*ast.SelectorExpr)
				if !isSel || identOf(sel.X) == nil || objOf(info, identOf(sel.X)) != vObj || sel.Sel.Name != es(kv.Key) {
					okCopy = false
					why = "the copy of a promoted field takes its " + es(kv.Key) + " from `" + es(kv.Value) + "` instead of the promoted field's own " + es(kv.Key) + ": its json/gomacro tags (key, ignore and opaque directives), type or identity are replaced by the embedding field's"
				}
			}
		}
		r.cond(okCopy, "AGR-C09c", name, "promoted fields keep their own Type, Field and Tag", w.Pos(flatten.Pos()), "each promoted field is appended as it was analysed in the embedded struct", why)
	}
	// objects
	var fieldVar, idxVar types.Object
	ast.Inspect(fi.Decl.Body, func(n ast.Node) bool {
		as, ok := n.(*ast.AssignStmt)
		if !ok || len(as.Rhs) != 1 {
			return true
		}
		if call, ok := as.Rhs[0].(*ast.CallExpr); ok {
			if fullName(calleeOf(info, call)) == "(*go/types.Struct).Field" {
				if id := identOf(as.Lhs[0]); id != nil {
					fieldVar = objOf(info, id)
				}
				if id := identOf(call.Args[0]); id != nil {
					idxVar = objOf(info, id)
				}
			}
		}
		return true
	})
	if fieldVar == nil {
		Undecided("handleStructFields: `field := typ.Field(i)` not found")
	}
	subst := map[types.Object]string{fieldVar: "$field"}
	conds := pathConds(fi.Decl, flatten)
	var cs []string
	for _, c := range conds {
		if c.expr == nil {
			continue
		}
		s := render(info, c.expr, subst)
		if !c.truth {
			s = "!(" + s + ")"
		}
		cs = append(cs, s)
	}
	// the comma-ok *Struct test shows up as an identifier condition (isStruct); resolve it
	hasEmbedded, hasStruct, hasNoName, extra := false, false, false, []string{}
	helperWhy := ""
	for _, c := range conds {
		if c.expr == nil || c.loop {
			continue
		}
		s := render(info, c.expr, subst)
		switch {
		case c.truth && s == "$field.Embedded()":
			hasEmbedded = true
		case c.truth && isStructOkVar(info, fi.Decl, c.expr):
			hasStruct = true
		case c.truth && isJSONNameEmpty(info, fi.Decl, c.expr):
			hasNoName = true
		case helperComparesNames(w, info, c.expr):
			helperWhy = "the flattening test decides `the tag names the field` by comparing JSONName() with the Go field name: a tag that spells the Go name itself (`Base `json:\"Base\"``) passes for `no name`, so the embedded struct is flattened where encoding/json nests it under that key"
			extra = append(extra, s)
		default:
			if !c.truth {
				s = "!(" + s + ")"
			}
			extra = append(extra, s)
		}
	}
	pos := w.Pos(flatten.Pos())
	r.cond(hasEmbedded && hasStruct && hasNoName && len(extra) == 0, "AGR-C09c", name, "flatten iff Embedded(), no json name and *Struct", pos,
		"the fields of an embedded field are merged exactly when it is embedded, its json tag has no name part (a name, or \"-\", makes it a regular field for encoding/json) and the analysed type is a struct",
		func() string {
			if helperWhy != "" {
				return helperWhy
			}
			return "the flattening branch is guarded by {" + strings.Join(cs, " ; ") + "} instead of exactly {field.Embedded(), json name part == \"\", type is *Struct}: encoding/json promotes the fields of an embedded struct only when its tag gives it no name, so keys are merged that Go nests or omits (or the reverse)"
		}())
	// no field is dropped: a `continue` in the loop is only reached on the flattening path (the field's own fields
	// were appended); an embedded field that is not a struct stays a regular field, keyed by its type name
	ast.Inspect(fi.Decl.Body, func(n ast.Node) bool {
		bs, ok := n.(*ast.BranchStmt)
		if !ok || bs.Tok != token.CONTINUE {
			return true
		}
		onFlatten := false
		for _, c := range pathConds(fi.Decl, bs) {
			if c.expr != nil && c.truth && isStructOkVar(info, fi.Decl, c.expr) {
				onFlatten = true
			}
		}
		r.cond(onFlatten, "AGR-C09c", name, "continue at "+w.Pos(bs.Pos()), w.Pos(bs.Pos()),
			"only the flattening path skips the regular append",
			"a field is skipped (`continue`) on a path where its fields were not merged: an embedded field that is not a struct (type Tags []string; struct{ Tags }) disappears from the field list, while encoding/json serialises it under its type name")
		return true
	})
	// regular append: StructField{Type: fieldType, Field: field, Tag: tag} with tag := StructTag(typ.Tag(i)) same i
	lit := regularLit
	if lit == nil {
		lit = regular.Args[1].(*ast.CompositeLit)
	}
	okField, okTag, okType := false, false, false
	for _, el := range lit.Elts {
		kv, ok := el.(*ast.KeyValueExpr)
		if !ok {
			continue
		}
		switch es(kv.Key) {
		case "Field":
			okField = identOf(kv.Value) != nil && objOf(info, identOf(kv.Value)) == fieldVar
		case "Tag":
			if id := identOf(kv.Value); id != nil {
				for _, d := range defsIn(info, fi.Decl, objOf(info, id)) {
					ast.Inspect(d, func(n ast.Node) bool {
						if call, ok := n.(*ast.CallExpr); ok && fullName(calleeOf(info, call)) == "(*go/types.Struct).Tag" {
							if a := identOf(call.Args[0]); a != nil && objOf(info, a) == idxVar {
								okTag = true
							}
						}
						return true
					})
				}
			}
		case "Type":
			if id := identOf(kv.Value); id != nil {
				for _, d := range defsIn(info, fi.Decl, objOf(info, id)) {
					ast.Inspect(d, func(n ast.Node) bool {
						if call, ok := n.(*ast.CallExpr); ok && len(call.Args) >= 1 {
							if strings.HasSuffix(fullName(calleeOf(info, call)), ".handleType") && render(info, call.Args[0], subst) == "$field.Type()" {
								okType = true
							}
						}
						return true
					})
				}
			}
		}
	}
	r.cond(okField && okTag && okType, "AGR-C09c", name, "kept field: Field, Tag and Type from the same index", w.Pos(regular.Pos()),
		"StructField{Type: handleType(field.Type()), Field: field, Tag: typ.Tag(i)} with field = typ.Field(i)",
		"the StructField literal does not pair the field with its own tag and analysed type")
}

func isStructOkVar(info *types.Info, fd *ast.FuncDecl, e ast.Expr) bool {
	id := identOf(e)
	if id == nil {
		return false
	}
	obj := objOf(info, id)
	res := false
	ast.Inspect(fd, func(n ast.Node) bool {
		as, ok := n.(*ast.AssignStmt)
		if !ok || len(as.Lhs) != 2 || len(as.Rhs) != 1 {
			return true
		}
		if l := identOf(as.Lhs[1]); l != nil && objOf(info, l) == obj {
			if ta, ok := as.Rhs[0].(*ast.TypeAssertExpr); ok && ta.Type != nil && strings.HasSuffix(es(ta.Type), "Struct") {
				// the value tested is the analysed type of the field itself: not what a pointer (or any other node) leads to,
				// which the generators would have to reach through that node (a promoted field of a nil embedded pointer
				// cannot be assigned)
				own := true
				if xid := identOf(ta.X); xid != nil {
					for _, d := range defsIn(info, fd, objOf(info, xid)) {
						if _, isCall := ast.Unparen(d).(*ast.CallExpr); !isCall {
							if did := identOf(d); did != nil {
								for _, d2 := range defsIn(info, fd, objOf(info, did)) {
									if _, isCall2 := ast.Unparen(d2).(*ast.CallExpr); !isCall2 {
										own = false
									}
								}
								continue
							}
							own = false
						}
					}
				} else if _, isCall := ast.Unparen(ta.X).(*ast.CallExpr); !isCall {
					own = false
				}
				if own {
					res = true
				}
			}
		}
		return true
	})
	return res
}

// isJSONNameEmpty: e is `X == ""` with X the name part of the json tag: the first result of
// strings.Cut(<tag>.Get("json"), ",") bound by a single definition.
func isJSONNameEmpty(info *types.Info, fd *ast.FuncDecl, e ast.Expr) bool {
	be, ok := ast.Unparen(e).(*ast.BinaryExpr)
	if !ok || be.Op != token.EQL {
		return false
	}
	tv := info.Types[be.Y]
	if tv.Value == nil || tv.Value.Kind() != constant.String || constant.StringVal(tv.Value) != "" {
		return false
	}
	id := identOf(be.X)
	if id == nil {
		return false
	}
	obj := objOf(info, id)
	found := false
	n := 0
	ast.Inspect(fd, func(x ast.Node) bool {
		as, ok := x.(*ast.AssignStmt)
		if !ok || len(as.Rhs) != 1 {
			return true
		}
		for i, l := range as.Lhs {
			if lid := identOf(l); lid != nil && objOf(info, lid) == obj {
				n++
				call, ok := ast.Unparen(as.Rhs[0]).(*ast.CallExpr)
				if i == 0 && ok && fullName(calleeOf(info, call)) == "strings.Cut" && len(call.Args) == 2 {
					if k, ok := tagGetKey(info, call.Args[0]); ok && k == "json" {
						if sv := info.Types[call.Args[1]]; sv.Value != nil && sv.Value.Kind() == constant.String && constant.StringVal(sv.Value) == "," {
							found = true
						}
					}
				}
			}
		}
		return true
	})
	return found && n == 1
}

// helperComparesNames: e is (the negation of) a call of a module function whose result compares JSONName() with
// the Go field name.
func helperComparesNames(w *World, info *types.Info, e ast.Expr) bool {
	call, ok := ast.Unparen(e).(*ast.CallExpr)
	if !ok {
		return false
	}
	fn := calleeOf(info, call)
	if fn == nil || w.Funcs[fn] == nil || w.Funcs[fn].Decl.Body == nil {
		return false
	}
	hf := w.Funcs[fn]
	found := false
	ast.Inspect(hf.Decl.Body, func(x ast.Node) bool {
		be, ok := x.(*ast.BinaryExpr)
		if !ok || (be.Op != token.NEQ && be.Op != token.EQL) {
			return true
		}
		t := es(be)
		if strings.Contains(t, "JSONName()") && strings.Contains(t, ".Name()") {
			found = true
		}
		return true
	})
	return found
}

package main

// GEN-ID: names printed for a go/types Named type distinguish the instantiations of a generic type.
//
// A *types.Named is identified by its object AND its type arguments: Box[A] and Box[B] share Obj().Name().
// Every site of a generator package that turns a Named into a bare name (analysis.LocalName(x) or
// x.Obj().Name()) is an obligation: the region it sits in (the innermost case clause of a type switch, else
// the function body) must also consult TypeArgs() -- directly or through module callees -- unless the value can
// only be an enum or a union (decided from the static type or from the case clause's type list), or the site is
// listed below with a reason.

import (
	"go/ast"
	"go/token"
	"go/types"
	"strings"
)

var justifiedGENID = map[string]string{
	"generator/dart.jsonForUnion|an.LocalName(member)":                     "Kind tag of a union member: must equal the Go side's tag, which is the bare local name (AGR-C02b); a generic type cannot be a member (members are collected from package-scope names, i.e. the uninstantiated type, which the analysis refuses with `unsupported type T`)",
	"generator/typescript.codeForUnion|an.LocalName(m)":                    "Kind tag of a union member: must equal the Go side's tag, which is the bare local name (AGR-C02b); a generic type cannot be a member (see generator/dart.jsonForUnion)",
	"generator/sql.codeForUnion|member.Type().(*types.Named).Obj().Name()": "Kind tag of a union member: must equal the Go side's tag (AGR-C02b); a generic type cannot be a member (see generator/dart.jsonForUnion)",
	"generator/go/gounions.jsonForUnion|an.LocalName(member)":              "Kind tag and Go type name of a union member; a generic type cannot be a member (members are collected from package-scope names, i.e. the uninstantiated type, which the analysis refuses with `unsupported type T`)",
	"generator.TypeArgsSuffix|arg.Obj().Name()":                            "the name of a type argument; the argument's own type arguments are appended by the recursive call in the same expression",
}

// genIDRule checks the sites of package rel ("generator/dart", ...). Returns the number of sites.
func genIDRule(w *World, r *Result, rel string) int {
	n := 0
	for _, fi := range sortedFuncs(w) {
		if w.Rel(fi.Obj.Pkg()) != rel || fi.Decl.Body == nil {
			continue
		}
		info := fi.Pkg.TypesInfo
		// parent map restricted to what is needed: innermost enclosing case clause
		var stack []ast.Node
		ast.Inspect(fi.Decl.Body, func(x ast.Node) bool {
			if x == nil {
				stack = stack[:len(stack)-1]
				return false
			}
			stack = append(stack, x)
			call, ok := x.(*ast.CallExpr)
			if !ok {
				return true
			}
			var subject ast.Expr // the expression whose type is being named
			if fn := calleeOf(info, call); fn != nil {
				switch {
				case fn.FullName() == "github.com/benoitkugler/gomacro/analysis.LocalName" && len(call.Args) == 1:
					subject = call.Args[0]
				case fn.FullName() == "(*go/types.object).Name" || fn.FullName() == "(*go/types.TypeName).Name":
					// X.Obj().Name() with X a *types.Named, or obj.Name() with obj a *types.TypeName
					if sel, ok := call.Fun.(*ast.SelectorExpr); ok {
						if t := info.TypeOf(sel.X); t != nil && t.String() == "*go/types.TypeName" {
							subject = sel.X
							if inner, ok := ast.Unparen(sel.X).(*ast.CallExpr); ok {
								if isel, ok := inner.Fun.(*ast.SelectorExpr); ok && isel.Sel.Name == "Obj" {
									subject = isel.X
								}
							}
						}
					}
				}
			}
			if subject == nil {
				return true
			}
			n++
			cons := es(call)
			pos := w.Pos(call.Pos())
			// region and the node kinds the subject can have
			var region ast.Node = fi.Decl.Body
			var clause *ast.CaseClause
			for i := len(stack) - 1; i >= 0; i-- {
				if cc, ok := stack[i].(*ast.CaseClause); ok && i > 0 {
					if _, isTS := stack[i-2].(*ast.TypeSwitchStmt); isTS || isTypeSwitchBody(stack, i) {
						region, clause = cc, cc
						break
					}
				}
			}
			if kinds := subjectKinds(info, subject, clause); len(kinds) > 0 {
				onlyEU := true
				for _, k := range kinds {
					if k != "Enum" && k != "Union" {
						onlyEU = false
					}
				}
				if onlyEU {
					r.ok("GEN-ID", fi.Name, cons, pos, "the value is an "+strings.Join(kinds, " or ")+": enums and unions over instantiated generic types are outside the supported declaration forms (a generic declaration in the analysed file is refused with `unsupported type T`)", false)
					return true
				}
			}
			// the innermost statement holding the site: TypeArgs reached directly or through module callees;
			// the wider region (case clause / function body): a direct TypeArgs() call only
			var stmt ast.Node
			for i := len(stack) - 1; i >= 0 && stmt == nil; i-- {
				if st, ok := stack[i].(ast.Stmt); ok {
					stmt = st
				}
			}
			if stmt != nil && reachesTypeArgs(w, fi, stmt, 3) {
				r.ok("GEN-ID", fi.Name, cons, pos, "the same statement also consults TypeArgs() (directly or through the helper it calls): two instantiations of one generic type get different names", true)
				return true
			}
			if subjectReachesTypeArgs(w, fi, region, subject) {
				r.ok("GEN-ID", fi.Name, cons, pos, "the same case clause / function passes the same value to a helper that reads its type arguments: two instantiations of one generic type get different names", true)
				return true
			}
			if reachesTypeArgs(w, fi, region, 0) {
				r.ok("GEN-ID", fi.Name, cons, pos, "the same case clause / function also ranges over TypeArgs(): two instantiations of one generic type get different names", true)
				return true
			}
			if how := refusedBefore(w, fi, call, 2); how != "" {
				r.ok("GEN-ID", fi.Name, cons, pos, how, true)
				return true
			}
			if j, ok := justifiedGENID[fi.Name+"|"+cons]; ok {
				r.justified("GEN-ID", fi.Name, cons, pos, j)
				return true
			}
			r.bad("GEN-ID", fi.Name, cons, pos, "a go/types Named is turned into a bare name without its type arguments: Box[A] and Box[B] are printed under one name, so one declaration is silently used for both (or the name is declared twice)")
			return true
		})
	}
	return n
}

func isTypeSwitchBody(stack []ast.Node, i int) bool {
	// stack[i] is a CaseClause; its parent is a BlockStmt whose parent is a TypeSwitchStmt
	if i >= 2 {
		if _, ok := stack[i-1].(*ast.BlockStmt); ok {
			_, ok2 := stack[i-2].(*ast.TypeSwitchStmt)
			return ok2
		}
	}
	return false
}

// subjectKinds: the analysis node kinds (Named, Struct, Enum, Union, ...) subject can have, from its static type
// or, for the variable bound by the type switch, from the clause's type list. Empty = unknown.
func subjectKinds(info *types.Info, subject ast.Expr, clause *ast.CaseClause) []string {
	kindOf := func(t types.Type) string {
		if p, ok := t.(*types.Pointer); ok {
			if nm, ok := p.Elem().(*types.Named); ok && nm.Obj().Pkg() != nil && strings.HasSuffix(nm.Obj().Pkg().Path(), "gomacro/analysis") {
				return nm.Obj().Name()
			}
		}
		return ""
	}
	// drill through .Type().(*types.Named) and .Type()
	e := ast.Unparen(subject)
	for {
		switch v := e.(type) {
		case *ast.TypeAssertExpr:
			e = ast.Unparen(v.X)
			continue
		case *ast.CallExpr:
			if sel, ok := v.Fun.(*ast.SelectorExpr); ok && sel.Sel.Name == "Type" && len(v.Args) == 0 {
				e = ast.Unparen(sel.X)
				continue
			}
		}
		break
	}
	t := info.TypeOf(e)
	if t == nil {
		return nil
	}
	if k := kindOf(t); k != "" {
		return []string{k}
	}
	// the type-switch variable in a multi-type clause has the interface type: use the clause's list
	if id, ok := e.(*ast.Ident); ok && clause != nil {
		if _, isImplicit := info.Implicits[clause]; isImplicit && info.Uses[id] == info.Implicits[clause] {
			var out []string
			for _, te := range clause.List {
				if k := kindOf(info.TypeOf(te)); k != "" {
					out = append(out, k)
				} else {
					return nil
				}
			}
			return out
		}
	}
	return nil
}

// reachesTypeArgs: region reads, directly or through module callees (depth bounded), the type arguments (TypeArgs().At(i)).
func reachesTypeArgs(w *World, fi *FuncInfo, region ast.Node, depth int) bool {
	found := false
	info := fi.Pkg.TypesInfo
	ast.Inspect(region, func(x ast.Node) bool {
		if found {
			return false
		}
		call, ok := x.(*ast.CallExpr)
		if !ok {
			return true
		}
		fn := calleeOf(info, call)
		if fn == nil {
			return true
		}
		// the arguments themselves must be read (TypeList.At), not merely counted
		if fn.FullName() == "(*go/types.TypeList).At" {
			found = true
			return false
		}
		if depth > 0 {
			if callee := w.Funcs[fn]; callee != nil && callee != fi && callee.Decl.Body != nil {
				if reachesTypeArgs(w, callee, callee.Decl.Body, depth-1) {
					found = true
					return false
				}
			}
		}
		return true
	})
	return found
}

// isRefuser: fn's body contains `if <cond mentioning TypeArgs()> { panic(...) }` as a top-level statement.
func isRefuser(fi *FuncInfo) bool {
	if fi == nil || fi.Decl.Body == nil {
		return false
	}
	for _, st := range fi.Decl.Body.List {
		if refusalIf(fi.Pkg.TypesInfo, st) {
			return true
		}
	}
	return false
}

func refusalIf(info *types.Info, st ast.Stmt) bool {
	is, ok := st.(*ast.IfStmt)
	if !ok || is.Else != nil || !terminates(is.Body) {
		return false
	}
	// the body must panic (a diagnostic), not return silently
	panics := false
	ast.Inspect(is.Body, func(x ast.Node) bool {
		if c, ok := x.(*ast.CallExpr); ok && isBuiltinCall(info, c, "panic") {
			panics = true
		}
		return true
	})
	if !panics {
		return false
	}
	// the condition must be `X.TypeArgs().Len() <op> c`, true for every arity >= 1 (evaluated over 1..4)
	be, ok := ast.Unparen(is.Cond).(*ast.BinaryExpr)
	if !ok {
		return false
	}
	lenCall, ok := ast.Unparen(be.X).(*ast.CallExpr)
	if !ok {
		return false
	}
	lsel, ok := lenCall.Fun.(*ast.SelectorExpr)
	if !ok || lsel.Sel.Name != "Len" {
		return false
	}
	ta, ok := ast.Unparen(lsel.X).(*ast.CallExpr)
	if !ok {
		return false
	}
	if fn := calleeOf(info, ta); fn == nil || fn.FullName() != "(*go/types.Named).TypeArgs" {
		return false
	}
	c, ok := constInt(info, be.Y)
	if !ok {
		return false
	}
	for n := 1; n <= 4; n++ {
		var v bool
		switch be.Op {
		case token.NEQ:
			v = n != c
		case token.GTR:
			v = n > c
		case token.GEQ:
			v = n >= c
		case token.EQL:
			v = n == c
		case token.LSS:
			v = n < c
		case token.LEQ:
			v = n <= c
		default:
			return false
		}
		if !v {
			return false
		}
	}
	return true
}

// refusedBefore: node (inside fi) is preceded, in one of its enclosing statement lists, by a statement that
// refuses generic instantiations with a diagnostic (inline `if x.TypeArgs().Len() != 0 { panic }` or a call of a
// function made of that test); or every module call site of fi is (depth bounded).
func refusedBefore(w *World, fi *FuncInfo, node ast.Node, depth int) string {
	info := fi.Pkg.TypesInfo
	how := ""
	var visit func(list []ast.Stmt)
	check := func(list []ast.Stmt) {
		// is node inside this list? then look at the statements before the one holding it
		for i, st := range list {
			if st.Pos() <= node.Pos() && node.End() <= st.End() {
				for _, prev := range list[:i] {
					if refusalIf(info, prev) {
						how = "dominated by `if ...TypeArgs()... { panic(diagnostic) }` at " + w.Pos(prev.Pos()) + ": instantiations of generic types are refused before a name is derived"
					}
					if es, ok := prev.(*ast.ExprStmt); ok {
						if c, ok := es.X.(*ast.CallExpr); ok {
							if fn := calleeOf(info, c); fn != nil && isRefuser(w.Funcs[fn]) {
								how = "dominated by the call of " + fn.Name() + " at " + w.Pos(prev.Pos()) + ", which refuses instantiations of generic types with a diagnostic before a name is derived"
							}
						}
					}
				}
			}
		}
	}
	visit = check
	ast.Inspect(fi.Decl.Body, func(x ast.Node) bool {
		switch b := x.(type) {
		case *ast.BlockStmt:
			visit(b.List)
		case *ast.CaseClause:
			visit(b.Body)
		}
		return how == ""
	})
	if how != "" || depth == 0 {
		return how
	}
	// all call sites of fi
	nsites := 0
	all := true
	first := ""
	for _, caller := range sortedFuncs(w) {
		if caller.Decl.Body == nil {
			continue
		}
		cinfo := caller.Pkg.TypesInfo
		ast.Inspect(caller.Decl.Body, func(x ast.Node) bool {
			c, ok := x.(*ast.CallExpr)
			if !ok {
				return true
			}
			if fn := calleeOf(cinfo, c); fn != nil && w.Funcs[fn] == fi {
				nsites++
				h := refusedBefore(w, caller, c, depth-1)
				if h == "" {
					all = false
				} else if first == "" {
					first = h
				}
			}
			// fi handed as a function value to a module function g: the sites are g's calls through that parameter
			if g := w.Funcs[calleeOf(cinfo, c)]; g != nil && g.Decl.Body != nil {
				for k, a := range c.Args {
					var used types.Object
					switch v := ast.Unparen(a).(type) {
					case *ast.Ident:
						used = cinfo.Uses[v]
					case *ast.SelectorExpr:
						used = cinfo.Uses[v.Sel]
					}
					if used == nil || used != types.Object(fi.Obj) {
						continue
					}
					var param types.Object
					j := 0
					for _, f := range g.Decl.Type.Params.List {
						for _, nm := range f.Names {
							if j == k {
								param = g.Pkg.TypesInfo.Defs[nm]
							}
							j++
						}
					}
					through := 0
					ast.Inspect(g.Decl.Body, func(y ast.Node) bool {
						c2, ok := y.(*ast.CallExpr)
						if !ok {
							return true
						}
						if id := identOf(c2.Fun); id != nil && param != nil && g.Pkg.TypesInfo.Uses[id] == param {
							through++
							nsites++
							h := refusedBefore(w, g, c2, depth-1)
							if h == "" {
								all = false
							} else if first == "" {
								first = h
							}
						}
						return true
					})
					if through == 0 {
						nsites++
						all = false
					}
				}
			}
			return true
		})
	}
	if nsites > 0 && all {
		return "every call site of " + fi.Name + " is " + first
	}
	return ""
}

// subjectReachesTypeArgs: region contains a call of a module function that reads type arguments (TypeArgs().At,
// depth bounded) and receives the very expression whose name is being derived (or the *types.Named it is
// unwrapped to).
func subjectReachesTypeArgs(w *World, fi *FuncInfo, region ast.Node, subject ast.Expr) bool {
	info := fi.Pkg.TypesInfo
	want := es(ast.Unparen(subject))
	found := false
	ast.Inspect(region, func(x ast.Node) bool {
		call, ok := x.(*ast.CallExpr)
		if !ok || found {
			return true
		}
		fn := calleeOf(info, call)
		if fn == nil {
			return true
		}
		callee := w.Funcs[fn]
		if callee == nil || callee == fi || callee.Decl.Body == nil || !reachesTypeArgs(w, callee, callee.Decl.Body, 2) {
			return true
		}
		for _, a := range call.Args {
			at := es(ast.Unparen(a))
			if at == want || strings.HasPrefix(at, want+".") || strings.HasPrefix(want, at+".") {
				found = true
			}
		}
		return true
	})
	return found
}

// nsPkgRule (NS-PKG): a generator that writes every declaration into ONE namespace (the TypeScript file) must
// make the printed name of a named type depend on the package that declares it: `models.Item` and `sub.Item` are
// two types. Obligations: the sites of fnName that turn a go/types Named into a bare local name; discharged when
// the enclosing function also reads the declaring package (Obj().Pkg()), directly or through a module helper.
func nsPkgRule(w *World, r *Result, fnName string) int {
	fi := w.MustFunc(fnName)
	info := fi.Pkg.TypesInfo
	readsPkg := false
	var reach func(f *FuncInfo, depth int) bool
	reach = func(f *FuncInfo, depth int) bool {
		found := false
		ast.Inspect(f.Decl.Body, func(x ast.Node) bool {
			call, ok := x.(*ast.CallExpr)
			if !ok || found {
				return true
			}
			fn := calleeOf(f.Pkg.TypesInfo, call)
			if fn == nil {
				return true
			}
			if fn.FullName() == "(*go/types.object).Pkg" || fn.FullName() == "(*go/types.TypeName).Pkg" || fn.FullName() == "(go/types.Object).Pkg" {
				found = true
				return false
			}
			if depth > 0 {
				if callee := w.Funcs[fn]; callee != nil && callee != f && callee.Decl.Body != nil && reach(callee, depth-1) {
					found = true
				}
			}
			return true
		})
		return found
	}
	readsPkg = reach(fi, 2)
	n := 0
	ast.Inspect(fi.Decl.Body, func(x ast.Node) bool {
		call, ok := x.(*ast.CallExpr)
		if !ok {
			return true
		}
		fn := calleeOf(info, call)
		if fn == nil || fn.FullName() != "github.com/benoitkugler/gomacro/analysis.LocalName" {
			return true
		}
		n++
		cons := normLocals(info, call) // locals by type: a rename keeps the construct (and the known-finding key)
		pos := w.Pos(call.Pos())
		if readsPkg {
			r.ok("NS-PKG", fi.Name, cons, pos, "the printed name also depends on the declaring package", true)
		} else {
			r.bad("NS-PKG", fi.Name, cons, pos, "all declarations share one namespace, and the name printed for a named type is its local name only: two types with the same name in two analysed packages (models.Item, sub.Item) are printed under one name -- TypeScript merges the two `interface Item` declarations, so a document of either Go type does not inhabit the declared type")
		}
		return true
	})
	return n
}

// typeArgReaders: the module functions that read TypeArgs().At(i) directly.
func typeArgReaders(w *World) []*FuncInfo {
	var out []*FuncInfo
	for _, fi := range sortedFuncs(w) {
		if fi.Decl.Body != nil && reachesTypeArgs(w, fi, fi.Decl.Body, 0) {
			out = append(out, fi)
		}
	}
	return out
}

// genIDAccumulation (GEN-ID, second half): a function that builds a name from the type arguments keeps what it
// built for the earlier arguments and for the arguments of a generic argument: inside its loop over the arguments
// the name variable is only extended (`+=`, `x = x + …`), and the result of a nested call of a type-argument
// reader is used (`Pair[Login, IdGroup]` and `Pair[IdUser, IdGroup]`, `Page[Opt[A]]` and `Page[Opt[B]]` must differ).
func genIDAccumulation(w *World, r *Result) int {
	readers := map[*types.Func]bool{}
	for _, fi := range typeArgReaders(w) {
		readers[fi.Obj] = true
	}
	n := 0
	for _, fi := range typeArgReaders(w) {
		info := fi.Pkg.TypesInfo
		ast.Inspect(fi.Decl.Body, func(x ast.Node) bool {
			var body *ast.BlockStmt
			switch l := x.(type) {
			case *ast.ForStmt:
				body = l.Body
			case *ast.RangeStmt:
				body = l.Body
			default:
				return true
			}
			if !reachesTypeArgs(w, fi, body, 0) {
				return true
			}
			ast.Inspect(body, func(y ast.Node) bool {
				switch s := y.(type) {
				case *ast.AssignStmt:
					for i, l := range s.Lhs {
						id := identOf(l)
						if id == nil || i >= len(s.Rhs) {
							continue
						}
						o := objOf(info, id)
						v, ok := o.(*types.Var)
						if !ok || !isStringType(v.Type()) || (v.Pos() >= body.Pos() && v.Pos() <= body.End()) {
							continue // not a string accumulated across iterations
						}
						n++
						extends := s.Tok.String() == "+=" || usesObj(info, s.Rhs[i], o)
						r.cond(extends, "GEN-ID", fi.Name, es(l)+" "+s.Tok.String()+" … in the loop over the type arguments", w.Pos(s.Pos()),
							"the name is extended, never restarted: every argument contributes",
							"inside the loop over the type arguments the name is re-assigned (`=`) instead of extended: what the earlier arguments contributed is lost, so instantiations that differ only in an earlier argument (Pair[Login, IdGroup], Pair[IdUser, IdGroup]) get one name")
					}
				case *ast.ExprStmt:
					if call, ok := s.X.(*ast.CallExpr); ok {
						if fn := calleeOf(info, call); fn != nil && readers[fn] {
							n++
							r.bad("GEN-ID", fi.Name, "result of "+es(call)+" discarded", w.Pos(s.Pos()), "the name built for the arguments of a generic argument is thrown away (strings are values: the callee cannot extend the caller's): Page[Opt[A]] and Page[Opt[B]] get one name")
						}
					}
				}
				return true
			})
			return false
		})
	}
	return n
}

package main

// Shared rules for the JSON-facing generators: Kind tag provenance, sibling accepted-set agreement,
// printf verb/argument mapping.

import (
	"go/ast"
	"go/constant"
	"go/token"
	"go/types"
	"strconv"
	"strings"
)

type verbArg struct {
	start, end int // offsets of the verb in the format
	arg        ast.Expr
	verb       string
}

// verbArgs maps each printf verb of a constant-format Sprintf to its argument expression.
func verbArgs(info *types.Info, call *ast.CallExpr) (string, []verbArg) {
	if len(call.Args) == 0 {
		return "", nil
	}
	tv := info.Types[call.Args[0]]
	if tv.Value == nil || tv.Value.Kind() != constant.String {
		return "", nil
	}
	format := constant.StringVal(tv.Value)
	var out []verbArg
	argi := 0
	for _, m := range verbRe.FindAllStringSubmatchIndex(format, -1) {
		v := format[m[0]:m[1]]
		if v == "%%" {
			continue
		}
		if m[2] >= 0 {
			var k int
			fmtSscan(format[m[2]+1:m[3]-1], &k)
			argi = k - 1
		}
		if argi+1 < len(call.Args) {
			out = append(out, verbArg{m[0], m[1], call.Args[argi+1], v})
		} else {
			out = append(out, verbArg{m[0], m[1], nil, v})
		}
		argi++
	}
	return format, out
}

// isMemberName: e evaluates to the local type name of a union member m ranging over X.Members:
// analysis.LocalName(m), m.Type().(*types.Named).Obj().Name(), or a local defined from one of these.
func isMemberName(w *World, fi *FuncInfo, e ast.Expr, depth int) bool {
	info := fi.Pkg.TypesInfo
	e = ast.Unparen(e)
	memberVar := func(x ast.Expr) bool {
		id := identOf(x)
		if id == nil {
			return false
		}
		obj := objOf(info, id)
		found := false
		ast.Inspect(fi.Decl, func(n ast.Node) bool {
			if rs, ok := n.(*ast.RangeStmt); ok && identOf(rs.Value) != nil && info.Defs[identOf(rs.Value)] == obj {
				if sel, ok := ast.Unparen(rs.X).(*ast.SelectorExpr); ok && sel.Sel.Name == "Members" {
					found = true
				}
			}
			return true
		})
		return found
	}
	if call, ok := e.(*ast.CallExpr); ok {
		full := fullName(calleeOf(info, call))
		if strings.HasSuffix(full, "analysis.LocalName") && len(call.Args) == 1 {
			return memberVar(call.Args[0])
		}
		// m.Type().(*types.Named).Obj().Name()
		if strings.HasSuffix(es(call), ".Type().(*types.Named).Obj().Name()") {
			return memberVar(rootIdent(call))
		}
		return false
	}
	if id := identOf(e); id != nil && depth < 3 {
		defs := defsIn(info, fi.Decl, objOf(info, id))
		if len(defs) == 0 {
			return false
		}
		for _, d := range defs {
			if !isMemberName(w, fi, d, depth+1) {
				return false
			}
		}
		return true
	}
	return false
}

// kindProvenance: in fn, every printf hole that follows a `Kind` marker in a constant format is filled
// with the member's local type name (the wire vocabulary shared by all generators).
func kindProvenance(w *World, r *Result, rule, fn string, minSites int) int {
	fi := w.MustFunc(fn)
	info := fi.Pkg.TypesInfo
	marker := regexpMust(`(?i)(['"]?kind['"]?\s*[:=]+\s*|case\s+|WHEN data->>'Kind' = ')['"]?$`)
	n := 0
	ast.Inspect(fi.Decl.Body, func(x ast.Node) bool {
		call := sprintfView(info, x)
		if call == nil {
			return true
		}
		format, vas := verbArgs(info, call)
		for _, va := range vas {
			before := format[:va.start]
			if !marker.MatchString(before) {
				continue
			}
			if va.arg == nil {
				continue
			}
			// `case %s:` in Go type switches is a type, not the Kind tag: only string-ish holes (%q or quoted %s)
			quoted := va.verb == "%q" || strings.HasSuffix(before, "'") || strings.HasSuffix(before, `"`)
			if !quoted {
				continue
			}
			n++
			cons := "Kind tag hole <" + es(va.arg) + ">"
			r.cond(isMemberName(w, fi, va.arg, 0), rule, fi.Name, cons, w.Pos(call.Pos()),
				"filled with the local Go type name of the member (analysis.LocalName / Obj().Name()), the tag every generator shares",
				"the Kind tag is filled with "+es(va.arg)+", which is not the member's local Go type name: this generator's wire vocabulary differs from the Go wrapper's")
		}
		return true
	})
	if n < minSites {
		Undecided("%s: only %d Kind tag holes recognised (expected at least %d)", fn, n, minSites)
	}
	return n
}

// siblingAgreement (EXH-b): the functions accept the same set of node kinds.
func siblingAgreement(w *World, r *Result, rule string, fns []string) {
	sws := collectSwitches(w)
	acc := map[string][]string{}
	pos := map[string]string{}
	for _, si := range sws {
		if si.itf != "analysis.Type" || !si.onParam {
			continue
		}
		for _, f := range fns {
			if si.fn == f {
				if prev, dup := acc[f]; dup && len(prev) >= len(si.accepted) {
					continue // keep the main (largest) switch on the parameter
				}
				a := append([]string{}, si.accepted...)
				// kinds landing in a non-panicking default are accepted too
				if si.deflt == "silent" || si.deflt == "none" {
					// no case and no refusing default: accepted silently
				}
				acc[f] = a
				pos[f] = si.pos
			}
		}
	}
	for _, f := range fns {
		if _, ok := acc[f]; ok {
			continue
		}
		// the dispatch may sit in a helper the function hands its node parameter to
		for _, h := range nodeParamHelpers(w, w.Func(f)) {
			for _, si := range sws {
				if si.itf == "analysis.Type" && si.onParam && si.fn == h.Name && len(si.accepted) > len(acc[f]) {
					acc[f] = append([]string{}, si.accepted...)
					pos[f] = si.pos
				}
			}
		}
		if _, ok := acc[f]; !ok {
			Undecided("EXH-b: no type switch on the node parameter of %s", f)
		}
	}
	ref := fns[0]
	for _, f := range fns[1:] {
		r.cond(setEq(acc[ref], acc[f]), rule, f, "accepted kinds agree with "+ref[strings.LastIndex(ref, ".")+1:], pos[f],
			"both accept {"+strings.Join(acc[f], ",")+"}", "this function accepts {"+strings.Join(acc[f], ",")+"} while "+ref+" accepts {"+strings.Join(acc[ref], ",")+"}: a kind is named but not defined (or defined but refused when named)")
	}
}

// isSprintf: *pc formats text the way fmt.Sprintf does. For fmt.Sprintf itself it is left alone; for
// fmt.Fprintf(&b, format, args…) writing into a strings.Builder / bytes.Buffer, *pc is replaced by an equivalent
// Sprintf-shaped call (format first), so that rules reading "the text built here" see both spellings alike.
func isSprintf(info *types.Info, pc **ast.CallExpr) bool {
	call := *pc
	if call == nil {
		return false
	}
	switch fullName(calleeOf(info, call)) {
	case "fmt.Sprintf":
		return true
	case "fmt.Fprintf":
		if len(call.Args) < 2 {
			return false
		}
		t := info.TypeOf(call.Args[0])
		if t == nil || !(strings.HasSuffix(t.String(), "strings.Builder") || strings.HasSuffix(t.String(), "bytes.Buffer")) {
			return false
		}
		*pc = &ast.CallExpr{Fun: call.Fun, Lparen: call.Lparen, Args: call.Args[1:], Ellipsis: call.Ellipsis, Rparen: call.Rparen}
		return true
	}
	return false
}

// ---------- one view of "text built from a constant frame and holes" ----------

var (
	sprintfFunc  *types.Func                    // fmt.Sprintf, found in the import graph at load time
	concatViews  = map[ast.Node]*ast.CallExpr{} // outermost concatenation -> its Sprintf-shaped view
	concatInners = map[ast.Node]bool{}          // concatenations already covered by an outer one
)

func initSprintf(w *World) {
	for _, p := range w.Pkgs {
		for _, imp := range p.Types.Imports() {
			if imp.Path() == "fmt" {
				if f, ok := imp.Scope().Lookup("Sprintf").(*types.Func); ok {
					sprintfFunc = f
					return
				}
			}
		}
	}
}

// sprintfView presents x as a call shaped like fmt.Sprintf(format, args…) when x builds text from a constant frame:
// fmt.Sprintf itself; fmt.Fprintf into a strings.Builder / bytes.Buffer (isSprintf); or an outermost string
// concatenation, whose literal operands become the format and whose other operands become holes (strconv.Itoa(i) and
// integer FormatInt as %d, strconv.Quote(s) as %q, a nested Sprintf inlined, anything else %s). The view of a
// concatenation is a synthetic call registered in info (Uses, Types), so every rule written for Sprintf reads it
// unchanged. Inner concatenations of one that was already presented return nil (no double counting: ast.Inspect
// reaches the outermost first).
func sprintfView(info *types.Info, x ast.Node) *ast.CallExpr {
	switch v := x.(type) {
	case *ast.CallExpr:
		c := v
		if isSprintf(info, &c) {
			return c
		}
		return nil
	case *ast.BinaryExpr:
		if v.Op != token.ADD || concatInners[v] || sprintfFunc == nil {
			return nil
		}
		if c, ok := concatViews[v]; ok {
			return c
		}
		t := info.TypeOf(v)
		if t == nil {
			return nil
		}
		if b, ok := t.Underlying().(*types.Basic); !ok || b.Info()&types.IsString == 0 {
			return nil
		}
		if tv := info.Types[v]; tv.Value != nil {
			return nil // a constant expression: plain text, no hole
		}
		var format strings.Builder
		var args []ast.Expr
		okAll := true
		var flat func(e ast.Expr)
		flat = func(e ast.Expr) {
			e = ast.Unparen(e)
			if tv := info.Types[e]; tv.Value != nil && tv.Value.Kind() == constant.String {
				format.WriteString(strings.ReplaceAll(constant.StringVal(tv.Value), "%", "%%"))
				return
			}
			if be, ok := e.(*ast.BinaryExpr); ok && be.Op == token.ADD {
				concatInners[be] = true
				flat(be.X)
				flat(be.Y)
				return
			}
			if call, ok := e.(*ast.CallExpr); ok {
				switch fullName(calleeOf(info, call)) {
				case "strconv.Itoa":
					format.WriteString("%d")
					args = append(args, call.Args[0])
					return
				case "strconv.FormatInt":
					if k, isK := constInt(info, call.Args[1]); isK && k == 10 {
						format.WriteString("%d")
						a := ast.Unparen(call.Args[0])
						if conv, ok := a.(*ast.CallExpr); ok && len(conv.Args) == 1 {
							if tv, ok := info.Types[conv.Fun]; ok && tv.IsType() {
								a = conv.Args[0]
							}
						}
						args = append(args, a)
						return
					}
				case "strconv.Quote":
					format.WriteString("%q")
					args = append(args, call.Args[0])
					return
				case "fmt.Sprintf":
					if tv := info.Types[call.Args[0]]; tv.Value != nil && tv.Value.Kind() == constant.String && !strings.Contains(constant.StringVal(tv.Value), "%[") {
						format.WriteString(constant.StringVal(tv.Value))
						args = append(args, call.Args[1:]...)
						return
					}
				}
			}
			format.WriteString("%s")
			args = append(args, e)
		}
		concatInners[v] = false
		flat(v.X)
		flat(v.Y)
		if !okAll {
			return nil
		}
		lit := &ast.BasicLit{ValuePos: v.Pos(), Kind: token.STRING, Value: strconv.Quote(format.String())}
		info.Types[lit] = types.TypeAndValue{Type: types.Typ[types.String], Value: constant.MakeString(format.String())}
		sel := &ast.Ident{NamePos: v.Pos(), Name: "Sprintf"}
		info.Uses[sel] = sprintfFunc
		fun := &ast.SelectorExpr{X: &ast.Ident{NamePos: v.Pos(), Name: "fmt"}, Sel: sel}
		c := &ast.CallExpr{Fun: fun, Lparen: v.Pos(), Args: append([]ast.Expr{lit}, args...), Rparen: v.End() - 1}
		concatViews[v] = c
		return c
	}
	return nil
}

package main

// SORT-PAR: a comparator passed to sort.Slice / sort.SliceStable only indexes the slice being sorted.
//
// sort.Slice(X, less) permutes X and nothing else; a comparator that reads Y[i] for a parallel slice Y compares
// stale keys after the first swap, so the result is not sorted by Y (and depends on the algorithm's swap
// sequence). Obligations: every index expression by a comparator parameter inside such a comparator.

import (
	"go/ast"
	"go/types"
)

func sortParallelRule(w *World, r *Result, only func(fi *FuncInfo) bool) int {
	n := 0
	for _, fi := range sortedFuncs(w) {
		if fi.Decl.Body == nil || (only != nil && !only(fi)) {
			continue
		}
		info := fi.Pkg.TypesInfo
		ast.Inspect(fi.Decl.Body, func(x ast.Node) bool {
			call, ok := x.(*ast.CallExpr)
			if !ok || len(call.Args) != 2 {
				return true
			}
			fn := calleeOf(info, call)
			if fn == nil || (fn.FullName() != "sort.Slice" && fn.FullName() != "sort.SliceStable") {
				return true
			}
			lit := comparatorLit(info, fi, call.Args[1])
			if lit == nil {
				Undecided("SORT-PAR: comparator of %s at %s is neither a function literal nor a local bound once to one", fn.Name(), w.Pos(call.Pos()))
			}
			params := map[types.Object]bool{}
			for _, f := range lit.Type.Params.List {
				for _, nm := range f.Names {
					params[info.Defs[nm]] = true
				}
			}
			sorted := render(info, call.Args[0], nil)
			n++
			bad := false
			ast.Inspect(lit.Body, func(y ast.Node) bool {
				ix, ok := y.(*ast.IndexExpr)
				if !ok {
					return true
				}
				id := identOf(ix.Index)
				if id == nil || !params[objOf(info, id)] {
					return true
				}
				if got := render(info, ix.X, nil); got != sorted {
					bad = true
					r.bad("SORT-PAR", fi.Name, fn.Name()+"("+sorted+"): comparator reads "+es(ix), w.Pos(ix.Pos()), "the comparator indexes "+got+" with a position of "+sorted+": "+fn.Name()+" permutes only "+sorted+", so after the first swap "+es(ix)+" is no longer the key of element "+es(ix.Index)+" and the result is not ordered by it")
				}
				return true
			})
			if !bad {
				r.ok("SORT-PAR", fi.Name, fn.Name()+"("+sorted+")", w.Pos(call.Pos()), "every index by a comparator parameter reads the slice being sorted", true)
			}
			return true
		})
	}
	return n
}

// comparatorLit: e is a function literal, or a local variable whose only definition is one.
func comparatorLit(info *types.Info, fi *FuncInfo, e ast.Expr) *ast.FuncLit {
	if lit, ok := ast.Unparen(e).(*ast.FuncLit); ok {
		return lit
	}
	id := identOf(e)
	if id == nil {
		return nil
	}
	defs := defsIn(info, fi.Decl, objOf(info, id))
	if len(defs) != 1 {
		return nil
	}
	lit, _ := ast.Unparen(defs[0]).(*ast.FuncLit)
	return lit
}

// callbackOf resolves a function-valued argument to the code it runs: a function literal, a local bound once to
// one, or a named function / method value of the module. It returns the body, the type information it must be read
// with and the parameter list.
func callbackOf(w *World, fi *FuncInfo, e ast.Expr) (body *ast.BlockStmt, info *types.Info, params *ast.FieldList) {
	if lit := comparatorLit(fi.Pkg.TypesInfo, fi, e); lit != nil {
		return lit.Body, fi.Pkg.TypesInfo, lit.Type.Params
	}
	var id *ast.Ident
	switch v := ast.Unparen(e).(type) {
	case *ast.Ident:
		id = v
	case *ast.SelectorExpr:
		id = v.Sel
	}
	if id == nil {
		return nil, nil, nil
	}
	if fn, ok := fi.Pkg.TypesInfo.Uses[id].(*types.Func); ok {
		if cf := w.Funcs[fn]; cf != nil && cf.Decl.Body != nil {
			return cf.Decl.Body, cf.Pkg.TypesInfo, cf.Decl.Type.Params
		}
	}
	return nil, nil, nil
}

package main

// SORT-PAR: a comparator passed to sort.Slice / sort.SliceStable only indexes the slice being sorted.
//
// sort.Slice(X, less) permutes X and nothing else; a comparator that reads Y[i] for a parallel slice Y compares
// stale keys after the first swap, so the result is not sorted by Y (and depends on the algorithm's swap
// sequence). Obligations: every index expression by a comparator parameter inside such a comparator.

import (
	"go/ast"
	"go/token"
	"go/types"
	"strings"
)

func sortParallelRule(w *World, r *Result, only func(fi *FuncInfo) bool) int {
	n := 0
	for _, fi := range sortedFuncs(w) {
		if fi.Decl.Body == nil || (only != nil && !only(fi)) {
			continue
		}
		info := fi.Pkg.TypesInfo
		ast.Inspect(fi.Decl.Body, func(x ast.Node) bool {
			call, ok := x.(*ast.CallExpr)
			if !ok || len(call.Args) != 2 {
				return true
			}
			fn := calleeOf(info, call)
			if fn != nil && (fn.FullName() == "slices.SortFunc" || fn.FullName() == "slices.SortStableFunc") {
				// the comparator receives the elements themselves: nothing can be read by position
				n++
				r.ok("SORT-PAR", fi.Name, fn.Name()+"("+render(info, call.Args[0], nil)+")", w.Pos(call.Pos()), "the comparator is given the two elements, not their positions", true)
				return true
			}
			if fn == nil || (fn.FullName() != "sort.Slice" && fn.FullName() != "sort.SliceStable") {
				return true
			}
			lit := comparatorLit(info, fi, call.Args[1])
			if lit == nil {
				Undecided("SORT-PAR: comparator of %s at %s is neither a function literal nor a local bound once to one", fn.Name(), w.Pos(call.Pos()))
			}
			params := map[types.Object]bool{}
			for _, f := range lit.Type.Params.List {
				for _, nm := range f.Names {
					params[info.Defs[nm]] = true
				}
			}
			sorted := render(info, call.Args[0], nil)
			n++
			bad := false
			ast.Inspect(lit.Body, func(y ast.Node) bool {
				ix, ok := y.(*ast.IndexExpr)
				if !ok {
					return true
				}
				id := identOf(ix.Index)
				if id == nil || !params[objOf(info, id)] {
					return true
				}
				if got := render(info, ix.X, nil); got != sorted {
					bad = true
					r.bad("SORT-PAR", fi.Name, fn.Name()+"("+sorted+"): comparator reads "+es(ix), w.Pos(ix.Pos()), "the comparator indexes "+got+" with a position of "+sorted+": "+fn.Name()+" permutes only "+sorted+", so after the first swap "+es(ix)+" is no longer the key of element "+es(ix.Index)+" and the result is not ordered by it")
				}
				return true
			})
			if !bad {
				r.ok("SORT-PAR", fi.Name, fn.Name()+"("+sorted+")", w.Pos(call.Pos()), "every index by a comparator parameter reads the slice being sorted", true)
			}
			return true
		})
	}
	return n
}

// comparatorLit: e is a function literal, or a local variable whose only definition is one.
func comparatorLit(info *types.Info, fi *FuncInfo, e ast.Expr) *ast.FuncLit {
	if lit, ok := ast.Unparen(e).(*ast.FuncLit); ok {
		return lit
	}
	id := identOf(e)
	if id == nil {
		return nil
	}
	// a named function of the same package: read as the literal with the same signature and body
	if fn, ok := info.Uses[id].(*types.Func); ok && theWorld != nil {
		if cf := theWorld.Funcs[fn]; cf != nil && cf.Decl.Body != nil && cf.Pkg == fi.Pkg && cf.Decl.Recv == nil {
			return &ast.FuncLit{Type: cf.Decl.Type, Body: cf.Decl.Body}
		}
	}
	defs := defsIn(info, fi.Decl, objOf(info, id))
	if len(defs) != 1 {
		return nil
	}
	lit, _ := ast.Unparen(defs[0]).(*ast.FuncLit)
	return lit
}

// callbackOf resolves a function-valued argument to the code it runs: a function literal, a local bound once to
// one, or a named function / method value of the module. It returns the body, the type information it must be read
// with and the parameter list.
func callbackOf(w *World, fi *FuncInfo, e ast.Expr) (body *ast.BlockStmt, info *types.Info, params *ast.FieldList) {
	if lit := comparatorLit(fi.Pkg.TypesInfo, fi, e); lit != nil {
		return lit.Body, fi.Pkg.TypesInfo, lit.Type.Params
	}
	var id *ast.Ident
	switch v := ast.Unparen(e).(type) {
	case *ast.Ident:
		id = v
	case *ast.SelectorExpr:
		id = v.Sel
	}
	if id == nil {
		return nil, nil, nil
	}
	if fn, ok := fi.Pkg.TypesInfo.Uses[id].(*types.Func); ok {
		if cf := w.Funcs[fn]; cf != nil && cf.Decl.Body != nil {
			return cf.Decl.Body, cf.Pkg.TypesInfo, cf.Decl.Type.Params
		}
	}
	return nil, nil, nil
}

// sortSpec describes one sorting call whatever its API: which slice is sorted, by which key of an element (rendered
// with the element as `$e`), in which direction, and whether the algorithm is stable.
type sortSpec struct {
	call   *ast.CallExpr
	slice  ast.Expr
	key    string // "$e.Pos()", "$e.name.String()", "$e" … ("" when the comparator is not a plain key comparison)
	asc    bool
	stable bool
	api    string
}

// sortSpecOf recognises sort.Slice / sort.SliceStable(xs, func(i, j) bool { return xs[i].K < xs[j].K }),
// slices.SortFunc / SortStableFunc(xs, func(a, b T) int { return cmp.Compare(a.K, b.K) }) (also strings.Compare),
// sort.Strings / sort.Ints / slices.Sort(xs).
func sortSpecOf(info *types.Info, fi *FuncInfo, call *ast.CallExpr) *sortSpec {
	full := fullName(calleeOf(info, call))
	switch full {
	case "sort.Strings", "sort.Ints", "sort.Float64s", "slices.Sort":
		if len(call.Args) == 1 {
			return &sortSpec{call: call, slice: call.Args[0], key: "$e", asc: true, api: full}
		}
		return nil
	case "sort.Slice", "sort.SliceStable", "slices.SortFunc", "slices.SortStableFunc":
	default:
		return nil
	}
	if len(call.Args) != 2 {
		return nil
	}
	sp := &sortSpec{call: call, slice: call.Args[0], api: full, stable: strings.Contains(full, "Stable")}
	lit := comparatorLit(info, fi, call.Args[1])
	if lit == nil || len(lit.Body.List) != 1 {
		return sp
	}
	ret, ok := lit.Body.List[0].(*ast.ReturnStmt)
	if !ok || len(ret.Results) != 1 {
		return sp
	}
	var ps []types.Object
	for _, f := range lit.Type.Params.List {
		for _, nm := range f.Names {
			ps = append(ps, info.Defs[nm])
		}
	}
	if len(ps) != 2 {
		return sp
	}
	sliceTxt := render(info, call.Args[0], nil)
	// elemKey renders e with "the element at/for parameter p" replaced by $e; ok only if e mentions exactly that
	elemKey := func(e ast.Expr, p types.Object) (string, bool) {
		if strings.HasPrefix(full, "sort.") {
			// xs[p] is the element
			sub := map[types.Object]string{p: "\x00"}
			s := render(info, e, sub)
			el := sliceTxt + "[\x00]"
			if !strings.Contains(s, el) || strings.Contains(strings.ReplaceAll(s, el, ""), "\x00") {
				return "", false
			}
			return strings.ReplaceAll(s, el, "$e"), true
		}
		s := render(info, e, map[types.Object]string{p: "$e"})
		return s, strings.Contains(s, "$e")
	}
	var x, y ast.Expr
	res := ast.Unparen(ret.Results[0])
	switch full {
	case "sort.Slice", "sort.SliceStable":
		be, ok := res.(*ast.BinaryExpr)
		if !ok || (be.Op != token.LSS && be.Op != token.GTR) {
			return sp
		}
		x, y = be.X, be.Y
		sp.asc = be.Op == token.LSS
	default:
		c, ok := res.(*ast.CallExpr)
		if !ok || len(c.Args) != 2 {
			return sp
		}
		if f := fullName(calleeOf(info, c)); f != "cmp.Compare" && f != "strings.Compare" {
			return sp
		}
		x, y = c.Args[0], c.Args[1]
		sp.asc = true
	}
	kx, okx := elemKey(x, ps[0])
	ky, oky := elemKey(y, ps[1])
	if okx && oky && kx == ky {
		sp.key = kx
		return sp
	}
	// reversed operands: descending
	kx, okx = elemKey(x, ps[1])
	ky, oky = elemKey(y, ps[0])
	if okx && oky && kx == ky {
		sp.key = kx
		sp.asc = !sp.asc
	}
	return sp
}

package main

// Caller-derived facts for the parameters of extracted helpers.
//
// A slice or index on a regexp match is safe because of what the regular expression guarantees. When the body of the
// function literal handed to ReplaceAllStringFunc is moved into a named helper, the guarantee still holds for the
// helper's parameter provided that every use of the helper in the module is a direct call whose argument is the
// (never re-assigned) parameter of such a function literal. paramRegexpOrigin establishes exactly that and returns
// the pattern; any other use of the helper (a value use, an exported name, a different argument) gives no fact.

import (
	"go/ast"
	"go/types"
)

func paramRegexpOrigin(w *World, fi *FuncInfo, param types.Object) (string, bool) {
	if fi == nil || fi.Decl == nil || param == nil {
		return "", false
	}
	fobj, _ := fi.Pkg.TypesInfo.Defs[fi.Decl.Name].(*types.Func)
	if fobj == nil || fobj.Exported() {
		return "", false
	}
	// index of the parameter
	idx, k := -1, 0
	for _, f := range fi.Decl.Type.Params.List {
		for _, nm := range f.Names {
			if fi.Pkg.TypesInfo.Defs[nm] == param {
				idx = k
			}
			k++
		}
	}
	if idx < 0 {
		return "", false
	}
	// the parameter is not re-assigned in the helper before use: only a self-slice `s = s[a:b]` is tolerated by the
	// callers of this function (they look at the first slice); any other assignment gives up
	pattern, sites, bad := "", 0, false
	for _, cf := range sortedFuncs(w) {
		if cf.Decl.Body == nil {
			continue
		}
		info := cf.Pkg.TypesInfo
		calls := map[*ast.Ident]*ast.CallExpr{}
		ast.Inspect(cf.Decl.Body, func(x ast.Node) bool {
			if call, ok := x.(*ast.CallExpr); ok {
				switch f := ast.Unparen(call.Fun).(type) {
				case *ast.Ident:
					calls[f] = call
				case *ast.SelectorExpr:
					calls[f.Sel] = call
				}
			}
			return true
		})
		ast.Inspect(cf.Decl.Body, func(x ast.Node) bool {
			id, ok := x.(*ast.Ident)
			if !ok || info.Uses[id] != types.Object(fobj) {
				return true
			}
			call := calls[id]
			if call == nil || idx >= len(call.Args) {
				bad = true // used as a value
				return true
			}
			arg := identOf(call.Args[idx])
			if arg == nil {
				bad = true
				return true
			}
			pat, ok := matchParamPattern(info, cf, objOf(info, arg))
			if !ok || (pattern != "" && pat != pattern) {
				bad = true
				return true
			}
			pattern = pat
			sites++
			return true
		})
	}
	if bad || sites == 0 {
		return "", false
	}
	return pattern, true
}

// matchParamPattern: obj is the only parameter of a function literal passed to ReplaceAllStringFunc of a
// package-level regexp compiled from a constant, and is never assigned in that literal.
func matchParamPattern(info *types.Info, fi *FuncInfo, obj types.Object) (string, bool) {
	pat, found := "", false
	ast.Inspect(fi.Decl.Body, func(x ast.Node) bool {
		call, ok := x.(*ast.CallExpr)
		if !ok || len(call.Args) != 2 || fullName(calleeOf(info, call)) != "(*regexp.Regexp).ReplaceAllStringFunc" {
			return true
		}
		lit, ok := call.Args[1].(*ast.FuncLit)
		if !ok || lit.Type.Params.NumFields() != 1 || len(lit.Type.Params.List[0].Names) != 1 || info.Defs[lit.Type.Params.List[0].Names[0]] != obj {
			return true
		}
		assigned := false
		ast.Inspect(lit.Body, func(y ast.Node) bool {
			if as, ok := y.(*ast.AssignStmt); ok {
				for _, l := range as.Lhs {
					if id := identOf(l); id != nil && objOf(info, id) == obj {
						assigned = true
					}
				}
			}
			return true
		})
		sel, ok := call.Fun.(*ast.SelectorExpr)
		if !ok || assigned {
			return true
		}
		if p, ok := regexpPattern(info, fi, sel.X); ok {
			pat, found = p, true
		}
		return true
	})
	return pat, found
}

package main

// E-TPL: abstract evaluation of the generators' string expressions into sketches
// (literal text + typed holes + repetition + alternatives).

import (
	"fmt"
	"go/ast"
	"go/constant"
	"go/token"
	"go/types"
	"sort"
	"strconv"
	"strings"

	"golang.org/x/tools/go/packages"
)

type Part interface{}
type Lit struct{ S string }
type Atom struct {
	Class string // IDENT TYPE INT QSTR CONST SQLID COMMENT USER EMPTY? UNKNOWN REC
	Prov  string // provenance: rendered source expression
}
type Star struct {
	Body Sketch
	Sep  string
}
type Alt struct{ Opts []Sketch }

// Guarded: Body is emitted only when Cond instantiates to a non-empty text (if E != "" { … }).
type Guarded struct{ Cond, Body Sketch }
type Sketch []Part

func (s Sketch) String() string {
	var b strings.Builder
	for _, p := range s {
		switch p := p.(type) {
		case Lit:
			b.WriteString(p.S)
		case Atom:
			fmt.Fprintf(&b, "⟨%s:%s⟩", p.Class, p.Prov)
		case Star:
			fmt.Fprintf(&b, "⟦%s⟧*%q", p.Body.String(), p.Sep)
		case Alt:
			var o []string
			for _, x := range p.Opts {
				o = append(o, x.String())
			}
			fmt.Fprintf(&b, "⟪%s⟫", strings.Join(o, " ▏ "))
		case Guarded:
			fmt.Fprintf(&b, "⟨if %s≠ε: %s⟩", p.Cond.String(), p.Body.String())
		}
	}
	return b.String()
}

type tplEval struct {
	w         *World
	unknown   []string
	depth     int
	inProg    map[*types.Func]bool
	paramBusy map[types.Object]bool
	identBusy map[types.Object]bool
}

type fctx struct {
	pkg  *packages.Package
	fn   *ast.FuncDecl
	bind map[types.Object]Sketch
	// function-typed parameters bound, when the function is inlined at a call site, to the callback passed there
	bindFn map[types.Object]boundFn
}

type boundFn struct {
	arg ast.Expr
	fc  *fctx // the context the callback was written in
}

func newFctx(p *packages.Package, fn *ast.FuncDecl) *fctx {
	return &fctx{pkg: p, fn: fn, bind: map[types.Object]Sketch{}, bindFn: map[types.Object]boundFn{}}
}

// atom functions: leaves of the evaluation, with the lexical class of their result
var atomFuncs = map[string]string{
	modPath + "/analysis.LocalName":                         "IDENT",
	"(*go/types.Var).Name":                                  "IDENT",
	"(*go/types.TypeName).Name":                             "IDENT",
	"(*go/types.Const).Name":                                "IDENT",
	"(*go/types.Package).Name":                              "IDENT",
	"(*go/types.Basic).Name":                                "IDENT",
	"(*go/types.object).Name":                               "IDENT",
	"(go/types.Object).Name":                                "IDENT",
	"(*go/types.Func).Name":                                 "IDENT",
	"go/types.TypeString":                                   "TYPE",
	"(*go/types.Named).String":                              "TYPE",
	"(go/types.Type).String":                                "TYPE",
	"(*go/types.TypeName).String":                           "COMMENT",
	modPath + "/generator.SQLTableName":                     "SQLID",
	"(*" + modPath + "/analysis/sql.Table).TableName":       "IDENT",
	"(" + modPath + "/analysis/sql.Table).TableName":        "IDENT",
	"(go/constant.Value).ExactString":                       "CONST",
	"strconv.Quote":                                         "QSTR",
	"strconv.Itoa":                                          "INT",
	"strconv.FormatInt":                                     "INT",
	"strconv.FormatFloat":                                   "CONST",
	"(reflect.StructTag).Get":                               "USER",
	"(*go/types.Struct).Tag":                                "TAGTEXT",
	"(go/constant.Value).String":                            "CONST",
	modPath + "/generator.Origin":                           "COMMENT",
	modPath + "/generator.ReplaceEnums":                     "USER",
	"(" + modPath + "/generator.TableNameReplacer).Replace": "USER",
}

// fields of external structs read as text
var atomFields = map[string]string{
	"golang.org/x/tools/go/packages.Name":    "IDENT",
	"golang.org/x/tools/go/packages.PkgPath": "USER",
}

var passThrough = map[string]bool{
	"strings.ToLower": true, "strings.Title": true, "strings.TrimSpace": true, "strings.ToUpper": true,
	modPath + "/generator.ToLowerFirst": true, modPath + "/generator.ToSnakeCase": true,
	"strings.TrimSuffix": true, "strings.TrimPrefix": true, "strings.ReplaceAll": true,
}

func (ev *tplEval) unk(e ast.Expr, why string) Sketch {
	ev.unknown = append(ev.unknown, why+": "+es(e))
	return Sketch{Atom{"UNKNOWN", why + ":" + es(e)}}
}

func (ev *tplEval) sprintf(fc *fctx, call *ast.CallExpr) Sketch {
	info := fc.pkg.TypesInfo
	var format string
	tv := info.Types[call.Args[0]]
	if tv.Value != nil && tv.Value.Kind() == constant.String {
		format = constant.StringVal(tv.Value)
	} else {
		// the format is a parameter of a helper that only ever receives constants: one alternative per constant
		if id := identOf(call.Args[0]); id != nil && fc.fn != nil {
			if host := funcContaining(call.Args[0]); host != nil && !host.Obj.Exported() && paramIndex(host, objOf(info, id)) >= 0 {
				ds, wh := defsThroughAny(ev.w, host, objOf(info, id))
				var opts []Sketch
				for i, d := range ds {
					dtv := wh[i].Pkg.TypesInfo.Types[d]
					if dtv.Value == nil || dtv.Value.Kind() != constant.String {
						opts = nil
						break
					}
					lit := &ast.BasicLit{ValuePos: call.Args[0].Pos(), Kind: token.STRING, Value: strconv.Quote(constant.StringVal(dtv.Value))}
					info.Types[lit] = types.TypeAndValue{Type: types.Typ[types.String], Value: dtv.Value}
					opts = append(opts, ev.sprintf(fc, &ast.CallExpr{Fun: call.Fun, Lparen: call.Lparen, Args: append([]ast.Expr{lit}, call.Args[1:]...), Rparen: call.Rparen}))
				}
				switch len(opts) {
				case 0:
				case 1:
					return opts[0]
				default:
					return Sketch{Alt{opts}}
				}
			}
		}
		// a local every definition of which is a constant string (or a concatenation of such): one alternative per constant
		if host := funcContaining(call.Args[0]); host != nil && fc.fn != nil {
			alts, _ := constStringAlts(info, host, call.Args[0], 0)
			var opts []Sketch
			for _, a := range alts {
				cv := constant.MakeString(a)
				lit := &ast.BasicLit{ValuePos: call.Args[0].Pos(), Kind: token.STRING, Value: strconv.Quote(a)}
				info.Types[lit] = types.TypeAndValue{Type: types.Typ[types.String], Value: cv}
				opts = append(opts, ev.sprintf(fc, &ast.CallExpr{Fun: call.Fun, Lparen: call.Lparen, Args: append([]ast.Expr{lit}, call.Args[1:]...), Rparen: call.Rparen}))
			}
			switch len(opts) {
			case 0:
			case 1:
				return opts[0]
			default:
				return Sketch{Alt{opts}}
			}
		}
		return ev.unk(call, "dynamic format")
	}
	args := call.Args[1:]
	var out Sketch
	pos := 0
	argi := 0
	for _, m := range verbRe.FindAllStringSubmatchIndex(format, -1) {
		out = append(out, Lit{format[pos:m[0]]})
		pos = m[1]
		verb := format[m[0]:m[1]]
		if verb == "%%" {
			out = append(out, Lit{"%"})
			continue
		}
		if m[2] >= 0 {
			var k int
			fmtSscan(format[m[2]+1:m[3]-1], &k)
			argi = k - 1
		}
		if argi >= len(args) || argi < 0 {
			out = append(out, Atom{"UNKNOWN", "missing argument for " + verb})
			ev.unknown = append(ev.unknown, "missing printf argument in "+es(call.Fun))
			argi++
			continue
		}
		a := args[argi]
		argi++
		switch verb[len(verb)-1] {
		case 'd':
			out = append(out, Atom{"INT", es(a)})
		case 'q':
			out = append(out, Atom{"QSTR", es(a)})
		case 'T':
			out = append(out, Atom{"TYPE", "%T " + es(a)})
		default:
			t := info.TypeOf(a)
			if t == nil {
				out = append(out, ev.unk(a, "untyped")...)
				continue
			}
			if b, ok := t.Underlying().(*types.Basic); ok && b.Info()&types.IsString != 0 {
				out = append(out, ev.eval(fc, a)...)
			} else if ok && b.Info()&types.IsInteger != 0 {
				out = append(out, Atom{"INT", es(a)})
			} else if hasStringer(t) {
				out = append(out, Atom{"TYPE", es(a)})
			} else {
				out = append(out, ev.unk(a, "non-string operand of "+verb)...)
			}
		}
	}
	out = append(out, Lit{format[pos:]})
	return out
}

func (ev *tplEval) evalIdent(fc *fctx, id *ast.Ident) Sketch {
	info := fc.pkg.TypesInfo
	obj := objOf(info, id)
	if obj == nil {
		return ev.unk(id, "no object")
	}
	if c, ok := obj.(*types.Const); ok && c.Val().Kind() == constant.String {
		return Sketch{Lit{constant.StringVal(c.Val())}}
	}
	if s, ok := fc.bind[obj]; ok {
		return s
	}
	v, ok := obj.(*types.Var)
	if !ok {
		return ev.unk(id, "not a variable")
	}
	if v.Pkg() != nil && v.Parent() == v.Pkg().Scope() {
		// package-level variable initialised with a constant-evaluable expression
		for _, p := range ev.w.Pkgs {
			if p.Types != v.Pkg() {
				continue
			}
			for _, f := range p.Syntax {
				for _, d := range f.Decls {
					gd, ok := d.(*ast.GenDecl)
					if !ok {
						continue
					}
					for _, sp := range gd.Specs {
						vs, ok := sp.(*ast.ValueSpec)
						if !ok {
							continue
						}
						for i, nm := range vs.Names {
							if p.TypesInfo.Defs[nm] == obj && i < len(vs.Values) {
								return ev.eval(newFctx(p, nil), vs.Values[i])
							}
						}
					}
				}
			}
		}
		return ev.unk(id, "package variable without initialiser")
	}
	if fc.fn == nil {
		return ev.unk(id, "local outside a function")
	}
	if ev.identBusy == nil {
		ev.identBusy = map[types.Object]bool{}
	}
	if ev.identBusy[obj] {
		return nil // self reference while expanding the variable's own definitions (x = f(x)): contributes nothing new
	}
	ev.identBusy[obj] = true
	defer delete(ev.identBusy, obj)
	var inits, incs, prefixes, once []Sketch
	onceCond := false
	isParam, isRange := false, false
	ast.Inspect(fc.fn, func(n ast.Node) bool {
		switch n := n.(type) {
		case *ast.Field:
			for _, nm := range n.Names {
				if info.Defs[nm] == obj {
					// a named result starts as the empty string and is built by the body; only true parameters
					// take their content from the call sites
					isResult := false
					if fc.fn.Type.Results != nil {
						for _, rf := range fc.fn.Type.Results.List {
							if rf == n {
								isResult = true
							}
						}
					}
					if !isResult {
						isParam = true
					}
				}
			}
		case *ast.AssignStmt:
			for i, lh := range n.Lhs {
				lid := identOf(lh)
				if lid == nil || objOf(info, lid) != obj {
					continue
				}
				if len(n.Rhs) != len(n.Lhs) {
					inits = append(inits, ev.tuple(fc, n.Rhs[0], i))
					continue
				}
				rhs := n.Rhs[i]
				if n.Tok == token.ADD_ASSIGN {
					if !inLoopAfter(fc.fn, n, obj.Pos()) {
						// a single (possibly conditional) addition, not an accumulation
						once = append(once, ev.eval(fc, rhs))
						if len(pathCondsNoLoop(&FuncInfo{Decl: fc.fn}, n)) > 0 {
							onceCond = true
						}
						continue
					}
					incs = append(incs, ev.eval(fc, rhs))
					continue
				}
				if be, ok := ast.Unparen(rhs).(*ast.BinaryExpr); ok && be.Op == token.ADD {
					if xi := identOf(be.X); xi != nil && objOf(info, xi) == obj {
						incs = append(incs, ev.eval(fc, be.Y))
						continue
					}
					if yi := identOf(be.Y); yi != nil && objOf(info, yi) == obj {
						// prefix: x = P + x  -> optional prefix P
						pre := ev.eval(fc, be.X)
						for _, c := range pathConds(fc.fn, n) {
							if cb, ok := c.expr.(*ast.BinaryExpr); ok && c.truth && cb.Op == token.NEQ {
								if tv := info.Types[cb.Y]; tv.Value != nil && tv.Value.Kind() == constant.String && constant.StringVal(tv.Value) == "" {
									pre = Sketch{Guarded{Cond: ev.eval(fc, cb.X), Body: pre}}
								}
							}
						}
						prefixes = append(prefixes, pre)
						continue
					}
				}
				inits = append(inits, ev.eval(fc, rhs))
			}
		case *ast.ValueSpec:
			for i, nm := range n.Names {
				if info.Defs[nm] == obj {
					if i < len(n.Values) {
						inits = append(inits, ev.eval(fc, n.Values[i]))
					} else {
						inits = append(inits, Sketch{})
					}
				}
			}
		case *ast.RangeStmt:
			for _, kv := range []ast.Expr{n.Key, n.Value} {
				if kid := identOf(kv); kid != nil && info.Defs[kid] == obj {
					isRange = true
				}
			}
		}
		return true
	})
	prefixed := len(prefixes) > 0
	if (isParam || isRange) && len(inits) == 0 {
		if isParam {
			if sk, ok := ev.paramFromCallSites(fc, obj); ok {
				return sk
			}
		}
		if isRange && isStringType(obj.Type()) {
			// element (or key) of a collection of strings
			var rx ast.Expr
			isValue := false
			ast.Inspect(fc.fn, func(n ast.Node) bool {
				if rs, ok := n.(*ast.RangeStmt); ok {
					if v := identOf(rs.Value); v != nil && info.Defs[v] == obj {
						rx, isValue = rs.X, true
					}
					if k := identOf(rs.Key); k != nil && info.Defs[k] == obj {
						rx = rs.X
					}
				}
				return true
			})
			if rx != nil {
				if isValue {
					if el, ok := ev.evalList(fc, rx); ok {
						return el
					}
				}
				// data carried by the analysis (user comments, file names): free text
				return Sketch{Atom{"USER", es(rx)}}
			}
		}
		return ev.unk(id, "parameter/range variable of unknown content")
	}
	var out Sketch
	switch len(inits) {
	case 0:
	case 1:
		out = append(out, inits[0]...)
	default:
		out = Sketch{Alt{inits}}
	}
	if prefixed {
		allGuarded := true
		for _, p := range prefixes {
			if _, ok := p[0].(Guarded); !ok || len(p) != 1 {
				allGuarded = false
			}
		}
		if allGuarded && len(prefixes) == 1 {
			out = append(append(Sketch{}, prefixes[0]...), out...)
		} else {
			out = append(Sketch{Alt{append([]Sketch{{}}, prefixes...)}}, out...)
		}
	}
	for _, o := range once {
		if onceCond {
			out = append(out, Alt{[]Sketch{{}, o}})
		} else {
			out = append(out, o...)
		}
	}
	if len(incs) > 0 {
		out = append(out, Star{Sketch{Alt{incs}}, ""})
	}
	return out
}

// inLoopAfter: stmt lies inside a loop that starts after position decl (the variable accumulates over the loop).
func inLoopAfter(fd *ast.FuncDecl, stmt ast.Node, decl token.Pos) bool {
	res := false
	ast.Inspect(fd, func(n ast.Node) bool {
		switch l := n.(type) {
		case *ast.ForStmt:
			if l.Pos() > decl && l.Body.Pos() <= stmt.Pos() && stmt.End() <= l.Body.End() {
				res = true
			}
		case *ast.RangeStmt:
			if l.Pos() > decl && l.Body.Pos() <= stmt.Pos() && stmt.End() <= l.Body.End() {
				res = true
			}
		}
		return true
	})
	return res
}

// evalList evaluates a []string expression to the sketch of one element.
func (ev *tplEval) evalList(fc *fctx, e ast.Expr) (Sketch, bool) {
	info := fc.pkg.TypesInfo
	e = ast.Unparen(e)
	// a literal list: one of its elements
	if lit, ok := e.(*ast.CompositeLit); ok {
		var opts []Sketch
		for _, el := range lit.Elts {
			if kv, isKV := el.(*ast.KeyValueExpr); isKV {
				el = kv.Value
			}
			opts = append(opts, ev.eval(fc, el))
		}
		switch len(opts) {
		case 0:
			return Sketch{}, true
		case 1:
			return opts[0], true
		}
		return Sketch{Alt{opts}}, true
	}
	if call, ok := e.(*ast.CallExpr); ok {
		if fn := calleeOf(info, call); fn != nil {
			if fi := ev.w.Funcs[fn]; fi != nil {
				// a map helper applied with a callback: the elements are what the callback returns
				if _, fidx, ok := mapHelper(ev.w, fi); ok && fidx < len(call.Args) {
					if lit, isLit := ast.Unparen(call.Args[fidx]).(*ast.FuncLit); isLit && len(lit.Body.List) == 1 {
						if ret, isRet := lit.Body.List[0].(*ast.ReturnStmt); isRet && len(ret.Results) == 1 {
							return ev.eval(fc, ret.Results[0]), true
						}
					}
				}
				return ev.listFromFunc(fi)
			}
			// library functions returning (a selection or rearrangement of) the elements of their first argument
			switch fn.FullName() {
			case "slices.Compact", "slices.Clone", "slices.Sorted", "slices.Clip", "slices.CompactFunc", "slices.Repeat":
				if len(call.Args) >= 1 {
					return ev.evalList(fc, call.Args[0])
				}
			}
		}
		return nil, false
	}
	// a list kept in a field of a local struct: the elements appended to that field
	if sel, ok := e.(*ast.SelectorExpr); ok && fc.fn != nil {
		if rid := identOf(sel.X); rid != nil {
			if robj, ok := objOf(info, rid).(*types.Var); ok && !robj.IsField() {
				if _, isStruct := robj.Type().Underlying().(*types.Struct); isStruct {
					var elems []Sketch
					for _, d := range localFieldDefs(info, fc.fn, robj, sel.Sel.Name) {
						if call, ok := ast.Unparen(d).(*ast.CallExpr); ok && isBuiltinCall(info, call, "append") {
							for _, a := range call.Args[1:] {
								if call.Ellipsis.IsValid() {
									if el, ok := ev.evalList(fc, a); ok {
										elems = append(elems, el)
									}
									continue
								}
								elems = append(elems, ev.eval(fc, a))
							}
						} else if cl, ok := ast.Unparen(d).(*ast.CompositeLit); ok {
							for _, el := range cl.Elts {
								elems = append(elems, ev.eval(fc, el))
							}
						}
					}
					switch len(elems) {
					case 0:
					case 1:
						return elems[0], true
					default:
						return Sketch{Alt{elems}}, true
					}
				}
			}
		}
	}
	id := identOf(e)
	if id == nil || fc.fn == nil {
		return nil, false
	}
	obj := objOf(info, id)
	var elems []Sketch
	presized := false
	conditionalStore := false
	ast.Inspect(fc.fn, func(n ast.Node) bool {
		as, ok := n.(*ast.AssignStmt)
		if !ok {
			return true
		}
		for i, lh := range as.Lhs {
			switch l := lh.(type) {
			case *ast.Ident:
				if objOf(info, l) != obj || i >= len(as.Rhs) {
					continue
				}
				rhs := as.Rhs[i]
				if len(as.Rhs) != len(as.Lhs) {
					rhs = as.Rhs[0]
				}
				if call, ok := rhs.(*ast.CallExpr); ok {
					if isBuiltinCall(info, call, "append") {
						for _, a := range call.Args[1:] {
							if call.Ellipsis.IsValid() {
								if el, ok := ev.evalList(fc, a); ok {
									elems = append(elems, el)
								}
								continue
							}
							elems = append(elems, ev.eval(fc, a))
						}
						continue
					}
					if isBuiltinCall(info, call, "make") {
						if len(call.Args) == 2 {
							presized = true
						}
						continue
					}
					if fn := calleeOf(info, call); fn != nil {
						if fi := ev.w.Funcs[fn]; fi != nil {
							if el, ok := ev.evalList(fc, call); ok { // module function: its own list, or a map helper's callback
								elems = append(elems, el)
							}
						} else if el, ok := ev.evalList(fc, call); ok {
							// a library function passing a list through (slices.Repeat, slices.Compact, …)
							elems = append(elems, el)
						}
					}
				}
				if cl, ok := rhs.(*ast.CompositeLit); ok {
					for _, el := range cl.Elts {
						elems = append(elems, ev.eval(fc, el))
					}
				}
			case *ast.IndexExpr:
				if xi := identOf(l.X); xi != nil && objOf(info, xi) == obj && i < len(as.Rhs) {
					elems = append(elems, ev.eval(fc, as.Rhs[i]))
					// is the store reached on every iteration of its loop?
					for _, c := range pathConds(fc.fn, as) {
						if !c.loop {
							conditionalStore = true
						}
					}
				}
			}
		}
		return true
	})
	if len(elems) == 0 {
		// a list received as a parameter: the alternative of what the call sites pass
		if pi := paramIndexDecl(info, fc.fn, obj); pi >= 0 && !ev.paramBusy[obj] {
			ev.paramBusy[obj] = true
			defer delete(ev.paramBusy, obj)
			target := info.Defs[fc.fn.Name]
			var opts []Sketch
			seen := map[string]bool{}
			for _, fi := range sortedFuncs(ev.w) {
				if fi.Decl.Body == nil {
					continue
				}
				ast.Inspect(fi.Decl.Body, func(n ast.Node) bool {
					call, ok := n.(*ast.CallExpr)
					if !ok {
						return true
					}
					if fn := calleeOf(fi.Pkg.TypesInfo, call); fn != nil && types.Object(fn) == target && pi < len(call.Args) {
						if el, ok := ev.evalList(newFctx(fi.Pkg, fi.Decl), call.Args[pi]); ok {
							if k := el.String(); !seen[k] {
								seen[k] = true
								opts = append(opts, el)
							}
						}
					}
					return true
				})
			}
			switch len(opts) {
			case 0:
			case 1:
				return opts[0], true
			default:
				return Sketch{Alt{opts}}, true
			}
		}
		return nil, false
	}
	if presized && conditionalStore {
		elems = append(elems, Sketch{Atom{"EMPTY?", es(e)}})
	}
	if len(elems) == 1 {
		return elems[0], true
	}
	return Sketch{Alt{elems}}, true
}

func (ev *tplEval) listFromFunc(fi *FuncInfo) (Sketch, bool) {
	var elems []Sketch
	nfc := newFctx(fi.Pkg, fi.Decl)
	ast.Inspect(fi.Decl.Body, func(m ast.Node) bool {
		if _, ok := m.(*ast.FuncLit); ok {
			return false
		}
		if r, ok := m.(*ast.ReturnStmt); ok && len(r.Results) == 1 {
			if el, ok := ev.evalList(nfc, r.Results[0]); ok {
				elems = append(elems, el)
			}
		}
		return true
	})
	if len(elems) == 0 {
		return nil, false
	}
	if len(elems) == 1 {
		return elems[0], true
	}
	return Sketch{Alt{elems}}, true
}

func (ev *tplEval) eval(fc *fctx, e ast.Expr) Sketch {
	info := fc.pkg.TypesInfo
	if tv, ok := info.Types[e]; ok && tv.Value != nil && tv.Value.Kind() == constant.String {
		return Sketch{Lit{constant.StringVal(tv.Value)}}
	}
	switch e := e.(type) {
	case *ast.ParenExpr:
		return ev.eval(fc, e.X)
	case *ast.BinaryExpr:
		if e.Op == token.ADD {
			return append(append(Sketch{}, ev.eval(fc, e.X)...), ev.eval(fc, e.Y)...)
		}
	case *ast.Ident:
		return ev.evalIdent(fc, e)
	case *ast.SelectorExpr:
		if sel, ok := info.Selections[e]; ok && sel.Kind() == types.FieldVal {
			fv := sel.Obj().(*types.Var)
			if fv.Pkg() != nil {
				if cls, ok := atomFields[fv.Pkg().Path()+"."+fv.Name()]; ok {
					return Sketch{Atom{cls, es(e)}}
				}
			}
			return ev.fieldSummary(fc, fv, e)
		}
	case *ast.CallExpr:
		if tv, ok := info.Types[e.Fun]; ok && tv.IsType() && len(e.Args) == 1 {
			return ev.eval(fc, e.Args[0]) // conversion string(x)
		}
		fn := calleeOf(info, e)
		if fn == nil {
			// a call through a function-typed parameter: the alternatives are the named functions the call sites pass
			if id := identOf(e.Fun); id != nil && fc.fn != nil {
				if sk, ok := ev.callThroughParam(fc, id, e); ok {
					return sk
				}
			}
			return ev.unk(e, "dynamic call")
		}
		full := fn.FullName()
		switch full {
		case "fmt.Sprintf":
			return ev.sprintf(fc, e)
		case "strings.Join":
			sep := ""
			if tv := info.Types[e.Args[1]]; tv.Value != nil {
				sep = constant.StringVal(tv.Value)
			}
			if el, ok := ev.evalList(fc, e.Args[0]); ok {
				return Sketch{Star{el, sep}}
			}
			return ev.unk(e, "join of an unknown list")
		case "strings.Repeat":
			return Sketch{Star{ev.eval(fc, e.Args[0]), ""}}
		case "(*strings.Builder).String", "(*bytes.Buffer).String":
			if sel, ok := e.Fun.(*ast.SelectorExpr); ok {
				if id := identOf(sel.X); id != nil {
					if sk, ok := ev.evalBuilder(fc, id); ok {
						return sk
					}
				}
			}
			return ev.unk(e, "contents of a builder that is not a local written only by Write*/Fprint*")
		}
		if cls, ok := atomFuncs[full]; ok {
			return Sketch{Atom{cls, es(e)}}
		}
		if passThrough[full] {
			return ev.eval(fc, e.Args[0])
		}
		if fi := ev.w.Funcs[fn]; fi != nil && ev.depth < 6 {
			if fn.Type().(*types.Signature).Results().Len() == 1 {
				return ev.inline(fc, fi, e)
			}
		}
		// method of a module interface: alternatives over the module's implementations
		if sig, ok := fn.Type().(*types.Signature); ok && sig.Recv() != nil && ev.depth < 6 {
			if _, isItf := sig.Recv().Type().Underlying().(*types.Interface); isItf && fn.Pkg() != nil && strings.HasPrefix(fn.Pkg().Path(), modPath) {
				var opts []Sketch
				seen := map[string]bool{}
				for _, fi := range sortedFuncs(ev.w) {
					if fi.Obj.Name() != fn.Name() || fi.Decl.Recv == nil {
						continue
					}
					rt := fi.Obj.Type().(*types.Signature).Recv().Type()
					if !types.Implements(rt, sig.Recv().Type().Underlying().(*types.Interface)) && !types.Implements(types.NewPointer(rt), sig.Recv().Type().Underlying().(*types.Interface)) {
						continue
					}
					sk := ev.inline(fc, fi, e)
					if k := sk.String(); !seen[k] {
						seen[k] = true
						opts = append(opts, sk)
					}
				}
				if len(opts) == 1 {
					return opts[0]
				}
				if len(opts) > 1 {
					return Sketch{Alt{opts}}
				}
			}
		}
		// promoted Name() etc. on embedded go/types objects
		if fn.Name() == "Name" && fn.Pkg() != nil && fn.Pkg().Path() == "go/types" {
			return Sketch{Atom{"IDENT", es(e)}}
		}
		if fn.Name() == "String" && fn.Pkg() != nil && fn.Pkg().Path() == "go/types" {
			return Sketch{Atom{"TYPE", es(e)}}
		}
		return ev.unk(e, "call "+full)
	case *ast.IndexExpr:
		// a lookup in a read-only package-level table: one of its values (a missing key gives "", which the code
		// either refuses before use or means as "nothing")
		if t, _ := tableLookup(ev.w, info, e); t != nil {
			return ev.tableValues(t)
		}
		if call, ok := e.X.(*ast.CallExpr); ok {
			if fn := calleeOf(info, call); fn != nil && fn.FullName() == "strings.Fields" {
				return Sketch{Atom{"TYPE", es(e)}}
			}
		}
		if ev.fromRegexp(fc, e.X, 0) {
			return Sketch{Atom{"USER", es(e)}}
		}
		return ev.unk(e, "indexing")
	case *ast.SliceExpr:
		return ev.eval(fc, e.X)
	}
	return ev.unk(e, fmt.Sprintf("expression %T", e))
}

// fromRegexp: x holds (an element of) the result of a regexp Find*Submatch call: text copied from user input.
func (ev *tplEval) fromRegexp(fc *fctx, x ast.Expr, depth int) bool {
	info := fc.pkg.TypesInfo
	x = ast.Unparen(x)
	if call, ok := x.(*ast.CallExpr); ok {
		if fn := calleeOf(info, call); fn != nil && strings.HasPrefix(fn.FullName(), "(*regexp.Regexp).Find") {
			return true
		}
		return false
	}
	id := identOf(x)
	if id == nil || fc.fn == nil || depth > 3 {
		return false
	}
	obj := objOf(info, id)
	res := false
	ast.Inspect(fc.fn, func(n ast.Node) bool {
		switch n := n.(type) {
		case *ast.RangeStmt:
			if v := identOf(n.Value); v != nil && info.Defs[v] == obj && ev.fromRegexp(fc, n.X, depth+1) {
				res = true
			}
		case *ast.AssignStmt:
			for i, l := range n.Lhs {
				if li := identOf(l); li != nil && objOf(info, li) == obj && i < len(n.Rhs) && ev.fromRegexp(fc, n.Rhs[i], depth+1) {
					res = true
				}
			}
		}
		return true
	})
	return res
}

func (ev *tplEval) paramFromCallSites(fc *fctx, obj types.Object) (Sketch, bool) {
	if fc.fn == nil || ev.paramBusy[obj] {
		return nil, false
	}
	ev.paramBusy[obj] = true
	defer delete(ev.paramBusy, obj)
	info := fc.pkg.TypesInfo
	idx, i := -1, 0
	for _, f := range fc.fn.Type.Params.List {
		for _, nm := range f.Names {
			if info.Defs[nm] == obj {
				idx = i
			}
			i++
		}
	}
	if idx < 0 {
		return nil, false
	}
	target := info.Defs[fc.fn.Name]
	var opts []Sketch
	seen := map[string]bool{}
	for _, fi := range sortedFuncs(ev.w) {
		ast.Inspect(fi.Decl.Body, func(n ast.Node) bool {
			call, ok := n.(*ast.CallExpr)
			if !ok {
				return true
			}
			if fn := calleeOf(fi.Pkg.TypesInfo, call); fn != nil && types.Object(fn) == target && idx < len(call.Args) {
				s := ev.eval(newFctx(fi.Pkg, fi.Decl), call.Args[idx])
				if k := s.String(); !seen[k] {
					seen[k] = true
					opts = append(opts, s)
				}
			}
			return true
		})
	}
	if len(opts) == 0 {
		return nil, false
	}
	if len(opts) == 1 {
		return opts[0], true
	}
	return Sketch{Alt{opts}}, true
}

func (ev *tplEval) tuple(fc *fctx, e ast.Expr, i int) Sketch {
	info := fc.pkg.TypesInfo
	call, ok := ast.Unparen(e).(*ast.CallExpr)
	if !ok {
		if t, _ := tableLookup(ev.w, info, e); t != nil && i == 0 {
			return ev.tableValues(t) // v, ok := table[k]
		}
		return ev.unk(e, "tuple from a non-call")
	}
	fn := calleeOf(info, call)
	if fn == nil {
		return ev.unk(e, "tuple from a dynamic call")
	}
	if fn.FullName() == "strings.Cut" {
		return Sketch{Atom{"USER", es(call)}}
	}
	fi := ev.w.Funcs[fn]
	if fi == nil {
		return ev.unk(e, "tuple from "+fn.FullName())
	}
	nfc := newFctx(fi.Pkg, fi.Decl)
	var rets []Sketch
	ast.Inspect(fi.Decl.Body, func(n ast.Node) bool {
		if _, ok := n.(*ast.FuncLit); ok {
			return false
		}
		if r, ok := n.(*ast.ReturnStmt); ok && len(r.Results) > i {
			rets = append(rets, ev.eval(nfc, r.Results[i]))
		}
		return true
	})
	switch len(rets) {
	case 0:
		return ev.unk(e, "tuple without return")
	case 1:
		return rets[0]
	}
	return Sketch{Alt{rets}}
}

func (ev *tplEval) inline(fc *fctx, fi *FuncInfo, call *ast.CallExpr) Sketch {
	if ev.inProg[fi.Obj] {
		return Sketch{Atom{"REC", fi.Obj.Name()}}
	}
	ev.inProg[fi.Obj] = true
	defer delete(ev.inProg, fi.Obj)
	ev.depth++
	defer func() { ev.depth-- }()
	nfc := newFctx(fi.Pkg, fi.Decl)
	i := 0
	if fi.Decl.Type.Params != nil {
		for _, f := range fi.Decl.Type.Params.List {
			for _, nm := range f.Names {
				if i < len(call.Args) {
					obj := fi.Pkg.TypesInfo.Defs[nm]
					if isStringType(obj.Type()) {
						nfc.bind[obj] = ev.eval(fc, call.Args[i])
					}
					if _, isSig := obj.Type().Underlying().(*types.Signature); isSig {
						nfc.bindFn[obj] = boundFn{call.Args[i], fc}
					}
				}
				i++
			}
		}
	}
	var rets []Sketch
	seen := map[string]bool{}
	ast.Inspect(fi.Decl.Body, func(n ast.Node) bool {
		if _, ok := n.(*ast.FuncLit); ok {
			return false
		}
		if r, ok := n.(*ast.ReturnStmt); ok && len(r.Results) == 1 {
			s := ev.eval(nfc, r.Results[0])
			if k := s.String(); !seen[k] {
				seen[k] = true
				rets = append(rets, s)
			}
		}
		return true
	})
	// naming functions: inductive class check — a recursive result has the class of the other results
	if len(rets) == 1 {
		return rets[0]
	}
	if len(rets) == 0 {
		return ev.unk(call, "function without string return")
	}
	return Sketch{Alt{rets}}
}

func (ev *tplEval) fieldSummary(fc *fctx, field *types.Var, at ast.Expr) Sketch {
	var opts []Sketch
	seen := map[string]bool{}
	for _, p := range ev.w.Pkgs {
		for _, f := range p.Syntax {
			for _, d := range f.Decls {
				fd, _ := d.(*ast.FuncDecl)
				ast.Inspect(d, func(n ast.Node) bool {
					switch n := n.(type) {
					case *ast.CompositeLit:
						// positional struct literal T{a, b}
						if st, ok := p.TypesInfo.TypeOf(n).Underlying().(*types.Struct); ok && len(n.Elts) == st.NumFields() {
							for i := 0; i < st.NumFields(); i++ {
								if st.Field(i) == field {
									if _, isKV := n.Elts[i].(*ast.KeyValueExpr); !isKV {
										s := ev.eval(newFctx(p, fd), n.Elts[i])
										if k := s.String(); !seen[k] {
											seen[k] = true
											opts = append(opts, s)
										}
									}
								}
							}
						}
					case *ast.KeyValueExpr:
						if kid := identOf(n.Key); kid != nil && p.TypesInfo.Uses[kid] == types.Object(field) {
							s := ev.eval(newFctx(p, fd), n.Value)
							if k := s.String(); !seen[k] {
								seen[k] = true
								opts = append(opts, s)
							}
						}
					case *ast.AssignStmt:
						for i, l := range n.Lhs {
							if sel, ok := l.(*ast.SelectorExpr); ok && p.TypesInfo.Uses[sel.Sel] == types.Object(field) {
								if len(n.Rhs) == len(n.Lhs) {
									s := ev.eval(newFctx(p, fd), n.Rhs[i])
									if n.Tok == token.ADD_ASSIGN {
										s = Sketch{Star{s, ""}}
									}
									if k := s.String(); !seen[k] {
										seen[k] = true
										opts = append(opts, s)
									}
								} else if len(n.Rhs) == 1 {
									s := ev.tuple(newFctx(p, fd), n.Rhs[0], i)
									if k := s.String(); !seen[k] {
										seen[k] = true
										opts = append(opts, s)
									}
								}
							}
						}
					}
					return true
				})
			}
		}
	}
	if len(opts) == 0 {
		return ev.unk(at, "field never assigned")
	}
	if len(opts) == 1 {
		return opts[0]
	}
	return Sketch{Alt{opts}}
}

// ---------- extraction ----------

type tplDecl struct {
	fn      *FuncInfo
	pos     token.Pos
	id      Sketch
	content Sketch
	unknown []string
	label   string
}

// extractDecls evaluates every Declaration{…Content…} literal (and later `.Content =`/`+=` assignments to
// the variable holding it) of package rel.
func extractDecls(w *World, rel string) []*tplDecl {
	declT := w.TypeOf("generator", "Declaration")
	var out []*tplDecl
	handle := func(p *packages.Package, fd *ast.FuncDecl, fi *FuncInfo, lit *ast.CompositeLit) {
		info := p.TypesInfo
		if t := info.TypeOf(lit); t == nil || !types.Identical(t, declT) {
			return
		}
		var idE, contentE ast.Expr
		for _, el := range lit.Elts {
			if kv, ok := el.(*ast.KeyValueExpr); ok {
				switch es(kv.Key) {
				case "ID":
					idE = kv.Value
				case "Content":
					contentE = kv.Value
				}
			}
		}
		ev := &tplEval{w: w, inProg: map[*types.Func]bool{}, paramBusy: map[types.Object]bool{}}
		fc := newFctx(p, fd)
		d := &tplDecl{fn: fi, pos: lit.Pos()}
		if idE != nil {
			d.id = ev.eval(fc, idE)
		}
		ev.unknown = nil
		if contentE != nil {
			d.content = ev.eval(fc, contentE)
		}
		// later assignments to X.Content where X holds this literal
		if fd != nil {
			ast.Inspect(fd.Body, func(y ast.Node) bool {
				as, ok := y.(*ast.AssignStmt)
				if !ok {
					return true
				}
				for i, l := range as.Lhs {
					sel, ok := l.(*ast.SelectorExpr)
					if !ok || sel.Sel.Name != "Content" || i >= len(as.Rhs) {
						continue
					}
					id := identOf(sel.X)
					if id == nil {
						continue
					}
					holds := false
					for _, df := range defsIn(info, fd, objOf(info, id)) {
						if ast.Unparen(df) == ast.Expr(lit) {
							holds = true
						}
					}
					if !holds {
						continue
					}
					s := ev.eval(fc, as.Rhs[i])
					if as.Tok == token.ADD_ASSIGN {
						// conditional addition
						opt := Sketch{Alt{[]Sketch{{}, s}}}
						if len(pathCondsNoLoop(&FuncInfo{Decl: fd}, as)) == 0 {
							opt = s
						}
						d.content = append(d.content, opt...)
					} else {
						d.content = s
					}
				}
				return true
			})
		}
		if d.content == nil {
			return
		}
		d.unknown = ev.unknown
		name := rel + ".<package-level>"
		if fi != nil {
			name = fi.Name
		}
		d.label = name
		out = append(out, d)
	}
	p := w.ByRel[rel]
	for _, f := range p.Syntax {
		for _, dcl := range f.Decls {
			fd, _ := dcl.(*ast.FuncDecl)
			var fi *FuncInfo
			if fd != nil {
				if obj, ok := p.TypesInfo.Defs[fd.Name].(*types.Func); ok {
					fi = w.Funcs[obj]
				}
			}
			ast.Inspect(dcl, func(n ast.Node) bool {
				if lit, ok := n.(*ast.CompositeLit); ok {
					handle(p, fd, fi, lit)
				}
				return true
			})
		}
	}
	sort.Slice(out, func(i, j int) bool { return out[i].pos < out[j].pos })
	return out
}

// evalBuilder: the text held by a local strings.Builder / bytes.Buffer is the concatenation of what is written to it
// (`b.WriteString(x)`, `b.WriteByte(c)`, `fmt.Fprintf(&b, format, …)`, `fmt.Fprint(&b, …)`), in the same way a string
// local is the concatenation of its `+=`: writes inside a loop entered after the declaration repeat, the others happen
// once (optionally, when conditional). Any other use of the variable (passed elsewhere, assigned) gives up.
func (ev *tplEval) evalBuilder(fc *fctx, id *ast.Ident) (Sketch, bool) {
	info := fc.pkg.TypesInfo
	obj, ok := objOf(info, id).(*types.Var)
	if !ok || fc.fn == nil || obj.IsField() || (obj.Pkg() != nil && obj.Parent() == obj.Pkg().Scope()) {
		return nil, false
	}
	isB := func(e ast.Expr) bool { // b or &b
		e = ast.Unparen(e)
		if u, ok := e.(*ast.UnaryExpr); ok && u.Op == token.AND {
			e = ast.Unparen(u.X)
		}
		i := identOf(e)
		return i != nil && objOf(info, i) == types.Object(obj)
	}
	var once, incs []Sketch
	onceCond := false
	accounted := map[*ast.Ident]bool{}
	good := true
	add := func(n ast.Node, sk Sketch) {
		if inLoopAfter(fc.fn, n, obj.Pos()) {
			incs = append(incs, sk)
			return
		}
		if len(pathCondsNoLoop(&FuncInfo{Decl: fc.fn}, n)) > 0 {
			onceCond = true
		}
		once = append(once, sk)
	}
	mark := func(e ast.Expr) {
		ast.Inspect(e, func(x ast.Node) bool {
			if i, ok := x.(*ast.Ident); ok && objOf(info, i) == types.Object(obj) {
				accounted[i] = true
			}
			return true
		})
	}
	ast.Inspect(fc.fn, func(n ast.Node) bool {
		call, ok := n.(*ast.CallExpr)
		if !ok {
			return true
		}
		fn := calleeOf(info, call)
		if fn == nil {
			return true
		}
		full := fn.FullName()
		if sel, ok := call.Fun.(*ast.SelectorExpr); ok && isB(sel.X) {
			switch full {
			case "(*strings.Builder).WriteString", "(*bytes.Buffer).WriteString":
				mark(sel.X)
				add(call, ev.eval(fc, call.Args[0]))
			case "(*strings.Builder).WriteByte", "(*bytes.Buffer).WriteByte", "(*strings.Builder).WriteRune", "(*bytes.Buffer).WriteRune":
				mark(sel.X)
				if tv := info.Types[call.Args[0]]; tv.Value != nil && tv.Value.Kind() == constant.Int {
					v, _ := constant.Int64Val(tv.Value)
					add(call, Sketch{Lit{string(rune(v))}})
				} else {
					good = false
				}
			case "(*strings.Builder).String", "(*bytes.Buffer).String", "(*strings.Builder).Len", "(*bytes.Buffer).Len":
				mark(sel.X)
			}
			return true
		}
		switch full {
		case "fmt.Fprintf":
			if len(call.Args) >= 2 && isB(call.Args[0]) {
				mark(call.Args[0])
				add(call, ev.sprintf(fc, &ast.CallExpr{Fun: call.Fun, Lparen: call.Lparen, Args: call.Args[1:], Rparen: call.Rparen}))
			}
		case "fmt.Fprint", "fmt.Fprintln":
			if len(call.Args) >= 1 && isB(call.Args[0]) {
				mark(call.Args[0])
				var sk Sketch
				for _, a := range call.Args[1:] {
					sk = append(sk, ev.eval(fc, a)...)
				}
				if full == "fmt.Fprintln" {
					sk = append(sk, Lit{"\n"})
				}
				add(call, sk)
			}
		}
		return true
	})
	// every other mention of the variable (its declaration aside) is a use this model does not cover
	ast.Inspect(fc.fn, func(n ast.Node) bool {
		if i, ok := n.(*ast.Ident); ok && info.Uses[i] == types.Object(obj) && !accounted[i] {
			good = false
		}
		return true
	})
	if !good {
		return nil, false
	}
	var out Sketch
	for _, o := range once {
		if onceCond {
			out = append(out, Alt{[]Sketch{{}, o}})
		} else {
			out = append(out, o...)
		}
	}
	if len(incs) > 0 {
		out = append(out, Star{Sketch{Alt{incs}}, ""})
	}
	return out, true
}

// callThroughParam: id is a function-typed parameter of the enclosing function; every call site of that function in
// the module passes a named function of the module for it. The result is the alternative of their inlinings.
func (ev *tplEval) callThroughParam(fc *fctx, id *ast.Ident, call *ast.CallExpr) (Sketch, bool) {
	info := fc.pkg.TypesInfo
	obj := objOf(info, id)
	if obj == nil {
		return nil, false
	}
	if _, isSig := obj.Type().Underlying().(*types.Signature); !isSig {
		return nil, false
	}
	// inlined at a call site: the callback passed there, evaluated where it was written
	if b, ok := fc.bindFn[obj]; ok && ev.depth < 6 {
		switch a := ast.Unparen(b.arg).(type) {
		case *ast.FuncLit:
			if len(a.Body.List) == 1 {
				if ret, ok := a.Body.List[0].(*ast.ReturnStmt); ok && len(ret.Results) == 1 {
					return ev.eval(b.fc, ret.Results[0]), true
				}
			}
		case *ast.Ident:
			if pf, _ := b.fc.pkg.TypesInfo.Uses[a].(*types.Func); pf != nil && ev.w.Funcs[pf] != nil {
				return ev.inline(fc, ev.w.Funcs[pf], call), true
			}
		case *ast.SelectorExpr:
			if pf, _ := b.fc.pkg.TypesInfo.Uses[a.Sel].(*types.Func); pf != nil && ev.w.Funcs[pf] != nil {
				return ev.inline(fc, ev.w.Funcs[pf], call), true
			}
		}
	}
	idx, i := -1, 0
	for _, f := range fc.fn.Type.Params.List {
		for _, nm := range f.Names {
			if info.Defs[nm] == obj {
				idx = i
			}
			i++
		}
	}
	if idx < 0 {
		return nil, false
	}
	target := info.Defs[fc.fn.Name]
	var opts []Sketch
	seen := map[string]bool{}
	good, sites := true, 0
	for _, fi := range sortedFuncs(ev.w) {
		cinfo := fi.Pkg.TypesInfo
		ast.Inspect(fi.Decl.Body, func(n ast.Node) bool {
			c2, ok := n.(*ast.CallExpr)
			if !ok {
				return true
			}
			if fn := calleeOf(cinfo, c2); fn == nil || types.Object(fn) != target || idx >= len(c2.Args) {
				return true
			}
			sites++
			var passed *types.Func
			switch a := ast.Unparen(c2.Args[idx]).(type) {
			case *ast.Ident:
				passed, _ = cinfo.Uses[a].(*types.Func)
			case *ast.SelectorExpr:
				passed, _ = cinfo.Uses[a.Sel].(*types.Func)
			}
			pfi := ev.w.Funcs[passed]
			if passed == nil || pfi == nil || ev.depth >= 6 {
				good = false
				return true
			}
			sk := ev.inline(fc, pfi, call)
			if k := sk.String(); !seen[k] {
				seen[k] = true
				opts = append(opts, sk)
			}
			return true
		})
	}
	if !good || sites == 0 || len(opts) == 0 {
		return nil, false
	}
	if len(opts) == 1 {
		return opts[0], true
	}
	return Sketch{Alt{opts}}, true
}

// tableValues: the alternatives a lookup in a package-level table can yield.
func (ev *tplEval) tableValues(t *pkgTableInfo) Sketch {
	var opts []Sketch
	seen := map[string]bool{}
	var pkg *packages.Package
	for _, p := range ev.w.Pkgs {
		if p.TypesInfo == t.info {
			pkg = p
		}
	}
	if pkg == nil {
		return Sketch{Atom{"UNKNOWN", "table " + t.obj.Name()}}
	}
	fc := newFctx(pkg, nil)
	for _, en := range t.entries {
		sk := ev.eval(fc, en.val)
		if k := sk.String(); !seen[k] {
			seen[k] = true
			opts = append(opts, sk)
		}
	}
	switch len(opts) {
	case 0:
		return Sketch{}
	case 1:
		return opts[0]
	}
	return Sketch{Alt{opts}}
}

// paramIndexDecl: the position of obj among the parameters of fd, -1 when it is not one.
func paramIndexDecl(info *types.Info, fd *ast.FuncDecl, obj types.Object) int {
	i := 0
	for _, f := range fd.Type.Params.List {
		for _, nm := range f.Names {
			if info.Defs[nm] == obj {
				return i
			}
			i++
		}
	}
	return -1
}

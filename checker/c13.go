package main

// C13: HTTP route extraction.

import (
	"go/ast"
	"go/constant"
	"go/token"
	"go/types"
	"sort"
	"strings"
)

func init() { register("C13", "other", checkC13) }

func checkC13(w *World, r *Result) {
	r.Explanation = "Decides structural necessary conditions on analysis/httpapi: AGR-C13a every types.Type-typed contract slot that resolveTypes resolves back through the shared analysis is also collected into the list that analysis is built from (else the slot stays nil unless another route mentions the type); AGR-C13b every exported field of Endpoint/Contract/Form/TypedParam has a writer in httpapi and a reader in the TypeScript client generator; SHP-C13v the verb set contains GET, PUT, POST, DELETE; SHP-C13n a registration is skipped by arity only when it has fewer than two arguments; SHP-C13p between URL resolution and the append the only filter is the prefix test; SHP-C13h the handler resolution covers method/package selector, identifier and function literal, and a declared handler's body is selected by its declaration position (unique), not by name; SHP-C13o endpoints are only appended, inside one syntax walk that does not descend into a recorded registration (source order, one entry each); SHP-C13r the return statement parser reads JSON/JSONPretty's 2nd and Blob's 3rd argument and sets the blob flag with it; OBL-* no unguarded partial operation in the package. Does not decide: one entry per registration and constant folding as value-level facts about arbitrary programs."
	r.Rules = []string{"AGR-C13a", "AGR-C13b", "SHP-C13v", "SHP-C13n", "SHP-C13p", "SHP-C13h", "SHP-C13o", "SHP-C13r", "SHP-C13g", "SHP-C13q", "SHP-C13e", "SHP-C13s", "SHP-C13u", "OBL-*", "MEMO-KEY", "PKG-ID", "ALIAS-APPEND", "STATE-PKG", "LIT-VALUE", "IDENT-SCOPE", "METHOD-SET"}
	litValueRule(w, r, func(rel string) bool { return rel == "analysis/httpapi" || rel == "analysis" })
	goTypesAPIRule(w, r, func(rel string) bool { return rel == "analysis/httpapi" })
	statePkgRule(w, r, func(rel string) bool { return rel == "analysis/httpapi" || rel == "analysis" })
	aliasAppendRule(w, r, func(rel string) bool { return rel == "analysis/httpapi" })
	memoKeyRule(w, r, func(rel string) bool { return rel == "analysis/httpapi" })
	pkgIDRule(w, r, func(rel string) bool { return rel == "analysis/httpapi" })
	checkResolveTypes(w, r)
	checkRecordCoverage(w, r)
	checkExtractShape(w, r)
	checkGenericForms(w, r)
	checkResolvedPackage(w, r)
	checkEvalScope(w, r)
	checkAnonymousNames(w, r)
	checkContractOrder(w, r)
	checkResolveFunc(w, r)
	checkReturnParser(w, r)
	for _, o := range runOBL(w, func(rel string) bool { return rel == "analysis/httpapi" }) {
		r.add(o)
	}
}

// typeSlotPath renders a selector chain relative to a contract/endpoint root, erasing indices.
func slotPath(info *types.Info, e ast.Expr, roots map[types.Object]string) string {
	var parts []string
	for {
		switch v := ast.Unparen(e).(type) {
		case *ast.SelectorExpr:
			parts = append([]string{v.Sel.Name}, parts...)
			e = v.X
		case *ast.IndexExpr:
			parts = append([]string{"[*]"}, parts...)
			e = v.X
		case *ast.UnaryExpr:
			e = v.X
		case *ast.Ident:
			if p, ok := roots[objOf(info, v)]; ok {
				s := p
				for _, x := range parts {
					if x == "[*]" {
						s += x
					} else {
						s += "." + x
					}
				}
				return s
			}
			return ""
		default:
			return ""
		}
	}
}

func checkResolveTypes(w *World, r *Result) {
	fi := w.MustFunc("analysis/httpapi.resolveTypes")
	info := fi.Pkg.TypesInfo
	// two loops over endpoints
	var loops []*ast.RangeStmt
	for _, st := range fi.Decl.Body.List {
		if rs, ok := st.(*ast.RangeStmt); ok {
			loops = append(loops, rs)
		}
	}
	if len(loops) != 2 {
		Undecided("resolveTypes: expected a collecting and an updating loop, found %d loops", len(loops))
	}
	collected := map[string]bool{}
	resolved := map[string]ast.Node{}
	// normalise roots: endpoint var / contract pointer var / range vars over slices of typed params. A helper of the
	// package called on (or with) a part of the endpoint is followed with its receiver / parameters bound to that part.
	var scanBody func(body ast.Node, roots map[types.Object]string, base string, collect bool, depth int)
	scanBody = func(body ast.Node, roots map[types.Object]string, base string, collect bool, depth int) {
		path := func(e ast.Expr) string {
			if p := slotPath(info, e, roots); p != "" {
				return p
			}
			// endpoints[i] (possibly &…, possibly .Contract…) is E when ranging over endpoints
			x := ast.Unparen(e)
			if u, ok := x.(*ast.UnaryExpr); ok {
				x = ast.Unparen(u.X)
			}
			var sels []string
			for {
				if sel, ok := x.(*ast.SelectorExpr); ok {
					sels = append([]string{sel.Sel.Name}, sels...)
					x = ast.Unparen(sel.X)
					continue
				}
				break
			}
			if ix, ok := x.(*ast.IndexExpr); ok && base != "" && es(ix.X) == base {
				p := "E"
				for _, n := range sels {
					p += "." + n
				}
				return p
			}
			return ""
		}
		// locals bound to parts of the endpoint
		changed := true
		for changed {
			changed = false
			ast.Inspect(body, func(x ast.Node) bool {
				switch s := x.(type) {
				case *ast.AssignStmt:
					if len(s.Lhs) == 1 && len(s.Rhs) == 1 {
						if id := identOf(s.Lhs[0]); id != nil {
							if p := path(s.Rhs[0]); p != "" && roots[objOf(info, id)] == "" {
								roots[objOf(info, id)] = p
								changed = true
							}
						}
					}
				case *ast.RangeStmt:
					if p := path(s.X); p != "" {
						if id := identOf(s.Value); id != nil && id.Name != "_" && roots[info.Defs[id]] == "" {
							roots[info.Defs[id]] = p + "[*]"
							changed = true
						}
					}
				}
				return true
			})
		}
		if collect {
			for _, app := range appendStmts(info, body, "") {
				arg := app.Rhs[0].(*ast.CallExpr).Args[1]
				if p := path(arg); p != "" {
					collected[p] = true
				}
			}
		}
		// resolved: an.Types[<slot>] reads and X.resolveType(an) calls
		ast.Inspect(body, func(x ast.Node) bool {
			switch s := x.(type) {
			case *ast.IndexExpr:
				isMemo := strings.HasSuffix(es(s.X), ".Types")
				if t := info.TypeOf(s.X); t != nil && strings.HasPrefix(t.String(), "map[go/types.Type]") && strings.HasSuffix(t.String(), "analysis.Type") {
					isMemo = true // the memo itself, under whatever name it was bound to
				}
				if !collect && isMemo {
					if p := path(s.Index); p != "" {
						resolved[p] = s
					}
				}
			case *ast.CallExpr:
				fn := calleeOf(info, s)
				if fn == nil {
					return true
				}
				sel, isSel := s.Fun.(*ast.SelectorExpr)
				if !collect && fn.Name() == "resolveType" && isSel {
					if p := path(sel.X); p != "" {
						resolved[p+".type_"] = s
					}
					return true
				}
				// a helper of the package: bind its receiver and parameters to the parts it is given
				cf := w.Funcs[fn]
				if cf == nil || cf.Pkg != fi.Pkg || cf.Decl.Body == nil || depth >= 2 || cf == fi {
					return true
				}
				sub := map[types.Object]string{}
				if isSel && cf.Decl.Recv != nil && len(cf.Decl.Recv.List[0].Names) == 1 {
					if p := path(sel.X); p != "" {
						sub[info.Defs[cf.Decl.Recv.List[0].Names[0]]] = p
					}
				}
				k := 0
				for _, f := range cf.Decl.Type.Params.List {
					for _, nm := range f.Names {
						if k < len(s.Args) {
							if p := path(s.Args[k]); p != "" {
								sub[info.Defs[nm]] = p
							}
						}
						k++
					}
				}
				if len(sub) > 0 {
					scanBody(cf.Decl.Body, sub, "", collect, depth+1)
				}
			}
			return true
		})
	}
	scan := func(loop *ast.RangeStmt, collect bool) {
		roots := map[types.Object]string{}
		if id := identOf(loop.Value); id != nil && id.Name != "_" {
			roots[info.Defs[id]] = "E"
		}
		scanBody(loop.Body, roots, es(loop.X), collect, 0)
	}
	scan(loops[0], true)
	scan(loops[1], false)
	if len(resolved) < 3 {
		Undecided("resolveTypes: only %d resolved slots recognised", len(resolved))
	}
	var keys []string
	for k := range resolved {
		keys = append(keys, k)
	}
	sort.Strings(keys)
	for _, k := range keys {
		r.cond(collected[k], "AGR-C13a", fi.Name, "slot "+k+" collected", w.Pos(resolved[k].Pos()),
			"the type resolved back through an.Types is among the types the shared analysis was built from",
			"the slot "+k+" is looked up in the shared analysis but never added to the required types: its analysed type is nil unless some other route happens to mention the same type")
	}
	var cks []string
	for k := range collected {
		cks = append(cks, k)
	}
	sort.Strings(cks)
	r.note("collected_slots", cks)
	r.note("resolved_slots", keys)
}

func checkRecordCoverage(w *World, r *Result) {
	written := map[*types.Var]bool{}
	read := map[*types.Var]bool{}
	mark := func(rel string, m map[*types.Var]bool, writes bool) {
		p := w.ByRel[rel]
		info := p.TypesInfo
		for _, f := range p.Syntax {
			ast.Inspect(f, func(x ast.Node) bool {
				switch s := x.(type) {
				case *ast.AssignStmt:
					if writes {
						for _, l := range s.Lhs {
							// every field along the selector chain is (partly) written
							for e := ast.Expr(l); ; {
								sel, ok := ast.Unparen(e).(*ast.SelectorExpr)
								if !ok {
									if ix, ok := ast.Unparen(e).(*ast.IndexExpr); ok {
										e = ix.X
										continue
									}
									break
								}
								if v, ok := info.Uses[sel.Sel].(*types.Var); ok && v.IsField() {
									m[v] = true
								}
								e = sel.X
							}
						}
					}
				case *ast.KeyValueExpr:
					if writes {
						if id := identOf(s.Key); id != nil {
							if v, ok := info.Uses[id].(*types.Var); ok && v.IsField() {
								m[v] = true
							}
						}
					}
				case *ast.SelectorExpr:
					if !writes {
						if v, ok := info.Uses[s.Sel].(*types.Var); ok && v.IsField() {
							m[v] = true
						}
					}
				}
				return true
			})
		}
	}
	mark("analysis/httpapi", written, true)
	mark("generator/typescript", read, false)
	// reads through httpapi's own accessor methods (Form.IsZero, AsTypedValues) count when the generator calls them
	hp := w.ByRel["analysis/httpapi"]
	tsCalls := map[*types.Func]bool{}
	for _, f := range w.ByRel["generator/typescript"].Syntax {
		ast.Inspect(f, func(x ast.Node) bool {
			if call, ok := x.(*ast.CallExpr); ok {
				if fn := calleeOf(w.ByRel["generator/typescript"].TypesInfo, call); fn != nil && fn.Pkg() == hp.Types {
					tsCalls[fn] = true
				}
			}
			return true
		})
	}
	for fn := range tsCalls {
		if fi := w.Funcs[fn]; fi != nil {
			ast.Inspect(fi.Decl.Body, func(x ast.Node) bool {
				if s, ok := x.(*ast.SelectorExpr); ok {
					if v, ok := hp.TypesInfo.Uses[s.Sel].(*types.Var); ok && v.IsField() {
						read[v] = true
					}
				}
				return true
			})
		}
	}
	n := 0
	for _, tn := range []string{"Endpoint", "Contract", "Form", "TypedParam"} {
		st, ok := w.TypeOf("analysis/httpapi", tn).Underlying().(*types.Struct)
		if !ok {
			Undecided("httpapi.%s is not a struct", tn)
		}
		for i := 0; i < st.NumFields(); i++ {
			f := st.Field(i)
			if !f.Exported() {
				continue
			}
			n++
			cons := tn + "." + f.Name()
			r.cond(written[f], "AGR-C13b", "analysis/httpapi.<package>", cons+" written", w.Pos(f.Pos()), "the extractor fills this field", "no statement of the extractor writes this contract field: the client generator reads a value that is always zero")
			r.cond(read[f], "AGR-C13b", "generator/typescript.<package>", cons+" read", w.Pos(f.Pos()), "the client generator consults this field", "the client generator never reads this contract field: what the extractor found there cannot influence the client")
		}
	}
	if n < 10 {
		Undecided("only %d exported contract fields", n)
	}
}

func checkExtractShape(w *World, r *Result) {
	// verbs
	hm := w.MustFunc("analysis/httpapi.isHttpMethod")
	verbs := acceptedStrings(w, hm)
	for _, v := range []string{"GET", "PUT", "POST", "DELETE"} {
		r.cond(verbs[v], "SHP-C13v", hm.Name, "verb "+v+" accepted", fnPos(w, hm), "in the accepted set", "registrations with verb "+v+" are no longer extracted")
	}
	fi := w.MustFunc("analysis/httpapi.(echoExtractor).extract")
	info := fi.Pkg.TypesInfo
	apps := appendStmts(info, fi.Decl.Body, "")
	if len(apps) != 1 {
		r.bad("SHP-C13o", fi.Name, "appends to the endpoint list", fnPos(w, fi), "expected exactly one append site for endpoints")
		return
	}
	app := apps[0]
	// inside exactly one ast.Inspect callback
	var lit *ast.FuncLit
	nInspect := 0
	ast.Inspect(fi.Decl.Body, func(x ast.Node) bool {
		if call, ok := x.(*ast.CallExpr); ok && fullName(calleeOf(info, call)) == "go/ast.Inspect" {
			nInspect++
			if fl, ok := call.Args[1].(*ast.FuncLit); ok && fl.Body.Pos() <= app.Pos() && app.End() <= fl.Body.End() {
				lit = fl
			}
		}
		return true
	})
	r.cond(lit != nil && nInspect == 1, "SHP-C13o", fi.Name, "endpoints appended inside one syntax walk", w.Pos(app.Pos()), "single ast.Inspect over the file: entries come in source order", "endpoints are not collected by a single in-order walk of the file")
	if lit == nil {
		return
	}
	// statement after the append returns false (do not descend into the recorded registration)
	retFalse := false
	for i, st := range lit.Body.List {
		if st == ast.Stmt(app) && i+1 < len(lit.Body.List) {
			if ret, ok := lit.Body.List[i+1].(*ast.ReturnStmt); ok && len(ret.Results) == 1 && es(ret.Results[0]) == "false" {
				retFalse = true
			}
		}
	}
	r.cond(retFalse, "SHP-C13o", fi.Name, "no descent into a recorded registration", w.Pos(app.Pos()), "the walk returns false right after the append", "after recording a registration the walk continues into its arguments: nested verb calls inside a handler literal are recorded again")
	// classify the skip conditions that precede the append in the callback
	var callVar types.Object
	for _, st := range lit.Body.List {
		if as, ok := st.(*ast.AssignStmt); ok && len(as.Lhs) == 2 && len(as.Rhs) == 1 {
			if ta, ok := as.Rhs[0].(*ast.TypeAssertExpr); ok && ta.Type != nil && es(ta.Type) == "*ast.CallExpr" {
				callVar = objOf(info, identOf(as.Lhs[0]))
			}
		}
	}
	urlSeen := false
	nArity := 0
	defer func() {
		if nArity == 0 {
			r.warn("no arity filter recognised in extract")
		}
	}()
	for _, st := range lit.Body.List {
		if st == ast.Stmt(app) {
			break
		}
		if as, ok := st.(*ast.AssignStmt); ok {
			for _, rhs := range as.Rhs {
				if call, ok := rhs.(*ast.CallExpr); ok && strings.HasSuffix(fullName(calleeOf(info, call)), "httpapi.resolveConstString") {
					urlSeen = true
				}
			}
		}
		is, ok := st.(*ast.IfStmt)
		if !ok || !terminates(is.Body) {
			continue
		}
		// does the branch skip (return true) or fail (panic)?
		skips := false
		if ret, ok := is.Body.List[len(is.Body.List)-1].(*ast.ReturnStmt); ok && len(ret.Results) == 1 {
			skips = true
		}
		if !skips {
			continue
		}
		for _, c := range disjuncts(is.Cond, true) {
			s := es(c.expr)
			if !c.truth {
				s = "!(" + s + ")"
			}
			// arity
			if be, ok := c.expr.(*ast.BinaryExpr); ok {
				if call, ok := be.X.(*ast.CallExpr); ok && isBuiltinCall(info, call, "len") && callVar != nil && strings.HasSuffix(es(call.Args[0]), ".Args") {
					k, isK := constInt(info, be.Y)
					op := be.Op
					if !c.truth {
						op = negateTok(op)
					}
					good := isK
					if good {
						for a := 0; a <= 5; a++ {
							skip := evalCmp(op, a, k)
							if skip != (a < 2) {
								good = false
							}
						}
					}
					nArity++
					r.cond(good, "SHP-C13n", fi.Name, "arity filter "+s, w.Pos(is.Pos()), "a verb call is skipped by arity exactly when it has fewer than two arguments", "the arity filter "+s+" also skips registrations with more than two arguments (route-level middleware): those routes are silently missing from the list")
					continue
				}
			}
			if urlSeen {
				// after URL resolution only the prefix filter may skip
				isPrefix := strings.Contains(s, "restrictPrefix")
				r.cond(isPrefix, "SHP-C13p", fi.Name, "filter after URL resolution: "+s, w.Pos(is.Pos()), "the optional prefix filter", "a route whose URL was resolved is dropped by a condition other than the prefix filter")
			}
		}
	}
	// prefix filter semantics: restrictPrefix != "" && !strings.HasPrefix(path, restrictPrefix)
	foundPrefix := false
	ast.Inspect(lit.Body, func(x ast.Node) bool {
		if call, ok := x.(*ast.CallExpr); ok && fullName(calleeOf(info, call)) == "strings.HasPrefix" && len(call.Args) == 2 && strings.Contains(es(call.Args[1]), "restrictPrefix") {
			foundPrefix = true
		}
		return true
	})
	r.cond(foundPrefix, "SHP-C13p", fi.Name, "prefix filter uses strings.HasPrefix(url, prefix)", fnPos(w, fi), "prefix test on the resolved URL", "the prefix filter no longer tests strings.HasPrefix(url, restrictPrefix)")
	// the Endpoint literal: Url <- resolved Args[0], Method <- selector name, Contract <- from Args[1]
	lit2, _ := app.Rhs[0].(*ast.CallExpr).Args[1].(*ast.CompositeLit)
	if lit2 != nil {
		for _, el := range lit2.Elts {
			kv, ok := el.(*ast.KeyValueExpr)
			if !ok {
				continue
			}
			id := identOf(kv.Value)
			if id == nil {
				continue
			}
			defs := defsIn(info, fi.Decl, objOf(info, id))
			src := ""
			for _, d := range defs {
				src += es(d) + ";"
			}
			switch es(kv.Key) {
			case "Url":
				r.cond(strings.Contains(src, "Args[0]"), "SHP-C13o", fi.Name, "Url from the first argument", w.Pos(kv.Pos()), "constant-folded first argument", "Url is not derived from the registration's first argument")
			case "Method":
				r.cond(strings.Contains(src, ".Sel.Name"), "SHP-C13o", fi.Name, "Method from the selector name", w.Pos(kv.Pos()), "the verb method's name", "Method is not the name of the called verb method")
			}
		}
	}
	// handler forms
	pf := w.MustFunc("analysis/httpapi.parseEndpointFunc")
	forms := map[string]bool{}
	// the resolution may be spread over helpers of the package (one per handler form)
	for _, cf := range calleeClosure(w, pf, 2) {
		ast.Inspect(cf.Decl.Body, func(x ast.Node) bool {
			if ta, ok := x.(*ast.TypeAssertExpr); ok && ta.Type != nil {
				forms[es(ta.Type)] = true
			}
			if cc, ok := x.(*ast.CaseClause); ok {
				for _, e := range cc.List {
					forms[es(e)] = true
				}
			}
			return true
		})
	}
	for _, f := range []string{"*ast.SelectorExpr", "*ast.Ident", "*ast.FuncLit", "*types.PkgName", "*types.Var"} {
		r.cond(forms[f], "SHP-C13h", pf.Name, "handler form "+f, fnPos(w, pf), "handled", "handlers given in this form are no longer resolved")
	}
}

// disjuncts: the alternatives each of which suffices for cond to have the given truth value.
func disjuncts(e ast.Expr, truth bool) []pcond {
	switch v := ast.Unparen(e).(type) {
	case *ast.UnaryExpr:
		if v.Op == token.NOT {
			return disjuncts(v.X, !truth)
		}
	case *ast.BinaryExpr:
		if (v.Op == token.LOR && truth) || (v.Op == token.LAND && !truth) {
			return append(disjuncts(v.X, truth), disjuncts(v.Y, truth)...)
		}
	}
	return []pcond{{expr: ast.Unparen(e), truth: truth}}
}

func constInt(info *types.Info, e ast.Expr) (int, bool) {
	if tv, ok := info.Types[e]; ok && tv.Value != nil && tv.Value.Kind() == constant.Int {
		v, ok := constant.Int64Val(tv.Value)
		return int(v), ok
	}
	return 0, false
}

func evalCmp(op token.Token, a, k int) bool {
	switch op {
	case token.LSS:
		return a < k
	case token.LEQ:
		return a <= k
	case token.GTR:
		return a > k
	case token.GEQ:
		return a >= k
	case token.EQL:
		return a == k
	case token.NEQ:
		return a != k
	}
	return false
}

func checkResolveFunc(w *World, r *Result) {
	fi := w.MustFunc("analysis/httpapi.resolveFunc")
	info := fi.Pkg.TypesInfo
	// the assignment `body = decl.Body`: in resolveFunc, in a closure of it, or in a function / method of the package
	// it hands to the syntax walk
	var as *ast.AssignStmt
	host := fi
	for _, cf := range calleeClosure(w, fi, 2) {
		ast.Inspect(cf.Decl.Body, func(x ast.Node) bool {
			if a, ok := x.(*ast.AssignStmt); ok && len(a.Rhs) == 1 && strings.HasSuffix(es(a.Rhs[0]), ".Body") && as == nil {
				as, host = a, cf
			}
			return true
		})
	}
	if as == nil {
		Undecided("resolveFunc: body selection not found")
	}
	byPos, byName := false, false
	for _, c := range pathConds(host.Decl, as) {
		if c.expr == nil {
			continue
		}
		s := es(c.expr)
		if strings.Contains(s, ".Pos()") || strings.Contains(s, ".End()") {
			byPos = true
		}
		if strings.Contains(s, ".Name") && strings.Contains(s, "==") {
			byName = true
		}
	}
	// early-exit form: if !(pos inside) { return true }
	ast.Inspect(host.Decl.Body, func(x ast.Node) bool {
		// an ordering comparison against the Pos()/End() of a syntax node
		if be, ok := x.(*ast.BinaryExpr); ok && (be.Op == token.LSS || be.Op == token.LEQ || be.Op == token.GTR || be.Op == token.GEQ) {
			for _, side := range []ast.Expr{be.X, be.Y} {
				if call, ok := ast.Unparen(side).(*ast.CallExpr); ok {
					if fn := calleeOf(info, call); fn != nil && (fn.Name() == "Pos" || fn.Name() == "End") && fn.Pkg() != nil && fn.Pkg().Path() == "go/ast" {
						byPos = true
					}
				}
			}
		}
		return true
	})
	r.cond(byPos && !byName, "SHP-C13h", fi.Name, "handler body selected by declaration position", w.Pos(as.Pos()), "the FuncDecl containing the function object's position (unique)", "the handler's declaration is selected by name: two declarations sharing an identifier (methods of two types, or a method and a function) get each other's contract")
}

func checkReturnParser(w *World, r *Result) {
	fi := w.MustFunc("analysis/httpapi.parseReturnStmt")
	info := fi.Pkg.TypesInfo
	// for each branch keyed by method name constant(s), which Args index is read
	type br struct {
		names []string
		idx   map[int]bool
		blob  bool
		pos   token.Pos
	}
	// when the parser returns its findings instead of storing them, the blob flag is the result that a caller turns
	// into IsReturnBlob (`if isBlob { out.IsReturnBlob = true }` or `out.IsReturnBlob = isBlob`)
	blobResult := -1
	for _, caller := range sortedFuncs(w) {
		if caller.Pkg != fi.Pkg || caller.Decl.Body == nil {
			continue
		}
		ast.Inspect(caller.Decl.Body, func(x ast.Node) bool {
			as, ok := x.(*ast.AssignStmt)
			if !ok || len(as.Rhs) != 1 || len(as.Lhs) < 2 {
				return true
			}
			call, ok := as.Rhs[0].(*ast.CallExpr)
			if !ok || calleeOf(info, call) != fi.Obj {
				return true
			}
			lhsIdx := map[types.Object]int{}
			for j, l := range as.Lhs {
				if lid := identOf(l); lid != nil && lid.Name != "_" {
					lhsIdx[objOf(info, lid)] = j
				}
			}
			ast.Inspect(caller.Decl.Body, func(y ast.Node) bool {
				st, ok := y.(*ast.AssignStmt)
				if !ok || len(st.Lhs) != 1 || len(st.Rhs) != 1 || !strings.HasSuffix(es(st.Lhs[0]), ".IsReturnBlob") {
					return true
				}
				if id := identOf(st.Rhs[0]); id != nil {
					if j, ok := lhsIdx[objOf(info, id)]; ok {
						blobResult = j
					}
				}
				if es(st.Rhs[0]) == "true" {
					// the innermost condition on one of the results decides
					for _, c := range pathCondsRaw(caller.Decl, st) {
						if id := identOf(c.expr); id != nil && c.truth {
							if j, ok := lhsIdx[objOf(info, id)]; ok {
								blobResult = j
							}
						}
					}
				}
				return true
			})
			return true
		})
	}
	var brs []*br
	for _, d := range stringDispatch(info, fi.Decl.Body, func(e ast.Expr) bool { return strings.HasSuffix(es(e), ".Sel.Name") }) {
		b := &br{names: d.names, idx: map[int]bool{}, pos: d.pos}
		for _, st := range d.body {
			ast.Inspect(st, func(y ast.Node) bool {
				if ret, ok := y.(*ast.ReturnStmt); ok && blobResult >= 0 && blobResult < len(ret.Results) {
					if tv := info.Types[ret.Results[blobResult]]; tv.Value != nil && tv.Value.Kind() == constant.Bool && constant.BoolVal(tv.Value) {
						b.blob = true
					}
				}
				if ix, ok := y.(*ast.IndexExpr); ok && strings.HasSuffix(es(ix.X), ".Args") {
					if k, ok := constInt(info, ix.Index); ok {
						b.idx[k] = true
					}
				}
				if a, ok := y.(*ast.AssignStmt); ok {
					for i, l := range a.Lhs {
						if strings.HasSuffix(es(l), ".IsReturnBlob") && i < len(a.Rhs) && es(a.Rhs[i]) == "true" {
							b.blob = true
						}
					}
				}
				return true
			})
		}
		brs = append(brs, b)
	}
	seenJSON, seenBlob := false, false
	for _, b := range brs {
		for _, nm := range b.names {
			switch nm {
			case "JSON", "JSONPretty":
				seenJSON = true
				r.cond(b.idx[1] && !b.blob, "SHP-C13r", fi.Name, nm+": return type from the 2nd argument", w.Pos(b.pos), "c."+nm+"(code, value)", "the JSON return type is not read from the second argument (or is flagged as blob)")
			case "Blob":
				seenBlob = true
				r.cond(b.idx[2] && b.blob, "SHP-C13r", fi.Name, "Blob: return type from the 3rd argument, blob flag set", w.Pos(b.pos), "c.Blob(code, name, bytes) + IsReturnBlob", "the blob branch does not read the third argument or does not set IsReturnBlob")
			}
		}
	}
	r.cond(seenJSON && seenBlob, "SHP-C13r", fi.Name, "JSON, JSONPretty and Blob recognised", fnPos(w, fi), "all three response forms", "a response form (JSON/JSONPretty/Blob) is no longer recognised")
}

// checkGenericForms (SHP-C13g): a typed query helper may be called plainly (`QueryParamInt(c, "id")`,
// `helpers.QueryParamInt(c, "id")`) or explicitly instantiated (`QueryParamInt[ID](c, "id")`,
// `helpers.QueryParamInt[ID](c, "id")`). parseCallWithString reads the callee's name from the syntax of call.Fun:
// the set of syntactic forms it accepts below an index expression must equal the set it accepts without one.
func checkGenericForms(w *World, r *Result) {
	fi := w.MustFunc("analysis/httpapi.parseCallWithString")
	info := fi.Pkg.TypesInfo
	var ts *ast.TypeSwitchStmt
	ast.Inspect(fi.Decl.Body, func(x ast.Node) bool {
		if s, ok := x.(*ast.TypeSwitchStmt); ok && ts == nil {
			ts = s
		}
		return true
	})
	var subj ast.Expr
	var tsBefore token.Pos // what precedes this position in fi precedes the switch
	if ts != nil {
		tsBefore = ts.Pos()
	}
	if ts == nil {
		// the switch over the callee's form may sit in a helper that is handed the callee expression
		ast.Inspect(fi.Decl.Body, func(x ast.Node) bool {
			call, ok := x.(*ast.CallExpr)
			if !ok || ts != nil {
				return true
			}
			h := w.Funcs[calleeOf(info, call)]
			if h == nil || h.Decl.Body == nil || h.Pkg != fi.Pkg {
				return true
			}
			hinfo := h.Pkg.TypesInfo
			ast.Inspect(h.Decl.Body, func(y ast.Node) bool {
				hs, ok := y.(*ast.TypeSwitchStmt)
				if !ok || ts != nil {
					return true
				}
				var hx ast.Expr
				switch a := hs.Assign.(type) {
				case *ast.AssignStmt:
					if ta, ok := a.Rhs[0].(*ast.TypeAssertExpr); ok {
						hx = ta.X
					}
				case *ast.ExprStmt:
					if ta, ok := a.X.(*ast.TypeAssertExpr); ok {
						hx = ta.X
					}
				}
				if id := identOf(hx); id != nil {
					if pi := paramIndex(h, objOf(hinfo, id)); pi >= 0 && pi < len(call.Args) && identOf(call.Args[pi]) != nil {
						ts, subj, tsBefore = hs, call.Args[pi], call.Pos()
					}
				}
				return true
			})
			return true
		})
	}
	if ts == nil {
		Undecided("SHP-C13g: parseCallWithString has no type switch over the callee expression")
	}
	if as, ok := ts.Assign.(*ast.AssignStmt); ok && len(as.Rhs) == 1 && subj == nil {
		if ta, ok := as.Rhs[0].(*ast.TypeAssertExpr); ok {
			subj = ta.X
		}
	}
	if subj == nil {
		Undecided("SHP-C13g: unrecognised type switch header in parseCallWithString")
	}
	formsOf := func(cl *ast.CaseClause) []string {
		var out []string
		for _, e := range cl.List {
			out = append(out, es(e))
		}
		return out
	}
	plain := map[string]bool{}
	var indexClause *ast.CaseClause
	for _, c := range ts.Body.List {
		cl := c.(*ast.CaseClause)
		for _, f := range formsOf(cl) {
			if f == "*ast.IndexExpr" || f == "*ast.IndexListExpr" {
				indexClause = cl
			} else {
				plain[f] = true
			}
		}
	}
	// form 1: the switch subject is a variable that was unwrapped before the switch: `if ix, ok := v.(*ast.IndexExpr); ok { v = ix.X }`
	unwrapped := false
	if id := identOf(subj); id != nil {
		obj := objOf(info, id)
		ast.Inspect(fi.Decl.Body, func(x ast.Node) bool {
			is, ok := x.(*ast.IfStmt)
			if !ok || is.End() > tsBefore || is.Init == nil {
				return true
			}
			ias, ok := is.Init.(*ast.AssignStmt)
			if !ok || len(ias.Rhs) != 1 {
				return true
			}
			ta, ok := ias.Rhs[0].(*ast.TypeAssertExpr)
			if !ok || ta.Type == nil || es(ta.Type) != "*ast.IndexExpr" {
				return true
			}
			if tid := identOf(ta.X); tid == nil || objOf(info, tid) != obj {
				return true
			}
			for _, st := range is.Body.List {
				if as, ok := st.(*ast.AssignStmt); ok && len(as.Lhs) == 1 && len(as.Rhs) == 1 {
					if lid := identOf(as.Lhs[0]); lid != nil && objOf(info, lid) == obj {
						if sel, ok := as.Rhs[0].(*ast.SelectorExpr); ok && sel.Sel.Name == "X" {
							unwrapped = true
						}
					}
				}
			}
			return true
		})
	}
	var plainForms []string
	for f := range plain {
		plainForms = append(plainForms, f)
	}
	sort.Strings(plainForms)
	cons := "callee forms under an instantiation = callee forms without {" + strings.Join(plainForms, ", ") + "}"
	switch {
	case unwrapped && indexClause == nil:
		r.ok("SHP-C13g", fi.Name, cons, w.Pos(ts.Pos()), "the index expression of an explicit instantiation is unwrapped before the switch over the callee's form: generic and plain calls go through the same cases", true)
	case indexClause != nil:
		// forms asserted on <clause var>.X inside the clause
		inner := map[string]bool{}
		ast.Inspect(indexClause, func(x ast.Node) bool {
			switch v := x.(type) {
			case *ast.TypeAssertExpr:
				if sel, ok := ast.Unparen(v.X).(*ast.SelectorExpr); ok && sel.Sel.Name == "X" && v.Type != nil {
					inner[es(v.Type)] = true
				}
			case *ast.TypeSwitchStmt:
				for _, c := range v.Body.List {
					for _, e := range c.(*ast.CaseClause).List {
						inner[es(e)] = true
					}
				}
			}
			return true
		})
		var missing []string
		for _, f := range plainForms {
			if !inner[f] {
				missing = append(missing, f)
			}
		}
		r.cond(len(missing) == 0, "SHP-C13g", fi.Name, cons, w.Pos(indexClause.Pos()), "the instantiation case handles every callee form the plain cases handle",
			"under an explicit instantiation the callee form(s) "+strings.Join(missing, ", ")+" are not handled although they are without one: e.g. `helpers.QueryParamInt[ID](c, \"id\")` is silently dropped from the contract")
	default:
		r.bad("SHP-C13g", fi.Name, cons, w.Pos(ts.Pos()), "explicit instantiations (call.Fun is an *ast.IndexExpr) are neither unwrapped before the switch nor handled by a case: generic typed query helpers are dropped from the contract")
	}
}

// checkResolvedPackage (SHP-C13q): resolveFunc returns the handler's body together with the package that
// declares it; the contract is then read with THAT package's type information. parseEndpointFunc must pass the
// triple on unchanged: returning another package (the routes file's) makes every handler reached through an
// import -- a dot import, a method of an imported type -- be read with the wrong type information.
func checkResolvedPackage(w *World, r *Result) {
	fi := w.MustFunc("analysis/httpapi.parseEndpointFunc")
	info := fi.Pkg.TypesInfo
	rf := w.MustFunc("analysis/httpapi.resolveFunc")
	n := 0
	var visit func(list []ast.Stmt)
	check := func(st ast.Stmt) {
		switch s := st.(type) {
		case *ast.ReturnStmt:
			if len(s.Results) == 1 {
				if call, ok := ast.Unparen(s.Results[0]).(*ast.CallExpr); ok && calleeOf(info, call) == rf.Obj {
					n++
					r.ok("SHP-C13q", fi.Name, "return "+es(call), w.Pos(s.Pos()), "body, name and declaring package of the handler are passed on together", true)
				}
			}
		case *ast.AssignStmt:
			if len(s.Rhs) == 1 {
				if call, ok := ast.Unparen(s.Rhs[0]).(*ast.CallExpr); ok && calleeOf(info, call) == rf.Obj {
					n++
					dropped := false
					for _, l := range s.Lhs {
						if id := identOf(l); id != nil && id.Name == "_" {
							dropped = true
						}
					}
					r.cond(!dropped, "SHP-C13q", fi.Name, es(s.Lhs[0])+", … = "+es(call), w.Pos(s.Pos()),
						"every result of resolveFunc is kept",
						"a result of resolveFunc is discarded: the handler's body is then paired with a package other than the one that declares it, and its contract is read with the wrong type information (handlers reached through a dot import or an imported type)")
				}
			}
		}
	}
	visit = func(list []ast.Stmt) {
		for _, st := range list {
			check(st)
			ast.Inspect(st, func(x ast.Node) bool {
				if b, ok := x.(*ast.BlockStmt); ok {
					for _, s2 := range b.List {
						check(s2)
					}
				}
				if cc, ok := x.(*ast.CaseClause); ok {
					for _, s2 := range cc.Body {
						check(s2)
					}
				}
				return true
			})
		}
	}
	visit(fi.Decl.Body.List)
	if n == 0 {
		Undecided("SHP-C13q: parseEndpointFunc no longer calls resolveFunc")
	}
}

// checkEvalScope (SHP-C13e): a path, parameter or form name is folded by types.Eval at the position of the
// expression, i.e. in its innermost scope: a local constant shadows a package-level one of the same name.
// Obligations: every types.Eval call of package httpapi: its position argument is <expr>.Pos() of the folded
// expression (token.NoPos evaluates at package scope and silently picks the shadowed constant).
func checkEvalScope(w *World, r *Result) {
	n := 0
	for _, fi := range sortedFuncs(w) {
		if w.Rel(fi.Obj.Pkg()) != "analysis/httpapi" || fi.Decl.Body == nil {
			continue
		}
		info := fi.Pkg.TypesInfo
		ast.Inspect(fi.Decl.Body, func(x ast.Node) bool {
			call, ok := x.(*ast.CallExpr)
			if !ok || fullName(calleeOf(info, call)) != "go/types.Eval" || len(call.Args) != 4 {
				return true
			}
			n++
			good := false
			if pc, ok := ast.Unparen(call.Args[2]).(*ast.CallExpr); ok {
				if sel, ok := pc.Fun.(*ast.SelectorExpr); ok && sel.Sel.Name == "Pos" {
					if t := info.TypeOf(sel.X); t != nil && strings.HasPrefix(t.String(), "go/ast.") {
						good = true
					}
				}
			}
			r.cond(good, "SHP-C13e", fi.Name, "types.Eval at "+es(call.Args[2]), w.Pos(call.Pos()),
				"evaluated at the position of the expression: local constants are visible and shadow package-level ones",
				"the expression is evaluated at `"+es(call.Args[2])+"` instead of its own position: at package scope a local constant is invisible, and when a package-level constant has the same name its value is silently used (wrong URL or parameter name)")
			return true
		})
	}
	if n == 0 {
		Undecided("SHP-C13e: package httpapi no longer calls types.Eval")
	}
}

// checkContractOrder (SHP-C13s): the parameters of a contract are recorded in source order: every append to a
// list of the contract made while reading the right-hand sides of an assignment sits in a loop over those
// right-hand sides that is not nested in another loop (a loop over accessor names outside it groups the
// parameters by accessor instead).
func checkContractOrder(w *World, r *Result) {
	fi := w.MustFunc("analysis/httpapi.parseAssignments")
	info := fi.Pkg.TypesInfo
	n := 0
	for _, as := range appendStmts(info, fi.Decl.Body, "") {
		if !strings.Contains(es(as.Lhs[0]), "InputQueryParams") && !strings.Contains(es(as.Lhs[0]), "ValueNames") {
			continue
		}
		n++
		depth := 0
		var outer ast.Node
		ast.Inspect(fi.Decl.Body, func(x ast.Node) bool {
			switch l := x.(type) {
			case *ast.RangeStmt:
				if l.Body.Pos() <= as.Pos() && as.End() <= l.Body.End() {
					depth++
					if outer == nil {
						outer = l
					}
				}
			case *ast.ForStmt:
				if l.Body.Pos() <= as.Pos() && as.End() <= l.Body.End() {
					depth++
					if outer == nil {
						outer = l
					}
				}
			}
			return true
		})
		overParam := false
		if rs, ok := outer.(*ast.RangeStmt); ok {
			if id := identOf(rs.X); id != nil {
				for _, f := range fi.Decl.Type.Params.List {
					for _, nm := range f.Names {
						if info.Defs[nm] == objOf(info, id) {
							overParam = true
						}
					}
				}
			}
		}
		// loops nested inside the pass over the right-hand sides (a table of method names tried for one right-hand
		// side) keep the source order: only the outermost loop decides the grouping
		if depth == 0 {
			// the function handles one right-hand side: the pass over them is at its call sites
			sites, good := 0, true
			for _, caller := range sortedFuncs(w) {
				if caller.Decl.Body == nil || caller.Pkg != fi.Pkg {
					continue
				}
				ci := caller.Pkg.TypesInfo
				ast.Inspect(caller.Decl.Body, func(x ast.Node) bool {
					call, ok := x.(*ast.CallExpr)
					if !ok || calleeOf(ci, call) != fi.Obj {
						return true
					}
					sites++
					var loops []ast.Node
					ast.Inspect(caller.Decl.Body, func(y ast.Node) bool {
						switch l := y.(type) {
						case *ast.RangeStmt:
							if l.Body.Pos() <= call.Pos() && call.End() <= l.Body.End() {
								loops = append(loops, l)
							}
						case *ast.ForStmt:
							if l.Body.Pos() <= call.Pos() && call.End() <= l.Body.End() {
								loops = append(loops, l)
							}
						}
						return true
					})
					okSite := false
					if len(loops) >= 1 {
						if rs, ok := loops[0].(*ast.RangeStmt); ok {
							if t := ci.TypeOf(rs.X); t != nil && t.String() == "[]go/ast.Expr" {
								okSite = true
							}
						}
					}
					if !okSite {
						good = false
					}
					return true
				})
			}
			depth, overParam = 1, sites > 0 && good
		}
		r.cond(depth >= 1 && overParam, "SHP-C13s", fi.Name, "append to "+es(as.Lhs[0])+" in source order", w.Pos(as.Pos()),
			"the outermost loop is one pass over the right-hand sides, in their order",
			"the parameters are appended inside nested loops (the outer one does not range over the right-hand sides): they come out grouped by the outer loop's variable instead of in source order")
	}
	if n == 0 {
		Undecided("SHP-C13s: parseAssignments no longer appends query parameters")
	}
}

// checkAnonymousNames (SHP-C13u): a function-literal handler is named after something that is unique among the
// handlers of a file and stable between loads: the byte offset of the literal in its file
// (`Fset.Position(pos).Offset`). The line is not unique (two literals on one line get one method name, and the
// later definition silently replaces the earlier one in the generated client); the raw token.Pos is not stable.
func checkAnonymousNames(w *World, r *Result) {
	fi := w.MustFunc("analysis/httpapi.parseEndpointFunc")
	info := fi.Pkg.TypesInfo
	n := 0
	ast.Inspect(fi.Decl.Body, func(x ast.Node) bool {
		call := sprintfView(info, x)
		if call == nil || len(call.Args) != 2 {
			return true
		}
		tv := info.Types[call.Args[0]]
		if tv.Value == nil || !strings.HasPrefix(constant.StringVal(tv.Value), "Anonymous") {
			return true
		}
		n++
		good := false
		if sel, ok := ast.Unparen(call.Args[1]).(*ast.SelectorExpr); ok && sel.Sel.Name == "Offset" {
			if t := info.TypeOf(sel.X); t != nil && t.String() == "go/token.Position" {
				good = true
			}
		}
		r.cond(good, "SHP-C13u", fi.Name, "name of a function-literal handler from "+es(call.Args[1]), w.Pos(call.Pos()),
			"the offset of the literal in its file: unique per literal, the same on every load",
			"the name of a function-literal handler is derived from `"+es(call.Args[1])+"`, which is not the file offset of the literal: two literals can share it (same line), so two endpoints get one method name and the client calls the wrong route")
		return true
	})
	if n == 0 {
		Undecided("SHP-C13u: no `Anonymous%%d` name found in parseEndpointFunc")
	}
}

// strBranch is one arm of a dispatch on the string value of a subject expression.
type strBranch struct {
	names []string
	body  []ast.Stmt
	pos   token.Pos
}

// stringDispatch lists the arms that compare a subject (selected by isSubject) with string constants, whatever the
// syntax of the dispatch: `if s == "a" || s == "b" {…} else if s == "c" {…}`, `switch s { case "a", "b": … }`, or
// `switch { case s == "a": … }`.
func stringDispatch(info *types.Info, root ast.Node, isSubject func(ast.Expr) bool) []strBranch {
	var out []strBranch
	// a local bound once (in root) stands for its definition: `name := x.Sel.Name`, `isJSON := name == "JSON" || …`
	singleDef := func(id *ast.Ident) ast.Expr {
		obj := objOf(info, id)
		if v, ok := obj.(*types.Var); !ok || v.IsField() {
			return nil
		}
		var def ast.Expr
		n := 0
		ast.Inspect(root, func(y ast.Node) bool {
			as, ok := y.(*ast.AssignStmt)
			if !ok {
				return true
			}
			for i, l := range as.Lhs {
				if li := identOf(l); li != nil && objOf(info, li) == obj {
					n++
					if len(as.Lhs) == len(as.Rhs) {
						def = as.Rhs[i]
					}
				}
			}
			return true
		})
		if n != 1 {
			return nil
		}
		return def
	}
	baseSubject := isSubject
	isSubject = func(e ast.Expr) bool {
		if baseSubject(e) {
			return true
		}
		if id := identOf(e); id != nil {
			if d := singleDef(id); d != nil {
				return baseSubject(d)
			}
		}
		return false
	}
	var namesOf func(cond ast.Expr) []string
	namesOf = func(cond ast.Expr) []string {
		var names []string
		ast.Inspect(cond, func(y ast.Node) bool {
			if id, ok := y.(*ast.Ident); ok {
				if b, isB := info.TypeOf(id).(*types.Basic); isB && b.Kind() == types.Bool {
					if d := singleDef(id); d != nil {
						names = append(names, namesOf(d)...)
					}
				}
			}
			if be, ok := y.(*ast.BinaryExpr); ok && be.Op == token.EQL {
				for _, pr := range [][2]ast.Expr{{be.X, be.Y}, {be.Y, be.X}} {
					if isSubject(pr[0]) {
						if tv := info.Types[pr[1]]; tv.Value != nil && tv.Value.Kind() == constant.String {
							names = append(names, constant.StringVal(tv.Value))
						}
					}
				}
			}
			return true
		})
		return names
	}
	ast.Inspect(root, func(x ast.Node) bool {
		switch v := x.(type) {
		case *ast.IfStmt:
			if names := namesOf(v.Cond); len(names) > 0 {
				out = append(out, strBranch{names, v.Body.List, v.Pos()})
			}
		case *ast.SwitchStmt:
			for _, cl := range v.Body.List {
				cc := cl.(*ast.CaseClause)
				var names []string
				if v.Tag != nil && isSubject(v.Tag) {
					for _, e := range cc.List {
						if tv := info.Types[e]; tv.Value != nil && tv.Value.Kind() == constant.String {
							names = append(names, constant.StringVal(tv.Value))
						}
					}
				} else if v.Tag == nil {
					for _, e := range cc.List {
						names = append(names, namesOf(e)...)
					}
				}
				if len(names) > 0 {
					out = append(out, strBranch{names, cc.Body, cc.Pos()})
				}
			}
		}
		return true
	})
	return out
}

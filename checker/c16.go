package main

// C16: SQL comment directives.

import (
	"go/ast"
	"go/constant"
	"go/token"
	"go/types"
	"regexp/syntax"
	"strings"
)

func init() { register("C16", "other", checkC16) }

func checkC16(w *World, r *Result) {
	r.Explanation = "Decides structural necessary conditions: PTH-C16a no append to CustomConstraints is reachable on the path where the select-key directive matched (internal directives never reach SQL), and unique/select-key/constraint classification all read the same comment; FLW-C16b every constant.Value text (ExactString/String) that reaches SQL text passes the double-to-single quote conversion; AGR-C16c custom-query placeholders are numbered i+1 by the range index over the ordered Inputs slice, an input is appended only for a name not seen before, and the generated Go function builds its signature and its argument list in one loop over that same slice; RE-C16 the word regexp of the table-name replacer is exactly maximal runs of \\w and the replacement is an exact map lookup leaving other words unchanged, the enum placeholder regexp has exactly two groups, REFERENCES captures one word that goes through SQLTableName; FLW-C16t a constraint is emitted for the table of the iteration that owns it, with ALTER TABLE only for texts starting with ADD. Does not decide: attribution of comments to structs in grouped declarations, exact rewriting results as strings, typing of inputs."
	r.Rules = []string{"PTH-C16a", "FLW-C16b", "AGR-C16c", "RE-C16", "FLW-C16t", "PTH-C16o", "PTH-C16w", "CONST-EXACT", "PRINTF", "MUT-AN", "CUTSET", "SEP-INDEX"}
	mutAnRule(w, r, func(rel string) bool {
		return rel == "generator" || rel == "generator/sql" || rel == "generator/go/sqlcrud"
	})
	printfRule(w, r, "generator")
	printfRule(w, r, "generator/sql")
	checkProcessComments(w, r)
	checkQuoteConversion(w, r)
	checkCustomQuery(w, r)
	checkRegexFacts(w, r)
	checkConstraintOwner(w, r)
	checkEnumsLast(w, r)
	if _, n := constExactRule(w, r, func(rel string) bool { return rel == "generator" }); n < 1 {
		Undecided("CONST-EXACT: ReplaceEnums no longer prints the constant through the exact printer, or its shape changed")
	}
	checkReplacerComplete(w, r)
}

func checkProcessComments(w *World, r *Result) {
	fi := w.MustFunc("analysis/sql.(*Table).processComments")
	info := fi.Pkg.TypesInfo
	cc := w.Field("analysis/sql", "Table", "CustomConstraints")
	var app *ast.AssignStmt
	ast.Inspect(fi.Decl.Body, func(x ast.Node) bool {
		if as, ok := x.(*ast.AssignStmt); ok && len(as.Lhs) == 1 {
			if sel, ok := as.Lhs[0].(*ast.SelectorExpr); ok && info.Uses[sel.Sel] == cc {
				app = as
			}
		}
		return true
	})
	if app == nil {
		Undecided("processComments: no append to CustomConstraints")
	}
	// variables holding the result of isSelectKey
	selKeyVars := map[types.Object]bool{}
	ast.Inspect(fi.Decl.Body, func(x ast.Node) bool {
		if as, ok := x.(*ast.AssignStmt); ok && len(as.Rhs) == 1 {
			if call, ok := as.Rhs[0].(*ast.CallExpr); ok && strings.HasSuffix(fullName(calleeOf(info, call)), "sql.isSelectKey") {
				if id := identOf(as.Lhs[0]); id != nil {
					selKeyVars[objOf(info, id)] = true
				}
			}
		}
		return true
	})
	excluded := false
	kindOK := false
	for _, c := range pathConds(fi.Decl, app) {
		if c.expr == nil {
			continue
		}
		mentions := false
		ast.Inspect(c.expr, func(y ast.Node) bool {
			if id, ok := y.(*ast.Ident); ok && selKeyVars[objOf(info, id)] {
				mentions = true
			}
			return true
		})
		// `len(cols) != 0` negated
		if mentions && !c.truth {
			excluded = true
		}
		if strings.Contains(es(c.expr), "CommentSQL") && !c.truth && strings.Contains(es(c.expr), "!=") {
			kindOK = true
		}
	}
	pos := w.Pos(app.Pos())
	r.cond(excluded, "PTH-C16a", fi.Name, "select-key comments are not constraints", pos, "the append is only reached when the select-key pattern did not match (early `continue` on a match)", "a comment matching the internal _SELECT KEY directive is also appended to CustomConstraints and reaches the SQL output")
	r.cond(kindOK, "PTH-C16a", fi.Name, "only SQL comments become constraints", pos, "the append is only reached for comments of kind CommentSQL", "comments of another kind (e.g. QUERY) can be appended as SQL constraints")
	// appended value is the comment's content
	call := app.Rhs[0].(*ast.CallExpr)
	r.cond(len(call.Args) == 2 && strings.HasSuffix(es(call.Args[1]), ".Content"), "PTH-C16a", fi.Name, "constraint text = comment content", pos, "verbatim content of the comment", "the constraint text is not the comment's content")
	// classification helpers all read the same comment content
	same := true
	ast.Inspect(fi.Decl.Body, func(x ast.Node) bool {
		if c2, ok := x.(*ast.CallExpr); ok {
			f := fullName(calleeOf(info, c2))
			if strings.HasSuffix(f, "sql.isSelectKey") || strings.HasSuffix(f, "sql.isUniqueConstraint") || strings.HasSuffix(f, "sql.isUniquesConstraint") {
				if len(c2.Args) != 1 || !strings.HasSuffix(es(c2.Args[0]), ".Content") {
					same = false
				}
			}
		}
		return true
	})
	r.cond(same, "PTH-C16a", fi.Name, "classifiers read the comment content", pos, "isUniqueConstraint / isUniquesConstraint / isSelectKey all receive comment.Content", "a classifier is applied to something other than the comment's content")
}

// taintFlow: does the value of `src` (a call) reach the first argument of a quote-converting ReplaceAll in fd?
func checkQuoteConversion(w *World, r *Result) {
	n := 0
	for _, fi := range sortedFuncs(w) {
		rel := w.Rel(fi.Obj.Pkg())
		inScope := rel == "generator/sql" || fi.Name == "generator.ReplaceEnums"
		if !inScope {
			continue
		}
		info := fi.Pkg.TypesInfo
		var sources []*ast.CallExpr
		printers := exactPrinters(w)
		ast.Inspect(fi.Decl.Body, func(x ast.Node) bool {
			if call, ok := x.(*ast.CallExpr); ok {
				f := fullName(calleeOf(info, call))
				if f == "(go/constant.Value).ExactString" || f == "(go/constant.Value).String" || printers[calleeOf(info, call)] {
					sources = append(sources, call)
				}
			}
			return true
		})
		if len(sources) == 0 {
			continue
		}
		// converting calls
		var conv []*ast.CallExpr
		ast.Inspect(fi.Decl.Body, func(x ast.Node) bool {
			if call, ok := x.(*ast.CallExpr); ok && fullName(calleeOf(info, call)) == "strings.ReplaceAll" && len(call.Args) == 3 {
				a, b := info.Types[call.Args[1]], info.Types[call.Args[2]]
				if a.Value != nil && b.Value != nil && constant.StringVal(a.Value) == `"` && constant.StringVal(b.Value) == `'` {
					conv = append(conv, call)
				}
			}
			return true
		})
		for _, src := range sources {
			n++
			// tainted objects
			tainted := map[types.Object]bool{}
			contains := func(e ast.Node) bool {
				hit := false
				ast.Inspect(e, func(y ast.Node) bool {
					if y == ast.Node(src) {
						hit = true
					}
					if id, ok := y.(*ast.Ident); ok && tainted[objOf(info, id)] {
						hit = true
					}
					return true
				})
				return hit
			}
			for iter := 0; iter < 5; iter++ {
				ast.Inspect(fi.Decl.Body, func(x ast.Node) bool {
					as, ok := x.(*ast.AssignStmt)
					if !ok {
						return true
					}
					for i, rhs := range as.Rhs {
						if contains(rhs) {
							idx := i
							if len(as.Lhs) != len(as.Rhs) {
								idx = 0
							}
							l := as.Lhs[idx]
							if ix, ok := l.(*ast.IndexExpr); ok {
								l = ix.X
							}
							if id := identOf(l); id != nil {
								tainted[objOf(info, id)] = true
							}
						}
					}
					return true
				})
			}
			good := false
			for _, c := range conv {
				if contains(c.Args[0]) {
					good = true
				}
			}
			cons := es(src)
			r.cond(good, "FLW-C16b", fi.Name, "quote conversion of "+cons, w.Pos(src.Pos()),
				"the Go text of the constant passes strings.ReplaceAll(…, `\"`, `'`) before it becomes SQL text",
				"the Go spelling of a constant (a string constant prints with double quotes) reaches SQL text without the double-to-single quote conversion: `\"va\"` is an identifier in SQL, and breaks the Go string literal of a generated custom query")
		}
	}
	if n == 0 {
		Undecided("no constant.Value text found in the SQL generator / ReplaceEnums")
	}
}

func checkCustomQuery(w *World, r *Result) {
	fi := w.MustFunc("analysis/sql.newCustomQuery")
	info := fi.Pkg.TypesInfo
	inputs := w.Field("analysis/sql", "CustomQuery", "Inputs")
	// (1) append to Inputs guarded by "not seen"
	var app *ast.AssignStmt
	ast.Inspect(fi.Decl.Body, func(x ast.Node) bool {
		if as, ok := x.(*ast.AssignStmt); ok && len(as.Lhs) == 1 {
			if sel, ok := as.Lhs[0].(*ast.SelectorExpr); ok && info.Uses[sel.Sel] == inputs {
				if call, ok := as.Rhs[0].(*ast.CallExpr); ok && isBuiltinCall(info, call, "append") {
					app = as
				}
			}
		}
		return true
	})
	if app == nil {
		Undecided("newCustomQuery: no append to Inputs")
	}
	// the guard: `if _, has := seen[varName]; has { continue }` and `seen[varName] = …` with the same key as the appended VarName
	lit, _ := app.Rhs[0].(*ast.CallExpr).Args[1].(*ast.CompositeLit)
	var nameVar types.Object
	if lit != nil && len(lit.Elts) >= 1 {
		e0 := lit.Elts[0]
		if kv, ok := e0.(*ast.KeyValueExpr); ok {
			e0 = kv.Value
		}
		if id := identOf(e0); id != nil {
			nameVar = objOf(info, id)
		}
	}
	// the guard: the append is reached only when the name is not yet in a set (`_, has := m[name]; has => continue`,
	// or a map[…]bool read directly), and the name is recorded in that same set on the way
	dedup := false
	var setObj types.Object
	for _, c := range pathConds(fi.Decl, app) {
		if c.expr == nil || c.truth {
			continue
		}
		if m, k := mapMembership(info, fi.Decl, c.expr); m != nil && k == nameVar && nameVar != nil {
			dedup, setObj = true, m
		}
	}
	recorded := false
	ast.Inspect(fi.Decl.Body, func(y ast.Node) bool {
		if as, ok := y.(*ast.AssignStmt); ok && len(as.Lhs) == 1 && len(as.Rhs) == 1 {
			if ix, ok := as.Lhs[0].(*ast.IndexExpr); ok && identOf(ix.Index) != nil && objOf(info, identOf(ix.Index)) == nameVar && nameVar != nil {
				if mt, isMap := info.TypeOf(ix.X).Underlying().(*types.Map); isMap && identOf(ix.X) != nil && objOf(info, identOf(ix.X)) == setObj {
					// a boolean set must record `true` (a stored false reads back as "not seen")
					if b, isBool := mt.Elem().Underlying().(*types.Basic); isBool && b.Kind() == types.Bool {
						if tv := info.Types[as.Rhs[0]]; tv.Value == nil || !constant.BoolVal(tv.Value) {
							return true
						}
					}
					recorded = true
				}
			}
		}
		return true
	})
	r.cond(dedup && recorded, "AGR-C16c", fi.Name, "one input per distinct placeholder name, in first-occurrence order", w.Pos(app.Pos()), "an input is appended only when its name was not seen, and the name is recorded", "inputs are not deduplicated by placeholder name in order of first occurrence")
	// (2) numbering: pairs built in `for i, input := range out.Inputs` with Sprintf("$%d", i+1)
	numOK := false
	var numPos token.Pos
	ast.Inspect(fi.Decl.Body, func(x ast.Node) bool {
		rs, ok := x.(*ast.RangeStmt)
		if !ok {
			return true
		}
		sel, ok := ast.Unparen(rs.X).(*ast.SelectorExpr)
		if !ok || info.Uses[sel.Sel] != inputs {
			return true
		}
		key := identOf(rs.Key)
		val := identOf(rs.Value)
		if key == nil || val == nil {
			return true
		}
		ast.Inspect(rs.Body, func(y ast.Node) bool {
			call := sprintfView(info, y)
			if call == nil || len(call.Args) != 2 {
				return true
			}
			tv := info.Types[call.Args[0]]
			if tv.Value == nil || constant.StringVal(tv.Value) != "$%d" {
				return true
			}
			numPos = call.Pos()
			if be, ok := ast.Unparen(call.Args[1]).(*ast.BinaryExpr); ok && be.Op == token.ADD {
				if id := identOf(be.X); id != nil && objOf(info, id) == info.Defs[key] {
					if k, ok := constInt(info, be.Y); ok && k == 1 {
						numOK = true
					}
				}
			}
			return true
		})
		// the placeholder text is "$"+input.VarName+"$" of the same element
		return true
	})
	if !numOK {
		// merged form: the placeholder is numbered where the input is appended, with the count of inputs kept so far
		// plus one: `len(<dedup set>)+1` read before the set grows, or `len(out.Inputs)+1` read before the append
		// (both under the conditions of the append itself)
		condsOf := func(n ast.Node) string {
			return strings.Join(condSetN(info, pathCondsNoLoop(fi, n), nil), " && ")
		}
		appConds := condsOf(app)
		// sameUpTo: n runs under the conditions of the append, except for conditions whose failure ends the whole
		// function (a panic or a return: no input is appended afterwards either)
		sameUpTo := func(n ast.Node) bool {
			have := map[string]bool{}
			for _, c := range condSetN(info, pathCondsNoLoop(fi, n), nil) {
				have[c] = true
			}
			for _, c := range pathCondsNoLoop(fi, app) {
				k := normCond(info, c, nil)
				if have[k] {
					delete(have, k)
					continue
				}
				ends := false
				if c.exit != nil && len(c.exit.Body.List) > 0 {
					last := c.exit.Body.List[len(c.exit.Body.List)-1]
					if p, _ := isPanicStmt(info, last); p {
						ends = true
					}
					if _, isRet := last.(*ast.ReturnStmt); isRet {
						ends = true
					}
				}
				if !ends {
					return false
				}
			}
			return len(have) == 0
		}
		var setStore ast.Node
		ast.Inspect(fi.Decl.Body, func(y ast.Node) bool {
			if as, ok := y.(*ast.AssignStmt); ok && len(as.Lhs) == 1 {
				if ix, ok := as.Lhs[0].(*ast.IndexExpr); ok && identOf(ix.X) != nil && objOf(info, identOf(ix.X)) == setObj && setObj != nil {
					setStore = as
				}
			}
			return true
		})
		ast.Inspect(fi.Decl.Body, func(y ast.Node) bool {
			call := sprintfView(info, y)
			if call == nil || len(call.Args) != 2 {
				return true
			}
			if tv := info.Types[call.Args[0]]; tv.Value == nil || constant.StringVal(tv.Value) != "$%d" {
				return true
			}
			numPos = call.Pos()
			if condsOf(call) != appConds {
				return true
			}
			// the number: an expression, or a local bound once to one
			num := ast.Unparen(call.Args[1])
			at := num.Pos()
			if id := identOf(num); id != nil {
				ds := defsIn(info, fi.Decl, objOf(info, id))
				if len(ds) != 1 {
					return true
				}
				num, at = ast.Unparen(ds[0]), ds[0].Pos()
			}
			be, ok := num.(*ast.BinaryExpr)
			if !ok || be.Op != token.ADD {
				return true
			}
			if k, ok := constInt(info, be.Y); !ok || k != 1 {
				return true
			}
			ln, ok := ast.Unparen(be.X).(*ast.CallExpr)
			if !ok || !isBuiltinCall(info, ln, "len") || len(ln.Args) != 1 {
				return true
			}
			arg := ast.Unparen(ln.Args[0])
			if id := identOf(arg); id != nil && setObj != nil && objOf(info, id) == setObj && setStore != nil && at < setStore.Pos() && sameUpTo(setStore) {
				numOK = true
			}
			if sel, ok := arg.(*ast.SelectorExpr); ok && info.Uses[sel.Sel] == inputs && at < app.Pos() {
				numOK = true
			}
			return true
		})
	}
	if !numPos.IsValid() {
		numPos = fi.Decl.Pos()
	}
	r.cond(numOK, "AGR-C16c", fi.Name, "placeholder number = index in Inputs + 1", w.Pos(numPos), "`$%d` is formatted with i+1 where i is the range index over the ordered Inputs slice: numbers are 1..n without gap, equal names share one", "placeholder numbers are not the position in Inputs plus one (e.g. taken from the match index): the numbering has gaps or does not match the argument list of the generated function")
	// (3) generator: one loop over query.Inputs builds both signature and args
	gq := w.MustFunc("generator/go/sqlcrud.(context).generateCustomQueries")
	ginfo := gq.Pkg.TypesInfo
	okGen := false
	for _, cf := range calleeClosure(w, gq, 2) {
		ast.Inspect(cf.Decl.Body, func(x ast.Node) bool {
			rs, ok := x.(*ast.RangeStmt)
			if !ok {
				return true
			}
			// the loop ranges over query.Inputs, or over a helper's parameter that receives it
			overInputs := false
			if sel, ok := ast.Unparen(rs.X).(*ast.SelectorExpr); ok && ginfo.Uses[sel.Sel] == inputs {
				overInputs = true
			}
			if id := identOf(rs.X); id != nil && cf != gq {
				ds, _ := defsThroughAny(w, cf, objOf(ginfo, id))
				for _, d := range ds {
					if sel, ok := ast.Unparen(d).(*ast.SelectorExpr); ok && ginfo.Uses[sel.Sel] == inputs {
						overInputs = true
					}
				}
			}
			if !overInputs {
				return true
			}
			writes := map[string]bool{}
			for _, st := range rs.Body.List {
				if t := textAccumTarget(ginfo, st); t != "" {
					writes[t] = true
				}
			}
			if len(writes) >= 2 && len(pathCondsNoLoop(cf, rs.Body.List[0])) == lenOuterConds(cf, rs) {
				okGen = true
			}
			return true
		})
	}
	r.cond(okGen, "AGR-C16c", gq.Name, "signature and argument list from one loop over Inputs", fnPos(w, gq), "both strings grow once per element of query.Inputs, unconditionally", "the Go signature and the argument list of a custom query are not built in lock-step from query.Inputs")
}

func lenOuterConds(fi *FuncInfo, rs *ast.RangeStmt) int { return len(pathCondsNoLoop(fi, rs)) }

func patternOf(w *World, rel, varName string) (string, token.Pos) {
	p := w.ByRel[rel]
	obj := p.Types.Scope().Lookup(varName)
	if obj == nil {
		Undecided("regexp variable %s.%s not found", rel, varName)
	}
	for _, f := range p.Syntax {
		for _, d := range f.Decls {
			gd, ok := d.(*ast.GenDecl)
			if !ok {
				continue
			}
			for _, sp := range gd.Specs {
				vs, ok := sp.(*ast.ValueSpec)
				if !ok {
					continue
				}
				for i, nm := range vs.Names {
					if p.TypesInfo.Defs[nm] == obj && i < len(vs.Values) {
						if call, ok := vs.Values[i].(*ast.CallExpr); ok && fullName(calleeOf(p.TypesInfo, call)) == "regexp.MustCompile" {
							if tv := p.TypesInfo.Types[call.Args[0]]; tv.Value != nil {
								return constant.StringVal(tv.Value), call.Pos()
							}
						}
					}
				}
			}
		}
	}
	Undecided("regexp variable %s.%s is not a MustCompile of a constant", rel, varName)
	return "", 0
}

func stripCaptures(re *syntax.Regexp) *syntax.Regexp {
	for re.Op == syntax.OpCapture || (re.Op == syntax.OpConcat && len(re.Sub) == 1) {
		re = re.Sub[0]
	}
	return re
}

func sameClass(a, b []rune) bool {
	if len(a) != len(b) {
		return false
	}
	for i := range a {
		if a[i] != b[i] {
			return false
		}
	}
	return true
}

func checkRegexFacts(w *World, r *Result) {
	// reWords: maximal runs of \w
	pat, pos := patternOf(w, "generator", "reWords")
	re, err := syntax.Parse(pat, syntax.Perl)
	ref, _ := syntax.Parse(`\w+`, syntax.Perl)
	good := false
	if err == nil {
		a, b := stripCaptures(re.Simplify()), stripCaptures(ref.Simplify())
		if a.Op == syntax.OpPlus && b.Op == syntax.OpPlus && a.Flags&syntax.NonGreedy == 0 {
			x, y := stripCaptures(a.Sub[0]), stripCaptures(b.Sub[0])
			if x.Op == syntax.OpCharClass && y.Op == syntax.OpCharClass && sameClass(x.Rune, y.Rune) {
				good = true
			}
		}
	}
	r.cond(good, "RE-C16", "generator.<package-level>", "reWords matches maximal runs of \\w", w.Pos(pos), "pattern "+pat+" is (a capture of) [0-9A-Za-z_]+, greedy: a word is an SQL identifier, underscore included", "pattern "+pat+" is not maximal runs of \\w: identifiers are split at other boundaries (e.g. at '_'), so a table name inside a longer identifier is rewritten")
	// replacement is an exact map lookup, else the word itself
	rp := w.MustFunc("generator.(TableNameReplacer).Replace")
	info := rp.Pkg.TypesInfo
	var fl *ast.FuncLit
	ast.Inspect(rp.Decl.Body, func(x ast.Node) bool {
		if call, ok := x.(*ast.CallExpr); ok && fullName(calleeOf(info, call)) == "(*regexp.Regexp).ReplaceAllStringFunc" {
			fl, _ = call.Args[1].(*ast.FuncLit)
		}
		return true
	})
	lookupOK := false
	if fl != nil && len(fl.Type.Params.List) == 1 {
		word := info.Defs[fl.Type.Params.List[0].Names[0]]
		var retsWord, retsSub bool
		ast.Inspect(fl.Body, func(x ast.Node) bool {
			if ret, ok := x.(*ast.ReturnStmt); ok && len(ret.Results) == 1 {
				if id := identOf(ret.Results[0]); id != nil {
					if objOf(info, id) == word {
						retsWord = true
					} else {
						// value of the comma-ok lookup keyed by word
						for _, d := range defsInLit(info, fl, objOf(info, id)) {
							if ix, ok := d.(*ast.IndexExpr); ok && identOf(ix.Index) != nil && objOf(info, identOf(ix.Index)) == word {
								retsSub = true
							}
						}
					}
				}
			}
			return true
		})
		lookupOK = retsWord && retsSub
	}
	r.cond(lookupOK, "RE-C16", rp.Name, "whole-word substitution by exact lookup", fnPos(w, rp), "a word is replaced by rp[word] when present, and returned unchanged otherwise", "the replacement callback is not 'exact map lookup of the whole word, else the word itself'")
	// reEnums: two groups
	pe, ppos := patternOf(w, "generator", "reEnums")
	ree, err := syntax.Parse(pe, syntax.Perl)
	r.cond(err == nil && ree.MaxCap() == 2, "RE-C16", "generator.<package-level>", "reEnums has two groups (type, constant)", w.Pos(ppos), "pattern "+pe, "the enum placeholder pattern does not capture exactly a type and a constant name")
	// reReferences: REFERENCES (\w+) and SQLTableName applied
	gc := w.MustFunc("generator/sql.generateCustomConstraint")
	ginfo := gc.Pkg.TypesInfo
	pr, rpos := patternOf(w, "generator/sql", "reReferences")
	rer, err := syntax.Parse(pr, syntax.Perl)
	viaTable := false
	ast.Inspect(gc.Decl.Body, func(x ast.Node) bool {
		if call, ok := x.(*ast.CallExpr); ok && fullName(calleeOf(ginfo, call)) == "(*regexp.Regexp).ReplaceAllStringFunc" {
			if body, binfo, _ := callbackOf(w, gc, call.Args[1]); body != nil {
				for _, f := range callsIn(binfo, body) {
					if strings.HasSuffix(f, "generator.SQLTableName") {
						viaTable = true
					}
				}
			}
		}
		return true
	})
	r.cond(err == nil && rer.MaxCap() == 1 && strings.HasPrefix(pr, "REFERENCES ") && viaTable, "RE-C16", gc.Name, "REFERENCES <name> goes through SQLTableName", w.Pos(rpos), "pattern "+pr+", callback calls SQLTableName", "the name following REFERENCES is not rewritten with the shared table naming convention")
}

func defsInLit(info *types.Info, fl *ast.FuncLit, obj types.Object) []ast.Expr {
	var out []ast.Expr
	ast.Inspect(fl, func(n ast.Node) bool {
		if as, ok := n.(*ast.AssignStmt); ok {
			for i, l := range as.Lhs {
				if id := identOf(l); id != nil && objOf(info, id) == obj {
					if len(as.Rhs) == len(as.Lhs) {
						out = append(out, as.Rhs[i])
					} else if len(as.Rhs) == 1 {
						out = append(out, as.Rhs[0])
					}
				}
			}
		}
		return true
	})
	return out
}

func checkConstraintOwner(w *World, r *Result) {
	fi := w.MustFunc("generator/sql.Generate")
	info := fi.Pkg.TypesInfo
	// for _, ta := range tables { for _, c := range ta.CustomConstraints { generateCustomConstraint(ana, ta, rep, c) } }
	good := false
	ast.Inspect(fi.Decl.Body, func(x ast.Node) bool {
		outer, ok := x.(*ast.RangeStmt)
		if !ok || identOf(outer.Value) == nil {
			return true
		}
		ta := info.Defs[identOf(outer.Value)]
		ast.Inspect(outer.Body, func(y ast.Node) bool {
			inner, ok := y.(*ast.RangeStmt)
			if !ok || !strings.HasSuffix(es(inner.X), ".CustomConstraints") || rootIdent(inner.X) == nil || objOf(info, rootIdent(inner.X)) != ta {
				return true
			}
			c := info.Defs[identOf(inner.Value)]
			ast.Inspect(inner.Body, func(z ast.Node) bool {
				if call, ok := z.(*ast.CallExpr); ok && strings.HasSuffix(fullName(calleeOf(info, call)), "sql.generateCustomConstraint") && len(call.Args) == 4 {
					if identOf(call.Args[1]) != nil && objOf(info, identOf(call.Args[1])) == ta && identOf(call.Args[3]) != nil && objOf(info, identOf(call.Args[3])) == c {
						good = len(pathCondsNoLoop(fi, call)) == 0
					}
				}
				return true
			})
			return true
		})
		return true
	})
	r.cond(good, "FLW-C16t", fi.Name, "each custom constraint is emitted for its own table", fnPos(w, fi), "generateCustomConstraint(ana, ta, rep, c) for every c of ta.CustomConstraints, with the ta of the same iteration, unconditionally", "custom constraints are not emitted one per comment with the table that owns the comment")
	gc := w.MustFunc("generator/sql.generateCustomConstraint")
	ginfo := gc.Pkg.TypesInfo
	addOK := false
	ast.Inspect(gc.Decl.Body, func(x ast.Node) bool {
		is, ok := x.(*ast.IfStmt)
		if !ok {
			return true
		}
		call, ok := ast.Unparen(is.Cond).(*ast.CallExpr)
		if !ok || fullName(calleeOf(ginfo, call)) != "strings.HasPrefix" {
			return true
		}
		if tv := ginfo.Types[call.Args[1]]; tv.Value != nil && constant.StringVal(tv.Value) == "ADD" {
			// body formats ALTER TABLE with SQLTableName(ta.TableName())
			txt := ""
			ast.Inspect(is.Body, func(y ast.Node) bool {
				if lit, ok := y.(*ast.BasicLit); ok {
					txt += lit.Value
				}
				return true
			})
			calls := callsIn(ginfo, is.Body)
			hasTN := false
			for _, c := range calls {
				if strings.HasSuffix(c, "generator.SQLTableName") {
					hasTN = true
				}
			}
			addOK = strings.Contains(txt, "ALTER TABLE") && hasTN
		}
		return true
	})
	r.cond(addOK, "FLW-C16t", gc.Name, "ADD … is attached with ALTER TABLE <own table>", fnPos(w, gc), "texts starting with ADD are wrapped in ALTER TABLE SQLTableName(ta.TableName())", "a constraint starting with ADD is not attached to its table with ALTER TABLE")
}

// checkEnumsLast (PTH-C16o): the enum placeholders are expanded after every other rewriting of the text. The
// literal #[T.C] stands for is data (the Go value of the constant): a pass that rewrites words -- the table-name
// replacer, a regexp or strings replacement -- applied after the expansion would also rewrite that value when it
// happens to contain a table name. Obligations: every call of generator.ReplaceEnums whose result is stored in a
// variable; no later call in the same function passes that variable to a rewriting function.
func checkEnumsLast(w *World, r *Result) {
	re := w.MustFunc("generator.ReplaceEnums")
	n := 0
	for _, fi := range sortedFuncs(w) {
		if fi.Decl.Body == nil {
			continue
		}
		info := fi.Pkg.TypesInfo
		ast.Inspect(fi.Decl.Body, func(x ast.Node) bool {
			as, ok := x.(*ast.AssignStmt)
			if !ok || len(as.Lhs) != 1 || len(as.Rhs) != 1 {
				return true
			}
			call, ok := as.Rhs[0].(*ast.CallExpr)
			if !ok || calleeOf(info, call) != re.Obj {
				return true
			}
			id := identOf(as.Lhs[0])
			if id == nil {
				return true
			}
			obj := objOf(info, id)
			n++
			late := ""
			ast.Inspect(fi.Decl.Body, func(y ast.Node) bool {
				c, ok := y.(*ast.CallExpr)
				if !ok || c.Pos() <= call.End() {
					return true
				}
				fn := calleeOf(info, c)
				if fn == nil {
					return true
				}
				full := fn.FullName()
				rewriter := strings.HasSuffix(full, "generator.TableNameReplacer).Replace") ||
					strings.HasPrefix(full, "(*regexp.Regexp).ReplaceAll") ||
					full == "strings.ReplaceAll" || full == "strings.Replace" || full == "(*strings.Replacer).Replace"
				if !rewriter {
					return true
				}
				for _, a := range c.Args {
					if aid := identOf(a); aid != nil && objOf(info, aid) == obj {
						late = es(c) + " at " + w.Pos(c.Pos())
					}
				}
				return true
			})
			// PTH-C16p: the expansion runs on every path through the function (every custom statement may hold a placeholder)
			var cs []string
			for _, c := range pathCondsNoLoop(fi, as) {
				// the negation of an early exit that returns nothing (nil, an empty string or list): no SQL is
				// produced on the other path, so nothing can reach it unexpanded
				if c.exit != nil && len(c.exit.Body.List) == 1 {
					if ret, ok := c.exit.Body.List[0].(*ast.ReturnStmt); ok {
						empty := true
						for _, res := range ret.Results {
							if es(res) != "nil" && es(res) != `""` {
								empty = false
							}
						}
						if empty {
							continue
						}
					}
				}
				if c.expr != nil {
					t := es(c.expr)
					if !c.truth {
						t = "!(" + t + ")"
					}
					cs = append(cs, t)
				}
			}
			r.cond(len(cs) == 0, "PTH-C16p", fi.Name, "enum placeholders expanded on every path: "+es(as.Lhs[0])+" = ReplaceEnums(…)", w.Pos(call.Pos()),
				"the expansion is not under any condition",
				"the placeholders are only expanded when {"+strings.Join(cs, ", ")+"}: on the other paths a `#[Type.Const]` reaches the generated SQL unexpanded")
			r.cond(late == "", "PTH-C16o", fi.Name, "enum placeholders expanded last: "+es(as.Lhs[0])+" = ReplaceEnums(…)", w.Pos(call.Pos()),
				"no rewriting pass is applied to the text after the constants' values were inserted",
				"the text is rewritten by "+late+" after the enum placeholders were expanded: a string constant that contains a table name (or whatever that pass matches) is altered, and no longer is the SQL literal of the constant's value")
			return true
		})
	}
	if n < 2 {
		Undecided("PTH-C16o: fewer ReplaceEnums call sites than confirmed by hand (%d)", n)
	}
}

// mapMembershipExpr recognises a test "key k is in map m": the ok identifier of `_, ok := m[k]` (or `v, ok := m[k]`),
// a direct read `m[k]` of a map with boolean elements, or an identifier bound once to such a read. It returns the
// object of m and the key expression.
func mapMembershipExpr(info *types.Info, fd *ast.FuncDecl, e ast.Expr) (m types.Object, k ast.Expr) {
	e = ast.Unparen(e)
	index := func(x ast.Expr) (types.Object, ast.Expr, *types.Map) {
		ix, ok := ast.Unparen(x).(*ast.IndexExpr)
		if !ok || identOf(ix.X) == nil {
			return nil, nil, nil
		}
		mt, ok := info.TypeOf(ix.X).Underlying().(*types.Map)
		if !ok {
			return nil, nil, nil
		}
		return objOf(info, identOf(ix.X)), ix.Index, mt
	}
	isBool := func(mt *types.Map) bool {
		b, ok := mt.Elem().Underlying().(*types.Basic)
		return ok && b.Kind() == types.Bool
	}
	if mo, ko, mt := index(e); mo != nil {
		if isBool(mt) {
			return mo, ko
		}
		return nil, nil
	}
	id := identOf(e)
	if id == nil {
		return nil, nil
	}
	n := 0
	ast.Inspect(fd.Body, func(y ast.Node) bool {
		as, ok := y.(*ast.AssignStmt)
		if !ok || len(as.Rhs) != 1 {
			return true
		}
		for i, lhs := range as.Lhs {
			l := identOf(lhs)
			if l == nil || objOf(info, l) != objOf(info, id) {
				continue
			}
			n++
			mo, ko, mt := index(as.Rhs[0])
			if mo == nil {
				continue
			}
			if (len(as.Lhs) == 2 && i == 1) || (len(as.Lhs) == 1 && isBool(mt)) {
				m, k = mo, ko
			}
		}
		return true
	})
	if n != 1 {
		return nil, nil
	}
	return m, k
}

func mapMembership(info *types.Info, fd *ast.FuncDecl, e ast.Expr) (m, k types.Object) {
	mo, ke := mapMembershipExpr(info, fd, e)
	if mo == nil || identOf(ke) == nil {
		return nil, nil
	}
	return mo, objOf(info, identOf(ke))
}

// checkReplacerComplete (PTH-C16w): the table-name replacer rewrites a custom text by looking every word up; a name
// that is not in the table yet stays as it is. The table must therefore be complete before the first text is
// rewritten: stores into a TableNameReplacer happen in a function that builds and returns it (a constructor), or at
// least not inside a loop whose body also reaches a use of the replacer (Replace / a lookup) — filling it table by
// table while texts are rewritten leaves the names of later tables unreplaced.
func checkReplacerComplete(w *World, r *Result) {
	isRep := func(t types.Type) bool {
		return t != nil && strings.HasSuffix(t.String(), "generator.TableNameReplacer")
	}
	// functions that use a replacer: call a method on it, or read it by index
	uses := map[*FuncInfo]bool{}
	type store struct {
		fi *FuncInfo
		as *ast.AssignStmt
	}
	var stores []store
	for _, fi := range sortedFuncs(w) {
		if fi.Decl.Body == nil {
			continue
		}
		info := fi.Pkg.TypesInfo
		lhs := map[ast.Expr]bool{}
		ast.Inspect(fi.Decl.Body, func(x ast.Node) bool {
			if as, ok := x.(*ast.AssignStmt); ok {
				for _, l := range as.Lhs {
					if ix, ok := ast.Unparen(l).(*ast.IndexExpr); ok && isRep(info.TypeOf(ix.X)) {
						lhs[ix] = true
						stores = append(stores, store{fi, as})
					}
				}
			}
			return true
		})
		ast.Inspect(fi.Decl.Body, func(x ast.Node) bool {
			switch v := x.(type) {
			case *ast.IndexExpr:
				if !lhs[v] && isRep(info.TypeOf(v.X)) {
					uses[fi] = true
				}
			case *ast.CallExpr:
				if sel, ok := ast.Unparen(v.Fun).(*ast.SelectorExpr); ok && isRep(info.TypeOf(sel.X)) {
					uses[fi] = true
				}
			}
			return true
		})
	}
	reachesUse := func(n ast.Node, info *types.Info) bool {
		found := false
		ast.Inspect(n, func(x ast.Node) bool {
			call, ok := x.(*ast.CallExpr)
			if !ok {
				return true
			}
			if sel, ok := ast.Unparen(call.Fun).(*ast.SelectorExpr); ok && isRep(info.TypeOf(sel.X)) {
				found = true
			}
			if fn := calleeOf(info, call); fn != nil {
				if cf := w.Funcs[fn]; cf != nil && cf.Decl.Body != nil {
					for _, c2 := range calleeClosure(w, cf, 4) {
						if uses[c2] {
							found = true
						}
					}
				}
			}
			return true
		})
		return found
	}
	for _, st := range stores {
		fi, info := st.fi, st.fi.Pkg.TypesInfo
		cons := "store " + normLocals(info, st.as.Lhs[0])
		pos := w.Pos(st.as.Pos())
		// constructor: returns a replacer and does not use one
		ctor := false
		if res := fi.Decl.Type.Results; res != nil && res.NumFields() == 1 && isRep(info.TypeOf(res.List[0].Type)) && !uses[fi] {
			ctor = true
		}
		if ctor {
			r.ok("PTH-C16w", fi.Name, cons, pos, "inside the constructor, which returns the complete table before anything is rewritten", true)
			continue
		}
		// the enclosing loops of the store in its function, and the loops around the call sites of that function (two levels)
		why := ""
		var check func(cur *FuncInfo, at token.Pos, depth int)
		check = func(cur *FuncInfo, at token.Pos, depth int) {
			cinfo := cur.Pkg.TypesInfo
			ast.Inspect(cur.Decl.Body, func(x ast.Node) bool {
				var body *ast.BlockStmt
				switch l := x.(type) {
				case *ast.RangeStmt:
					body = l.Body
				case *ast.ForStmt:
					body = l.Body
				}
				if body != nil && body.Pos() <= at && at <= body.End() && why == "" && reachesUse(body, cinfo) {
					why = "the loop at " + w.Pos(x.Pos()) + " in " + cur.Name + " both fills the replacer and rewrites texts with it"
				}
				return true
			})
			if depth >= 3 {
				return
			}
			for _, caller := range sortedFuncs(w) {
				if caller.Decl.Body == nil {
					continue
				}
				ci := caller.Pkg.TypesInfo
				ast.Inspect(caller.Decl.Body, func(x ast.Node) bool {
					if call, ok := x.(*ast.CallExpr); ok && calleeOf(ci, call) == cur.Obj && caller != cur {
						check(caller, call.Pos(), depth+1)
					}
					return true
				})
			}
		}
		check(fi, st.as.Pos(), 0)
		r.cond(why == "", "PTH-C16w", fi.Name, cons, pos, "the store is not inside a loop that also rewrites texts", why+": a custom query or constraint of an earlier table that names a later table keeps the Go name of that table")
	}
	if len(stores) == 0 {
		Undecided("PTH-C16w: no store into a TableNameReplacer found")
	}
}

package main

import (
	"encoding/json"
	"fmt"
	"os"
	"path/filepath"
	"sort"
	"strings"
)

// Verdicts of an obligation.
const (
	VOK        = "discharged" // automatically discharged by a rule
	VJustified = "justified"  // discharged by a frozen table entry (reason given)
	VViolation = "violation"
)

// Ob is one proof obligation (rule instance at a construct).
type Ob struct {
	Rule       string `json:"rule"`
	Func       string `json:"function"`
	Construct  string `json:"construct"`
	Pos        string `json:"pos"`
	Verdict    string `json:"verdict"`
	How        string `json:"how"`
	Nontrivial bool   `json:"-"`
	Path       string `json:"path,omitempty"` // entry path / offending path for path rules
}

func (o Ob) Key() string { return o.Rule + "|" + o.Func + "|" + o.Construct }

// Result is what one property check produces.
type Result struct {
	Prop        string
	Level       string
	Obs         []Ob
	Explanation string
	Assumptions []string
	Analysed    map[string]any
	Warnings    []string
	Rules       []string
	TrustedBase []string
}

func (r *Result) add(o Ob) { r.Obs = append(r.Obs, o) }

func (r *Result) ok(rule, fn, construct, pos, how string, nontrivial bool) {
	r.add(Ob{Rule: rule, Func: fn, Construct: construct, Pos: pos, Verdict: VOK, How: how, Nontrivial: nontrivial})
}

func (r *Result) justified(rule, fn, construct, pos, how string) {
	r.add(Ob{Rule: rule, Func: fn, Construct: construct, Pos: pos, Verdict: VJustified, How: how, Nontrivial: true})
}

func (r *Result) bad(rule, fn, construct, pos, how string) {
	r.add(Ob{Rule: rule, Func: fn, Construct: construct, Pos: pos, Verdict: VViolation, How: how, Nontrivial: true})
}

func (r *Result) warn(format string, a ...any) {
	r.Warnings = append(r.Warnings, fmt.Sprintf(format, a...))
}

func (r *Result) note(k string, v any) {
	if r.Analysed == nil {
		r.Analysed = map[string]any{}
	}
	r.Analysed[k] = v
}

// cond records ok when c holds, a violation otherwise.
func (r *Result) cond(c bool, rule, fn, construct, pos, okHow, badHow string) bool {
	if c {
		r.ok(rule, fn, construct, pos, okHow, true)
	} else {
		r.bad(rule, fn, construct, pos, badHow)
	}
	return c
}

// ---------- known findings ----------

type Finding struct {
	Property  string `json:"property"`
	Rule      string `json:"rule"`
	Function  string `json:"function"`
	Construct string `json:"construct"`
	Status    string `json:"status"` // known | fixed
	Commit    string `json:"commit,omitempty"`
	Witness   string `json:"witness,omitempty"`
	Note      string `json:"note,omitempty"`
}

func loadFindings(path string) []Finding {
	b, err := os.ReadFile(path)
	if err != nil {
		return nil
	}
	var f struct {
		Findings []Finding `json:"findings"`
	}
	if err := json.Unmarshal(b, &f); err != nil {
		Undecided("known findings file %s unreadable: %v", path, err)
	}
	return f.Findings
}

func matchFinding(fs []Finding, prop string, o Ob) *Finding {
	for i := range fs {
		f := &fs[i]
		if f.Status != "known" {
			continue
		}
		if f.Property == prop && f.Rule == o.Rule && f.Function == o.Func && f.Construct == o.Construct {
			return f
		}
	}
	return nil
}

// ---------- evidence ----------

type evidence struct {
	PropertyID  string         `json:"property_id"`
	Tier        string         `json:"tier"`
	Seed        int            `json:"seed"`
	Level       string         `json:"level"`
	Coverage    map[string]any `json:"coverage"`
	Assumptions []string       `json:"assumptions"`
	WallS       float64        `json:"wall_s"`
	Violations  int            `json:"violations"`
}

// finish prints the verdict lines, writes evidence and replay files, returns the exit code.
func finish(r *Result, w *World, verifDir, tier string, seed int, wall float64, cmdline string) int {
	findings := loadFindings(filepath.Join(verifDir, "known_findings.json"))
	sort.SliceStable(r.Obs, func(i, j int) bool {
		if r.Obs[i].Rule != r.Obs[j].Rule {
			return r.Obs[i].Rule < r.Obs[j].Rule
		}
		if r.Obs[i].Func != r.Obs[j].Func {
			return r.Obs[i].Func < r.Obs[j].Func
		}
		return r.Obs[i].Construct < r.Obs[j].Construct
	})
	evDir := filepath.Join(verifDir, "evidence")
	os.MkdirAll(evDir, 0o755)
	vioDir := filepath.Join(evDir, r.Prop+".violations")
	os.RemoveAll(vioDir)

	var known, violations []Ob
	discharged, justified := 0, 0
	distinct := map[string]bool{}
	byRule := map[string][2]int{}
	for _, o := range r.Obs {
		c := byRule[o.Rule]
		c[0]++
		switch o.Verdict {
		case VOK:
			discharged++
			c[1]++
		case VJustified:
			justified++
			c[1]++
		case VViolation:
			if f := matchFinding(findings, r.Prop, o); f != nil {
				known = append(known, o)
			} else {
				violations = append(violations, o)
			}
		}
		byRule[o.Rule] = c
		if o.Nontrivial {
			distinct[o.Key()] = true
		}
	}
	for _, o := range known {
		fmt.Printf("KNOWN-FINDING: property=%s rule=%s at %s in %s: %s — %s\n", r.Prop, o.Rule, o.Pos, o.Func, o.Construct, o.How)
	}
	for i, o := range violations {
		os.MkdirAll(vioDir, 0o755)
		path := filepath.Join(vioDir, fmt.Sprintf("%d.json", i))
		b, _ := json.MarshalIndent(map[string]any{"property": r.Prop, "obligation": o, "tier": tier}, "", " ")
		os.WriteFile(path, b, 0o644)
		fmt.Printf("VIOLATION property=%s replay=%s\n", r.Prop, path)
		fmt.Printf("  rule=%s at %s in %s\n  construct: %s\n  why: %s\n", o.Rule, o.Pos, o.Func, o.Construct, o.How)
		if o.Path != "" {
			fmt.Printf("  path: %s\n", o.Path)
		}
	}
	for _, wmsg := range r.Warnings {
		fmt.Printf("WARNING property=%s %s\n", r.Prop, wmsg)
	}

	// samples: violations first, then a spread of obligations over rules
	var samples []any
	seenRule := map[string]int{}
	for _, o := range append(append([]Ob{}, violations...), known...) {
		samples = append(samples, o)
	}
	for _, o := range r.Obs {
		if o.Verdict == VViolation {
			continue
		}
		if seenRule[o.Rule] < 3 && len(samples) < 60 {
			seenRule[o.Rule]++
			samples = append(samples, o)
		}
	}
	ruleSummary := map[string]any{}
	var ruleNames []string
	for k := range byRule {
		ruleNames = append(ruleNames, k)
	}
	sort.Strings(ruleNames)
	for _, k := range ruleNames {
		ruleSummary[k] = map[string]int{"obligations": byRule[k][0], "discharged_or_justified": byRule[k][1]}
	}
	var knownList []string
	for _, o := range known {
		knownList = append(knownList, o.Key())
	}
	cov := map[string]any{
		"explanation":         r.Explanation,
		"obligations":         len(r.Obs),
		"discharged":          discharged + justified,
		"discharged_auto":     discharged,
		"discharged_by_table": justified,
		"known_findings":      knownList,
		"evaluations":         len(r.Obs),
		"distinct_nontrivial": len(distinct),
		"rule":                "one obligation per (rule, function, construct) instance found in /repo's current source; an obligation is non-trivial when its discharge needed a dominance/flow/agreement argument or a table entry rather than a purely syntactic match; distinct = distinct (rule,function,construct) keys",
		"rules_applied":       r.Rules,
		"per_rule":            ruleSummary,
		"samples":             samples,
		"analysed":            r.Analysed,
		"exhaustive":          true,
		"warnings":            r.Warnings,
	}
	if w != nil {
		var pk []string
		for _, p := range w.Pkgs {
			pk = append(pk, p.PkgPath)
		}
		cov["packages"] = pk
		cov["functions_loaded"] = len(w.Funcs)
		if w.cgAlgo != "" {
			cov["callgraph"] = w.cgAlgo
		}
	}
	if r.Level == "proof" {
		cov["checker_cmd"] = cmdline
		cov["trusted_base"] = r.TrustedBase
	}
	ev := evidence{PropertyID: r.Prop, Tier: tier, Seed: seed, Level: r.Level, Coverage: cov, Assumptions: r.Assumptions, WallS: wall, Violations: len(violations)}
	if ev.Assumptions == nil {
		ev.Assumptions = []string{}
	}
	b, _ := json.MarshalIndent(ev, "", " ")
	if err := os.WriteFile(filepath.Join(evDir, r.Prop+".json"), b, 0o644); err != nil {
		fmt.Fprintf(os.Stderr, "cannot write evidence: %v\n", err)
		return 2
	}
	fmt.Printf("property=%s tier=%s obligations=%d discharged=%d justified=%d known=%d violations=%d wall=%.1fs\n",
		r.Prop, tier, len(r.Obs), discharged, justified, len(known), len(violations), wall)
	if len(violations) > 0 {
		return 1
	}
	return 0
}

func writeUndecidedEvidence(prop, verifDir, tier string, seed int, wall float64, reason, level string) {
	evDir := filepath.Join(verifDir, "evidence")
	os.MkdirAll(evDir, 0o755)
	ev := evidence{PropertyID: prop, Tier: tier, Seed: seed, Level: level, WallS: wall, Assumptions: []string{},
		Coverage: map[string]any{"explanation": "UNDECIDED: " + reason, "obligations": 0, "discharged": 0, "evaluations": 0, "distinct_nontrivial": 0, "samples": []any{}}}
	b, _ := json.MarshalIndent(ev, "", " ")
	os.WriteFile(filepath.Join(evDir, prop+".json"), b, 0o644)
}

func explain(path string) int {
	b, err := os.ReadFile(path)
	if err != nil {
		fmt.Fprintln(os.Stderr, err)
		return 2
	}
	var v struct {
		Property   string `json:"property"`
		Obligation Ob     `json:"obligation"`
	}
	if err := json.Unmarshal(b, &v); err != nil {
		fmt.Fprintln(os.Stderr, err)
		return 2
	}
	o := v.Obligation
	fmt.Printf("property %s\nrule      %s\nwhere     %s in %s\nconstruct %s\nwhy       %s\n", v.Property, o.Rule, o.Pos, o.Func, o.Construct, o.How)
	if o.Path != "" {
		fmt.Printf("path      %s\n", o.Path)
	}
	fmt.Printf("re-run    ./run.sh %s quick\n", strings.TrimSpace(v.Property))
	return 0
}

// shared runs a rule set that belongs to another property into a scratch result and copies the obligations that keep
// accepts into r. When the rule set stops as undecided, the violations it had already recorded are copied first: a
// finding is not lost because a later part of the shared rules met a shape it does not know.
func shared(r *Result, keep func(Ob) bool, f func(sub *Result)) {
	sub := &Result{Prop: r.Prop}
	copyObs := func(onlyViolations bool) {
		for _, o := range sub.Obs {
			if onlyViolations && o.Verdict != VViolation {
				continue
			}
			if keep == nil || keep(o) {
				r.add(o)
			}
		}
	}
	defer func() {
		if p := recover(); p != nil {
			copyObs(true)
			panic(p)
		}
	}()
	f(sub)
	copyObs(false)
}

package main

// MEMO-KEY: the key of a memo table determines every input of the computation it short-circuits.
//
// Pattern: inside one function, a comma-ok lookup `v, ok := M[k]` (possibly nested, M[a][b]) together with a
// store under the same key `M[k] = e`. The value e is what a hit skips. Every variable that e depends on
// (locals are expanded through their definitions inside the function; the lookup itself is not a definition)
// must be *determined* by the key: it is a key component, or a key component is an identity projection of it
// (x.Pos(), x.ID, x.PkgPath, x.Types, x.Obj()), or it is constant over the lifetime of the table (a parameter of
// the function that creates the table locally; the owner of the table; a run-constant context value).
// A key that is a lossy function of an input (a line number, the printed form of an expression) makes two
// different inputs share one entry: the second one silently gets the first one's result.

import (
	"go/ast"
	"go/types"
	"sort"
	"strings"
)

var identityProjections = []string{".Pos()", ".ID", ".PkgPath", ".Types", ".Obj()", ".Type()"}

type memoSite struct {
	lookup  *ast.IndexExpr
	okAs    *ast.AssignStmt
	store   *ast.AssignStmt
	rootObj types.Object
	keys    []ast.Expr
}

// indexChain splits M[a][b] into root M and [a, b]; ok when root is an identifier or selector of map type chain.
func indexChain(info *types.Info, e ast.Expr) (root ast.Expr, keys []ast.Expr, ok bool) {
	for {
		ix, isIx := ast.Unparen(e).(*ast.IndexExpr)
		if !isIx {
			break
		}
		t := info.TypeOf(ix.X)
		if t == nil {
			return nil, nil, false
		}
		if _, isMap := t.Underlying().(*types.Map); !isMap {
			return nil, nil, false
		}
		keys = append([]ast.Expr{ix.Index}, keys...)
		e = ix.X
	}
	if len(keys) == 0 {
		return nil, nil, false
	}
	return ast.Unparen(e), keys, true
}

func memoKeyRule(w *World, r *Result, only func(rel string) bool) int {
	n := 0
	for _, fi := range sortedFuncs(w) {
		if fi.Decl.Body == nil || (only != nil && !only(w.Rel(fi.Obj.Pkg()))) {
			continue
		}
		info := fi.Pkg.TypesInfo
		// comma-ok lookups
		type lk struct {
			as         *ast.AssignStmt
			root       ast.Expr
			keys       []ast.Expr
			chainText  string
			valueIdent *ast.Ident
		}
		var lookups []lk
		ast.Inspect(fi.Decl.Body, func(x ast.Node) bool {
			as, ok := x.(*ast.AssignStmt)
			if !ok || len(as.Lhs) != 2 || len(as.Rhs) != 1 {
				return true
			}
			root, keys, ok := indexChain(info, as.Rhs[0])
			if !ok {
				return true
			}
			if v := identOf(as.Lhs[0]); v == nil || v.Name == "_" {
				return true // a membership test (insert-if-absent), not a memo: no stored result is reused
			}
			lookups = append(lookups, lk{as: as, root: root, keys: keys, chainText: render(info, as.Rhs[0], nil), valueIdent: identOf(as.Lhs[0])})
			return true
		})
		if len(lookups) == 0 {
			continue
		}
		// stores under the same key
		ast.Inspect(fi.Decl.Body, func(x ast.Node) bool {
			as, ok := x.(*ast.AssignStmt)
			if !ok || len(as.Lhs) != len(as.Rhs) {
				return true
			}
			for i, l := range as.Lhs {
				_, _, isChain := indexChain(info, l)
				if !isChain {
					continue
				}
				for _, lookup := range lookups {
					if render(info, l, nil) != lookup.chainText {
						continue
					}
					n++
					checkMemoSite(w, r, fi, lookup.as, lookup.root, lookup.keys, lookup.valueIdent, as, as.Rhs[i])
				}
			}
			return true
		})
	}
	return n
}

func checkMemoSite(w *World, r *Result, fi *FuncInfo, lookupAs *ast.AssignStmt, root ast.Expr, keys []ast.Expr, valueIdent *ast.Ident, store *ast.AssignStmt, stored ast.Expr) {
	info := fi.Pkg.TypesInfo
	// key components, with single-definition locals resolved one level
	var comps []string
	defsOf := func(obj types.Object) []ast.Expr {
		var out []ast.Expr
		ast.Inspect(fi.Decl, func(x ast.Node) bool {
			as, ok := x.(*ast.AssignStmt)
			if !ok || as == lookupAs {
				return true
			}
			for i, l := range as.Lhs {
				if id := identOf(l); id != nil && objOf(info, id) == obj {
					if len(as.Rhs) == len(as.Lhs) {
						out = append(out, as.Rhs[i])
					} else if len(as.Rhs) == 1 {
						out = append(out, as.Rhs[0])
					}
				}
			}
			return true
		})
		return out
	}
	for _, k := range keys {
		comps = append(comps, render(info, k, nil))
		if id := identOf(k); id != nil {
			if ds := defsOf(objOf(info, id)); len(ds) == 1 {
				comps = append(comps, render(info, ds[0], nil))
			}
		}
	}
	// lifetime-constant variables
	rootID := rootIdent(root)
	var rootObj types.Object
	if rootID != nil {
		rootObj = objOf(info, rootID)
	}
	localTable := false
	if v, ok := rootObj.(*types.Var); ok && !v.IsField() && v.Parent() != nil && v.Pkg() != nil && v.Parent() != v.Pkg().Scope() {
		// the table is a local of this function (not a parameter): created here
		isParam := false
		for _, f := range fi.Decl.Type.Params.List {
			for _, nm := range f.Names {
				if info.Defs[nm] == rootObj {
					isParam = true
				}
			}
		}
		if fi.Decl.Recv != nil {
			for _, f := range fi.Decl.Recv.List {
				for _, nm := range f.Names {
					if info.Defs[nm] == rootObj {
						isParam = true
					}
				}
			}
		}
		localTable = !isParam && root == ast.Expr(rootID)
	}
	isFuncParam := func(obj types.Object) bool {
		for _, f := range fi.Decl.Type.Params.List {
			for _, nm := range f.Names {
				if info.Defs[nm] == obj {
					return true
				}
			}
		}
		return false
	}
	determined := func(name string) bool {
		for _, c := range comps {
			if c == name {
				return true
			}
			for _, p := range identityProjections {
				if c == name+p {
					return true
				}
			}
		}
		return false
	}
	// inputs of the stored value (the expansion stops at a variable the key determines)
	inputs := map[types.Object]*ast.Ident{}
	seen := map[types.Object]bool{}
	var expand func(e ast.Node, depth int)
	expand = func(e ast.Node, depth int) {
		ast.Inspect(e, func(x ast.Node) bool {
			if sel, ok := x.(*ast.SelectorExpr); ok {
				// do not descend into the field name
				expand(sel.X, depth)
				return false
			}
			id, ok := x.(*ast.Ident)
			if !ok {
				return true
			}
			obj, ok := info.Uses[id].(*types.Var)
			if !ok || obj.IsField() || obj.Pkg() == nil || obj.Parent() == obj.Pkg().Scope() {
				return true
			}
			if seen[obj] {
				return true
			}
			seen[obj] = true
			if determined(obj.Name()) {
				return true
			}
			ds := defsOf(obj)
			// the variable a type switch binds is a view of the switch subject (a range variable stays an input: it
			// varies while the table lives)
			ast.Inspect(fi.Decl, func(y ast.Node) bool {
				switch v := y.(type) {
				case *ast.TypeSwitchStmt:
					if as, ok := v.Assign.(*ast.AssignStmt); ok && len(as.Rhs) == 1 {
						for _, cl := range v.Body.List {
							if info.Implicits[cl] == types.Object(obj) {
								if ta, ok := as.Rhs[0].(*ast.TypeAssertExpr); ok {
									ds = append(ds, ta.X)
								}
							}
						}
					}
				}
				return true
			})
			if len(ds) == 0 || depth == 0 {
				inputs[obj] = id
				return true
			}
			for _, d := range ds {
				expand(d, depth-1)
			}
			return true
		})
	}
	expand(stored, 6)
	var names []string
	for obj := range inputs {
		names = append(names, obj.Name())
	}
	sort.Strings(names)
	cons := "memo " + render(info, lookupAs.Rhs[0], nil) + " <- " + es(stored)
	pos := w.Pos(store.Pos())
	var undetermined []string
	for obj := range inputs {
		name := obj.Name()
		switch {
		case obj == rootObj:
			continue // the owner of the table
		case isContextType(obj.Type()):
			continue
		case localTable && isFuncParam(obj):
			continue // constant over the lifetime of a table created in this call
		}
		if !determined(name) {
			undetermined = append(undetermined, name)
		}
	}
	sort.Strings(undetermined)
	if len(undetermined) == 0 {
		r.ok("MEMO-KEY", fi.Name, cons, pos, "every input of the memoised value ("+strings.Join(names, ", ")+") is a key component, an identity projection of one, or constant over the table's lifetime; key = "+strings.Join(comps, " | "), true)
		return
	}
	r.bad("MEMO-KEY", fi.Name, cons, pos, "the memoised value depends on "+strings.Join(undetermined, ", ")+", which the key ("+strings.Join(comps, " | ")+") does not determine: two different inputs that agree on the key share one entry, and the second silently gets the first one's result")
}

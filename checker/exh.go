package main

// E-EXH: exhaustiveness and accepted-set agreement of type switches over the node interfaces.

import (
	"go/ast"
	"go/types"
	"sort"
	"strings"

	"golang.org/x/tools/go/packages"
)

type switchInfo struct {
	fn       string
	pkg      *packages.Package
	stmt     *ast.TypeSwitchStmt
	subject  string // rendered switched expression
	itf      string // interface name: analysis.Type, analysis.AnonymousType, analysis/sql.Type
	all      []string
	accepted []string // cases that do not immediately panic
	refused  []string // cases that immediately panic (explicit diagnostic)
	missing  []string // implementations with no case (land in default or fall through)
	deflt    string   // "none", "panic-diagnostic", "panic-other", "silent"
	onParam  bool
	pos      string
}

// implementations of an interface type among the named types of its package (pointer or value receivers).
func implsOf(w *World, rel, itfName string) map[string]types.Type {
	p := w.ByRel[rel]
	itf, ok := w.TypeOf(rel, itfName).Underlying().(*types.Interface)
	if !ok {
		Undecided("%s.%s is not an interface", rel, itfName)
	}
	out := map[string]types.Type{}
	for _, name := range p.Types.Scope().Names() {
		tn, ok := p.Types.Scope().Lookup(name).(*types.TypeName)
		if !ok || tn.IsAlias() {
			continue
		}
		if _, isItf := tn.Type().Underlying().(*types.Interface); isItf {
			continue
		}
		if types.Implements(tn.Type(), itf) {
			out[name] = tn.Type()
		} else if pt := types.NewPointer(tn.Type()); types.Implements(pt, itf) {
			out[name] = pt
		}
	}
	return out
}

func isPanicStmt(info *types.Info, st ast.Stmt) (isPanic bool, diagnostic bool) {
	e, ok := st.(*ast.ExprStmt)
	if !ok {
		return false, false
	}
	call, ok := e.X.(*ast.CallExpr)
	if !ok || !isBuiltinCall(info, call, "panic") || len(call.Args) != 1 {
		return false, false
	}
	return true, isDiagnosticArg(info, call.Args[0])
}

func isDiagnosticArg(info *types.Info, a ast.Expr) bool {
	t := info.TypeOf(a)
	if t == nil {
		return false
	}
	if b, ok := t.Underlying().(*types.Basic); ok && b.Info()&types.IsString != 0 {
		return true
	}
	errT := types.Universe.Lookup("error").Type()
	return types.Identical(t, errT) || types.Implements(t, errT.Underlying().(*types.Interface))
}

var exhInterfaces = [][2]string{{"analysis", "Type"}, {"analysis", "AnonymousType"}, {"analysis/sql", "Type"}}

func collectSwitches(w *World) []*switchInfo {
	var out []*switchInfo
	for _, p := range w.Pkgs {
		info := p.TypesInfo
		for _, f := range p.Syntax {
			for _, d := range f.Decls {
				fd, ok := d.(*ast.FuncDecl)
				if !ok || fd.Body == nil {
					continue
				}
				obj, _ := info.Defs[fd.Name].(*types.Func)
				if obj == nil {
					continue
				}
				ast.Inspect(fd.Body, func(n ast.Node) bool {
					ts, ok := n.(*ast.TypeSwitchStmt)
					if !ok {
						return true
					}
					var sx ast.Expr
					switch a := ts.Assign.(type) {
					case *ast.AssignStmt:
						sx = a.Rhs[0].(*ast.TypeAssertExpr).X
					case *ast.ExprStmt:
						sx = a.X.(*ast.TypeAssertExpr).X
					}
					st := info.TypeOf(sx)
					if st == nil {
						return true
					}
					for _, ii := range exhInterfaces {
						if !types.Identical(st, w.TypeOf(ii[0], ii[1])) {
							continue
						}
						impls := implsOf(w, ii[0], ii[1])
						si := &switchInfo{fn: w.QualName(obj), pkg: p, stmt: ts, subject: es(sx), itf: ii[0] + "." + ii[1], pos: w.Pos(ts.Pos()), deflt: "none"}
						for k := range impls {
							si.all = append(si.all, k)
						}
						sort.Strings(si.all)
						covered := map[string]bool{}
						for _, cl := range ts.Body.List {
							cc := cl.(*ast.CaseClause)
							refusing := false
							if len(cc.Body) > 0 {
								if isP, _ := isPanicStmt(info, cc.Body[0]); isP {
									refusing = true
								}
							}
							if cc.List == nil {
								switch {
								case len(cc.Body) == 0:
									si.deflt = "silent"
								default:
									isP, diag := isPanicStmt(info, cc.Body[len(cc.Body)-1])
									if isP && diag {
										si.deflt = "panic-diagnostic"
									} else if isP {
										si.deflt = "panic-other"
									} else {
										si.deflt = "silent"
									}
								}
								continue
							}
							for _, te := range cc.List {
								tt := info.TypeOf(te)
								name := ""
								if pt, ok := tt.(*types.Pointer); ok {
									tt = pt.Elem()
								}
								if nn, ok := tt.(*types.Named); ok {
									name = nn.Obj().Name()
								}
								if name == "" || impls[name] == nil {
									continue
								}
								covered[name] = true
								if refusing {
									si.refused = append(si.refused, name)
								} else {
									si.accepted = append(si.accepted, name)
								}
							}
						}
						for _, k := range si.all {
							if !covered[k] {
								si.missing = append(si.missing, k)
							}
						}
						sort.Strings(si.accepted)
						sort.Strings(si.refused)
						// is the subject a parameter of the enclosing function?
						if id := identOf(sx); id != nil {
							if v, ok := info.Uses[id].(*types.Var); ok {
								sig := obj.Type().(*types.Signature)
								for i := 0; i < sig.Params().Len(); i++ {
									if sig.Params().At(i) == v {
										si.onParam = true
									}
								}
							}
						}
						out = append(out, si)
					}
					return true
				})
			}
		}
	}
	sort.Slice(out, func(i, j int) bool { return out[i].pos < out[j].pos })
	return out
}

// runEXHdefaults (EXH-a): a default must be an explicit diagnostic, or absent/harmless.
func runEXHdefaults(w *World, r *Result, only func(rel string) bool) int {
	sws := collectSwitches(w)
	n := 0
	for _, si := range sws {
		if only != nil && !only(w.Rel(si.pkg.Types)) {
			continue
		}
		n++
		cons := "switch " + si.subject + ".(type) over " + si.itf
		switch si.deflt {
		case "panic-other":
			r.bad("EXH-a", si.fn, cons, si.pos, "default panics with a value that is neither a string nor an error: not a diagnostic")
		case "panic-diagnostic":
			r.ok("EXH-a", si.fn, cons, si.pos, "unmatched kinds ("+strings.Join(si.missing, ",")+") reach a default that panics with a string/error diagnostic", len(si.missing) > 0)
		case "none", "silent":
			if len(si.missing) == 0 {
				r.ok("EXH-a", si.fn, cons, si.pos, "all "+si.itf+" implementations have a case", false)
			} else {
				// unmatched kinds fall out of the switch: harmless only if nothing after it needs the narrowed value.
				r.ok("EXH-a", si.fn, cons, si.pos, "partial switch without a panicking default: unmatched kinds ("+strings.Join(si.missing, ",")+") fall through; the code after the switch is covered by the OBL rules", true)
			}
		}
	}
	return n
}

// runPanicClass: every panic(...) argument is a string or an error (an explicit diagnostic).
func runPanicClass(w *World, r *Result, only func(rel string) bool) int {
	n := 0
	for _, p := range w.Pkgs {
		rel := w.Rel(p.Types)
		if only != nil && !only(rel) {
			continue
		}
		info := p.TypesInfo
		for _, f := range p.Syntax {
			ast.Inspect(f, func(x ast.Node) bool {
				call, ok := x.(*ast.CallExpr)
				if !ok || !isBuiltinCall(info, call, "panic") || len(call.Args) != 1 {
					return true
				}
				n++
				fn := w.EnclosingFunc(p, call.Pos())
				cons := "panic(" + es(call.Args[0]) + ")"
				if len(cons) > 90 {
					cons = cons[:90] + "…)"
				}
				if isDiagnosticArg(info, call.Args[0]) {
					r.ok("PANIC-class", fn, cons, w.Pos(call.Pos()), "explicit diagnostic: the panic value is a string or an error", false)
				} else {
					r.bad("PANIC-class", fn, cons, w.Pos(call.Pos()), "panic with a value that is neither string nor error: not an explicit gomacro diagnostic")
				}
				return true
			})
		}
	}
	return n
}

package main

// C03: Go JSON inhabits the generated TypeScript type.

import (
	"go/ast"
	"go/token"
	"go/types"
	"strings"
)

func init() { register("C03", "other", checkC03) }

func checkC03(w *World, r *Result) {
	r.Explanation = "Decides structural necessary conditions on generator/typescript/types.go: CONS the struct loop is a json consumer (Exported() guard first, keys from JSONName()); FLW-C09a/AGR-C09b/AGR-C09c the key set itself (tag name part, ignore rules, flattening of embedded structs) follows encoding/json (rules shared with C09); REC-SHAPE/AGR-MD the type printer never follows a child the declaration generator does not descend into and each helper declares what it mentions (every mentioned name is declared); EXH-b typeName and generate accept the same node kinds; AGR-C03a every test of Array.Len anywhere in the module is equivalent to Len>=0 or its negation, so the alias a fixed array is printed as is the alias that is declared and all generators agree on what is a slice; AGR-C03b maps and slices are printed with `| null`; AGR-C03t a fixed array is declared as a tuple with Len elements; AGR-C03p each basic kind is printed as the JSON-compatible TypeScript primitive; AGR-C02b the Kind literals of a union are the members' local Go names; AGR-C03e the enum object lists every member; DECL-ID declaration IDs cover what the content reads; GEN-ID every name derived from a go/types Named also covers its type arguments, so two instantiations of one generic type are declared under two names; TPL-4 the constant templates are bracket-balanced. Does not decide: inhabitation for values, enum literal values, TypeScript syntax beyond balance (no TS parser in the sandbox)."
	r.Rules = []string{"CONS", "FLW-C09a", "AGR-C09b", "AGR-C09c", "REC-SHAPE", "AGR-MD", "EXH-b", "AGR-C03a", "AGR-C03b", "AGR-C03t", "AGR-C03p", "AGR-C02b", "AGR-C03e", "DECL-ID", "GEN-ID", "NS-PKG", "CONST-EXACT", "UTF8-SLICE", "TPL-4", "ALIAS-APPEND", "PRINTF", "CACHE-DROP", "MUT-AN", "BYTES-KIND"}
	bytesKindRule(w, r, "generator/typescript", "generator/typescript.typeName")
	mutAnRule(w, r, func(rel string) bool { return rel == "generator/typescript" })
	cacheDropRule(w, r, func(rel string) bool { return rel == "generator/typescript" })
	printfRule(w, r, "generator/typescript")
	aliasAppendRule(w, r, func(rel string) bool { return rel == "analysis" || rel == "generator/typescript" || rel == "generator" })
	sub := &Result{}
	checkJSONConsumers(w, sub, "CONS")
	for _, o := range sub.Obs {
		if strings.HasPrefix(o.Func, "generator/typescript") || o.Verdict == VViolation && strings.Contains(o.How, "not classified") {
			r.add(o)
		}
	}
	// property names: the key set is decided by the analysis (shared with C09)
	checkJSONName(w, r)
	checkExported(w, r)
	checkFlatten(w, r)
	recursionShape(w, r, "REC-SHAPE", "generator/typescript.typeName", "generator/typescript.generate")
	mentionDeclare(w, r, "AGR-MD", "generator/typescript", []string{"generator/typescript.typeName"}, "generator/typescript.generate", axiosSkip)
	siblingAgreement(w, r, "EXH-b", []string{"generator/typescript.generate", "generator/typescript.typeName"})
	n := lenComparisons(w, r, "AGR-C03a", nil)
	r.note("len_comparisons", n)
	if n < 6 {
		Undecided("only %d comparisons of Array.Len found", n)
	}
	checkTSNullable(w, r)
	checkTSPrimitives(w, r)
	kindProvenance(w, r, "AGR-C02b", "generator/typescript.codeForUnion", 1)
	checkTSEnum(w, r)
	declIDRule(w, r, "generator/typescript")
	genIDRule(w, r, "generator/typescript")
	utf8SliceRule(w, r, func(rel string) bool { return rel == "generator/typescript" || rel == "generator" })
	if _, n := constExactRule(w, r, func(rel string) bool { return rel == "generator/typescript" || rel == "generator" }); n < 1 {
		Undecided("CONST-EXACT: fewer enum value renderings than confirmed by hand")
	}
	descentDominatesReturns(w, r, "generator/typescript")
	genIDAccumulation(w, r)
	genIDRule(w, r, "generator")
	if nsPkgRule(w, r, "generator/typescript.typeName") < 1 {
		Undecided("NS-PKG: typescript.typeName no longer derives names through analysis.LocalName")
	}
	runTPLBalance(w, r, "generator/typescript", 2)
	tplBalanceFor(w, r, []string{"generator/typescript.codeForEnum", "generator/typescript.codeForStruct", "generator/typescript.codeForUnion", "generator/typescript.codeForNamed", "generator/typescript.codeForArray", "generator/typescript.typeName"})
}

func checkTSNullable(w *World, r *Result) {
	fi := w.MustFunc("generator/typescript.typeName")
	info := fi.Pkg.TypesInfo
	// per case: the formats returned
	var ts *ast.TypeSwitchStmt
	ast.Inspect(fi.Decl.Body, func(x ast.Node) bool {
		if s, ok := x.(*ast.TypeSwitchStmt); ok && ts == nil {
			ts = s
		}
		return true
	})
	if ts == nil {
		Undecided("typescript.typeName: no type switch")
	}
	for _, cl := range ts.Body.List {
		cc := cl.(*ast.CaseClause)
		if len(cc.List) != 1 {
			continue
		}
		kind := es(cc.List[0])
		if kind != "*an.Map" && kind != "*an.Array" {
			continue
		}
		// returns in this clause that are not inside the fixed-array branch
		ast.Inspect(&ast.BlockStmt{List: cc.Body}, func(x ast.Node) bool {
			ret, ok := x.(*ast.ReturnStmt)
			if !ok || len(ret.Results) != 1 {
				return true
			}
			call := sprintfView(info, ret.Results[0])
			if call == nil {
				return true
			}
			format, vas := verbArgs(info, call)
			fixed := false
			swVar := info.Implicits[cc]
			// the tests of the node's own Len on the way to this return (branches entered and early exits passed by),
			// evaluated for a slice (-1) and for fixed arrays (0, 5): the return belongs to the fixed-array side when it
			// is reached for the latter only
			reach := map[int64]bool{-1: true, 0: true, 5: true}
			lenTested := false
			for _, c := range pathConds(fi.Decl, ret) {
				be, ok := ast.Unparen(c.expr).(*ast.BinaryExpr)
				if c.expr == nil || !ok {
					continue
				}
				sel, isSel := ast.Unparen(be.X).(*ast.SelectorExpr)
				k, isK := constInt(info, be.Y)
				if !isSel || !isK || sel.Sel.Name != "Len" {
					continue
				}
				if id := identOf(sel.X); id == nil || swVar == nil || objOf(info, id) != swVar {
					continue
				}
				lenTested = true
				for L := range reach {
					var v bool
					switch be.Op {
					case token.GEQ:
						v = L >= int64(k)
					case token.GTR:
						v = L > int64(k)
					case token.LSS:
						v = L < int64(k)
					case token.LEQ:
						v = L <= int64(k)
					case token.EQL:
						v = L == int64(k)
					case token.NEQ:
						v = L != int64(k)
					default:
						continue
					}
					if v != c.truth {
						reach[L] = false
					}
				}
			}
			fixed = lenTested && reach[0] && reach[5] && !reach[-1]
			// compositional printing: every hole is the printer applied to a direct child of the node, so that the
			// child's own nullability and aliasing are kept
			for _, va := range vas {
				if va.arg == nil {
					continue
				}
				direct := false
				if c2, ok := ast.Unparen(va.arg).(*ast.CallExpr); ok && calleeOf(info, c2) == fi.Obj && len(c2.Args) == 1 {
					if sel, ok := ast.Unparen(c2.Args[0]).(*ast.SelectorExpr); ok {
						if id := identOf(sel.X); id != nil && swVar != nil && objOf(info, id) == swVar {
							direct = true
						}
					}
				}
				if sel, ok := ast.Unparen(va.arg).(*ast.SelectorExpr); ok && sel.Sel.Name == "Len" {
					direct = true // the length in the alias name
				}
				if !direct {
					r.bad("AGR-C03b", fi.Name, "case "+kind+": hole "+es(va.arg), w.Pos(ret.Pos()), "the type of a "+strings.TrimPrefix(kind, "*an.")+" is not built from typeName of its direct children: a level is skipped, so what that level prints (`| null` for a nested slice or map, the alias of a fixed array) is lost and the documents Go emits for it do not inhabit the type")
				}
			}
			cons := "case " + kind + ": " + strings.TrimSpace(format)
			if fixed {
				r.cond(strings.HasPrefix(format, "Ar%d_"), "AGR-C03t", fi.Name, cons, w.Pos(ret.Pos()), "a fixed array is referred to through its alias Ar<Len>_<Elem>", "fixed arrays are not referred to through the Ar<Len>_<Elem> alias that codeForArray declares")
				return true
			}
			r.cond(strings.Contains(format, "| null"), "AGR-C03b", fi.Name, cons, w.Pos(ret.Pos()), "nil slices and maps are encoded as null by encoding/json: the printed type admits null", "a slice or map type is printed without `| null`: the document Go emits for a nil value does not inhabit the type")
			return true
		})
	}
	// tuple declaration: export type <alias> = [<elem>, × Len]
	ca := w.MustFunc("generator/typescript.codeForArray")
	cinfo := ca.Pkg.TypesInfo
	tuple := false
	ast.Inspect(ca.Decl.Body, func(x ast.Node) bool {
		call, ok := x.(*ast.CallExpr)
		if !ok || fullName(calleeOf(cinfo, call)) != "strings.Repeat" || len(call.Args) != 2 {
			return true
		}
		if strings.HasSuffix(es(call.Args[1]), ".Len") && strings.Contains(es(call.Args[0]), "typeName(") && strings.Contains(es(call.Args[0]), ".Elem") {
			tuple = true
		}
		return true
	})
	r.cond(tuple, "AGR-C03t", ca.Name, "tuple of Len elements", fnPos(w, ca), "the alias is declared as [typeName(Elem), × Len]", "the tuple alias does not repeat the element type Len times")
	// the alias declared is the one typeName prints: Content uses typeName(ty)
	alias := false
	ast.Inspect(ca.Decl.Body, func(x ast.Node) bool {
		call := sprintfView(cinfo, x)
		if call == nil {
			return true
		}
		format, vas := verbArgs(cinfo, call)
		if strings.HasPrefix(format, "export type %s = [") && len(vas) > 0 && vas[0].arg != nil && strings.HasPrefix(es(vas[0].arg), "typeName(") {
			alias = true
		}
		return true
	})
	r.cond(alias, "AGR-C03t", ca.Name, "declared alias name = typeName(array)", fnPos(w, ca), "export type <typeName(ty)> = […]", "the declared alias is not named by typeName of the array itself")
}

func checkTSPrimitives(w *World, r *Result) {
	fi := w.MustFunc("generator/typescript.typeName")
	_ = fi.Pkg.TypesInfo
	want := map[string][]string{"BKString": {"string"}, "BKInt": {"Int", "number"}, "BKFloat": {"number"}, "BKBool": {"boolean"}}
	n := 0
	d := constDispatchOf(w, fi, "analysis.BasicKind")
	var ks []string
	for k := range d.results {
		ks = append(ks, k)
	}
	sortStrings(ks)
	for _, k := range ks {
		for _, got := range uniqStr(d.results[k]) {
			n++
			r.cond(containsStr(want[k], got), "AGR-C03p", fi.Name, k+" -> "+got, w.Pos(d.pos), "the TypeScript primitive of the JSON value Go emits for this kind", "a Go "+k+" value is encoded as a JSON "+strings.Join(want[k], "/")+", but the printed type is "+got)
		}
	}
	if n < 4 {
		Undecided("typescript.typeName: only %d basic kinds mapped", n)
	}
	// Int brand is a number
	p := w.ByRel["generator/typescript"]
	found := false
	for _, f := range p.Syntax {
		ast.Inspect(f, func(x ast.Node) bool {
			if lit, ok := x.(*ast.BasicLit); ok && strings.Contains(lit.Value, "export type Int = number") {
				found = true
			}
			return true
		})
	}
	r.cond(found, "AGR-C03p", "generator/typescript.<package-level>", "Int brand = number & …", "generator/typescript/types.go", "`export type Int = number & {…}`", "the Int brand is no longer a number")
	_ = types.Typ
}

func checkTSEnum(w *World, r *Result) {
	fi := w.MustFunc("generator/typescript.codeForEnum")
	info := fi.Pkg.TypesInfo
	// the loop(s) over the members: every list built there must have one entry per member, and one of them the
	// `name : value` entries
	var loops []*ast.RangeStmt
	ast.Inspect(fi.Decl.Body, func(x ast.Node) bool {
		if rs, ok := x.(*ast.RangeStmt); ok && strings.HasSuffix(es(rs.X), ".Members") {
			loops = append(loops, rs)
		}
		return true
	})
	if len(loops) == 0 {
		Undecided("typescript.codeForEnum: no loop over Members")
	}
	napps := 0
	uncond := true
	var guards []string
	okPair := false
	for _, loop := range loops {
		v := info.Defs[identOf(loop.Value)]
		apps := accumStmts(info, fi.Decl, loop)
		napps += len(apps)
		for _, a := range apps {
			if cs := reachConds(info, fi.Decl, loop, a.stmt, map[types.Object]string{v: "$m"}); len(cs) != 0 {
				uncond = false
				guards = append(guards, cs...)
			}
		}
		// value printed is the constant's value, key its name
		ast.Inspect(loop.Body, func(x ast.Node) bool {
			call := sprintfView(info, x)
			if call == nil {
				return true
			}
			format, vas := verbArgs(info, call)
			if strings.HasPrefix(format, "%s : %s") && len(vas) >= 2 && vas[1].arg != nil && rendersConstVal(info, vas[1].arg, v) {
				okPair = true
			}
			return true
		})
	}
	r.cond(uncond && napps >= 1, "AGR-C03e", fi.Name, "enum object lists every member", w.Pos(loops[0].Pos()), "one entry per member (exported or not), unconditionally: the literal set is the enum's value set", "members are filtered ("+strings.Join(guards, ", ")+"): a value Go can emit is not in the TypeScript literal set")
	r.cond(okPair, "AGR-C03e", fi.Name, "entry = <name> : <constant value>", w.Pos(loops[0].Pos()), "the value printed is the Val() of the member's constant (how it is printed is decided by CONST-EXACT)", "enum entries are not `name : value of the constant`")
}

// rendersConstVal: e is a call (a method of constant.Value, or a printer taking a constant.Value) applied to
// <member>.Const.Val() with <member> the given loop variable.
func rendersConstVal(info *types.Info, e ast.Expr, member types.Object) bool {
	call, ok := ast.Unparen(e).(*ast.CallExpr)
	if !ok {
		return false
	}
	found := false
	ast.Inspect(call, func(x ast.Node) bool {
		c, ok := x.(*ast.CallExpr)
		if !ok {
			return true
		}
		if fn := calleeOf(info, c); fn != nil && fn.FullName() == "(*go/types.Const).Val" {
			if sel, ok := c.Fun.(*ast.SelectorExpr); ok {
				if root := rootIdent(sel.X); root != nil && objOf(info, root) == member {
					found = true
				}
			}
		}
		return true
	})
	return found
}

package main

// C05: generated CRUD statements agree with the schema.

import (
	"fmt"
	"go/ast"
	"go/constant"
	"go/parser"
	"go/token"
	"go/types"
	"regexp"
	"sort"
	"strings"
)

func init() { register("C05", "other", checkC05) }

func checkC05(w *World, r *Result) {
	r.Explanation = "Decides the structural clauses the property names: AGR-C05a in newColumnsCode the per-column lists fall into two groups (all columns / without the primary key) and within a group every list grows once per iteration in the same block (equal lengths, aligned positions); guards are skipped first; AGR-C05b every placeholder appended to a list X is `$len(X)+1` (numbered 1..n without gap); AGR-C05e the index compared with Table.Primary() is the range index over ta.Columns itself (the slice Primary() indexes); columnsCount is the length of the full group; TPL-C05c in every statement of the CRUD templates the column list, the placeholder list and the Go argument list come from the same group, SELECT/RETURNING lists are the full group (what the scan destinations expect), the UPDATE id placeholder is columnsCount and its argument follows the values, and statements with literal placeholders carry exactly $1..$n and n arguments; helper comparisons number i+1 over the same columns their argument names come from; AGR-C05d every table position is filled by SQLTableName and every column position by the Go field name (lower-cased in CRUD), never by the JSON name; AGR-C08f/AGR-C08t foreign-key detection shared with the DDL (rules shared with C08); TPL-1 the templates parse as Go. Does not decide: that statements execute without SQL error or the map-model behaviour over histories (needs a database)."
	r.Rules = []string{"AGR-C05a", "AGR-C05b", "AGR-C05e", "TPL-C05c", "AGR-C05d", "AGR-C08f", "AGR-C08t", "AGR-C08b", "AGR-C05k", "TPL-C05p", "TPL-C05s", "RE-C16", "TPL-1", "ALIAS-APPEND", "PRINTF", "MUT-AN"}
	mutAnRule(w, r, func(rel string) bool { return rel == "generator/go/sqlcrud" })
	printfRule(w, r, "generator/go/sqlcrud")
	aliasAppendRule(w, r, func(rel string) bool {
		return rel == "analysis/sql" || rel == "generator/go/sqlcrud" || rel == "generator"
	})
	checkColumnsCode(w, r)
	checkStatements(w, r)
	n := checkTableNaming(w, r, "generator/go/sqlcrud")
	r.note("table_positions", n)
	if n < 10 {
		Undecided("sqlcrud: only %d table positions recognised in the templates", n)
	}
	checkColumnNaming(w, r)
	sub := &Result{}
	checkForeignKeys(w, sub)
	checkTableIDThreshold(w, sub)
	checkPrimaryAgreement(w, sub)
	for _, o := range sub.Obs {
		r.add(o)
	}
	// columns the CRUD statements leave out (guards) rely on the DEFAULT the DDL gives each of them: the constraint
	// families are produced for every column (rule shared with C08)
	shared(r, func(o Ob) bool { return o.Rule == "AGR-C08b" }, func(sub *Result) { checkConstraintFamilies(w, sub) })
	checkCompositeLockstep(w, r)
	checkScanLoops(w, r)
	// the table-name replacer used for custom queries (rule shared with C16)
	subRe := &Result{}
	checkRegexFacts(w, subRe)
	// custom queries are generated statements too: their placeholders must be numbered like the arguments of the
	// generated function (rule shared with C16)
	checkCustomQuery(w, subRe)
	for _, o := range subRe.Obs {
		r.add(o)
	}
	if checkAndJoinedFragments(w, r, "generator/go/sqlcrud") < 2 {
		Undecided("TPL-C05p: fewer AND-joined fragments than confirmed by hand")
	}
	runTPLGo(w, r, "generator/go/sqlcrud", 2)
}

func checkColumnsCode(w *World, r *Result) {
	fi := w.MustFunc("generator/go/sqlcrud.newColumnsCode")
	info := fi.Pkg.TypesInfo
	// the column loop, or the column loops when the lists are built in several passes over the same columns
	var fl *fieldLoop
	var fls []*fieldLoop
	for _, l := range fieldLoops(w) {
		if l.fn != fi || l.kind != "Column" {
			continue
		}
		// only the loops that build the per-column text lists (a loop that merely filters the columns into another
		// slice is not one of them; what the list loops then range over is AGR-C05e's question)
		textLists := false
		for _, a := range appendStmts(info, l.rs.Body, "") {
			if t := info.TypeOf(a.Lhs[0]); t != nil && t.String() == "[]string" {
				textLists = true
			}
		}
		if !textLists {
			continue
		}
		if fl == nil {
			fl = l
		}
		fls = append(fls, l)
	}
	for _, l := range fls {
		if l.over != fl.over {
			fl = l // the later loop decides (it holds the primary test); AGR-C05e compares its collection with ta.Columns
		}
	}
	if fl == nil {
		Undecided("newColumnsCode: no loop over columns")
	}
	pos := w.Pos(fl.rs.Pos())
	// every list of the loop is reached under a common condition (the guard skip) and, for the no-primary group, one
	// more; conditions are canonical (reachConds), so `if c {continue}; append` and `if !c {append}` read alike
	type app struct {
		target string
		conds  []string
		a      *ast.AssignStmt
	}
	var apps []app
	common := map[string]int{}
	for _, l := range fls {
		for _, a := range appendStmts(info, l.rs.Body, "") {
			cs := reachConds(info, fi.Decl, l.rs, a, l.subst)
			for _, c := range cs {
				common[c]++
			}
			apps = append(apps, app{es(a.Lhs[0]), cs, a})
		}
	}
	var guards []string
	for c, n := range common {
		if n == len(apps) {
			guards = append(guards, c)
		}
	}
	sort.Strings(guards)
	for i := range apps {
		var rest []string
		for _, c := range apps[i].conds {
			if common[c] != len(apps) {
				rest = append(rest, c)
			}
		}
		apps[i].conds = rest
	}
	r.cond(len(guards) == 1 && strings.HasPrefix(guards[0], "!(") && strings.Contains(guards[0], "IsSQLGuard()"), "AGR-C05a", fi.Name, "guards are excluded from CRUD", pos, "every list grows only for the columns that are not guards, and for all of them", "the lists of the column loop are built under {"+strings.Join(guards, ", ")+"}, not exactly 'not a guard': guard columns enter the statements or real columns are dropped")
	full, nop := map[string]int{}, map[string]int{}
	other := []string{}
	var nopCond string
	for _, a := range apps {
		switch len(a.conds) {
		case 0:
			full[a.target]++
		case 1:
			nop[a.target]++
			nopCond = a.conds[0]
		default:
			other = append(other, a.target)
		}
	}
	good := len(other) == 0 && len(full) >= 4 && len(nop) >= 3
	for _, n := range full {
		if n != 1 {
			good = false
		}
	}
	for _, n := range nop {
		if n != 1 {
			good = false
		}
	}
	keys := func(m map[string]int) string {
		var k []string
		for x := range m {
			k = append(k, x)
		}
		sort.Strings(k)
		return strings.Join(k, ",")
	}
	r.cond(good, "AGR-C05a", fi.Name, "two lock-step groups of lists", pos, "all-columns group {"+keys(full)+"} and no-primary group {"+keys(nop)+"}: each list grows once per kept column (resp. once per non-primary column)", "the per-column lists do not form two lock-step groups (irregular: "+strings.Join(other, ",")+"): column names, placeholders and values can differ in length or order")
	// AGR-C05e: the no-primary condition is `$i != primaryIndex` with primaryIndex := ta.Primary(), ranging ta.Columns
	primOK := false
	if m := regexp.MustCompile(`^!\(\$i == (\w+)\)$`).FindStringSubmatch(nopCond); m != nil {
		// variable defined from X.Primary(), loop over X.Columns
		ast.Inspect(fi.Decl.Body, func(x ast.Node) bool {
			if as, ok := x.(*ast.AssignStmt); ok && len(as.Lhs) == 1 && es(as.Lhs[0]) == m[1] && len(as.Rhs) == 1 {
				if call, ok := as.Rhs[0].(*ast.CallExpr); ok && strings.HasSuffix(fullName(calleeOf(info, call)), "sql.Table).Primary") {
					recv := es(call.Fun.(*ast.SelectorExpr).X)
					if fl.over == recv+".Columns" {
						primOK = true
					}
				}
			}
			return true
		})
		// or the value is a parameter that every call site fills with <table>.Primary() for the very table it passes
		if !primOK {
			for _, pobj := range paramObjs(fi) {
				if pobj.Name() != m[1] {
					continue
				}
				// the table parameter the loop ranges over
				tableParam := strings.TrimSuffix(fl.over, ".Columns")
				ti := -1
				for k, po := range paramObjs(fi) {
					if po.Name() == tableParam {
						ti = k
					}
				}
				pi := paramIndex(fi, pobj)
				sites, all := 0, ti >= 0
				for _, caller := range sortedFuncs(w) {
					if caller.Decl.Body == nil {
						continue
					}
					ci := caller.Pkg.TypesInfo
					ast.Inspect(caller.Decl.Body, func(x ast.Node) bool {
						call, ok := x.(*ast.CallExpr)
						if !ok || calleeOf(ci, call) != fi.Obj || pi >= len(call.Args) || ti >= len(call.Args) || ti < 0 {
							return true
						}
						sites++
						arg := call.Args[pi]
						if id := identOf(arg); id != nil {
							if dd := defsIn(ci, caller.Decl, objOf(ci, id)); len(dd) == 1 {
								arg = dd[0]
							}
						}
						pc, ok := ast.Unparen(arg).(*ast.CallExpr)
						if !ok || !strings.HasSuffix(fullName(calleeOf(ci, pc)), "sql.Table).Primary") || es(pc.Fun.(*ast.SelectorExpr).X) != es(call.Args[ti]) {
							all = false
						}
						return true
					})
				}
				if sites > 0 && all {
					primOK = true
				}
			}
		}
	}
	r.cond(primOK, "AGR-C05e", fi.Name, "primary test compares the index into ta.Columns", pos, "`i != primaryIndex` with i ranging over ta.Columns and primaryIndex = ta.Primary()", "the index compared with Table.Primary() (condition `"+nopCond+"`) is not the range index over "+fl.over+" == ta.Columns: with a column filtered or reordered before the loop the wrong column is treated as the primary key")
	// AGR-C05b: placeholders
	np := 0
	for _, a := range apps {
		call := a.a.Rhs[0].(*ast.CallExpr)
		sp := sprintfView(info, call.Args[1])
		if sp == nil {
			continue
		}
		format, vas := verbArgs(info, sp)
		if format != "$%d" || len(vas) != 1 {
			continue
		}
		np++
		goodNum := false
		if be, ok := ast.Unparen(vas[0].arg).(*ast.BinaryExpr); ok && be.Op == token.ADD {
			if l, ok := be.X.(*ast.CallExpr); ok && isBuiltinCall(info, l, "len") && es(l.Args[0]) == a.target {
				if k, ok := constInt(info, be.Y); ok && k == 1 {
					goodNum = true
				}
			}
		}
		r.cond(goodNum, "AGR-C05b", fi.Name, "placeholder appended to "+a.target, w.Pos(a.a.Pos()), "`$%d` with len("+a.target+")+1: the list reads $1, $2, … without gap", "the placeholder appended to "+a.target+" is not numbered len("+a.target+")+1: numbering starts at 0, skips or repeats")
	}
	if np < 2 {
		Undecided("newColumnsCode: only %d placeholder lists recognised", np)
	}
	// columnsCount = len(full-group list)
	ccOK := false
	ast.Inspect(fi.Decl.Body, func(x ast.Node) bool {
		if kv, ok := x.(*ast.KeyValueExpr); ok && es(kv.Key) == "columnsCount" {
			if l, ok := kv.Value.(*ast.CallExpr); ok && isBuiltinCall(info, l, "len") && full[es(l.Args[0])] == 1 {
				ccOK = true
			}
		}
		return true
	})
	r.cond(ccOK, "AGR-C05b", fi.Name, "columnsCount = size of the all-columns group", pos, "len of a list of the all-columns group: with exactly one primary column it is (number of SET placeholders)+1, the number of the id placeholder of UPDATE", "columnsCount is not the length of an all-columns list: the id placeholder of UPDATE collides with or skips a value placeholder")
	// struct literal: each exported string is the join of the list of the same group
	joinOK := true
	ast.Inspect(fi.Decl.Body, func(x ast.Node) bool {
		kv, ok := x.(*ast.KeyValueExpr)
		if !ok {
			return true
		}
		call, ok := kv.Value.(*ast.CallExpr)
		if !ok || fullName(calleeOf(info, call)) != "strings.Join" {
			return true
		}
		field := es(kv.Key)
		list := es(call.Args[0])
		isNoPrim := strings.HasSuffix(field, "NoPrimary")
		if isNoPrim != (nop[list] == 1) || (!isNoPrim && full[list] != 1) {
			joinOK = false
			r.bad("AGR-C05a", fi.Name, "field "+field+" = Join("+list+")", w.Pos(kv.Pos()), "the columnsCode field "+field+" is joined from "+list+", a list of the other group")
		}
		return true
	})
	if joinOK {
		r.ok("AGR-C05a", fi.Name, "columnsCode fields joined from lists of their own group", pos, "…NoPrimary fields from the no-primary lists, the others from the all-columns lists", true)
	}
}

var ccFields = map[string]string{
	"goScanFields": "full", "goValueFields": "full", "sqlQuotedColumnNames": "full", "sqlColumnNames": "full", "sqlPlaceholders": "full",
	"goValueFieldsNoPrimary": "nop", "sqlColumnNamesNoPrimary": "nop", "sqlPlaceholdersNoPrimary": "nop",
}

// groupOf resolves an expression to the columnsCode group it carries ("" if none).
func groupOf(fi *FuncInfo, e ast.Expr, depth int) string {
	info := fi.Pkg.TypesInfo
	e = ast.Unparen(e)
	if sel, ok := e.(*ast.SelectorExpr); ok {
		if g, ok := ccFields[sel.Sel.Name]; ok {
			return g
		}
	}
	if id := identOf(e); id != nil && depth < 3 {
		g := ""
		for _, d := range defsIn(info, fi.Decl, objOf(info, id)) {
			ast.Inspect(d, func(n ast.Node) bool {
				if sel, ok := n.(*ast.SelectorExpr); ok {
					if gg, ok := ccFields[sel.Sel.Name]; ok {
						g = gg
					}
				}
				return true
			})
		}
		return g
	}
	return ""
}

// checkStatements (TPL-C05c)
func checkStatements(w *World, r *Result) {
	callRe := regexp.MustCompile(`\b(tx|db|stmt|rs)\.(QueryRow|Query|Exec)\(`)
	litPH := regexp.MustCompile(`\$(\d+)`)
	nstmt := 0
	for _, q := range []string{"generator/go/sqlcrud.(context).generatePrimaryTable", "generator/go/sqlcrud.(context).generateLinkTable", "generator/go/sqlcrud.(context).generateSelectByUniques", "generator/go/sqlcrud.(context).generateSelectByKeys"} {
		fi := w.MustFunc(q)
		info := fi.Pkg.TypesInfo
		ast.Inspect(fi.Decl.Body, func(x ast.Node) bool {
			call := sprintfView(info, x)
			if call == nil {
				return true
			}
			format, vas := verbArgs(info, call)
			if format == "" {
				return true
			}
			holeAt := func(off int) *verbArg {
				for i := range vas {
					if vas[i].start == off {
						return &vas[i]
					}
				}
				return nil
			}
			for _, m := range callRe.FindAllStringIndex(format, -1) {
				// scan the argument text to the matching ')'
				i := m[1]
				depth := 1
				var parts []string
				start := i
				inStr := byte(0)
				for i < len(format) && depth > 0 {
					c := format[i]
					switch {
					case inStr != 0:
						if c == inStr {
							inStr = 0
						}
					case c == '"' || c == '`':
						inStr = c
					case c == '(':
						depth++
					case c == ')':
						depth--
						if depth == 0 {
							parts = append(parts, format[start:i])
						}
					case c == ',' && depth == 1:
						parts = append(parts, format[start:i])
						start = i + 1
					}
					i++
				}
				if len(parts) == 0 {
					continue
				}
				argStart := m[1]
				sqlText := parts[0]
				sqlOff := argStart
				goArgs := parts[1:]
				if len(goArgs) > 0 && strings.TrimSpace(goArgs[len(goArgs)-1]) == "" {
					goArgs = goArgs[:len(goArgs)-1]
				}
				if strings.TrimSpace(sqlText) == "" {
					continue // stmt.Exec() flush
				}
				nstmt++
				// holes inside the SQL text and inside the Go args
				type hole struct {
					va   *verbArg
					off  int
					text string
				}
				var sqlHoles []hole
				for _, hm := range verbRe.FindAllStringIndex(sqlText, -1) {
					if va := holeAt(sqlOff + hm[0]); va != nil {
						sqlHoles = append(sqlHoles, hole{va, hm[0], sqlText[hm[0]:hm[1]]})
					}
				}
				// offsets of the go args
				var argHoles [][]hole
				off := argStart + len(sqlText) + 1
				for _, ga := range goArgs {
					var hs []hole
					for _, hm := range verbRe.FindAllStringIndex(ga, -1) {
						if va := holeAt(off + hm[0]); va != nil {
							hs = append(hs, hole{va, hm[0], ga[hm[0]:hm[1]]})
						}
					}
					argHoles = append(argHoles, hs)
					off += len(ga) + 1
				}
				head := strings.Join(strings.Fields(strings.Trim(sqlText, "`\" \n\t")), " ")
				if len(head) > 60 {
					head = head[:60] + "…"
				}
				cons := "statement: " + head
				pos := w.Pos(call.Pos())
				// classify SQL holes
				colGroup, phGroup, listGroups := "", "", []string{}
				idPH := false
				cmpHole := false
				for _, h := range sqlHoles {
					if h.va.arg == nil {
						continue
					}
					g := groupOf(fi, h.va.arg, 0)
					before := strings.ToUpper(sqlText[:h.off])
					before = strings.TrimRight(before, " \n\t(")
					switch {
					case strings.HasSuffix(before, "VALUES") || strings.HasSuffix(before, "="):
						if g != "" {
							phGroup = g
						}
					case strings.HasSuffix(before, "SELECT") || strings.HasSuffix(before, "RETURNING"):
						if g != "" {
							listGroups = append(listGroups, g)
						}
					case g != "":
						colGroup = g
					}
					if strings.HasSuffix(h.text, "d") && strings.HasSuffix(sqlText[:h.off], "$") {
						idPH = strings.HasSuffix(es(h.va.arg), ".columnsCount")
						if !idPH {
							r.bad("TPL-C05c", fi.Name, cons, pos, "the numbered placeholder `$%d` is filled by "+es(h.va.arg)+", not by columnsCount")
						}
					}
					// the hole is (a local bound to) the result of columnsComparison
					{
						exprs := []ast.Expr{h.va.arg}
						if id := identOf(h.va.arg); id != nil {
							exprs = append(exprs, defsIn(info, fi.Decl, objOf(info, id))...)
						}
						for _, e := range exprs {
							for _, f := range callsIn(info, e) {
								if strings.HasSuffix(f, ".columnsComparison") {
									cmpHole = true
								}
							}
						}
					}
					// WHERE <joined comparisons> with arguments <joined accessors>: lists built in lock-step in one loop
					if j, ok := ast.Unparen(h.va.arg).(*ast.CallExpr); ok && fullName(calleeOf(info, j)) == "strings.Join" {
						for _, hs := range argHoles {
							for _, ah := range hs {
								if aj, ok := ast.Unparen(ah.va.arg).(*ast.CallExpr); ok && fullName(calleeOf(info, aj)) == "strings.Join" {
									if listsInLockstep(fi, es(j.Args[0]), es(aj.Args[0])) {
										cmpHole = true
									}
								}
							}
						}
					}
				}
				// Go args groups
				argGroup := ""
				for _, hs := range argHoles {
					for _, h := range hs {
						if h.va.arg != nil {
							if g := groupOf(fi, h.va.arg, 0); g != "" {
								argGroup = g
							}
						}
					}
				}
				good := true
				why := ""
				for _, g := range listGroups {
					if g != "full" {
						good = false
						why = "a SELECT/RETURNING list is not the full column list that the scan destinations (goScanFields) expect"
					}
				}
				if colGroup != "" && phGroup != "" {
					if colGroup != phGroup {
						good = false
						why = "column list (" + colGroup + " group) and placeholder list (" + phGroup + " group) come from different groups"
					}
					if argGroup != phGroup {
						good = false
						why = "placeholder list (" + phGroup + " group) and Go arguments (" + argGroup + " group) come from different groups"
					}
				}
				if colGroup == "" && phGroup == "" && !cmpHole {
					// literal placeholders: $1..$n and n arguments
					nums := map[int]bool{}
					max := 0
					for _, mm := range litPH.FindAllStringSubmatch(sqlText, -1) {
						var k int
						fmtSscan(mm[1], &k)
						nums[k] = true
						if k > max {
							max = k
						}
					}
					if len(nums) != max {
						good = false
						why = fmt.Sprintf("literal placeholders are not exactly $1..$%d", max)
					}
					if len(goArgs) != max {
						good = false
						why = fmt.Sprintf("%d literal placeholder(s) but %d Go argument(s)", max, len(goArgs))
					}
				}
				if good {
					detail := "literal placeholders $1..$n with n arguments"
					if colGroup != "" {
						detail = "columns, placeholders and Go arguments all from the '" + colGroup + "' group"
						if idPH {
							detail += "; id placeholder = columnsCount"
						}
					} else if cmpHole {
						detail = "WHERE clause and arguments built from the same column list (columnsComparison / columsVarDecls)"
					}
					if len(listGroups) > 0 {
						detail += "; selected/returned columns = full group"
					}
					r.ok("TPL-C05c", fi.Name, cons, pos, detail, true)
				} else {
					r.bad("TPL-C05c", fi.Name, cons, pos, why)
				}
			}
			return true
		})
	}
	r.note("sql_statements", nstmt)
	if nstmt < 15 {
		Undecided("sqlcrud: only %d SQL statements recognised in the templates", nstmt)
	}
	// helper pair: numbering i+1 and names over the same slice, both called with the same columns
	cc := w.MustFunc("generator/go/sqlcrud.columnsComparison")
	cinfo := cc.Pkg.TypesInfo
	numOK := false
	ast.Inspect(cc.Decl.Body, func(x ast.Node) bool {
		rs, ok := x.(*ast.RangeStmt)
		if !ok || identOf(rs.Key) == nil {
			return true
		}
		ast.Inspect(rs.Body, func(y ast.Node) bool {
			call := sprintfView(cinfo, y)
			if call == nil {
				return true
			}
			format, vas := verbArgs(cinfo, call)
			if strings.Contains(format, "= $%d") && len(vas) == 2 {
				if be, ok := ast.Unparen(vas[1].arg).(*ast.BinaryExpr); ok && be.Op == token.ADD && identOf(be.X) != nil && identOf(be.X).Name == identOf(rs.Key).Name {
					if k, ok := constInt(cinfo, be.Y); ok && k == 1 {
						numOK = true
					}
				}
			}
			return true
		})
		return true
	})
	if !numOK {
		// the comparison may be a callback handed to a helper that calls it with the index of its own pass over the
		// columns: `joinColumns(cols, sep, func(i int, c Column) string { … i+1 … })`
		ast.Inspect(cc.Decl.Body, func(x ast.Node) bool {
			hcall, ok := x.(*ast.CallExpr)
			if !ok {
				return true
			}
			h := w.Funcs[calleeOf(cinfo, hcall)]
			if h == nil || h.Decl.Body == nil || h.Pkg != cc.Pkg {
				return true
			}
			for j, a := range hcall.Args {
				lit, ok := ast.Unparen(a).(*ast.FuncLit)
				if !ok {
					continue
				}
				// which literal parameter is incremented in the `= $%d` hole
				k := -1
				ast.Inspect(lit.Body, func(y ast.Node) bool {
					call := sprintfView(cinfo, y)
					if call == nil {
						return true
					}
					format, vas := verbArgs(cinfo, call)
					if strings.Contains(format, "= $%d") && len(vas) == 2 {
						if be, ok := ast.Unparen(vas[1].arg).(*ast.BinaryExpr); ok && be.Op == token.ADD && identOf(be.X) != nil {
							if one, ok := constInt(cinfo, be.Y); ok && one == 1 {
								n := 0
								for _, f := range lit.Type.Params.List {
									for _, nm := range f.Names {
										if cinfo.Defs[nm] == objOf(cinfo, identOf(be.X)) {
											k = n
										}
										n++
									}
								}
							}
						}
					}
					return true
				})
				if k < 0 {
					continue
				}
				// in the helper: the callback parameter is called with, at position k, the key of a range over a
				// slice parameter
				hinfo := h.Pkg.TypesInfo
				var cb types.Object
				n := 0
				for _, f := range h.Decl.Type.Params.List {
					for _, nm := range f.Names {
						if n == j {
							cb = hinfo.Defs[nm]
						}
						n++
					}
				}
				ast.Inspect(h.Decl.Body, func(y ast.Node) bool {
					rs, ok := y.(*ast.RangeStmt)
					if !ok || identOf(rs.Key) == nil || identOf(rs.X) == nil || paramIndex(h, objOf(hinfo, identOf(rs.X))) < 0 {
						return true
					}
					ast.Inspect(rs.Body, func(z ast.Node) bool {
						c2, ok := z.(*ast.CallExpr)
						if !ok || identOf(c2.Fun) == nil || objOf(hinfo, identOf(c2.Fun)) != cb || k >= len(c2.Args) {
							return true
						}
						if id := identOf(c2.Args[k]); id != nil && objOf(hinfo, id) == hinfo.Defs[identOf(rs.Key)] {
							numOK = true
						}
						return true
					})
					return true
				})
			}
			return true
		})
	}
	r.cond(numOK, "TPL-C05c", cc.Name, "comparison i uses placeholder $i+1", fnPos(w, cc), "`<col> = $%d` with the range index + 1", "the comparisons built for unique/select keys are not numbered index+1")
	for _, q := range []string{"generator/go/sqlcrud.(context).generateSelectByUniques", "generator/go/sqlcrud.(context).generateSelectByKeys"} {
		fi := w.MustFunc(q)
		info := fi.Pkg.TypesInfo
		args := map[string]string{}
		// the comparison builder is cc; the argument-list builder is recognised by its role (a function of the
		// package taking the same []sql.Column and returning the names and the declarations, two strings); both may
		// be called from a helper the two generators share
		for _, cf := range calleeClosure(w, fi, 1) {
			ast.Inspect(cf.Decl.Body, func(x ast.Node) bool {
				call, ok := x.(*ast.CallExpr)
				if !ok || len(call.Args) != 1 {
					return true
				}
				fn := calleeOf(info, call)
				if fn == nil || w.Funcs[fn] == nil || w.Funcs[fn].Pkg != fi.Pkg {
					return true
				}
				if t := info.TypeOf(call.Args[0]); t == nil || !strings.HasSuffix(t.String(), "sql.Column") || !strings.HasPrefix(t.String(), "[]") {
					return true
				}
				sig := fn.Type().(*types.Signature)
				switch {
				case fn == cc.Obj:
					args["cmp"] = es(call.Args[0])
				case sig.Results().Len() == 2 && sig.Results().At(0).Type().String() == "string" && sig.Results().At(1).Type().String() == "string":
					args["vars"] = es(call.Args[0])
				case sig.Results().Len() == 1 && allStringFields(sig.Results().At(0).Type()) >= 2:
					args["vars"] = es(call.Args[0]) // the two texts travel in a small struct
				}
				return true
			})
		}
		r.cond(args["cmp"] != "" && args["cmp"] == args["vars"], "TPL-C05c", fi.Name, "WHERE clause and argument names from the same columns", fnPos(w, fi), "columnsComparison("+args["cmp"]+") and columsVarDecls("+args["vars"]+")", "the WHERE comparisons and the function's arguments are built from different column lists")
	}
	_ = constant.MakeBool
	_ = types.Typ
}

// listsInLockstep: both lists are appended once per iteration of the same range loop, and the placeholders of
// the first are numbered with the loop index + 1.
func listsInLockstep(fi *FuncInfo, a, b string) bool {
	info := fi.Pkg.TypesInfo
	res := false
	ast.Inspect(fi.Decl.Body, func(x ast.Node) bool {
		rs, ok := x.(*ast.RangeStmt)
		if !ok || identOf(rs.Key) == nil {
			return true
		}
		na, nb, numbered := 0, 0, true
		for _, ac := range accumStmts(info, fi.Decl, rs) {
			if len(ac.values) != 1 {
				continue
			}
			switch ac.target {
			case a:
				na++
				if sp, ok := ast.Unparen(ac.values[0]).(*ast.CallExpr); ok {
					_, vas := verbArgs(info, sp)
					for _, va := range vas {
						if strings.HasSuffix(va.verb, "d") && va.arg != nil {
							be, ok := ast.Unparen(va.arg).(*ast.BinaryExpr)
							if !ok || be.Op != token.ADD || identOf(be.X) == nil || identOf(be.X).Name != identOf(rs.Key).Name {
								numbered = false
							} else if k, ok := constInt(info, be.Y); !ok || k != 1 {
								numbered = false
							}
						}
					}
				}
			case b:
				nb++
			}
		}
		// a may be appended in both arms of an if/else (nullable or not): count arms as one
		if (na == 1 || na == 2) && nb == 1 && numbered {
			res = true
		}
		return true
	})
	return res
}

// checkColumnNaming: column positions are filled from the Go field name, never from the JSON name.
func checkColumnNaming(w *World, r *Result) {
	// the naming helper, when the package has one (it may be inlined at its call sites: the package-wide rule below,
	// no JSON name anywhere in the CRUD generator, is what carries the property then)
	if sc := w.Func("generator/go/sqlcrud.sqlColumnName"); sc != nil {
		okSC := false
		ast.Inspect(sc.Decl.Body, func(x ast.Node) bool {
			if ret, ok := x.(*ast.ReturnStmt); ok && len(ret.Results) == 1 {
				s := es(ret.Results[0])
				okSC = strings.Contains(s, ".Field.Name()") && !strings.Contains(s, "JSONName")
			}
			return true
		})
		r.cond(okSC, "AGR-C05d", sc.Name, "CRUD column name = lower-cased Go field name", fnPos(w, sc), "strings.ToLower(fi.Field.Name()): equal to the DDL's column (the Go field name) under SQL identifier folding", "the CRUD column name is not derived from the Go field name")
	}
	bad := 0
	for _, fi := range sortedFuncs(w) {
		rel := w.Rel(fi.Obj.Pkg())
		if rel != "generator/go/sqlcrud" {
			continue
		}
		ast.Inspect(fi.Decl.Body, func(x ast.Node) bool {
			if call, ok := x.(*ast.CallExpr); ok && strings.HasSuffix(fullName(calleeOf(fi.Pkg.TypesInfo, call)), "StructField).JSONName") {
				bad++
				r.bad("AGR-C05d", fi.Name, "use of JSONName in the CRUD generator", w.Pos(call.Pos()), "a column or field is named by its JSON name: it differs from the DDL column whenever a json tag renames the field")
			}
			return true
		})
	}
	if bad == 0 {
		r.ok("AGR-C05d", "generator/go/sqlcrud.<package>", "no JSON name in the CRUD generator", "generator/go/sqlcrud", "no call of StructField.JSONName in the package", true)
	}
	cs := w.MustFunc("generator/sql.createStmt")
	okCS := false
	ast.Inspect(cs.Decl.Body, func(x ast.Node) bool {
		if as, ok := x.(*ast.AssignStmt); ok && len(as.Rhs) == 1 && strings.HasSuffix(es(as.Rhs[0]), ".Field.Field.Name()") {
			okCS = true
		}
		return true
	})
	r.cond(okCS, "AGR-C05d", cs.Name, "DDL column name = Go field name", fnPos(w, cs), "col.Field.Field.Name()", "the DDL column name is not the Go field name")
}

// checkCompositeLockstep (AGR-C05k): a composite column is written positionally -- CREATE TYPE lists the fields,
// the generated Value() writes them and Scan() splits on commas and counts them. The three loops over the
// struct's fields (the classifier isComposite, the DDL, the Go converters) must select the same fields: their
// guard sets are compared; today they are all empty.
func checkCompositeLockstep(w *World, r *Result) {
	want := map[string]bool{"analysis/sql.isComposite": true, "generator/sql.compositeDecl": true, "generator/go/sqlcrud.(context).compositeConverters": true}
	type seen struct {
		fl     *fieldLoop
		guards []string
	}
	var loops []seen
	for _, fl := range fieldLoops(w) {
		if fl.kind != "StructField" || !want[fl.fn.Name] {
			continue
		}
		info := fl.pkg.TypesInfo
		// the fields a loop selects: the conditions shared by everything it accumulates (canonical, whatever the
		// spelling of the filter), and the conditions of any `continue` that is not already reflected there
		guards, accs := loopFilterSplit(info, fl.fn.Decl, fl.rs, fl.subst)
		if len(accs) == 0 {
			ast.Inspect(fl.rs.Body, func(x ast.Node) bool {
				bs, ok := x.(*ast.BranchStmt)
				if !ok || bs.Tok.String() != "continue" {
					return true
				}
				cs := reachConds(info, fl.fn.Decl, fl.rs, bs, fl.subst)
				if len(cs) == 0 {
					guards = append(guards, "<unconditional continue>")
				}
				guards = append(guards, "skip when "+strings.Join(cs, " && "))
				return true
			})
		}
		sort.Strings(guards)
		loops = append(loops, seen{fl, uniqStr(guards)})
	}
	// a pass written as a map helper with a callback (`mapTo(st.Fields, func(i, f) string {…})`) selects every field
	for name := range want {
		fn := w.Func(name)
		for _, vr := range virtualRanges(w, fn) {
			if t := fn.Pkg.TypesInfo.TypeOf(vr.X); t != nil && elemTypeName(t) == modPath+"/analysis.StructField" && vr.ret != nil {
				loops = append(loops, seen{&fieldLoop{fn: fn, pkg: fn.Pkg, rs: &ast.RangeStmt{For: vr.call.Pos()}, over: es(vr.X), kind: "StructField"}, nil})
			}
		}
	}
	if len(loops) != 3 {
		Undecided("AGR-C05k: expected the three composite field loops (isComposite, compositeDecl, compositeConverters), found %d", len(loops))
	}
	ref := loops[0]
	for _, l := range loops {
		cons := "fields selected by " + l.fl.fn.Name
		if setEq(l.guards, ref.guards) {
			r.ok("AGR-C05k", l.fl.fn.Name, cons, w.Pos(l.fl.rs.Pos()), "same field filter {"+strings.Join(l.guards, ", ")+"} as "+ref.fl.fn.Name+": DDL, Value() and Scan() agree on the positional field list", true)
		} else {
			r.bad("AGR-C05k", l.fl.fn.Name, cons, w.Pos(l.fl.rs.Pos()), "field filter {"+strings.Join(l.guards, ", ")+"} differs from {"+strings.Join(ref.guards, ", ")+"} in "+ref.fl.fn.Name+": the composite type's DDL and the generated Scan/Value disagree on the number and position of the fields")
		}
	}
}

// checkAndJoinedFragments (TPL-C05p): the comparisons of a WHERE clause are collected in a list and joined with
// " AND ". AND binds tighter than OR, so an element that contains an OR outside parentheses (the null-safe
// comparison `(c IS NULL AND $n IS NULL) OR c = $n`) regroups the whole clause once joined: the statement stays
// valid SQL but selects or deletes other rows. Obligations: every constant format appended to a list that is
// joined with a separator containing AND.
func checkAndJoinedFragments(w *World, r *Result, rel string) int {
	n := 0
	for _, fi := range sortedFuncs(w) {
		if w.Rel(fi.Obj.Pkg()) != rel || fi.Decl.Body == nil {
			continue
		}
		info := fi.Pkg.TypesInfo
		// lists joined with AND
		joined := map[types.Object]bool{}
		ast.Inspect(fi.Decl.Body, func(x ast.Node) bool {
			call, ok := x.(*ast.CallExpr)
			if !ok || fullName(calleeOf(info, call)) != "strings.Join" || len(call.Args) != 2 {
				return true
			}
			tv := info.Types[call.Args[1]]
			if tv.Value == nil || tv.Value.Kind() != constant.String || !strings.Contains(strings.ToUpper(constant.StringVal(tv.Value)), "AND") {
				return true
			}
			if id := identOf(call.Args[0]); id != nil {
				joined[objOf(info, id)] = true
			}
			return true
		})
		if len(joined) == 0 {
			continue
		}
		for _, ac := range allAccums(info, fi.Decl) {
			var id *ast.Ident
			if ix, ok := ac.stmt.Lhs[0].(*ast.IndexExpr); ok {
				id = identOf(ix.X)
			} else {
				id = identOf(ac.stmt.Lhs[0])
			}
			if id == nil || !joined[objOf(info, id)] {
				continue
			}
			for _, a := range ac.values {
				text := ""
				if tv := info.Types[a]; tv.Value != nil && tv.Value.Kind() == constant.String {
					text = constant.StringVal(tv.Value)
				} else if sp := sprintfView(info, ast.Unparen(a)); sp != nil {
					text, _ = verbArgs(info, sp)
				} else {
					continue
				}
				n++
				depth, bare := 0, false
				up := strings.ToUpper(text)
				for i := 0; i < len(up); i++ {
					switch up[i] {
					case '(':
						depth++
					case ')':
						depth--
					}
					if depth == 0 && strings.HasPrefix(up[i:], " OR ") {
						bare = true
					}
				}
				r.cond(!bare, "TPL-C05p", fi.Name, "AND-joined fragment `"+strings.TrimSpace(text)+"`", w.Pos(a.Pos()),
					"no OR outside parentheses: joining with AND keeps the grouping",
					"the fragment has an OR outside parentheses and is joined to the other comparisons with AND, which binds tighter: `a AND (x IS NULL AND $2 IS NULL) OR x = $2` is read as `(a AND …) OR x = $2`, so the statement matches rows that differ on the other keys")
			}
		}
	}
	return n
}

// checkScanLoops (TPL-C05s): the generated `Scan<T>s` functions read one row per iteration into a FRESH value (the
// result of scanOne<T>, which declares its own `var item`). Scanning every row into one variable declared outside
// the loop makes the rows share what the scanners of jsonb columns fill in place (maps accumulate the keys of
// earlier rows, slices alias one another). Query on the instantiated templates of sqlcrud: inside every
// `for rs.Next()` loop no `rs.Scan(&x…)` targets a variable declared outside the loop.
func checkScanLoops(w *World, r *Result) {
	nloops := 0
	for _, d := range extractDecls(w, "generator/go/sqlcrud") {
		if why, bad := hasUnknown(d.content); bad {
			Undecided("sqlcrud template in %s has an unclassified hole: %s", d.label, why)
		}
		reported := false
		for _, in := range instances(d.content, 1) {
			fset := token.NewFileSet()
			f, err := parser.ParseFile(fset, "gen.go", goSource(in.text), parser.SkipObjectResolution)
			if err != nil {
				continue // TPL-1 reports it
			}
			ast.Inspect(f, func(x ast.Node) bool {
				loop, ok := x.(*ast.ForStmt)
				if !ok || loop.Cond == nil || !strings.HasSuffix(es(loop.Cond), ".Next()") {
					return true
				}
				nloops++
				// variables declared inside the loop body
				local := map[string]bool{}
				ast.Inspect(loop.Body, func(y ast.Node) bool {
					switch v := y.(type) {
					case *ast.AssignStmt:
						if v.Tok == token.DEFINE {
							for _, l := range v.Lhs {
								if id, ok := l.(*ast.Ident); ok {
									local[id.Name] = true
								}
							}
						}
					case *ast.ValueSpec:
						for _, nm := range v.Names {
							local[nm.Name] = true
						}
					}
					return true
				})
				ast.Inspect(loop.Body, func(y ast.Node) bool {
					call, ok := y.(*ast.CallExpr)
					if !ok {
						return true
					}
					sel, ok := call.Fun.(*ast.SelectorExpr)
					if !ok || sel.Sel.Name != "Scan" {
						return true
					}
					for _, a := range call.Args {
						u, ok := a.(*ast.UnaryExpr)
						if !ok || u.Op != token.AND {
							continue
						}
						root := u.X
						for {
							if s2, ok := root.(*ast.SelectorExpr); ok {
								root = s2.X
								continue
							}
							break
						}
						if id, ok := root.(*ast.Ident); ok && !local[id.Name] && !reported {
							reported = true
							r.bad("TPL-C05s", d.label, "row loop scans into "+id.Name, w.Pos(d.pos), "inside `for rs.Next()` the generated code scans every row into `"+id.Name+"`, declared outside the loop: the rows share what the jsonb scanners fill in place (maps keep the keys of earlier rows, slices alias), so a select no longer returns what was inserted")
						}
					}
					return true
				})
				return true
			})
		}
		if !reported {
			// recorded once per template below
		}
	}
	if nloops < 2 {
		Undecided("TPL-C05s: fewer row loops than confirmed by hand in the sqlcrud templates (%d)", nloops)
	}
	r.ok("TPL-C05s", "generator/go/sqlcrud.<templates>", "row loops read into a fresh value", "generator/go/sqlcrud", fmt.Sprintf("%d `for rs.Next()` loops of the instantiated templates: none scans into a variable declared outside the loop", nloops), true)
}

// allStringFields: the number of fields of a struct type all of whose fields are strings (0 otherwise).
func allStringFields(t types.Type) int {
	st, ok := t.Underlying().(*types.Struct)
	if !ok {
		return 0
	}
	for i := 0; i < st.NumFields(); i++ {
		if !isStringType(st.Field(i).Type()) {
			return 0
		}
	}
	return st.NumFields()
}

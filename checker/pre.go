package main

// Interprocedural preconditions: callees whose partial operations are justified as "caller-guarded"
// get a machine-checked obligation at every call site.

import (
	"go/ast"
	"go/types"
	"strings"
)

type preReq struct {
	// kind "type": the dynamic type of Path (with $0.. = argument texts, $r = receiver text) is Type
	// kind "holds": the rendered condition holds
	// kind "namedkind": Path is a named-kind analysis node
	// kind "rangeidx": Path ($0) is the range key over <recv-struct>.Fields
	Kind, Path, Type string
}

var preTable = map[string][]preReq{
	"generator/go/gounions.jsonForArray": {
		{"type", "$0.Underlying", "*" + modPath + "/analysis.Array"},
		{"type", "$0.Underlying.Elem", "*" + modPath + "/analysis.Union"},
	},
	"generator/go/gounions.jsonForMap": {
		{"type", "$0.Underlying", "*" + modPath + "/analysis.Map"},
		{"type", "$0.Underlying.Elem", "*" + modPath + "/analysis.Union"},
	},
	"generator/go/sqlcrud.(context).generatePrimaryTable": {
		{"holds", "$0.Primary() >= 0", ""},
	},
	"analysis/sql.(Composite).SQLType": {
		{"rangeidx", "$0", ""},
	},
	"analysis.LocalName": {
		{"namedkind", "$0", ""},
	},
}

// expand rewrites aliases (type-switch binders, comma-ok binders) inside an expression text.
func (c *oblCtx) expandAliases(x string) string {
	for iter := 0; iter < 4; iter++ {
		changed := false
		for _, f := range c.facts {
			if f.alias == "" {
				continue
			}
			if x == f.alias {
				x = f.aliasOf
				changed = true
			} else if strings.HasPrefix(x, f.alias+".") {
				x = f.aliasOf + x[len(f.alias):]
				changed = true
			}
		}
		if !changed {
			break
		}
	}
	return x
}

func (c *oblCtx) typeFactExpanded(path string) []string {
	for i := len(c.facts) - 1; i >= 0; i-- {
		f := c.facts[i]
		if f.tyExpr == "" {
			continue
		}
		if f.tyExpr == path || c.expandAliases(f.tyExpr) == path {
			return f.tySet
		}
	}
	return nil
}

func (c *oblCtx) checkPre(call *ast.CallExpr, fn *types.Func) {
	if fn == nil {
		return
	}
	fi := c.w.Funcs[fn]
	if fi == nil {
		return
	}
	reqs, ok := preTable[fi.Name]
	if !ok {
		return
	}
	recv := ""
	if sel, ok := ast.Unparen(call.Fun).(*ast.SelectorExpr); ok {
		recv = es(sel.X)
	}
	subst := func(p string) string {
		for i, a := range call.Args {
			p = strings.ReplaceAll(p, "$"+string(rune('0'+i)), c.expandAliases(es(a)))
		}
		return strings.ReplaceAll(p, "$r", recv)
	}
	for _, rq := range reqs {
		construct := "call " + fn.Name() + ": " + rq.Kind + " " + rq.Path
		if rq.Type != "" {
			construct += " is " + rq.Type[strings.LastIndex(rq.Type, "/")+1:]
		}
		switch rq.Kind {
		case "type":
			path := subst(rq.Path)
			set := c.typeFactExpanded(path)
			if len(set) == 1 && set[0] == rq.Type {
				c.add("OBL-PRE", call, construct, VOK, "call site lies inside the case/comma-ok branch that establishes the dynamic type of "+path, true)
			} else {
				c.add("OBL-PRE", call, construct, VViolation, "callee "+fn.Name()+" asserts this type unconditionally, but this call site is not inside a branch establishing it for "+path, true)
			}
		case "holds":
			want := subst(rq.Path)
			found := false
			for _, f := range c.facts {
				if f.holds != "" && c.expandAliases(f.holds) == want {
					found = true
				}
				// the condition may be stated on a local bound once to the expression (`idx := ta.Primary(); if idx >= 0`)
				if f.holds != "" && !found {
					if parts := strings.SplitN(f.holds, " ", 2); len(parts) == 2 {
						if def := c.singleDefText(parts[0]); def != "" && c.expandAliases(def+" "+parts[1]) == want {
							found = true
						}
					}
				}
			}
			if found {
				c.add("OBL-PRE", call, construct, VOK, "call site dominated by the condition "+want, true)
			} else {
				c.add("OBL-PRE", call, construct, VViolation, "callee "+fn.Name()+" relies on "+want+", which is not established on the path to this call", true)
			}
		case "namedkind":
			if len(call.Args) == 0 {
				continue
			}
			if how, ok := c.namedKindExpr(call.Args[0]); ok {
				c.add("OBL-PRE", call, "call "+fn.Name()+"("+es(call.Args[0])+"): named-kind argument", VOK, how, true)
			} else if how, ok := c.namedKindVia(call.Args[0]); ok {
				c.add("OBL-PRE", call, "call "+fn.Name()+"("+es(call.Args[0])+"): named-kind argument", VOK, how, true)
			} else {
				c.add("OBL-PRE", call, "call "+fn.Name()+"("+es(call.Args[0])+"): named-kind argument", VViolation, "LocalName asserts Type().(*types.Named); the argument is not known to be a named-kind node (Struct, Enum, Union, Named) at this call", true)
			}
		case "rangeidx":
			if len(call.Args) == 0 {
				continue
			}
			okk := false
			if id := identOf(call.Args[0]); id != nil && c.fn != nil {
				obj := objOf(c.info(), id)
				ast.Inspect(c.fn, func(n ast.Node) bool {
					rs, ok := n.(*ast.RangeStmt)
					if !ok {
						return true
					}
					kid, ok := rs.Key.(*ast.Ident)
					if !ok || c.info().Defs[kid] != obj {
						return true
					}
					// range over X.Fields with X := recv.Type().(*an.Struct)
					if sel, ok := ast.Unparen(rs.X).(*ast.SelectorExpr); ok && sel.Sel.Name == "Fields" {
						if xid := identOf(sel.X); xid != nil {
							for _, d := range c.defsOf(objOf(c.info(), xid)) {
								if d != nil && strings.HasPrefix(es(d), recv+".Type()") {
									okk = true
								}
							}
						}
					}
					return true
				})
			}
			// the same pass written as a map helper with an (index, item) callback over X.Fields
			if id := identOf(call.Args[0]); id != nil && c.fn != nil && !okk {
				obj := objOf(c.info(), id)
				if self, _ := c.info().Defs[c.fn.Name].(*types.Func); self != nil && c.w.Funcs[self] != nil {
					for _, vr := range virtualRanges(c.w, c.w.Funcs[self]) {
						if vr.key != obj {
							continue
						}
						if sel, ok := ast.Unparen(vr.X).(*ast.SelectorExpr); ok && sel.Sel.Name == "Fields" {
							if xid := identOf(sel.X); xid != nil {
								for _, d := range c.defsOf(objOf(c.info(), xid)) {
									if d != nil && strings.HasPrefix(es(d), recv+".Type()") {
										okk = true
									}
								}
							}
						}
					}
				}
			}
			if okk {
				c.add("OBL-PRE", call, construct, VOK, "argument is the range index over the Fields of the receiver's own struct", true)
			} else {
				c.add("OBL-PRE", call, construct, VViolation, "callee indexes the composite's Fields with this argument, which is not a range index over the same Fields", true)
			}
		}
	}
}

// namedKindVia: expression is a parameter/variable whose static type is one of the named-kind
// node types, or a field selection `.Elem`/`member` narrowed by a comma-ok assertion to a named kind.
func (c *oblCtx) namedKindVia(e ast.Expr) (string, bool) {
	x := c.expandAliases(es(ast.Unparen(e)))
	if set := c.typeFactExpanded(x); len(set) > 0 {
		all := true
		for _, tn := range set {
			if tt := c.lookupTypeString(tn); tt == nil || !c.typeMethodReturnsNamed(tt) {
				all = false
			}
		}
		if all {
			return "A3: narrowed to a named-kind node by an enclosing case/comma-ok", true
		}
	}
	return "", false
}

// singleDefText: the text of the only definition of the local called name in the current function ("" otherwise).
func (c *oblCtx) singleDefText(name string) string {
	if c.fn == nil || strings.ContainsAny(name, ".([") || c.reassigned(name) {
		return ""
	}
	var def ast.Expr
	n := 0
	ast.Inspect(c.fn, func(x ast.Node) bool {
		as, ok := x.(*ast.AssignStmt)
		if !ok || len(as.Lhs) != len(as.Rhs) {
			return true
		}
		for i, l := range as.Lhs {
			if id := identOf(l); id != nil && id.Name == name {
				if v, isVar := objOf(c.info(), id).(*types.Var); isVar && !v.IsField() {
					n++
					def = as.Rhs[i]
				}
			}
		}
		return true
	})
	if n != 1 || def == nil {
		return ""
	}
	return es(def)
}

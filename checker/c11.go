package main

// C11: union detection and membership.

import (
	"go/ast"
	"go/constant"
	"go/token"
	"go/types"
	"strings"
)

func init() { register("C11", "other", checkC11) }

func checkC11(w *World, r *Result) {
	r.Explanation = "Decides structural necessary conditions: AGR-C11c candidates are the defined (non-alias) named types of the package scope in scope.Names() order; AGR-C11f a candidate is a member exactly when it is not an interface and types.Implements(member, itf) holds, with itf the candidate union's own underlying interface, members kept in candidate order, and only empty member lists are dropped; AGR-C11u the Union node takes its members, in order, once each, from the table entry of its own name; AGR-C11a whenever createType replaces its key (alias resolution) it consults the memo under the new key before building a node, so one Go type has one node and the Implements pass (which ranges over the memo) reaches every node that parents reference; AGR-C11i Implements is computed for every struct of the memo after all types are analysed, by identity of *types.Named against the same union table, and sorted (ORD-1). Does not decide: exactness against method sets (go/types' Implements), nor 'each once' across packages with homonym types beyond identity comparison."
	r.Rules = []string{"AGR-C11c candidates", "AGR-C11f member filter", "AGR-C11u union node", "AGR-C11a memo key", "AGR-C11i implements", "ORD-1 (merge of the per-package tables)", "PKG-ID", "ALIAS-APPEND", "WORKLIST-RANGE"}
	aliasAppendRule(w, r, func(rel string) bool { return rel == "analysis" })
	worklistRangeRule(w, r, func(rel string) bool { return rel == "analysis" })
	checkCandidates(w, r)
	checkMemberFilter(w, r)
	checkUnionNode(w, r)
	checkMemoKey(w, r)
	checkImplements(w, r)
	// the per-package union tables are merged by the import walk: each union once, whatever the import graph
	sub := &Result{}
	runORD1(w, sub, func(rel string) bool { return rel == "analysis" })
	nw := 0
	walkFns := map[string]bool{"analysis.(*Struct).setImplements": true}
	for _, cf := range calleeClosure(w, w.MustFunc("analysis.fetchEnumsAndUnions"), 2) {
		if cf.Pkg == w.MustFunc("analysis.fetchEnumsAndUnions").Pkg {
			walkFns[cf.Name] = true // the walk may live in a helper or a method of a collector
		}
	}
	for _, o := range sub.Obs {
		if walkFns[o.Func] {
			r.add(o)
			nw++
		}
	}
	if nw < 2 {
		Undecided("C11: the import walk / setImplements map loops were not found")
	}
	pkgIDRule(w, r, func(rel string) bool { return rel == "analysis" })
	checkSelectorRoot(w, r)
}

func appendStmts(info *types.Info, body ast.Node, target string) []*ast.AssignStmt {
	var out []*ast.AssignStmt
	ast.Inspect(body, func(x ast.Node) bool {
		as, ok := x.(*ast.AssignStmt)
		if !ok || len(as.Lhs) != 1 || len(as.Rhs) != 1 {
			return true
		}
		call, ok := as.Rhs[0].(*ast.CallExpr)
		if !ok || !isBuiltinCall(info, call, "append") || len(call.Args) < 2 {
			return true
		}
		if es(as.Lhs[0]) == es(call.Args[0]) && (target == "" || es(as.Lhs[0]) == target || strings.HasSuffix(es(as.Lhs[0]), "."+target)) {
			out = append(out, as)
		}
		return true
	})
	return out
}

// okVarType: if e is the ok variable of `v, ok := X.(T)`, returns T's string, the asserted expr and v.
func okVarInfo(info *types.Info, scope ast.Node, e ast.Expr) (typ string, x ast.Expr, v types.Object) {
	id := identOf(e)
	if id == nil {
		return "", nil, nil
	}
	obj := objOf(info, id)
	ast.Inspect(scope, func(n ast.Node) bool {
		var lhs []ast.Expr
		var rhs ast.Expr
		switch s := n.(type) {
		case *ast.AssignStmt:
			if len(s.Lhs) == 2 && len(s.Rhs) == 1 {
				lhs, rhs = s.Lhs, s.Rhs[0]
			}
		}
		if lhs == nil {
			return true
		}
		if l := identOf(lhs[1]); l == nil || objOf(info, l) != obj {
			return true
		}
		if ta, ok := ast.Unparen(rhs).(*ast.TypeAssertExpr); ok && ta.Type != nil {
			typ = info.TypeOf(ta.Type).String()
			x = ta.X
			if l0 := identOf(lhs[0]); l0 != nil && l0.Name != "_" {
				v = objOf(info, l0)
			}
		}
		return true
	})
	return
}

func checkCandidates(w *World, r *Result) {
	fi, app := candidatesSite(w)
	if fi == nil {
		Undecided("the collection of union candidates (an unguarded append to a []*types.Named) was not found in fetchPkgUnions or its helpers")
	}
	info := fi.Pkg.TypesInfo
	pos := w.Pos(app.Pos())
	inNames := false
	ast.Inspect(fi.Decl.Body, func(x ast.Node) bool {
		if rs, ok := x.(*ast.RangeStmt); ok && rs.Body.Pos() <= app.Pos() && app.End() <= rs.Body.End() {
			if call, ok := rs.X.(*ast.CallExpr); ok && fullName(calleeOf(info, call)) == "(*go/types.Scope).Names" {
				inNames = true
			}
		}
		return true
	})
	r.cond(inNames, "AGR-C11c", fi.Name, "candidates in scope.Names() order", pos, "appended while ranging over the sorted scope names, never re-ordered", "candidates are not collected in scope.Names() order")
	var shape []string
	good := true
	conds := pathConds(fi.Decl, app)
	if ycall, isYield := app.(*ast.CallExpr); isYield {
		// the yield may sit inside a condition (`if !isNamed || !yield(x) { return }`): what precedes it in the
		// short-circuit evaluation holds when it is reached
		conds = append(conds, shortCircuitConds(fi.Decl, ycall)...)
		// an iterator ends the whole collection when it returns: inside the loop it may only do so because the
		// consumer stopped (`!yield(x)`), never because the current object is not a candidate
		stops := ""
		ast.Inspect(fi.Decl.Body, func(x ast.Node) bool {
			rs, ok := x.(*ast.RangeStmt)
			if !ok || !(rs.Body.Pos() <= ycall.Pos() && ycall.End() <= rs.Body.End()) {
				return true
			}
			ast.Inspect(rs.Body, func(y ast.Node) bool {
				is, ok := y.(*ast.IfStmt)
				if !ok || !terminates(is.Body) {
					return true
				}
				if _, isRet := is.Body.List[len(is.Body.List)-1].(*ast.ReturnStmt); !isRet {
					return true
				}
				// the only accepted guard: the negated yield call itself
				c := ast.Unparen(is.Cond)
				if u, ok := c.(*ast.UnaryExpr); ok && u.Op == token.NOT && ast.Unparen(u.X) == ast.Expr(ycall) {
					return true
				}
				stops = "`if " + es(is.Cond) + " { return }`"
				return true
			})
			return true
		})
		r.cond(stops == "", "AGR-C11c", fi.Name, "the iterator visits every scope name", pos, "inside the loop the iterator returns only when the consumer stopped",
			"the iterator over the candidates returns under "+stops+": the collection ends at the first object that fails the test instead of skipping it, so every type that sorts after it (members and whole unions) is lost")
	}
	for _, c := range conds {
		if c.expr == nil || c.loop {
			continue
		}
		typ, x, _ := okVarInfo(info, fi.Decl, c.expr)
		switch {
		case c.truth && typ == "*go/types.TypeName":
			shape = append(shape, "isTypeName")
		case c.truth && typ == "*go/types.Named":
			// asserted expression must be <obj>.Type() directly (no alias resolution, no lookup elsewhere)
			call, ok := ast.Unparen(x).(*ast.CallExpr)
			if !ok || fullName(calleeOf(info, call)) != "(*go/types.object).Type" && fullName(calleeOf(info, call)) != "(*go/types.TypeName).Type" && !strings.HasSuffix(fullName(calleeOf(info, call)), ").Type") {
				good = false
				shape = append(shape, "isNamed("+es(x)+")")
			} else if len(call.Args) != 0 {
				good = false
			} else {
				shape = append(shape, "isNamed(obj.Type())")
			}
		default:
			s := es(c.expr)
			if !c.truth {
				s = "!(" + s + ")"
			}
			// an explicit alias exclusion is harmless
			if s == "!(obj.IsAlias())" {
				continue
			}
			shape = append(shape, s)
			good = false
		}
	}
	r.cond(good && setEq(shape, []string{"isTypeName", "isNamed(obj.Type())"}), "AGR-C11c", fi.Name, "candidates = defined named types of the scope", pos,
		"a scope object is a candidate exactly when it is a type name whose own Type() is a *types.Named (aliases and their targets are not candidates)",
		"the candidate filter is {"+strings.Join(shape, ", ")+"}: types that are not declared in this package (e.g. alias targets) can become candidates, or declared ones are dropped")
}

// shortCircuitConds: target lies inside the condition of an if statement; returns what the short-circuit evaluation
// has established when target is evaluated (`A || target`: A is false; `A && target`: A is true).
func shortCircuitConds(fd *ast.FuncDecl, target ast.Expr) []pcond {
	var out []pcond
	ast.Inspect(fd, func(x ast.Node) bool {
		is, ok := x.(*ast.IfStmt)
		if !ok || !(is.Cond.Pos() <= target.Pos() && target.End() <= is.Cond.End()) {
			return true
		}
		var walk func(e ast.Expr)
		walk = func(e ast.Expr) {
			e = ast.Unparen(e)
			if u, ok := e.(*ast.UnaryExpr); ok && u.Op == token.NOT {
				walk(u.X)
				return
			}
			be, ok := e.(*ast.BinaryExpr)
			if !ok || (be.Op != token.LOR && be.Op != token.LAND) {
				return
			}
			if be.Y.Pos() <= target.Pos() && target.End() <= be.Y.End() {
				out = append(out, splitCond(be.X, be.Op == token.LAND)...)
				walk(be.Y)
			} else {
				walk(be.X)
			}
		}
		walk(is.Cond)
		return true
	})
	return out
}

func checkMemberFilter(w *World, r *Result) {
	fi := w.MustFunc("analysis.fetchPkgUnions")
	info := fi.Pkg.TypesInfo
	// the append of a member: in fetchPkgUnions, or in a helper it calls at one site
	var app *ast.AssignStmt
	var appFn *FuncInfo
	napps := 0
	_, candApp := candidatesSite(w)
	for _, cf := range calleeClosure(w, fi, 1) {
		for _, a := range appendStmts(cf.Pkg.TypesInfo, cf.Decl.Body, "") {
			if t := cf.Pkg.TypesInfo.TypeOf(a.Lhs[0]); t == nil || t.String() != "[]*go/types.Named" || ast.Node(a) == candApp {
				continue
			}
			// the candidate list (allNamedTypes) is also a []*types.Named: members are the ones appended in
			// fetchPkgUnions itself or under an Implements test
			underImpl := false
			for _, c := range pathConds(cf.Decl, a) {
				if c.expr != nil && containsStr(callsIn(cf.Pkg.TypesInfo, c.expr), "go/types.Implements") {
					underImpl = true
				}
			}
			if derivedFrom(cf, a) != nil && !underImpl {
				continue // a pre-filter of the candidates (its conditions are added below)
			}
			if cf == fi || underImpl {
				app, appFn = a, cf
				napps++
			}
		}
	}
	var conds []pcondAt
	pmap := map[types.Object]types.Object{}
	var memberObj types.Object
	pos := ""
	alt := false
	if napps == 0 {
		// the members may be selected by a generic filter helper applied to the candidates with a predicate:
		// `members := filter(candidates, func(m *types.Named) bool { … })`
		ast.Inspect(fi.Decl.Body, func(x ast.Node) bool {
			as, ok := x.(*ast.AssignStmt)
			if !ok || len(as.Rhs) != 1 || alt {
				return true
			}
			call, ok := ast.Unparen(as.Rhs[0]).(*ast.CallExpr)
			if !ok || len(call.Args) != 2 {
				return true
			}
			h := w.Funcs[calleeOf(info, call)]
			lit, isLit := ast.Unparen(call.Args[1]).(*ast.FuncLit)
			if h == nil || !isLit || !isFilterHelper(h) || lit.Type.Params.NumFields() != 1 || len(lit.Type.Params.List[0].Names) != 1 {
				return true
			}
			if t := info.TypeOf(call.Args[0]); t == nil || t.String() != "[]*go/types.Named" {
				return true
			}
			memberObj = info.Defs[lit.Type.Params.List[0].Names[0]]
			for _, c := range pathConds(fi.Decl, as) {
				conds = append(conds, pcondAt{c, fi})
			}
			// the predicate holds: every `return false` was passed by, and the returned expression is true
			nTrue := 0
			ast.Inspect(lit.Body, func(y ast.Node) bool {
				ret, ok := y.(*ast.ReturnStmt)
				if !ok || len(ret.Results) != 1 {
					return true
				}
				if tv := info.Types[ret.Results[0]]; tv.Value != nil && tv.Value.Kind() == constant.Bool && !constant.BoolVal(tv.Value) {
					return true
				}
				nTrue++
				for _, c := range pathConds(fi.Decl, ret) {
					if c.expr != nil && c.expr.Pos() >= lit.Pos() && c.expr.End() <= lit.End() {
						conds = append(conds, pcondAt{c, fi})
					} else if c.text != "" {
						conds = append(conds, pcondAt{c, fi})
					}
				}
				if tv := info.Types[ret.Results[0]]; tv.Value == nil {
					for _, c := range splitCond(ret.Results[0], true) {
						conds = append(conds, pcondAt{c, fi})
					}
				}
				return true
			})
			if nTrue == 1 {
				alt = true
				pos = w.Pos(as.Pos())
			} else {
				conds = nil
			}
			return true
		})
	}
	if !alt && napps != 1 {
		Undecided("fetchPkgUnions: %d appends of a member (expected 1)", napps)
	}
	if !alt {
		var okc bool
		conds, pmap, okc = interConds(w, fi, appFn, app)
		if !okc {
			Undecided("fetchPkgUnions: the helper %s holding the member append is not called at exactly one site", appFn.Name)
		}
		pos = w.Pos(app.Pos())
		appended := app.Rhs[0].(*ast.CallExpr).Args[1]
		memberObj = objOf(info, identOf(appended))
	}
	resolve := func(o types.Object) types.Object {
		if m, ok := pmap[o]; ok {
			return m
		}
		return o
	}
	// when the members range over a list that an earlier loop filtered out of the candidates, what that filter
	// requires of an element holds for the member (the filter's loop variable stands for the member)
	memberAlias := map[types.Object]bool{memberObj: true}
	if !alt {
		ast.Inspect(appFn.Decl.Body, func(x ast.Node) bool {
			rs, ok := x.(*ast.RangeStmt)
			if !ok || identOf(rs.Value) == nil || objOf(info, identOf(rs.Value)) != memberObj || identOf(rs.X) == nil {
				return true
			}
			listObj := objOf(info, identOf(rs.X))
			for _, a := range appendStmts(info, appFn.Decl.Body, "") {
				if identOf(a.Lhs[0]) == nil || objOf(info, identOf(a.Lhs[0])) != listObj {
					continue
				}
				if src := derivedFrom(appFn, a); src != nil {
					memberAlias[objOf(info, identOf(src.Value))] = true
					for _, c := range pathConds(appFn.Decl, a) {
						conds = append(conds, pcondAt{c, appFn})
					}
				}
			}
			return true
		})
	}
	var got []string
	itfVar := types.Object(nil)
	for _, c := range conds {
		if c.expr == nil || c.loop {
			continue
		}
		typ, x, v := okVarInfo(info, c.fn.Decl, c.expr)
		if typ == "*go/types.Interface" {
			root := rootIdent(x)
			who := "candidate"
			if root != nil && memberAlias[objOf(info, root)] {
				who = "member"
			}
			s := who + " is interface"
			if !c.truth {
				s = "!(" + s + ")"
			}
			got = append(got, s)
			if who == "candidate" && c.truth {
				itfVar = v
			}
			continue
		}
		if call, ok := c.expr.(*ast.CallExpr); ok && fullName(calleeOf(info, call)) == "go/types.Implements" && len(call.Args) == 2 {
			a0, a1 := identOf(call.Args[0]), identOf(call.Args[1])
			s := "Implements(?)"
			if a0 != nil && a1 != nil && objOf(info, a0) == memberObj && itfVar != nil && resolve(objOf(info, a1)) == itfVar {
				s = "Implements(member, candidate's interface)"
			}
			if !c.truth {
				s = "!(" + s + ")"
			}
			got = append(got, s)
			continue
		}
		s := es(c.expr)
		if !c.truth {
			s = "!(" + s + ")"
		}
		got = append(got, s)
	}
	want := []string{"candidate is interface", "!(member is interface)", "Implements(member, candidate's interface)"}
	r.cond(setEq(uniqStr(got), want), "AGR-C11f", fi.Name, "member filter", pos,
		"a candidate is a member exactly when it is not an interface and types.Implements(member, itf) for the union's own interface",
		"the member append is guarded by {"+strings.Join(got, " ; ")+"} instead of exactly {candidate is an interface, member is not, Implements(member, itf)}: implementers are dropped or non-implementers kept (e.g. a shortcut on NumMethods() loses members that implement through embedding)")
	// result keyed by the candidate; skip only empty member lists
	store := false
	skipOK := true
	ast.Inspect(fi.Decl.Body, func(x ast.Node) bool {
		as, ok := x.(*ast.AssignStmt)
		if !ok || len(as.Lhs) != 1 {
			return true
		}
		ix, ok := as.Lhs[0].(*ast.IndexExpr)
		if !ok {
			return true
		}
		if _, isMap := info.TypeOf(ix.X).Underlying().(*types.Map); !isMap {
			return true
		}
		store = true
		for _, c := range pathConds(fi.Decl, as) {
			if c.expr == nil || c.loop {
				continue
			}
			if typ, _, _ := okVarInfo(info, fi.Decl, c.expr); typ == "*go/types.Interface" && c.truth {
				continue
			}
			// "the member list is not empty", however it is spelled (`len(m) == 0` left, `len(m) != 0` / `> 0` entered)
			if isLenNonEmptyCond(info, c) {
				continue
			}
			skipOK = false
		}
		return true
	})
	r.cond(store && skipOK, "AGR-C11f", fi.Name, "every interface with members is recorded", pos, "out[candidate] = members under no condition other than 'is an interface' and 'has at least one member'", "the union table drops or keeps interfaces under an extra condition")
}

// isLenNonEmptyCond: the path condition says that some slice has at least one element.
func isLenNonEmptyCond(info *types.Info, c pcond) bool {
	e := ast.Unparen(c.expr)
	truth := c.truth
	for {
		u, ok := e.(*ast.UnaryExpr)
		if !ok || u.Op != token.NOT {
			break
		}
		e, truth = ast.Unparen(u.X), !truth
	}
	be, ok := e.(*ast.BinaryExpr)
	if !ok {
		return false
	}
	x, y, op := be.X, be.Y, be.Op
	if _, isLen := ast.Unparen(y).(*ast.CallExpr); isLen { // constant on the left: swap
		x, y = y, x
		switch op {
		case token.LSS:
			op = token.GTR
		case token.GTR:
			op = token.LSS
		case token.LEQ:
			op = token.GEQ
		case token.GEQ:
			op = token.LEQ
		}
	}
	call, ok := ast.Unparen(x).(*ast.CallExpr)
	if !ok || !isBuiltinCall(info, call, "len") {
		return false
	}
	k0, ok := constInt(info, y)
	if !ok {
		return false
	}
	k := int64(k0)
	// evaluate "len >= 1" against the condition for len in {0, 1, 2}
	holds := func(n int64) bool {
		var v bool
		switch op {
		case token.EQL:
			v = n == k
		case token.NEQ:
			v = n != k
		case token.LSS:
			v = n < k
		case token.LEQ:
			v = n <= k
		case token.GTR:
			v = n > k
		case token.GEQ:
			v = n >= k
		default:
			return false
		}
		return v == truth
	}
	return !holds(0) && holds(1) && holds(2) && holds(3)
}

// isFilterHelper: h(list []T, keep func(T) bool) []T returns, in order, exactly the elements of list for which keep
// holds: one range over the slice parameter, one append of the range value under the single condition keep(value).
func isFilterHelper(h *FuncInfo) bool {
	if h == nil || h.Decl.Body == nil || h.Decl.Type.Params.NumFields() != 2 {
		return false
	}
	info := h.Pkg.TypesInfo
	var listP, keepP types.Object
	for _, f := range h.Decl.Type.Params.List {
		for _, nm := range f.Names {
			o := info.Defs[nm]
			switch o.Type().Underlying().(type) {
			case *types.Slice:
				listP = o
			case *types.Signature:
				keepP = o
			}
		}
	}
	if listP == nil || keepP == nil {
		return false
	}
	ok := false
	n := 0
	ast.Inspect(h.Decl.Body, func(x ast.Node) bool {
		rs, isRange := x.(*ast.RangeStmt)
		if !isRange {
			return true
		}
		n++
		if identOf(rs.X) == nil || objOf(info, identOf(rs.X)) != listP || identOf(rs.Value) == nil {
			return true
		}
		v := info.Defs[identOf(rs.Value)]
		apps := appendStmts(info, rs.Body, "")
		if len(apps) != 1 {
			return true
		}
		a := apps[0]
		if id := identOf(a.Rhs[0].(*ast.CallExpr).Args[1]); id == nil || objOf(info, id) != v {
			return true
		}
		var cs []pcond
		for _, c := range pathConds(h.Decl, a) {
			if c.expr != nil && !c.loop {
				cs = append(cs, c)
			}
		}
		if len(cs) == 1 && cs[0].truth {
			if call, isCall := ast.Unparen(cs[0].expr).(*ast.CallExpr); isCall && identOf(call.Fun) != nil && objOf(info, identOf(call.Fun)) == keepP && len(call.Args) == 1 && identOf(call.Args[0]) != nil && objOf(info, identOf(call.Args[0])) == v {
				ok = true
			}
		}
		return true
	})
	return ok && n == 1
}

func checkUnionNode(w *World, r *Result) {
	fi := w.MustFunc("analysis.(*Analysis).createType")
	info := fi.Pkg.TypesInfo
	membersField := w.Field("analysis", "Union", "Members")
	// the append to Union.Members: in createType, or in a helper of the package it calls
	var app *ast.AssignStmt
	var afi *FuncInfo
	for _, cf := range calleeClosure(w, fi, 1) {
		ast.Inspect(cf.Decl.Body, func(x ast.Node) bool {
			as, ok := x.(*ast.AssignStmt)
			if ok && len(as.Lhs) == 1 {
				if sel, ok := as.Lhs[0].(*ast.SelectorExpr); ok && info.Uses[sel.Sel] == membersField {
					app, afi = as, cf
				}
			}
			return true
		})
	}
	if app == nil {
		// the members may be filled after the node is registered (a deferred pass): look in the whole package
		for _, cf := range sortedFuncs(w) {
			if cf.Decl.Body == nil || cf.Pkg != fi.Pkg {
				continue
			}
			ast.Inspect(cf.Decl.Body, func(x ast.Node) bool {
				as, ok := x.(*ast.AssignStmt)
				if ok && len(as.Lhs) == 1 && len(as.Rhs) == 1 {
					if sel, ok := as.Lhs[0].(*ast.SelectorExpr); ok && info.Uses[sel.Sel] == membersField {
						if c, ok := as.Rhs[0].(*ast.CallExpr); ok && isBuiltinCall(info, c, "append") {
							app, afi = as, cf
						}
					}
				}
				return true
			})
		}
	}
	if app == nil {
		Undecided("createType: no append to Union.Members")
	}
	pos := w.Pos(app.Pos())
	// enclosing range over `members` where members, isUnion := ctx.unions[name]
	good := false
	ast.Inspect(afi.Decl.Body, func(x ast.Node) bool {
		rs, ok := x.(*ast.RangeStmt)
		if !ok || !(rs.Body.Pos() <= app.Pos() && app.End() <= rs.Body.End()) {
			return true
		}
		if len(rs.Body.List) != 1 {
			return true
		}
		call, ok := app.Rhs[0].(*ast.CallExpr)
		if !ok || len(call.Args) != 2 {
			return true
		}
		inner, ok := call.Args[1].(*ast.CallExpr)
		if !ok || !strings.HasSuffix(fullName(calleeOf(info, inner)), ".handleType") {
			return true
		}
		if identOf(inner.Args[0]) == nil || objOf(info, identOf(inner.Args[0])) != objOf(info, identOf(rs.Value)) {
			return true
		}
		// rs.X defined from a lookup in the unions table keyed by the named type under construction (through the
		// helper's parameter when the loop was extracted)
		if ix, ok := ast.Unparen(rs.X).(*ast.IndexExpr); ok && strings.HasSuffix(es(ix.X), ".unions") {
			good = true
		}
		if id := identOf(rs.X); id != nil {
			ds, wh := defsThroughAny(w, afi, objOf(info, id))
			for k, d := range ds {
				// an argument at a call site: follow the caller's variable to its definitions
				if aid := identOf(d); aid != nil && k < len(wh) {
					for _, d2 := range defsIn(wh[k].Pkg.TypesInfo, wh[k].Decl, objOf(wh[k].Pkg.TypesInfo, aid)) {
						ds = append(ds, d2)
					}
				}
			}
			for _, d := range ds {
				if ix, ok := ast.Unparen(d).(*ast.IndexExpr); ok && strings.HasSuffix(es(ix.X), ".unions") {
					good = true
				}
			}
		}
		return true
	})
	// the node itself is built exactly for the entries of the union table: wherever `&Union{…}` is written, the way
	// there passes the comma-ok of a lookup in that table (an interface without implementers is not a union)
	for _, cf := range calleeClosure(w, fi, 2) {
		if cf.Pkg != fi.Pkg || cf.Decl.Body == nil {
			continue
		}
		ci := cf.Pkg.TypesInfo
		ast.Inspect(cf.Decl.Body, func(x ast.Node) bool {
			lit, ok := x.(*ast.CompositeLit)
			if !ok {
				return true
			}
			if t := ci.TypeOf(lit); t == nil || !strings.HasSuffix(t.String(), "analysis.Union") {
				return true
			}
			inTable := false
			var conds []pcondAt
			if cs, _, ok := interConds(w, fi, cf, lit); ok {
				conds = cs
			} else {
				for _, c := range pathConds(cf.Decl, lit) {
					conds = append(conds, pcondAt{c, cf})
				}
			}
			for _, c := range conds {
				id := identOf(c.expr)
				if id == nil || !c.truth {
					continue
				}
				inf := c.fn.Pkg.TypesInfo
				okObj := objOf(inf, id)
				ast.Inspect(c.fn.Decl.Body, func(y ast.Node) bool {
					as, isAs := y.(*ast.AssignStmt)
					if !isAs || len(as.Lhs) != 2 || len(as.Rhs) != 1 {
						return true
					}
					if l := identOf(as.Lhs[1]); l != nil && objOf(inf, l) == okObj {
						if ix, isIx := ast.Unparen(as.Rhs[0]).(*ast.IndexExpr); isIx && strings.HasSuffix(es(ix.X), ".unions") {
							inTable = true
						}
					}
					return true
				})
			}
			r.cond(inTable, "AGR-C11u", cf.Name, "a Union node is built only for an entry of the union table", w.Pos(lit.Pos()),
				"the construction is reached under the comma-ok of a lookup in ctx.unions",
				"a Union node is built without the type having been found in the union table (e.g. for every interface): an interface nobody implements becomes a union without members, which the property excludes")
			return true
		})
	}
	r.cond(good, "AGR-C11u", fi.Name, "Union.Members = handleType of each table member, in order", pos, "one append per element of ctx.unions[name], nothing else in the loop", "the Union node's members are not exactly the analysed table members in table order")
}

func checkMemoKey(w *World, r *Result) {
	fi := w.MustFunc("analysis.(*Analysis).createType")
	info := fi.Pkg.TypesInfo
	if fi.Decl.Type.Params.NumFields() < 1 {
		Undecided("createType has no parameters")
	}
	param := info.Defs[fi.Decl.Type.Params.List[0].Names[0]]
	n := 0
	var visit func(list []ast.Stmt)
	visit = func(list []ast.Stmt) {
		for i, st := range list {
			switch s := st.(type) {
			case *ast.AssignStmt:
				for _, l := range s.Lhs {
					if id := identOf(l); id != nil && objOf(info, id) == param {
						n++
						// the following statements of this list, up to the first node construction, must contain a memo lookup
						okk := false
						for _, nx := range list[i+1:] {
							if is, ok := nx.(*ast.IfStmt); ok && is.Init != nil && terminates(is.Body) {
								if as, ok := is.Init.(*ast.AssignStmt); ok && len(as.Rhs) == 1 {
									if ix, ok := as.Rhs[0].(*ast.IndexExpr); ok && strings.HasSuffix(es(ix.X), ".Types") && identOf(ix.Index) != nil && objOf(info, identOf(ix.Index)) == param {
										okk = true
									}
								}
							}
							break
						}
						r.cond(okk, "AGR-C11a", fi.Name, "key re-defined: "+es(s.Lhs[0])+" = "+es(s.Rhs[0]), w.Pos(s.Pos()),
							"the memo is consulted under the new key right after the key is replaced",
							"createType replaces its key (alias resolution) and goes on to build a node without consulting the memo under the new key: a type analysed first under its own name and then reached through an alias gets a second node; the first one stays referenced by its parents but is no longer in the memo, so its Implements list is never filled")
					}
				}
			case *ast.IfStmt:
				visit(s.Body.List)
				if eb, ok := s.Else.(*ast.BlockStmt); ok {
					visit(eb.List)
				}
			case *ast.BlockStmt:
				visit(s.List)
			}
		}
	}
	visit(fi.Decl.Body.List)
	if n == 0 {
		r.ok("AGR-C11a", fi.Name, "key never re-defined", fnPos(w, fi), "createType registers and looks up under the key it was given", true)
	}
	// registrations use the parameter as key
	ast.Inspect(fi.Decl.Body, func(x ast.Node) bool {
		as, ok := x.(*ast.AssignStmt)
		if !ok || len(as.Lhs) != 1 {
			return true
		}
		if ix, ok := as.Lhs[0].(*ast.IndexExpr); ok && strings.HasSuffix(es(ix.X), ".Types") {
			good := identOf(ix.Index) != nil && objOf(info, identOf(ix.Index)) == param
			r.cond(good, "AGR-C11a", fi.Name, "registration "+es(as.Lhs[0]), w.Pos(as.Pos()), "registered under the (current) key of this call", "a node is registered under a key other than the one being analysed")
		}
		return true
	})
}

func checkImplements(w *World, r *Result) {
	fi := w.MustFunc("analysis.(*Struct).setImplements")
	info := fi.Pkg.TypesInfo
	apps := appendStmts(info, fi.Decl.Body, "")
	if len(apps) != 1 {
		Undecided("setImplements: %d appends", len(apps))
	}
	app := apps[0]
	pos := w.Pos(app.Pos())
	identity := false
	var got []string
	for _, c := range pathConds(fi.Decl, app) {
		if c.expr == nil || c.loop {
			continue
		}
		if be, ok := c.expr.(*ast.BinaryExpr); ok && be.Op == token.EQL && c.truth {
			lt, rt := info.TypeOf(be.X), info.TypeOf(be.Y)
			if lt != nil && rt != nil && lt.String() == "*go/types.Named" && rt.String() == "*go/types.Named" {
				identity = true
				got = append(got, "identity of *types.Named")
				continue
			}
			got = append(got, "comparison of "+lt.String())
			continue
		}
		if typ, _, _ := okVarInfo(info, fi.Decl, c.expr); typ != "" && c.truth {
			got = append(got, "analysed as "+typ[strings.LastIndex(typ, ".")+1:])
			continue
		}
		// slices.Contains(members, x) is the loop `for _, m := range members { if m == x {...; break} }`: == on the element type
		if call, ok := ast.Unparen(c.expr).(*ast.CallExpr); ok && c.truth && len(call.Args) == 2 && fullName(calleeOf(info, call)) == "slices.Contains" {
			lt, rt := info.TypeOf(call.Args[0]), info.TypeOf(call.Args[1])
			if sl, ok := lt.Underlying().(*types.Slice); ok && rt != nil && sl.Elem().String() == "*go/types.Named" && rt.String() == "*go/types.Named" {
				identity = true
				got = append(got, "identity of *types.Named")
				continue
			}
		}
		s := es(c.expr)
		if !c.truth {
			s = "!(" + s + ")"
		}
		got = append(got, s)
	}
	r.cond(identity && len(got) == 2, "AGR-C11i", fi.Name, "membership by identity of the named type", pos,
		"a union is recorded exactly when it was analysed (accu[unionName] is a *Union) and one of its table members is this struct's own *types.Named (pointer identity)",
		"Implements is decided by {"+strings.Join(got, " ; ")+"}: membership must be the identity of the *types.Named in the union table, not a comparison of names (homonym types of other packages would match)")
	// populateTypes: Implements pass after all analysis, for every struct
	pf := w.MustFunc("analysis.(*Analysis).populateTypes")
	pinfo := pf.Pkg.TypesInfo
	var loops []*ast.RangeStmt
	for _, st := range pf.Decl.Body.List {
		if rs, ok := st.(*ast.RangeStmt); ok {
			loops = append(loops, rs)
		}
	}
	// the pass is the loop over the memo that calls setImplements; the loop over Source comes before it and nothing
	// after it analyses a type (a deferred pass that fills nodes between the two is the analysis still)
	var implLoop *ast.RangeStmt
	srcBefore, analysisAfter := false, false
	hType := w.MustFunc("analysis.(*Analysis).handleType")
	reachesAnalysis := func(n ast.Node) bool {
		found := false
		ast.Inspect(n, func(x ast.Node) bool {
			if call, ok := x.(*ast.CallExpr); ok {
				if fn := calleeOf(pinfo, call); fn != nil {
					if fn == hType.Obj {
						found = true
					} else if cf := w.Funcs[fn]; cf != nil && cf.Decl.Body != nil {
						for _, c2 := range calleeClosure(w, cf, 3) {
							if c2 == hType {
								found = true
							}
						}
					}
				}
			}
			return true
		})
		return found
	}
	for _, st := range pf.Decl.Body.List {
		rs, isLoop := st.(*ast.RangeStmt)
		if implLoop != nil {
			if reachesAnalysis(st) {
				analysisAfter = true
			}
			continue
		}
		if isLoop && strings.HasSuffix(es(rs.X), ".Source") {
			srcBefore = true
		}
		if isLoop && strings.HasSuffix(es(rs.X), ".Types") {
			has := false
			ast.Inspect(rs.Body, func(x ast.Node) bool {
				if call, ok := x.(*ast.CallExpr); ok && strings.HasSuffix(fullName(calleeOf(pinfo, call)), ".setImplements") {
					has = true
				}
				return true
			})
			if has {
				implLoop = rs
			}
		}
	}
	order := implLoop != nil && srcBefore && !analysisAfter
	callOK := false
	if order {
		conds := 0
		ast.Inspect(implLoop.Body, func(x ast.Node) bool {
			if call, ok := x.(*ast.CallExpr); ok && strings.HasSuffix(fullName(calleeOf(pinfo, call)), ".setImplements") {
				for _, c := range pathConds(pf.Decl, call) {
					if c.expr != nil && !c.loop {
						conds++
						if typ, _, _ := okVarInfo(pinfo, pf.Decl, c.expr); !strings.HasSuffix(typ, "analysis.Struct") {
							conds += 10
						}
					}
				}
				callOK = conds == 1
			}
			return true
		})
	}
	r.cond(order && callOK, "AGR-C11i", pf.Name, "Implements pass covers every struct after analysis", fnPos(w, pf), "all Source types are analysed first, then setImplements runs for every *Struct of the memo", "the Implements pass is not a loop over the whole memo after the analysis loop, or it filters structs")
}

// candidatesSite locates where the candidates of a package's unions are collected: the one append to a
// []*types.Named that is not guarded by an Implements test, in fetchPkgUnions or in a helper of its package it calls
// (the collection may be its own function or inlined). Whether it ranges over scope.Names() is AGR-C11c's question.
func candidatesSite(w *World) (*FuncInfo, ast.Node) {
	fu := w.Func("analysis.fetchPkgUnions")
	if fu == nil {
		return nil, nil
	}
	var rfi *FuncInfo
	var rapp ast.Node
	n := 0
	for _, cf := range calleeClosure(w, fu, 2) {
		info := cf.Pkg.TypesInfo
		// an iterator over the candidates (`func(yield func(*types.Named) bool)`): what it yields is the collection
		if res := cf.Decl.Type.Results; res != nil && res.NumFields() == 1 {
			if t := info.TypeOf(res.List[0].Type); t != nil && strings.HasSuffix(t.String(), "iter.Seq[*go/types.Named]") {
				ast.Inspect(cf.Decl.Body, func(x ast.Node) bool {
					lit, ok := x.(*ast.FuncLit)
					if !ok || lit.Type.Params.NumFields() != 1 || len(lit.Type.Params.List[0].Names) != 1 {
						return true
					}
					yobj := info.Defs[lit.Type.Params.List[0].Names[0]]
					ast.Inspect(lit.Body, func(y ast.Node) bool {
						if call, ok := y.(*ast.CallExpr); ok && identOf(call.Fun) != nil && objOf(info, identOf(call.Fun)) == yobj {
							rfi, rapp = cf, call
							n++
						}
						return true
					})
					return false
				})
			}
		}
		for _, a := range appendStmts(info, cf.Decl.Body, "") {
			if t := info.TypeOf(a.Lhs[0]); t == nil || t.String() != "[]*go/types.Named" {
				continue
			}
			// members are appended under an Implements test, candidates are not
			underImpl := false
			for _, c := range pathConds(cf.Decl, a) {
				if c.expr != nil && containsStr(callsIn(info, c.expr), "go/types.Implements") {
					underImpl = true
				}
			}
			// a list derived from another list of named types (`for _, t := range all { if keep(t) { cands =
			// append(cands, t) } }`) is a filter, not the collection
			if derivedFrom(cf, a) != nil {
				continue
			}
			if !underImpl {
				rfi, rapp = cf, a
				n++
			}
		}
	}
	if n != 1 {
		return nil, nil
	}
	return rfi, rapp
}

// derivedFrom: the append adds the value variable of an enclosing range over a []*types.Named (the list is a filtered
// copy of that slice); returns the range statement.
func derivedFrom(fi *FuncInfo, app *ast.AssignStmt) *ast.RangeStmt {
	info := fi.Pkg.TypesInfo
	call, ok := app.Rhs[0].(*ast.CallExpr)
	if !ok || len(call.Args) != 2 || identOf(call.Args[1]) == nil {
		return nil
	}
	v := objOf(info, identOf(call.Args[1]))
	var out *ast.RangeStmt
	ast.Inspect(fi.Decl.Body, func(x ast.Node) bool {
		rs, ok := x.(*ast.RangeStmt)
		if !ok || !(rs.Body.Pos() <= app.Pos() && app.End() <= rs.Body.End()) || identOf(rs.Value) == nil {
			return true
		}
		if objOf(info, identOf(rs.Value)) == v {
			if t := info.TypeOf(rs.X); t != nil && t.String() == "[]*go/types.Named" {
				out = rs
			}
		}
		return true
	})
	return out
}

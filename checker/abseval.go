package main

// A small abstract interpreter for predicates over analysis nodes.
//
// Some rules ask "for which kinds of node does this code accept?" (isComposite: exactly integer basics and integer
// enums). Matching the shape of the tests breaks on every rewrite (type switch, comma-ok chain, helper predicate,
// De Morgan). The question has a finite domain, so the code is evaluated instead: one abstract node per case that
// matters, statements and expressions of the small language such predicates are written in interpreted directly,
// helpers of the module followed. Anything outside that language makes the evaluation give up (the caller falls back
// to its syntactic reading), never guess.

import (
	"go/ast"
	"go/token"
	"go/types"
	"strings"
)

// absNode is one abstract analysis node: its dynamic kind (Enum, Basic, Named, …) and the answers of the methods the
// predicates consult.
type absNode struct {
	kind      string // "Enum", "Basic", "Struct", …
	isInteger bool   // (*Enum).IsInteger()
	kindInt   bool   // (*Basic).Kind() == BKInt
}

type nodeVal struct {
	node   *absNode // a node value
	b      *bool    // a boolean
	kindOf *absNode // result of node.Kind(): compared with BasicKind constants
	nilV   bool
}

type absOutcome int

const (
	absFall absOutcome = iota // the statement list ran to its end
	absReturn
	absContinue
	absBreak
	absPanic
	absUnknown
)

type absInterp struct {
	w     *World
	depth int
}

type absEnv struct {
	fi   *FuncInfo
	vars map[types.Object]nodeVal
}

func nodeBool(b bool) nodeVal { return nodeVal{b: &b} }

func (in *absInterp) expr(env *absEnv, e ast.Expr) (nodeVal, bool) {
	info := env.fi.Pkg.TypesInfo
	e = ast.Unparen(e)
	if tv := info.Types[e]; tv.Value != nil && tv.Value.Kind().String() == "Bool" {
		return nodeBool(tv.Value.ExactString() == "true"), true
	}
	switch v := e.(type) {
	case *ast.Ident:
		if v.Name == "nil" {
			return nodeVal{nilV: true}, true
		}
		if v.Name == "true" || v.Name == "false" {
			return nodeBool(v.Name == "true"), true
		}
		if val, ok := env.vars[objOf(info, v)]; ok {
			return val, true
		}
	case *ast.SelectorExpr:
		// a field holding the node under test was bound as a whole expression
		if val, ok := env.vars[selKey(info, v)]; ok {
			return val, true
		}
	case *ast.UnaryExpr:
		if v.Op == token.NOT {
			x, ok := in.expr(env, v.X)
			if ok && x.b != nil {
				return nodeBool(!*x.b), true
			}
		}
	case *ast.BinaryExpr:
		switch v.Op {
		case token.LAND, token.LOR:
			x, ok := in.expr(env, v.X)
			if !ok || x.b == nil {
				return nodeVal{}, false
			}
			if (v.Op == token.LAND && !*x.b) || (v.Op == token.LOR && *x.b) {
				return x, true
			}
			y, ok := in.expr(env, v.Y)
			if !ok || y.b == nil {
				return nodeVal{}, false
			}
			return y, true
		case token.EQL, token.NEQ:
			// node.Kind() ==/!= BKInt
			for _, pr := range [][2]ast.Expr{{v.X, v.Y}, {v.Y, v.X}} {
				x, ok := in.expr(env, pr[0])
				if !ok || x.kindOf == nil {
					continue
				}
				if c := constNameOf(info, pr[1]); c != "" {
					eq := (c == "BKInt") == x.kindOf.kindInt
					if c != "BKInt" {
						return nodeVal{}, false // only the integer kind is modelled
					}
					return nodeBool(eq == (v.Op == token.EQL)), true
				}
			}
			// x == nil / x != nil on a node value
			x, ok1 := in.expr(env, v.X)
			y, ok2 := in.expr(env, v.Y)
			if ok1 && ok2 && (x.nilV || y.nilV) && (x.node != nil || y.node != nil || (x.nilV && y.nilV)) {
				isNil := x.nilV && y.nilV
				return nodeBool(isNil == (v.Op == token.EQL)), true
			}
		}
	case *ast.CallExpr:
		fn := calleeOf(info, v)
		if fn == nil {
			return nodeVal{}, false
		}
		if sel, ok := v.Fun.(*ast.SelectorExpr); ok && len(v.Args) == 0 {
			recv, ok := in.expr(env, sel.X)
			if ok && recv.node != nil {
				switch fn.Name() {
				case "IsInteger":
					if recv.node.kind == "Enum" {
						return nodeBool(recv.node.isInteger), true
					}
				case "Kind":
					if recv.node.kind == "Basic" || recv.node.kind == "Enum" {
						n := recv.node
						if n.kind == "Enum" {
							n = &absNode{kind: "Basic", kindInt: n.isInteger}
						}
						return nodeVal{kindOf: n}, true
					}
				}
				return nodeVal{}, false
			}
		}
		// a helper of the module: interpret it with its parameters bound
		if h := in.w.Funcs[fn]; h != nil && h.Decl.Body != nil && in.depth < 4 {
			henv := &absEnv{fi: h, vars: map[types.Object]nodeVal{}}
			k := 0
			for _, f := range h.Decl.Type.Params.List {
				for _, nm := range f.Names {
					if k < len(v.Args) {
						a, ok := in.expr(env, v.Args[k])
						if !ok {
							return nodeVal{}, false
						}
						henv.vars[h.Pkg.TypesInfo.Defs[nm]] = a
					}
					k++
				}
			}
			in.depth++
			out, ret := in.block(henv, h.Decl.Body.List)
			in.depth--
			if out == absReturn && ret != nil {
				return *ret, true
			}
		}
	}
	return nodeVal{}, false
}

func selKey(info *types.Info, sel *ast.SelectorExpr) types.Object {
	// a selector is keyed by the field object together with its root variable: enough for `field.Type`
	if id := identOf(sel.X); id != nil {
		if f, ok := info.Uses[sel.Sel].(*types.Var); ok && f.IsField() {
			return selObj{f, objOf(info, id)}
		}
	}
	return nil
}

// selObj makes "root.field" usable as a key of the variable map.
type selObj struct {
	*types.Var
	root types.Object
}

func constNameOf(info *types.Info, e ast.Expr) string {
	switch v := ast.Unparen(e).(type) {
	case *ast.Ident:
		if c, ok := info.Uses[v].(*types.Const); ok {
			return c.Name()
		}
	case *ast.SelectorExpr:
		if c, ok := info.Uses[v.Sel].(*types.Const); ok {
			return c.Name()
		}
	}
	return ""
}

// assertTo: the abstract node seen as the pointer-to-kind type T of an assertion; ok tells whether it succeeds.
func assertKind(info *types.Info, typ ast.Expr) string {
	t := info.TypeOf(typ)
	if p, ok := t.(*types.Pointer); ok {
		if n, ok := p.Elem().(*types.Named); ok {
			return n.Obj().Name()
		}
	}
	return ""
}

func (in *absInterp) assign(env *absEnv, as *ast.AssignStmt) bool {
	info := env.fi.Pkg.TypesInfo
	bind := func(l ast.Expr, v nodeVal) {
		if id := identOf(l); id != nil && id.Name != "_" {
			env.vars[objOf(info, id)] = v
		}
	}
	if len(as.Rhs) == 1 {
		if ta, ok := ast.Unparen(as.Rhs[0]).(*ast.TypeAssertExpr); ok && ta.Type != nil {
			x, ok := in.expr(env, ta.X)
			if !ok || x.node == nil {
				return false
			}
			k := assertKind(info, ta.Type)
			if k == "" {
				return false
			}
			hit := x.node.kind == k
			if len(as.Lhs) == 2 {
				if hit {
					bind(as.Lhs[0], x)
				} else {
					bind(as.Lhs[0], nodeVal{nilV: true})
				}
				bind(as.Lhs[1], nodeBool(hit))
				return true
			}
			if !hit {
				return false // a failing single-value assertion panics: not part of a predicate
			}
			bind(as.Lhs[0], x)
			return true
		}
	}
	if len(as.Lhs) != len(as.Rhs) {
		return false
	}
	for i := range as.Lhs {
		v, ok := in.expr(env, as.Rhs[i])
		if !ok {
			return false
		}
		bind(as.Lhs[i], v)
	}
	return true
}

// block interprets a statement list; ret is the (single) returned value on absReturn.
func (in *absInterp) block(env *absEnv, list []ast.Stmt) (absOutcome, *nodeVal) {
	info := env.fi.Pkg.TypesInfo
	for _, st := range list {
		switch s := st.(type) {
		case *ast.EmptyStmt:
		case *ast.AssignStmt:
			if !in.assign(env, s) {
				return absUnknown, nil
			}
		case *ast.DeclStmt:
			// `var x T` declares a zero value: only booleans are modelled
			gd, ok := s.Decl.(*ast.GenDecl)
			if !ok {
				return absUnknown, nil
			}
			for _, sp := range gd.Specs {
				vs, ok := sp.(*ast.ValueSpec)
				if !ok || len(vs.Values) != 0 {
					return absUnknown, nil
				}
				for _, nm := range vs.Names {
					if b, ok := info.TypeOf(nm).Underlying().(*types.Basic); ok && b.Kind() == types.Bool {
						env.vars[info.Defs[nm]] = nodeBool(false)
					} else {
						env.vars[info.Defs[nm]] = nodeVal{nilV: true}
					}
				}
			}
		case *ast.ReturnStmt:
			if len(s.Results) == 0 {
				return absReturn, nil
			}
			v, ok := in.expr(env, s.Results[0])
			if !ok {
				return absUnknown, nil
			}
			return absReturn, &v
		case *ast.BranchStmt:
			switch s.Tok {
			case token.CONTINUE:
				return absContinue, nil
			case token.BREAK:
				return absBreak, nil
			}
			return absUnknown, nil
		case *ast.ExprStmt:
			if call, ok := s.X.(*ast.CallExpr); ok && isBuiltinCall(info, call, "panic") {
				return absPanic, nil
			}
			return absUnknown, nil
		case *ast.BlockStmt:
			if out, r := in.block(env, s.List); out != absFall {
				return out, r
			}
		case *ast.IfStmt:
			if s.Init != nil {
				as, ok := s.Init.(*ast.AssignStmt)
				if !ok || !in.assign(env, as) {
					return absUnknown, nil
				}
			}
			c, ok := in.expr(env, s.Cond)
			if !ok || c.b == nil {
				return absUnknown, nil
			}
			if *c.b {
				if out, r := in.block(env, s.Body.List); out != absFall {
					return out, r
				}
			} else if s.Else != nil {
				var out absOutcome
				var r *nodeVal
				switch e := s.Else.(type) {
				case *ast.BlockStmt:
					out, r = in.block(env, e.List)
				case *ast.IfStmt:
					out, r = in.block(env, []ast.Stmt{e})
				}
				if out != absFall {
					return out, r
				}
			}
		case *ast.TypeSwitchStmt:
			var subj ast.Expr
			switch a := s.Assign.(type) {
			case *ast.AssignStmt:
				subj = a.Rhs[0].(*ast.TypeAssertExpr).X
			case *ast.ExprStmt:
				subj = a.X.(*ast.TypeAssertExpr).X
			}
			x, ok := in.expr(env, subj)
			if !ok || x.node == nil {
				return absUnknown, nil
			}
			var chosen *ast.CaseClause
			var deflt *ast.CaseClause
			for _, cl := range s.Body.List {
				cc := cl.(*ast.CaseClause)
				if cc.List == nil {
					deflt = cc
					continue
				}
				for _, te := range cc.List {
					if assertKind(info, te) == x.node.kind && chosen == nil {
						chosen = cc
					}
				}
			}
			if chosen == nil {
				chosen = deflt
			}
			if chosen != nil {
				if b := info.Implicits[chosen]; b != nil {
					env.vars[b] = x
				}
				out, r := in.block(env, chosen.Body)
				if out == absBreak {
					out = absFall
				}
				if out != absFall {
					return out, r
				}
			}
		case *ast.SwitchStmt:
			if s.Tag != nil || s.Init != nil {
				return absUnknown, nil
			}
			done := false
			var deflt *ast.CaseClause
			for _, cl := range s.Body.List {
				cc := cl.(*ast.CaseClause)
				if cc.List == nil {
					deflt = cc
					continue
				}
				hit := false
				for _, ce := range cc.List {
					c, ok := in.expr(env, ce)
					if !ok || c.b == nil {
						return absUnknown, nil
					}
					hit = hit || *c.b
				}
				if hit {
					out, r := in.block(env, cc.Body)
					if out == absBreak {
						out = absFall
					}
					if out != absFall {
						return out, r
					}
					done = true
					break
				}
			}
			if !done && deflt != nil {
				out, r := in.block(env, deflt.Body)
				if out == absBreak {
					out = absFall
				}
				if out != absFall {
					return out, r
				}
			}
		default:
			return absUnknown, nil
		}
	}
	return absFall, nil
}

// fieldLoopDecision interprets the body of `for _, f := range X.Fields` in fi for one abstract field type: "accept"
// when the iteration ends normally (or continues), "reject" when it returns false, "" when it cannot be told.
func fieldLoopDecision(w *World, fi *FuncInfo, rs *ast.RangeStmt, n *absNode) string {
	info := fi.Pkg.TypesInfo
	v := identOf(rs.Value)
	if v == nil {
		return ""
	}
	env := &absEnv{fi: fi, vars: map[types.Object]nodeVal{}}
	// f.Type is the node under test
	var typeField *types.Var
	if st, ok := info.TypeOf(v).Underlying().(*types.Struct); ok {
		for i := 0; i < st.NumFields(); i++ {
			if st.Field(i).Name() == "Type" {
				typeField = st.Field(i)
			}
		}
	}
	if typeField == nil {
		return ""
	}
	env.vars[selObj{typeField, info.Defs[v]}] = nodeVal{node: n}
	in := &absInterp{w: w}
	out, ret := in.block(env, rs.Body.List)
	switch out {
	case absFall, absContinue:
		return "accept"
	case absReturn:
		if ret != nil && ret.b != nil && !*ret.b {
			return "reject"
		}
	}
	return ""
}

var _ = strings.HasPrefix

package main

// DECL-ID: WriteDeclarations keeps one declaration per ID (first wins). For the merge to be
// order-independent and lossless, the ID of a declaration must determine its content: every access
// path the content depends on must be covered by (have as a prefix) a path the ID depends on.

import (
	"go/ast"
	"go/token"
	"go/types"
	"sort"
	"strings"
)

func isContextType(t types.Type) bool {
	s := t.String()
	for _, suf := range []string{"analysis.Analysis", "generator.Cache", "generator.TableNameReplacer", ".context", ".buffer", "analysis.Linker", "generator.Formatters", "go/types.Package"} {
		if strings.HasSuffix(s, suf) {
			return true
		}
	}
	if b, ok := t.Underlying().(*types.Basic); ok && b.Kind() == types.Bool {
		return true
	}
	return false
}

// identity suffixes: selecting these from an object names the object itself
var identitySuffixes = []string{".Name.Obj().String()", ".Name.Obj().Name()", ".Name.String()", ".TableName()", ".Type().String()", ".Type()", ".Name()", ".Name", ".E", ".A", ".t"}

func normPath(p string) string {
	for changed := true; changed; {
		changed = false
		for _, s := range identitySuffixes {
			if strings.HasSuffix(p, s) && len(p) > len(s) {
				p = strings.TrimSuffix(p, s)
				changed = true
			}
		}
	}
	return p
}

type pathCtx struct {
	w           *World
	fi          *FuncInfo
	seen        map[types.Object]bool
	keepContext bool // do not drop variables of run-constant "context" types
	noParams    bool // do not expand parameters through call sites
	cuts        int  // number of expansions cut because the variable was already being expanded
	seenField   map[string]bool
}

// pathsOf returns the access paths an expression depends on.
func (pc *pathCtx) pathsOf(e ast.Expr, depth int, out map[string]bool) {
	info := pc.fi.Pkg.TypesInfo
	if e == nil {
		return
	}
	if tv, ok := info.Types[e]; ok && tv.Value != nil {
		return
	}
	switch v := ast.Unparen(e).(type) {
	case *ast.Ident:
		obj, ok := info.Uses[v].(*types.Var)
		if !ok || obj.IsField() {
			return
		}
		if obj.Pkg() != nil && obj.Parent() == obj.Pkg().Scope() {
			return
		}
		if isContextType(obj.Type()) && !pc.keepContext {
			return
		}
		// range variable: element of the ranged expression
		var rangedOver ast.Expr
		isKey := false
		ast.Inspect(pc.fi.Decl, func(y ast.Node) bool {
			if rs, ok := y.(*ast.RangeStmt); ok {
				if k := identOf(rs.Value); k != nil && info.Defs[k] == types.Object(obj) {
					rangedOver = rs.X
				}
				if k := identOf(rs.Key); k != nil && info.Defs[k] == types.Object(obj) {
					rangedOver = rs.X
					isKey = true
				}
			}
			return true
		})
		if rangedOver != nil && depth < 24 {
			sub := map[string]bool{}
			pc.pathsOf(rangedOver, depth+1, sub)
			for p := range sub {
				if isKey {
					out[p+"[#]"] = true
				} else {
					out[p+"[*]"] = true
				}
			}
			return
		}
		if pc.seen[obj] {
			pc.cuts++
			return // already being expanded (x = append(x, …))
		}
		// a parameter: what the callers pass
		if pi := paramIndex(pc.fi, obj); pi >= 0 && depth < 24 && !pc.noParams {
			found := false
			viaCallers := map[string]bool{}
			pc.seen[obj] = true
			for _, caller := range sortedFuncs(pc.w) {
				cinfo := caller.Pkg.TypesInfo
				ast.Inspect(caller.Decl.Body, func(y ast.Node) bool {
					call, ok := y.(*ast.CallExpr)
					if !ok || calleeOf(cinfo, call) != pc.fi.Obj || pi >= len(call.Args) {
						return true
					}
					found = true
					sub := &pathCtx{w: pc.w, fi: caller, seen: pc.seen, keepContext: pc.keepContext}
					sub.pathsOf(call.Args[pi], depth+1, viaCallers)
					return true
				})
			}
			delete(pc.seen, obj)
			if found && len(viaCallers) == 0 {
				// every call site passes a constant: the parameter is a function of the call site. When its values
				// are pairwise distinct it also determines the site (an ID built from it covers what the other
				// constant parameters of the same call contribute)
				if vals, allConst := constArgsOf(pc.w, pc.fi, pi); allConst {
					distinct := true
					seenV := map[string]bool{}
					for _, v := range vals {
						if seenV[v] {
							distinct = false
						}
						seenV[v] = true
					}
					if distinct {
						out["@site:"+pc.fi.Name] = true
					} else {
						out["@site:"+pc.fi.Name+"/"+obj.Name()] = true
					}
					return
				}
			}
			if found {
				if len(viaCallers) == 0 {
					out[obj.Name()] = true
				}
				for p := range viaCallers {
					out[p] = true
				}
				return
			}
		}
		defs := allDefs(info, pc.fi.Decl, obj)
		if len(defs) == 0 || depth >= 24 {
			out[obj.Name()] = true
			return
		}
		pc.seen[obj] = true
		sub := map[string]bool{}
		cuts0 := pc.cuts
		for _, d := range defs {
			pc.pathsOf(d, depth+1, sub)
		}
		delete(pc.seen, obj)
		if len(sub) == 0 && pc.cuts > cuts0 {
			return // only reachable through a variable that is being expanded: contributes nothing new
		}
		if len(sub) == 0 {
			// assigned constants only: the value depends on what controls the assignments (switch tags, conditions)
			for _, ce := range controlExprs(info, pc.fi.Decl, obj) {
				pc.pathsOf(ce, depth+1, sub)
			}
		}
		if len(sub) == 0 && len(defs) == 1 && pc.cuts == cuts0 && !pc.keepContext && contextOnly(info, defs[0]) {
			// defined once from run-constant context only (`qualifier := gen.NameRelativeTo(ctx.targetPackage)`):
			// as constant over a run as the context it is computed from
			return
		}
		if len(sub) == 0 {
			out[obj.Name()] = true // a root of its own
		}
		for p := range sub {
			out[p] = true
		}
	case *ast.SelectorExpr:
		if _, isPkg := info.Uses[identOf(v.X)].(*types.PkgName); isPkg {
			return
		}
		// a field of a local struct that only groups a few locals (`lines.defs = append(lines.defs, x)`) is a
		// variable of its own: it depends on what is stored into it
		if id := identOf(v.X); id != nil {
			if obj, ok := info.Uses[id].(*types.Var); ok && !obj.IsField() && paramIndex(pc.fi, obj) < 0 && depth < 24 {
				if _, isStruct := obj.Type().Underlying().(*types.Struct); isStruct {
					if defs := localFieldDefs(info, pc.fi.Decl, obj, v.Sel.Name); len(defs) > 0 {
						key := obj.Name() + "." + v.Sel.Name
						if pc.seenField == nil {
							pc.seenField = map[string]bool{}
						}
						if pc.seenField[key] {
							pc.cuts++
							return
						}
						pc.seenField[key] = true
						for _, d := range defs {
							pc.pathsOf(d, depth+1, out)
						}
						delete(pc.seenField, key)
						return
					}
				}
			}
		}
		sub := map[string]bool{}
		pc.pathsOf(v.X, depth, sub)
		for p := range sub {
			out[p+"."+v.Sel.Name] = true
		}
	case *ast.IndexExpr:
		sub := map[string]bool{}
		pc.pathsOf(v.X, depth, sub)
		for p := range sub {
			out[p+"[*]"] = true
		}
		pc.pathsOf(v.Index, depth, out)
	case *ast.CallExpr:
		if tv, ok := info.Types[v.Fun]; ok && tv.IsType() {
			for _, a := range v.Args {
				pc.pathsOf(a, depth, out)
			}
			return
		}
		if id := identOf(v.Fun); id != nil {
			if _, isB := info.Uses[id].(*types.Builtin); isB {
				for _, a := range v.Args {
					pc.pathsOf(a, depth, out)
				}
				return
			}
		}
		// method call without arguments on a path: path.M()
		if sel, ok := v.Fun.(*ast.SelectorExpr); ok && len(v.Args) == 0 {
			if _, isPkg := info.Uses[identOf(sel.X)].(*types.PkgName); !isPkg {
				sub := map[string]bool{}
				pc.pathsOf(sel.X, depth, sub)
				for p := range sub {
					out[p+"."+sel.Sel.Name+"()"] = true
				}
				return
			}
		}
		// receiver (if any) and arguments
		if sel, ok := v.Fun.(*ast.SelectorExpr); ok {
			if _, isPkg := info.Uses[identOf(sel.X)].(*types.PkgName); !isPkg {
				if t := info.TypeOf(sel.X); t != nil && !isContextType(t) {
					pc.pathsOf(sel.X, depth, out)
				}
			}
		}
		for _, a := range v.Args {
			pc.pathsOf(a, depth, out)
		}
	case *ast.BinaryExpr:
		pc.pathsOf(v.X, depth, out)
		pc.pathsOf(v.Y, depth, out)
	case *ast.UnaryExpr:
		pc.pathsOf(v.X, depth, out)
	case *ast.StarExpr:
		pc.pathsOf(v.X, depth, out)
	case *ast.TypeAssertExpr:
		pc.pathsOf(v.X, depth, out)
	case *ast.SliceExpr:
		pc.pathsOf(v.X, depth, out)
	case *ast.CompositeLit:
		for _, el := range v.Elts {
			if kv, ok := el.(*ast.KeyValueExpr); ok {
				pc.pathsOf(kv.Value, depth, out)
			} else {
				pc.pathsOf(el, depth, out)
			}
		}
	case *ast.FuncLit:
	}
}

// controlExprs: switch tags and if conditions enclosing the assignments to obj.
func controlExprs(info *types.Info, fd *ast.FuncDecl, obj types.Object) []ast.Expr {
	var out []ast.Expr
	var stack []ast.Node
	ast.Inspect(fd, func(n ast.Node) bool {
		if n == nil {
			stack = stack[:len(stack)-1]
			return false
		}
		stack = append(stack, n)
		as, ok := n.(*ast.AssignStmt)
		if !ok {
			return true
		}
		assigns := false
		for _, l := range as.Lhs {
			if id := identOf(l); id != nil && objOf(info, id) == obj {
				assigns = true
			}
		}
		if !assigns {
			return true
		}
		for _, anc := range stack {
			switch a := anc.(type) {
			case *ast.SwitchStmt:
				if a.Tag != nil {
					out = append(out, a.Tag)
				} else {
					// a tagless switch is an if-chain: every case expression takes part in the choice
					for _, cl := range a.Body.List {
						out = append(out, cl.(*ast.CaseClause).List...)
					}
				}
			case *ast.TypeSwitchStmt:
				switch x := a.Assign.(type) {
				case *ast.AssignStmt:
					out = append(out, x.Rhs[0].(*ast.TypeAssertExpr).X)
				case *ast.ExprStmt:
					out = append(out, x.X.(*ast.TypeAssertExpr).X)
				}
			case *ast.IfStmt:
				out = append(out, a.Cond)
				if init, ok := a.Init.(*ast.AssignStmt); ok {
					out = append(out, init.Rhs...)
				}
			}
		}
		return true
	})
	return out
}

func paramIndex(fi *FuncInfo, obj types.Object) int {
	i := 0
	for _, f := range fi.Decl.Type.Params.List {
		for _, nm := range f.Names {
			if fi.Pkg.TypesInfo.Defs[nm] == obj {
				return i
			}
			i++
		}
	}
	return -1
}

// allDefs: right-hand sides of `x = e`, `x := e`, `x += e`, `x[i] = e`.
func allDefs(info *types.Info, fd *ast.FuncDecl, obj types.Object) []ast.Expr {
	out := defsIn(info, fd, obj)
	// a strings.Builder / bytes.Buffer holds what is written to it
	if ts := obj.Type().String(); ts == "strings.Builder" || ts == "bytes.Buffer" || ts == "*strings.Builder" || ts == "*bytes.Buffer" {
		isB := func(e ast.Expr) bool {
			e = ast.Unparen(e)
			if u, ok := e.(*ast.UnaryExpr); ok && u.Op == token.AND {
				e = ast.Unparen(u.X)
			}
			i := identOf(e)
			return i != nil && objOf(info, i) == obj
		}
		ast.Inspect(fd, func(n ast.Node) bool {
			call, ok := n.(*ast.CallExpr)
			if !ok {
				return true
			}
			if sel, ok := call.Fun.(*ast.SelectorExpr); ok && isB(sel.X) && strings.HasPrefix(sel.Sel.Name, "Write") {
				out = append(out, call.Args...)
			}
			if fn := fullName(calleeOf(info, call)); strings.HasPrefix(fn, "fmt.Fprint") && len(call.Args) > 0 && isB(call.Args[0]) {
				out = append(out, call.Args[1:]...)
			}
			return true
		})
	}
	ast.Inspect(fd, func(n ast.Node) bool {
		as, ok := n.(*ast.AssignStmt)
		if !ok {
			return true
		}
		for i, l := range as.Lhs {
			if ix, ok := l.(*ast.IndexExpr); ok && i < len(as.Rhs) {
				if id := identOf(ix.X); id != nil && objOf(info, id) == obj {
					out = append(out, as.Rhs[i])
				}
			}
		}
		return true
	})
	return out
}

// accumulated: for a local string/slice variable, also what is appended/added to it.
func accumulatedInto(fi *FuncInfo, e ast.Expr) []ast.Expr {
	info := fi.Pkg.TypesInfo
	var out []ast.Expr
	ids := map[types.Object]bool{}
	ast.Inspect(e, func(x ast.Node) bool {
		if id, ok := x.(*ast.Ident); ok {
			if v, ok := info.Uses[id].(*types.Var); ok && !v.IsField() {
				ids[v] = true
			}
		}
		return true
	})
	ast.Inspect(fi.Decl.Body, func(x ast.Node) bool {
		as, ok := x.(*ast.AssignStmt)
		if !ok {
			return true
		}
		for i, l := range as.Lhs {
			var base *ast.Ident
			switch lv := l.(type) {
			case *ast.Ident:
				base = lv
			case *ast.IndexExpr:
				base = identOf(lv.X)
			}
			if base == nil || !ids[objOf(info, base)] {
				continue
			}
			if i < len(as.Rhs) {
				out = append(out, as.Rhs[i])
			}
		}
		return true
	})
	return out
}

func coveredBy(p string, ids []string) bool {
	for _, q := range ids {
		if p == q || strings.HasPrefix(p, q+".") || strings.HasPrefix(p, q+"[") {
			return true
		}
	}
	return false
}

func declIDRule(w *World, r *Result, rel string) int {
	n := 0
	declT := w.TypeOf("generator", "Declaration")
	for _, fi := range sortedFuncs(w) {
		if w.Rel(fi.Obj.Pkg()) != rel {
			continue
		}
		info := fi.Pkg.TypesInfo
		ast.Inspect(fi.Decl.Body, func(x ast.Node) bool {
			lit, ok := x.(*ast.CompositeLit)
			if !ok {
				return true
			}
			if t := info.TypeOf(lit); t == nil || !types.Identical(t, declT) {
				return true
			}
			var idE, contentE ast.Expr
			for _, el := range lit.Elts {
				if kv, ok := el.(*ast.KeyValueExpr); ok {
					switch es(kv.Key) {
					case "ID":
						idE = kv.Value
					case "Content":
						contentE = kv.Value
					}
				}
			}
			if idE == nil {
				return true
			}
			// an ID is compared for equality to drop duplicates: building it through a case-folding function merges the
			// IDs of two declarations whose names differ only by case (Go types Event and event), and one is dropped
			if fold := caseFoldIn(w, fi, idE, 2); fold != "" {
				n++
				r.bad("DECL-ID", fi.Name, "ID "+es(idE)+" folded by "+fold, w.Pos(lit.Pos()), "the declaration ID passes through "+fold+": two declarations whose names differ only by case get one ID, so WriteDeclarations keeps one and silently drops the other")
			}
			var contents []ast.Expr
			if contentE != nil {
				contents = append(contents, contentE)
			}
			// Content assigned later to the variable holding the literal
			ast.Inspect(fi.Decl.Body, func(y ast.Node) bool {
				as, ok := y.(*ast.AssignStmt)
				if !ok {
					return true
				}
				for i, l := range as.Lhs {
					if sel, ok := l.(*ast.SelectorExpr); ok && sel.Sel.Name == "Content" && i < len(as.Rhs) {
						if id := identOf(sel.X); id != nil {
							for _, d := range defsIn(info, fi.Decl, objOf(info, id)) {
								if ast.Unparen(d) == ast.Expr(lit) {
									contents = append(contents, as.Rhs[i])
								}
							}
						}
					}
				}
				return true
			})
			if len(contents) == 0 {
				return true
			}
			if tv := info.Types[idE]; tv.Value != nil {
				return true // constant ID: a per-output singleton (header, imports)
			}
			pc := &pathCtx{w: w, fi: fi, seen: map[types.Object]bool{}}
			idSet := map[string]bool{}
			pc.pathsOf(idE, 0, idSet)
			cSet := map[string]bool{}
			for _, e := range contents {
				pc.pathsOf(e, 0, cSet)
				for _, acc := range accumulatedInto(fi, e) {
					pc.pathsOf(acc, 0, cSet)
				}
			}
			var ids []string
			for p := range idSet {
				ids = append(ids, normPath(p))
			}
			sort.Strings(ids)
			n++
			var missing []string
			for p := range cSet {
				np := normPath(p)
				if strings.HasSuffix(np, "[#]") {
					continue // a position in an ordered collection of a covered object is checked through its base
				}
				if !coveredBy(np, ids) && !coveredBy(strings.ReplaceAll(np, "[#]", "[*]"), ids) {
					missing = append(missing, np)
				}
			}
			sort.Strings(missing)
			missing = uniqStr(missing)
			cons := "Declaration{ID: " + es(idE) + "}"
			if len(cons) > 110 {
				cons = cons[:110] + "…}"
			}
			if len(missing) == 0 {
				r.ok("DECL-ID", fi.Name, cons, w.Pos(lit.Pos()), "every access path the content reads is covered by a path the ID is built from {"+strings.Join(ids, ", ")+"}", true)
			} else {
				r.bad("DECL-ID", fi.Name, cons, w.Pos(lit.Pos()), "the content reads "+strings.Join(missing, ", ")+" but the ID is built from {"+strings.Join(ids, ", ")+"} only: two declarations that differ only there share an ID, and WriteDeclarations silently drops all but one")
			}
			return true
		})
	}
	return n
}

// caseFoldIn: e (or, depth bounded, the returned expression of a module function it calls) calls a case-folding
// function; returns its name.
func caseFoldIn(w *World, fi *FuncInfo, e ast.Expr, depth int) string {
	info := fi.Pkg.TypesInfo
	found := ""
	ast.Inspect(e, func(x ast.Node) bool {
		call, ok := x.(*ast.CallExpr)
		if !ok || found != "" {
			return true
		}
		fn := calleeOf(info, call)
		if fn == nil {
			return true
		}
		switch fn.FullName() {
		case "strings.ToLower", "strings.ToUpper", "strings.ToLowerSpecial", "strings.ToUpperSpecial", "unicode.ToLower", "unicode.ToUpper", "bytes.ToLower", "bytes.ToUpper":
			found = fn.FullName()
			return false
		}
		if depth > 0 {
			if callee := w.Funcs[fn]; callee != nil && callee.Decl.Body != nil && isStringType(fn.Type().(*types.Signature).Results().At(0).Type()) {
				ast.Inspect(callee.Decl.Body, func(y ast.Node) bool {
					if ret, ok := y.(*ast.ReturnStmt); ok && len(ret.Results) == 1 && found == "" {
						if f := caseFoldIn(w, callee, ret.Results[0], depth-1); f != "" {
							found = f + " (in " + callee.Name + ")"
						}
					}
					return true
				})
			}
		}
		return true
	})
	return found
}

// contextOnly: every variable e reads is of a run-constant context type (or package-level), it reads at least one,
// and it contains no function literal and no call without operands (a counter or clock would not be run-constant).
func contextOnly(info *types.Info, e ast.Expr) bool {
	ok, nctx := true, 0
	ast.Inspect(e, func(x ast.Node) bool {
		switch v := x.(type) {
		case *ast.FuncLit:
			ok = false
		case *ast.CallExpr:
			if len(v.Args) == 0 {
				if sel, isSel := v.Fun.(*ast.SelectorExpr); !isSel || rootIdent(sel.X) == nil {
					ok = false
				}
			}
		case *ast.Ident:
			if o, isVar := info.Uses[v].(*types.Var); isVar && !o.IsField() {
				if o.Pkg() != nil && o.Parent() == o.Pkg().Scope() {
					return true
				}
				if isContextType(o.Type()) {
					nctx++
				} else {
					ok = false
				}
			}
		}
		return ok
	})
	return ok && nctx > 0
}

// constArgsOf: the constant values passed for the pi-th parameter of fi at every call site of the module (ok is false
// when some call site passes a non-constant).
func constArgsOf(w *World, fi *FuncInfo, pi int) ([]string, bool) {
	var vals []string
	ok := true
	for _, caller := range sortedFuncs(w) {
		cinfo := caller.Pkg.TypesInfo
		ast.Inspect(caller.Decl.Body, func(y ast.Node) bool {
			call, isCall := y.(*ast.CallExpr)
			if !isCall || calleeOf(cinfo, call) != fi.Obj || pi >= len(call.Args) {
				return true
			}
			tv := cinfo.Types[call.Args[pi]]
			if tv.Value == nil {
				ok = false
				return true
			}
			vals = append(vals, tv.Value.ExactString())
			return true
		})
	}
	return vals, ok && len(vals) > 0
}

// localFieldDefs: what is stored into the field `name` of the local struct variable obj inside fd: right-hand sides of
// `obj.name = e`, of `obj.name[i] = e`, and the field's value in a composite literal obj is defined from.
func localFieldDefs(info *types.Info, fd *ast.FuncDecl, obj types.Object, name string) []ast.Expr {
	var out []ast.Expr
	isField := func(e ast.Expr) bool {
		sel, ok := ast.Unparen(e).(*ast.SelectorExpr)
		if !ok || sel.Sel.Name != name {
			return false
		}
		id := identOf(sel.X)
		return id != nil && objOf(info, id) == obj
	}
	ast.Inspect(fd, func(n ast.Node) bool {
		as, ok := n.(*ast.AssignStmt)
		if !ok {
			return true
		}
		for i, l := range as.Lhs {
			if i >= len(as.Rhs) {
				break
			}
			if isField(l) {
				out = append(out, as.Rhs[i])
			}
			if ix, ok := ast.Unparen(l).(*ast.IndexExpr); ok && isField(ix.X) {
				out = append(out, as.Rhs[i])
			}
			if id := identOf(l); id != nil && objOf(info, id) == obj {
				if cl, ok := ast.Unparen(as.Rhs[i]).(*ast.CompositeLit); ok {
					for _, el := range cl.Elts {
						if kv, ok := el.(*ast.KeyValueExpr); ok && es(kv.Key) == name {
							out = append(out, kv.Value)
						}
					}
				}
			}
		}
		return true
	})
	return out
}

package main

func init() { register("C07", "other", checkC07) }

func checkC07(w *World, r *Result) {
	r.Explanation = "Decides non-interference of every nondeterminism source with generated text, over all production packages: ORD-1 each range over a map has an order-insensitive body (stores keyed by the range key or of constants, receiver-confined calls on the value, appends that are sorted by a total order before any other use) or a justified entry whose side condition is re-checked; ORD-2 no clock, randomness, environment, process identity or directory listing in analysis/generator packages; ORD-3 no token.Pos or raw pointer/func/chan/map value is formatted into non-diagnostic text; ORD-4 goroutines and channel operations only in package cmd, after generation; ORD-5 multi-pass sorts are stable after the first pass (see C19). If all sources are non-interfering, sequential Go code is a function of its input: for the clause 'no output depends on map order, pointer values, clocks' this is (modulo the justified table) a sufficient argument. Does not decide: independence from the order in which types are visited, which additionally needs equal declaration IDs to carry equal content."
	r.Rules = []string{"ORD-1 map ranges", "ORD-2 ambient sources", "ORD-3 formatted positions/pointers", "ORD-4 concurrency", "ORD-5 stable later passes", "PKG-ID", "SORT-PAR", "ALIAS-APPEND", "STATE-PKG", "MUT-AN", "RANGE-INSERT", "POS-ORDER", "UNUSED-PURE", "ORD-1 iterators (maps.Keys/Values/All)", "SEP-INDEX", "WORKLIST-RANGE", "CUTSET", "SHIFT-SKIP"}
	posOrderRule(w, r, nil)
	mutAnRule(w, r, nil)
	rangeInsertRule(w, r, nil)
	statePkgRule(w, r, nil)
	aliasAppendRule(w, r, nil)
	r.Assumptions = []string{"sort.Slice is deterministic for a given input sequence", "go/types scope.Names() is sorted (documented)", "justified map-loop table (6 entries with re-checked side conditions)"}
	for _, a := range []string{"generator.WriteDeclarations", "generator.(Cache).Imports", "analysis.(*Struct).setImplements", "analysis.fetchPkgEnums", "analysis.fetchPkgUnions", "generator/dart.Generate", "cmd.(Config).run"} {
		w.MustFunc(a)
	}
	pkgIDRule(w, r, nil)
	if sortParallelRule(w, r, nil) < 2 {
		Undecided("SORT-PAR: fewer sort.Slice calls than confirmed by hand")
	}
	n1 := runORD1(w, r, nil)
	runORD6(w, r, nil)
	unusedPureRule(w, r, nil)
	n2 := runORD2(w, r)
	n3 := runORD3(w, r)
	n4 := runORD4(w, r)
	r.note("map_ranges", n1)
	r.note("resolved_calls_scanned", n2)
	r.note("format_operands_scanned", n3)
	r.note("concurrency_sites", n4)
	if n1 < 8 {
		Undecided("only %d map ranges found: enumeration no longer matches the code", n1)
	}
	// ORD-5 reuse: stability of later passes in WriteDeclarations
	sub := &Result{Prop: "C19"}
	checkC19(w, sub)
	for _, o := range sub.Obs {
		if o.Rule == "ORD-5" {
			r.add(o)
		}
	}
}

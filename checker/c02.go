package main

// C02: union JSON round trip, Kind/Data wire format.

import (
	"go/ast"
	"go/constant"
	"go/parser"
	"go/token"
	"go/types"
	"sort"
	"strings"
)

func init() { register("C02", "other", checkC02) }

func checkC02(w *World, r *Result) {
	r.Explanation = "Decides structural necessary conditions on generator/go/gounions (and the union table it consumes): TPL-C02a in every instantiation of the union template the marshalling wrapper is a struct with exactly the untagged fields Kind string / Data any and the unmarshalling one Kind string / Data json.RawMessage, the Marshal switch is on item.Data.(type) and the Unmarshal switch on wr.Kind, both ending in a default; AGR-C02b the Kind literal written and the Kind literal matched are the same value, the member's local Go type name (the vocabulary the TypeScript, Dart and SQL generators use too); AGR-C02c one encoding case and one decoding case per member, appended in the same loop iteration; the shadow struct gets one field, one to-wrapper and one from-wrapper entry per field of the struct, in lock-step; FLW-C02d the struct tag of every mirrored field is carried into the shadow struct (so every other field keeps the key encoding/json gives it); AGR-C02e every field type is handed to the generator whether or not the struct itself needs a wrapper (nested types in other files get their methods); AGR-C02w a field is replaced by its wrapper exactly when its analysed type is a union, with `<Union>Wrapper{item.F}` on the way out and `wr.F.Data` on the way in; TPL-C02f named slices/maps of unions wrap and unwrap element-wise; AGR-C11f the union table lists every implementer (rule shared with C11); TPL-1 the templates parse. Does not decide: deep equality of the round trip, nil/empty equivalence, encoding/json's behaviour on the shadow struct."
	r.Rules = []string{"TPL-C02a", "AGR-C02b", "AGR-C02c", "FLW-C02d", "AGR-C02e", "AGR-C02w", "TPL-C02f", "TPL-C02g", "TPL-C02m", "AGR-C11f", "TPL-1", "ALIAS-APPEND", "PRINTF", "CACHE-DROP", "AGR-C11c", "DECL-ID"}
	declIDRule(w, r, "generator/go/gounions")
	// the union table consumed by the templates: candidates are the defined named types of the scope, each once (rule shared with C11)
	checkCandidates(w, r)
	cacheDropRule(w, r, func(rel string) bool { return rel == "generator/go/gounions" })
	printfRule(w, r, "generator/go/gounions")
	aliasAppendRule(w, r, func(rel string) bool { return rel == "analysis" || rel == "generator/go/gounions" })
	kindProvenance(w, r, "AGR-C02b", "generator/go/gounions.jsonForUnion", 2)
	checkUnionTemplate(w, r)
	checkUnionLockstep(w, r)
	checkShadowStruct(w, r)
	checkElementWise(w, r)
	sub := &Result{}
	checkMemberFilter(w, sub)
	checkUnionNode(w, sub)
	// which embedded fields are flattened decides the keys the shadow struct writes (rule shared with C09)
	checkFlatten(w, sub)
	for _, o := range sub.Obs {
		r.add(o)
	}
	runTPLGo(w, r, "generator/go/gounions", 2)
	checkMarshalByValue(w, r)
}

// checkMarshalByValue (TPL-C02m): the generated MarshalJSON has a value receiver, so for the original type
// encoding/json sees fields that are not addressable and does not call marshalers declared on the pointer of a field's
// type. The wrapper must be handed to json.Marshal the same way: by value. `json.Marshal(&wr)` makes every field of
// the wrapper addressable, and a sibling field whose type has a pointer-receiver MarshalJSON / MarshalText is then
// encoded by that method: the wire format of a field that has nothing to do with the union changes.
func checkMarshalByValue(w *World, r *Result) {
	var texts []struct {
		label, pos, text string
	}
	for _, d := range extractDecls(w, "generator/go/gounions") {
		if _, bad := hasUnknown(d.content); bad {
			continue // reported by TPL-1
		}
		for _, in := range instances(d.content, 1) {
			texts = append(texts, struct{ label, pos, text string }{d.label, w.Pos(d.pos), in.text})
		}
	}
	ufi := w.MustFunc("generator/go/gounions.jsonForUnion")
	for _, in := range instancesOfFunc(w, "generator/go/gounions.jsonForUnion", 1) {
		texts = append(texts, struct{ label, pos, text string }{ufi.Name, fnPos(w, ufi), in.text})
	}
	n := 0
	badAt := map[string]string{}
	seen := map[string]bool{}
	for _, t := range texts {
		f, err := parser.ParseFile(token.NewFileSet(), "gen.go", goSource(t.text), parser.SkipObjectResolution)
		if err != nil {
			continue
		}
		for _, d := range f.Decls {
			fd, ok := d.(*ast.FuncDecl)
			if !ok || fd.Name.Name != "MarshalJSON" || fd.Body == nil {
				continue
			}
			ast.Inspect(fd.Body, func(x ast.Node) bool {
				call, ok := x.(*ast.CallExpr)
				if !ok || len(call.Args) != 1 || types.ExprString(call.Fun) != "json.Marshal" {
					return true
				}
				n++
				seen[t.label+"|"+t.pos] = true
				if u, ok := ast.Unparen(call.Args[0]).(*ast.UnaryExpr); ok && u.Op == token.AND {
					badAt[t.label+"|"+t.pos] = types.ExprString(call.Args[0])
				}
				return true
			})
		}
	}
	var keys []string
	for k := range seen {
		keys = append(keys, k)
	}
	sort.Strings(keys)
	for _, k := range keys {
		parts := strings.SplitN(k, "|", 2)
		arg, bad := badAt[k]
		r.cond(!bad, "TPL-C02m", parts[0], "generated MarshalJSON hands its wrapper to json.Marshal by value", parts[1],
			"the wrapper is marshalled by value, as encoding/json marshals the original value-receiver type: fields are not addressable",
			"the generated MarshalJSON calls json.Marshal("+arg+"): through the pointer the wrapper's fields are addressable, so a sibling field whose type declares MarshalJSON/MarshalText on its pointer receiver is encoded by that method although the original struct, marshalled by value, never calls it — the wire format of that field changes")
	}
	if n == 0 {
		Undecided("TPL-C02m: no json.Marshal call found in a generated MarshalJSON")
	}
}

// instancesOfFunc: instantiations of the string a function returns.
func instancesOfFunc(w *World, q string, maxRep int) []instance {
	fi := w.MustFunc(q)
	ev := &tplEval{w: w, inProg: map[*types.Func]bool{}, paramBusy: map[types.Object]bool{}}
	fc := newFctx(fi.Pkg, fi.Decl)
	var rets []Sketch
	ast.Inspect(fi.Decl.Body, func(n ast.Node) bool {
		if _, ok := n.(*ast.FuncLit); ok {
			return false
		}
		if ret, ok := n.(*ast.ReturnStmt); ok && len(ret.Results) == 1 {
			rets = append(rets, ev.eval(fc, ret.Results[0]))
		}
		return true
	})
	var out []instance
	for _, s := range rets {
		if why, bad := hasUnknown(s); bad {
			Undecided("template returned by %s has a hole the evaluator cannot classify: %s", q, why)
		}
		out = append(out, instances(s, maxRep)...)
	}
	return out
}

func checkUnionTemplate(w *World, r *Result) {
	q := "generator/go/gounions.jsonForUnion"
	fi := w.MustFunc(q)
	insts := instancesOfFunc(w, q, 2)
	if len(insts) == 0 {
		Undecided("no instantiation of the union template")
	}
	nOK := 0
	badExit := false
	for _, in := range insts {
		fset := token.NewFileSet()
		f, err := parser.ParseFile(fset, "gen.go", goSource(in.text), parser.SkipObjectResolution)
		if err != nil {
			r.bad("TPL-1", fi.Name, "union template", fnPos(w, fi), "an instantiation does not parse: "+err.Error())
			return
		}
		var marshal, unmarshal *ast.FuncDecl
		for _, d := range f.Decls {
			if fd, ok := d.(*ast.FuncDecl); ok {
				switch fd.Name.Name {
				case "MarshalJSON":
					marshal = fd
				case "UnmarshalJSON":
					unmarshal = fd
				}
			}
		}
		if marshal == nil || unmarshal == nil {
			r.bad("TPL-C02a", fi.Name, "MarshalJSON/UnmarshalJSON pair", fnPos(w, fi), "the union template does not define both methods")
			return
		}
		fields := func(fd *ast.FuncDecl) (map[string]string, bool) {
			out := map[string]string{}
			tagged := false
			ast.Inspect(fd, func(n ast.Node) bool {
				st, ok := n.(*ast.StructType)
				if !ok || len(out) > 0 {
					return true
				}
				for _, fl := range st.Fields.List {
					if fl.Tag != nil {
						tagged = true
					}
					for _, nm := range fl.Names {
						out[nm.Name] = types.ExprString(fl.Type)
					}
				}
				return true
			})
			return out, tagged
		}
		mf, mt := fields(marshal)
		uf, ut := fields(unmarshal)
		mOK := len(mf) == 2 && mf["Kind"] == "string" && (mf["Data"] == "any" || mf["Data"] == "interface{}") && !mt
		uOK := len(uf) == 2 && uf["Kind"] == "string" && uf["Data"] == "json.RawMessage" && !ut
		// switches
		var mSwitch *ast.TypeSwitchStmt
		var uSwitch *ast.SwitchStmt
		ast.Inspect(marshal, func(n ast.Node) bool {
			if s, ok := n.(*ast.TypeSwitchStmt); ok {
				mSwitch = s
			}
			return true
		})
		ast.Inspect(unmarshal, func(n ast.Node) bool {
			if s, ok := n.(*ast.SwitchStmt); ok {
				uSwitch = s
			}
			return true
		})
		sOK := mSwitch != nil && uSwitch != nil && uSwitch.Tag != nil && types.ExprString(uSwitch.Tag) == "wr.Kind"
		if sOK {
			if as, ok := mSwitch.Assign.(*ast.AssignStmt); ok {
				ta, isTA := as.Rhs[0].(*ast.TypeAssertExpr)
				sOK = isTA && ta.Type == nil && types.ExprString(ta.X) == "item.Data"
			} else {
				sOK = false
			}
		}
		if sOK {
			// one case per member on both sides + a default; case counts agree
			mc, uc, md, ud := 0, 0, false, false
			for _, cl := range mSwitch.Body.List {
				if cl.(*ast.CaseClause).List == nil {
					md = true
				} else {
					mc++
				}
			}
			for _, cl := range uSwitch.Body.List {
				if cl.(*ast.CaseClause).List == nil {
					ud = true
				} else {
					uc++
				}
			}
			sOK = md && ud && mc == uc && mc == in.rep
		}
		// TPL-C02g: between the decoding of the wrapper and the Kind switch, the only early exit is the error of
		// json.Unmarshal: every successfully decoded wrapper reaches the dispatch
		if sOK {
			for _, st := range unmarshal.Body.List {
				if st.Pos() >= uSwitch.Pos() {
					break
				}
				ast.Inspect(st, func(n ast.Node) bool {
					is, ok := n.(*ast.IfStmt)
					if !ok {
						return true
					}
					exits := false
					ast.Inspect(is.Body, func(m ast.Node) bool {
						if _, ok := m.(*ast.ReturnStmt); ok {
							exits = true
						}
						return true
					})
					if !exits {
						return true
					}
					c := types.ExprString(is.Cond)
					if be, ok := is.Cond.(*ast.BinaryExpr); !(ok && be.Op == token.NEQ && types.ExprString(be.Y) == "nil" && isIdentExpr(be.X)) {
						r.bad("TPL-C02g", fi.Name, "early exit before the Kind switch: if "+c, fnPos(w, fi), "the generated UnmarshalJSON returns before the switch on wr.Kind under `"+c+"`, which is not the error test of json.Unmarshal: a well-formed {Kind, Data} document can bypass the dispatch and the union comes back nil (member identity lost)")
						badExit = true
					}
					return true
				})
			}
		}
		if mOK && uOK && sOK {
			nOK++
		} else {
			r.bad("TPL-C02a", fi.Name, "wire format of the union wrapper", fnPos(w, fi), "an instantiation of the union template does not have the wire shape {Kind string, Data <member JSON>} (marshal fields "+mapStr(mf)+", unmarshal fields "+mapStr(uf)+"; tags or switch subjects differ)")
			return
		}
	}
	if !badExit {
		r.ok("TPL-C02g", fi.Name, "every decoded wrapper reaches the Kind switch", fnPos(w, fi), "in all instantiations the only return before the switch on wr.Kind is under `err != nil`", true)
	}
	r.ok("TPL-C02a", fi.Name, "wire format of the union wrapper", fnPos(w, fi), "all "+itoa(nOK)+" instantiations: untagged {Kind string; Data any} / {Kind string; Data json.RawMessage}, type switch on item.Data, switch on wr.Kind, one case per member on both sides plus default", true)
}

func mapStr(m map[string]string) string {
	var ks []string
	for k, v := range m {
		ks = append(ks, k+" "+v)
	}
	sortStrings(ks)
	return "{" + strings.Join(ks, "; ") + "}"
}

func sortStrings(s []string) {
	for i := 1; i < len(s); i++ {
		for j := i; j > 0 && s[j] < s[j-1]; j-- {
			s[j], s[j-1] = s[j-1], s[j]
		}
	}
}

func itoa(n int) string {
	if n == 0 {
		return "0"
	}
	s := ""
	for n > 0 {
		s = string(rune('0'+n%10)) + s
		n /= 10
	}
	return s
}

// loopAppendsOnce: every list appended inside loop grows exactly once per iteration, unconditionally.
func loopAppendsOnce(fi *FuncInfo, loop *ast.RangeStmt) (targets []string, ok bool, why string) {
	info := fi.Pkg.TypesInfo
	per := map[string]int{}
	ok = true
	for _, ac := range accumStmts(info, fi.Decl, loop) {
		a := ac.stmt
		t := ac.target
		conds := 0
		for _, c := range pathCondsNoLoop(fi, a) {
			if c.expr != nil && c.expr.Pos() >= loop.Body.Pos() && c.expr.End() <= loop.Body.End() {
				conds++
			}
		}
		if conds > 0 {
			ok = false
			why = t + " is appended conditionally"
		}
		per[t]++
	}
	for t, n := range per {
		targets = append(targets, t)
		if n != 1 {
			ok = false
			why = t + " is appended " + itoa(n) + " times per iteration"
		}
	}
	sortStrings(targets)
	return
}

func checkUnionLockstep(w *World, r *Result) {
	fi := w.MustFunc("generator/go/gounions.jsonForUnion")
	var loop *ast.RangeStmt
	ast.Inspect(fi.Decl.Body, func(x ast.Node) bool {
		if rs, ok := x.(*ast.RangeStmt); ok && strings.HasSuffix(es(rs.X), ".Members") {
			loop = rs
		}
		return true
	})
	if loop == nil {
		Undecided("jsonForUnion: no loop over Members")
	}
	targets, ok, why := loopAppendsOnce(fi, loop)
	// the two directions are told apart by what is accumulated: a decoding case switches on the Kind string
	// (`case %q:`), an encoding case on the Go type (`case %s:`)
	hasFrom, hasTo := false, false
	info := fi.Pkg.TypesInfo
	for _, ac := range accumStmts(info, fi.Decl, loop) {
		for _, v := range ac.values {
			exprs := []ast.Expr{v}
			if id := identOf(v); id != nil {
				exprs = append(exprs, defsIn(info, fi.Decl, objOf(info, id))...)
			}
			for _, e := range exprs {
				call, ok := ast.Unparen(e).(*ast.CallExpr)
				if !ok || len(call.Args) == 0 {
					continue
				}
				if tv := info.Types[call.Args[0]]; tv.Value != nil && tv.Value.Kind() == constant.String {
					f := strings.TrimSpace(constant.StringVal(tv.Value))
					if strings.HasPrefix(f, "case %q") {
						hasFrom = true
					}
					if strings.HasPrefix(f, "case %s") {
						hasTo = true
					}
				}
			}
		}
	}
	r.cond(ok && hasFrom && hasTo, "AGR-C02c", fi.Name, "one decoding and one encoding case per member", w.Pos(loop.Pos()), "lists {"+strings.Join(targets, ", ")+"} each grow exactly once per member, unconditionally", "the encoding and decoding cases are not appended once per member in lock-step ("+why+"): a member can be encoded but not decoded")
}

func checkShadowStruct(w *World, r *Result) {
	fi := w.MustFunc("generator/go/gounions.(context).codeForStruct")
	info := fi.Pkg.TypesInfo
	var loops []*fieldLoop
	for _, l := range fieldLoops(w) {
		if l.fn == fi && l.kind == "StructField" {
			loops = append(loops, l)
		}
	}
	gen0 := w.MustFunc("generator/go/gounions.(context).generate")
	var rec, mir *fieldLoop
	for _, l := range loops {
		hasGen, hasDef := false, false
		ast.Inspect(l.rs.Body, func(x ast.Node) bool {
			if call, ok := x.(*ast.CallExpr); ok && calleeOf(info, call) == gen0.Obj {
				hasGen = true
			}
			return true
		})
		// the mirroring loop is the one that builds several per-field lists (definition, to-wrapper, from-wrapper)
		tg := map[string]bool{}
		for _, a := range accumStmts(info, fi.Decl, l.rs) {
			tg[a.target] = true
		}
		hasDef = len(tg) >= 2
		if hasGen && rec == nil {
			rec = l
		}
		if hasDef && mir == nil {
			mir = l
		}
	}
	if rec == nil || mir == nil {
		Undecided("gounions.codeForStruct: the recursion loop or the mirroring loop was not found")
	}
	// AGR-C02e: recursion into every field type (except gomacro:"ignore") before any early return
	gen := w.MustFunc("generator/go/gounions.(context).generate")
	okRec := false
	var recWhy []string
	ast.Inspect(rec.rs.Body, func(x ast.Node) bool {
		call, ok := x.(*ast.CallExpr)
		if !ok || calleeOf(info, call) != gen.Obj {
			return true
		}
		okRec = render(info, call.Args[0], rec.subst) == "$f.Type"
		for _, c := range pathCondsNoLoop(fi, call) {
			s := es(c.expr)
			if !c.truth {
				s = "!(" + s + ")"
			}
			if strings.Contains(s, `"gomacro"`) && strings.Contains(s, `"ignore"`) {
				continue
			}
			okRec = false
			recWhy = append(recWhy, s)
		}
		return true
	})
	r.cond(okRec, "AGR-C02e", fi.Name, "every field type is generated", w.Pos(rec.rs.Pos()), "ctx.generate(field.Type) for every field (unless gomacro:\"ignore\"), before and independently of the test whether the struct itself needs a wrapper", "the recursion into the field types is subject to {"+strings.Join(recWhy, " ; ")+"} (or missing): nested structs, named slices and maps declared elsewhere get no MarshalJSON/UnmarshalJSON although the struct that uses them is analysed")
	// AGR-C02v: whether the struct needs the shadow struct at all is decided on EVERY field: the statement that
	// records "this field is a union" is reached for each field, whatever the recursion above it does (a `continue`
	// for an ignored field placed before it makes a struct whose only union fields are ignored lose its wrapper)
	{
		nflag := 0
		for _, l := range loops {
			ast.Inspect(l.rs.Body, func(x ast.Node) bool {
				as, ok := x.(*ast.AssignStmt)
				if !ok || len(as.Lhs) != 1 || len(as.Rhs) != 1 {
					return true
				}
				lid := identOf(as.Lhs[0])
				if lid == nil {
					return true
				}
				if b, isB := info.TypeOf(lid).Underlying().(*types.Basic); !isB || b.Kind() != types.Bool {
					return true
				}
				// a boolean local of the function, declared outside the loop, that decides an early return after it
				obj := objOf(info, lid)
				if obj == nil || (obj.Pos() >= l.rs.Pos() && obj.Pos() <= l.rs.End()) {
					return true
				}
				decides := false
				ast.Inspect(fi.Decl.Body, func(y ast.Node) bool {
					if is, ok := y.(*ast.IfStmt); ok && is.Pos() > l.rs.End() && terminates(is.Body) {
						for _, c := range splitCond(is.Cond, true) {
							if id := identOf(c.expr); id != nil && objOf(info, id) == obj {
								decides = true
							}
						}
					}
					return true
				})
				if !decides {
					return true
				}
				nflag++
				// conditions other than the union test itself
				var extra []string
				for _, c := range reachConds(info, fi.Decl, l.rs, as, l.subst) {
					if strings.Contains(c, "requireWrapper") || strings.Contains(c, "Union") {
						continue
					}
					extra = append(extra, c)
				}
				r.cond(len(extra) == 0, "AGR-C02v", fi.Name, "wrapper decision reads every field: "+es(as.Lhs[0])+" = "+es(as.Rhs[0]), w.Pos(as.Pos()),
					"the flag is updated for each field of the struct, under no condition but the union test",
					"the statement recording that a field is a union is only reached under {"+strings.Join(extra, ", ")+"}: a struct whose union fields all fall outside that condition gets no MarshalJSON/UnmarshalJSON and its union fields are written without Kind/Data")
				return true
			})
		}
		_ = nflag
	}
	// mirroring loop: no filter, lists in lock-step
	guards, _ := loopFilterSplit(info, fi.Decl, mir.rs, mir.subst)
	targets, ok, why := loopAppendsOnce(fi, mir.rs)
	r.cond(len(guards) == 0 && ok && len(targets) == 3, "AGR-C02c", fi.Name, "shadow struct mirrors every field", w.Pos(mir.rs.Pos()), "field definition, to-wrapper and from-wrapper entries {"+strings.Join(targets, ", ")+"} grow once per field, no field skipped", "the shadow struct does not mirror every field in lock-step ("+why+"; filters: "+strings.Join(guards, ", ")+")")
	// FLW-C02d: the tag reaches the field definition
	// one of the per-field lists (the field definitions) must depend on the field's tag
	var defApp *ast.AssignStmt
	tagFlows := false
	for _, a := range accumStmts(info, fi.Decl, mir.rs) {
		if defApp == nil {
			defApp = a.stmt
		}
		pc := &pathCtx{w: w, fi: fi, seen: map[types.Object]bool{}, noParams: true}
		ps := map[string]bool{}
		for _, v := range a.values {
			pc.pathsOf(v, 0, ps)
		}
		for p := range ps {
			if strings.HasSuffix(p, ".Tag") || strings.Contains(p, ".Tag.") || strings.Contains(p, ".Tag(") {
				tagFlows = true
				defApp = a.stmt
			}
		}
	}
	if defApp == nil {
		Undecided("gounions.codeForStruct: no per-field list found in the mirroring loop")
	}
	r.cond(tagFlows, "FLW-C02d", fi.Name, "struct tags carried into the shadow struct", w.Pos(defApp.Pos()), "the field definition is built from the field's name, type and tag", "the shadow struct's fields are declared without the original struct tags: a field tagged `json:\"a\"` is written under the key `A`, `json:\"-\"` fields appear, omitempty is lost")
	// AGR-C02w: wrapper exactly for union-typed fields
	// the branch that installs the wrapper conversions is taken exactly when the field's analysed type is a union:
	// its condition is the ok of `field.Type.(*an.Union)`, written in place or behind a predicate of the package
	isUnionAssert := func(e ast.Expr) bool {
		ta, ok := ast.Unparen(e).(*ast.TypeAssertExpr)
		return ok && ta.Type != nil && strings.HasSuffix(es(ta.Type), "Union") && strings.HasSuffix(es(ta.X), ".Type")
	}
	okOfUnionAssert := func(fd *ast.FuncDecl, e ast.Expr) bool {
		id := identOf(e)
		if id == nil {
			return false
		}
		for _, d := range defsIn(info, fd, objOf(info, id)) {
			if isUnionAssert(d) {
				return true
			}
		}
		return false
	}
	okRW, wrapOK := false, false
	ast.Inspect(mir.rs.Body, func(x ast.Node) bool {
		is, ok := x.(*ast.IfStmt)
		if !ok {
			return true
		}
		txt := ""
		ast.Inspect(is.Body, func(y ast.Node) bool {
			if bl, ok := y.(*ast.BasicLit); ok {
				txt += bl.Value
			}
			// concatenations read as the equivalent format
			if as, ok := y.(*ast.AssignStmt); ok {
				for _, rhs := range as.Rhs {
					if sp := sprintfView(info, rhs); sp != nil {
						if f, _ := verbArgs(info, sp); f != "" {
							txt += " " + f
						}
					}
				}
			}
			return true
		})
		if !strings.Contains(txt, "Wrapper") {
			return true
		}
		wrapOK = strings.Contains(txt, "%s{item.%s}") && strings.Contains(txt, "wr.%s.Data")
		cond := ast.Unparen(is.Cond)
		if okOfUnionAssert(fi.Decl, cond) {
			okRW = true
		}
		if call, ok := cond.(*ast.CallExpr); ok {
			if h := w.Funcs[calleeOf(info, call)]; h != nil && h.Decl.Body != nil {
				ast.Inspect(h.Decl.Body, func(y ast.Node) bool {
					ret, ok := y.(*ast.ReturnStmt)
					if !ok || len(ret.Results) != 1 {
						return true
					}
					if okOfUnionAssert(h.Decl, ret.Results[0]) {
						okRW = true
					}
					// the predicate may take the type itself: `isUnion(field.Type)` with `_, ok := ty.(*an.Union)`
					if id := identOf(ret.Results[0]); id != nil {
						for _, d := range defsIn(info, h.Decl, objOf(info, id)) {
							ta, isTA := ast.Unparen(d).(*ast.TypeAssertExpr)
							if !isTA || ta.Type == nil || !strings.HasSuffix(es(ta.Type), "Union") || identOf(ta.X) == nil {
								continue
							}
							if pi := paramIndex(h, objOf(info, identOf(ta.X))); pi >= 0 && pi < len(call.Args) && strings.HasSuffix(es(call.Args[pi]), ".Type") {
								okRW = true
							}
						}
					}
					return true
				})
			}
		}
		return true
	})
	r.cond(okRW && wrapOK, "AGR-C02w", fi.Name, "wrapper exactly for union-typed fields", w.Pos(mir.rs.Pos()), "requireWrapper tests field.Type.(*Union); such a field becomes <T>Wrapper{item.F} on the way out and wr.F.Data on the way in", "a field is not replaced by its union wrapper exactly when its analysed type is a union, or the in/out conversions are not <T>Wrapper{item.F} / wr.F.Data")
}

func checkElementWise(w *World, r *Result) {
	type want struct {
		fn       string
		patterns []string
	}
	for _, wt := range []want{
		{"generator/go/gounions.jsonForArray", []string{"tmp[i].Data = v", "(*list)[i] = v.Data", "json.Marshal(tmp)", "json.Unmarshal(data, &tmp)"}},
		{"generator/go/gounions.jsonForMap", []string{"tmp[k] =", "(*dict)[i] = v.Data", "json.Marshal(tmp)", "json.Unmarshal(src, &wr)"}},
	} {
		fi := w.MustFunc(wt.fn)
		insts := instancesOfFunc(w, wt.fn, 1)
		good := len(insts) > 0
		missing := ""
		for _, in := range insts {
			fset := token.NewFileSet()
			f, err := parser.ParseFile(fset, "gen.go", goSource(in.text), parser.SkipObjectResolution)
			if err != nil {
				good = false
				missing = "does not parse: " + err.Error()
				break
			}
			// collect statements as text
			stmts := map[string]bool{}
			var texts []string
			ast.Inspect(f, func(n ast.Node) bool {
				switch s := n.(type) {
				case *ast.AssignStmt:
					var l, rr []string
					for _, x := range s.Lhs {
						l = append(l, types.ExprString(x))
					}
					for _, x := range s.Rhs {
						rr = append(rr, types.ExprString(x))
					}
					t := strings.Join(l, ", ") + " " + s.Tok.String() + " " + strings.Join(rr, ", ")
					stmts[t] = true
					texts = append(texts, t)
				case *ast.CallExpr:
					texts = append(texts, types.ExprString(s))
				}
				return true
			})
			for _, p := range wt.patterns {
				found := false
				for _, t := range texts {
					if strings.Contains(t, p) {
						found = true
					}
				}
				if !found {
					good = false
					missing = "no `" + p + "` statement"
				}
			}
		}
		r.cond(good, "TPL-C02f", fi.Name, "element-wise wrapping and unwrapping", fnPos(w, fi), "each element is wrapped on Marshal and its Data taken back on Unmarshal: "+strings.Join(wt.patterns, "; "), "the named slice/map template does not wrap every element and restore every element's Data ("+missing+")")
	}
}

func isIdentExpr(e ast.Expr) bool {
	_, ok := e.(*ast.Ident)
	return ok
}

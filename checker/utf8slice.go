package main

// UTF8-SLICE: a string that may hold a user identifier is never sliced at a constant byte offset.
//
// Go identifiers may contain any Unicode letter; s[:3], s[0:1], s[1:] cut at a byte offset and split a multi-byte
// character, which puts invalid UTF-8 into the generated file (the Go, Dart, SQL or TypeScript compiler then
// rejects it). Obligations: every slice expression on a string-typed operand with a non-zero constant bound (or
// len(s)-c) in the production packages. Discharges: the bound is the length of an ASCII constant the operand was
// tested to start/end with on every path (strings.HasPrefix/HasSuffix on the operand itself); the operand is a
// match of a constant regular expression whose literal ASCII prefix/suffix covers the bound. Bounds that come
// from utf8.DecodeRuneInString, strings.Index, a range loop etc. are not constants and are not obligations.

import (
	"go/ast"
	"go/constant"
	"go/token"
	"go/types"
	"regexp/syntax"
	"strings"
)

var justifiedUTF8 = map[string]string{
	"analysis/sql.isTableID|$string[2:]":                "guarded by HasPrefix(strings.ToLower(name), \"id\"): the two letters removed lower-case to ASCII i and d; assumption stated: they are the ASCII letters themselves (U+0130 and U+212A, which also lower-case to ASCII, are not used in type names)",
	"analysis/sql.isTableID|$string[:len($string) - 2]": "guarded by HasSuffix(strings.ToLower(name), \"id\"): same argument as for the prefix form",
}

func utf8SliceRule(w *World, r *Result, only func(rel string) bool) int {
	n := 0
	for _, fi := range sortedFuncs(w) {
		if fi.Decl.Body == nil || (only != nil && !only(w.Rel(fi.Obj.Pkg()))) {
			continue
		}
		info := fi.Pkg.TypesInfo
		ast.Inspect(fi.Decl.Body, func(x ast.Node) bool {
			se, ok := x.(*ast.SliceExpr)
			if !ok {
				return true
			}
			t := info.TypeOf(se.X)
			if t == nil {
				return true
			}
			if b, ok := t.Underlying().(*types.Basic); !ok || b.Info()&types.IsString == 0 {
				return true
			}
			lo, loConst := boundConst(info, se.Low, se.X)
			hi, hiConst := boundConst(info, se.High, se.X)
			if (!loConst || lo == 0) && (!hiConst || hi == 0) {
				return true // s[:], s[0:], s[i:j] with computed bounds
			}
			if se.Low == nil && se.High == nil {
				return true
			}
			n++
			cons := es(se)
			pos := w.Pos(se.Pos())
			// constant operand: harmless
			if tv := info.Types[se.X]; tv.Value != nil {
				r.ok("UTF8-SLICE", fi.Name, cons, pos, "constant operand", false)
				return true
			}
			okLo := !loConst || lo == 0
			okHi := !hiConst || hi == 0
			why := []string{}
			for _, c := range pathConds(fi.Decl, se) {
				if c.expr == nil || !c.truth {
					continue
				}
				call, ok := ast.Unparen(c.expr).(*ast.CallExpr)
				if !ok || len(call.Args) != 2 {
					continue
				}
				f := fullName(calleeOf(info, call))
				tv := info.Types[call.Args[1]]
				if tv.Value == nil || tv.Value.Kind() != constant.String || es(call.Args[0]) != es(se.X) {
					continue
				}
				lit := constant.StringVal(tv.Value)
				if !isASCII(lit) {
					continue
				}
				if f == "strings.HasPrefix" && loConst && lo == len(lit) {
					okLo = true
					why = append(why, "the operand starts with the ASCII constant "+tv.Value.ExactString())
				}
				if f == "strings.HasSuffix" && hiConst && hi == -len(lit) {
					okHi = true
					why = append(why, "the operand ends with the ASCII constant "+tv.Value.ExactString())
				}
			}
			if !okLo || !okHi {
				if pre, suf, ok := regexpLiteralEnds(w, info, fi, se.X); ok {
					if loConst && lo > 0 && lo <= pre {
						okLo = true
						why = append(why, "the operand is a match of a constant regular expression with an ASCII literal prefix of that length")
					}
					if hiConst && hi < 0 && -hi <= suf {
						okHi = true
						why = append(why, "the operand is a match of a constant regular expression with an ASCII literal suffix of that length")
					}
				}
			}
			if okLo && okHi {
				r.ok("UTF8-SLICE", fi.Name, cons, pos, strings.Join(why, "; "), true)
				return true
			}
			if j, ok := justifiedUTF8[fi.Name+"|"+normLocals(info, se)]; ok {
				r.justified("UTF8-SLICE", fi.Name, cons, pos, j)
				return true
			}
			r.bad("UTF8-SLICE", fi.Name, cons, pos, "a string is cut at a constant byte offset: when it holds a non-ASCII identifier (package aééb, field Élan) the cut falls inside a multi-byte character and the generated file is not valid UTF-8")
			return true
		})
	}
	return n
}

func isASCII(s string) bool {
	for i := 0; i < len(s); i++ {
		if s[i] >= 0x80 {
			return false
		}
	}
	return true
}

// boundConst: e is an integer constant c (returns c) or len(op)-c (returns -c).
func boundConst(info *types.Info, e ast.Expr, op ast.Expr) (int, bool) {
	if e == nil {
		return 0, false
	}
	if c, ok := constInt(info, e); ok {
		return c, true
	}
	if be, ok := ast.Unparen(e).(*ast.BinaryExpr); ok && be.Op == token.SUB {
		if call, ok := ast.Unparen(be.X).(*ast.CallExpr); ok && isBuiltinCall(info, call, "len") && len(call.Args) == 1 && es(call.Args[0]) == es(op) {
			if c, ok := constInt(info, be.Y); ok {
				return -c, true
			}
		}
	}
	return 0, false
}

// regexpLiteralEnds: operand is the parameter of a function literal passed to ReplaceAllStringFunc of a
// package-level regexp compiled from a constant; returns the lengths of its ASCII literal prefix and suffix.
func regexpLiteralEnds(w *World, info *types.Info, fi *FuncInfo, operand ast.Expr) (int, int, bool) {
	id := identOf(operand)
	if id == nil {
		return 0, 0, false
	}
	obj := objOf(info, id)
	pre, suf, found := 0, 0, false
	ast.Inspect(fi.Decl.Body, func(x ast.Node) bool {
		call, ok := x.(*ast.CallExpr)
		if !ok || len(call.Args) != 2 {
			return true
		}
		if fullName(calleeOf(info, call)) != "(*regexp.Regexp).ReplaceAllStringFunc" {
			return true
		}
		lit, ok := call.Args[1].(*ast.FuncLit)
		if !ok || lit.Type.Params.NumFields() != 1 || len(lit.Type.Params.List[0].Names) != 1 || info.Defs[lit.Type.Params.List[0].Names[0]] != obj {
			return true
		}
		// the operand must not be re-assigned before the slice... it is in ReplaceEnums (s = s[2:len(s)-1]) but
		// only by the slice itself; accept a single assignment whose RHS is that slice
		sel, ok := call.Fun.(*ast.SelectorExpr)
		if !ok {
			return true
		}
		pat, ok := regexpPattern(info, fi, sel.X)
		if !ok {
			return true
		}
		re, err := syntax.Parse(pat, syntax.Perl)
		if err != nil {
			return true
		}
		re = re.Simplify()
		if re.Op == syntax.OpConcat && len(re.Sub) > 0 {
			first, last := re.Sub[0], re.Sub[len(re.Sub)-1]
			if first.Op == syntax.OpLiteral && first.Flags&syntax.FoldCase == 0 && isASCII(string(first.Rune)) {
				pre = len(first.Rune)
			}
			if last.Op == syntax.OpLiteral && last.Flags&syntax.FoldCase == 0 && isASCII(string(last.Rune)) {
				suf = len(last.Rune)
			}
			found = true
		}
		return true
	})
	if !found {
		// the operand is the parameter of a helper only ever called on such a match
		if pat, ok := paramRegexpOrigin(w, fi, obj); ok {
			pre, suf, found = literalEnds(pat)
		}
	}
	return pre, suf, found
}

func literalEnds(pat string) (pre, suf int, ok bool) {
	re, err := syntax.Parse(pat, syntax.Perl)
	if err != nil {
		return 0, 0, false
	}
	re = re.Simplify()
	if re.Op == syntax.OpConcat && len(re.Sub) > 0 {
		first, last := re.Sub[0], re.Sub[len(re.Sub)-1]
		if first.Op == syntax.OpLiteral && first.Flags&syntax.FoldCase == 0 && isASCII(string(first.Rune)) {
			pre = len(first.Rune)
		}
		if last.Op == syntax.OpLiteral && last.Flags&syntax.FoldCase == 0 && isASCII(string(last.Rune)) {
			suf = len(last.Rune)
		}
		return pre, suf, true
	}
	return 0, 0, false
}

// regexpPattern: e is a package-level variable initialised by regexp.MustCompile(<constant>).
func regexpPattern(info *types.Info, fi *FuncInfo, e ast.Expr) (string, bool) {
	id := identOf(e)
	if id == nil {
		return "", false
	}
	v, ok := info.Uses[id].(*types.Var)
	if !ok {
		return "", false
	}
	for _, f := range fi.Pkg.Syntax {
		for _, d := range f.Decls {
			gd, ok := d.(*ast.GenDecl)
			if !ok {
				continue
			}
			for _, sp := range gd.Specs {
				vs, ok := sp.(*ast.ValueSpec)
				if !ok {
					continue
				}
				for i, nm := range vs.Names {
					if info.Defs[nm] != types.Object(v) || i >= len(vs.Values) {
						continue
					}
					call, ok := vs.Values[i].(*ast.CallExpr)
					if !ok || len(call.Args) != 1 {
						continue
					}
					if fn := fullName(calleeOf(info, call)); fn != "regexp.MustCompile" {
						continue
					}
					if tv := info.Types[call.Args[0]]; tv.Value != nil && tv.Value.Kind() == constant.String {
						return constant.StringVal(tv.Value), true
					}
				}
			}
		}
	}
	return "", false
}

package main

// C19: declaration assembly (generator.WriteDeclarations).

import (
	"fmt"
	"go/ast"
	"go/constant"
	"go/token"
	"go/types"
	"strings"
)

func init() { register("C19", "other", checkC19) }

// abstract element of the comparator domain
type absDecl struct {
	id   int // rank of the ID among {0,1,2}
	prio bool
}

type cmpEval struct {
	info   *types.Info
	slice  string // name of the sorted slice
	pi, pj types.Object
	a, b   absDecl
	err    string
}

func (e *cmpEval) elem(x ast.Expr) (absDecl, bool) {
	// a comparator that receives the elements themselves (slices.SortFunc, slices.CompactFunc)
	if id := identOf(x); id != nil {
		switch e.info.Uses[id] {
		case e.pi:
			return e.a, true
		case e.pj:
			return e.b, true
		}
	}
	ix, ok := ast.Unparen(x).(*ast.IndexExpr)
	if !ok || es(ix.X) != e.slice {
		return absDecl{}, false
	}
	id := identOf(ix.Index)
	if id == nil {
		return absDecl{}, false
	}
	switch e.info.Uses[id] {
	case e.pi:
		return e.a, true
	case e.pj:
		return e.b, true
	}
	return absDecl{}, false
}

type absVal struct {
	kind string // "bool", "rank"
	b    bool
	r    int
}

func (e *cmpEval) eval(x ast.Expr) absVal {
	switch v := ast.Unparen(x).(type) {
	case *ast.SelectorExpr:
		if d, ok := e.elem(v.X); ok {
			switch v.Sel.Name {
			case "ID":
				return absVal{kind: "rank", r: d.id}
			case "Priority":
				return absVal{kind: "bool", b: d.prio}
			}
		}
		e.err = "comparator reads " + es(v) + " (only .ID and .Priority of the two elements are understood)"
	case *ast.UnaryExpr:
		if v.Op == token.NOT {
			o := e.eval(v.X)
			return absVal{kind: "bool", b: !o.b}
		}
		if v.Op == token.SUB {
			o := e.eval(v.X)
			if o.kind == "int" {
				return absVal{kind: "int", r: -o.r}
			}
		}
		e.err = "operator " + v.Op.String()
	case *ast.BinaryExpr:
		l, r := e.eval(v.X), e.eval(v.Y)
		if e.err != "" {
			return absVal{}
		}
		switch v.Op {
		case token.LAND:
			return absVal{kind: "bool", b: l.b && r.b}
		case token.LOR:
			return absVal{kind: "bool", b: l.b || r.b}
		}
		if l.kind != r.kind {
			e.err = "comparison of different kinds in " + es(v)
			return absVal{}
		}
		var c int
		if l.kind == "rank" || l.kind == "int" {
			c = l.r - r.r
		} else {
			bi := func(b bool) int {
				if b {
					return 1
				}
				return 0
			}
			c = bi(l.b) - bi(r.b)
			if v.Op != token.EQL && v.Op != token.NEQ {
				e.err = "ordering of booleans"
			}
		}
		switch v.Op {
		case token.LSS:
			return absVal{kind: "bool", b: c < 0}
		case token.LEQ:
			return absVal{kind: "bool", b: c <= 0}
		case token.GTR:
			return absVal{kind: "bool", b: c > 0}
		case token.GEQ:
			return absVal{kind: "bool", b: c >= 0}
		case token.EQL:
			return absVal{kind: "bool", b: c == 0}
		case token.NEQ:
			return absVal{kind: "bool", b: c != 0}
		}
		e.err = "operator " + v.Op.String()
	case *ast.Ident:
		if tv, ok := e.info.Types[v]; ok && tv.Value != nil && tv.Value.Kind() == constant.Bool {
			return absVal{kind: "bool", b: constant.BoolVal(tv.Value)}
		}
		e.err = "identifier " + v.Name
	case *ast.CallExpr:
		if f := fullName(calleeOf(e.info, v)); (f == "strings.Compare" || f == "cmp.Compare") && len(v.Args) == 2 {
			l, r := e.eval(v.Args[0]), e.eval(v.Args[1])
			if l.kind != "rank" || r.kind != "rank" {
				e.err = "Compare of something other than the IDs"
				return absVal{}
			}
			return absVal{kind: "int", r: sign(l.r - r.r)}
		}
		e.err = "call " + es(v.Fun)
	case *ast.BasicLit:
		if v.Kind == token.INT {
			var n int
			fmt.Sscanf(v.Value, "%d", &n)
			return absVal{kind: "int", r: n}
		}
		e.err = "literal " + v.Value
	default:
		e.err = fmt.Sprintf("expression %T", x)
	}
	return absVal{}
}

func sign(x int) int {
	if x < 0 {
		return -1
	}
	if x > 0 {
		return 1
	}
	return 0
}

// run evaluates the comparator body (if / else / nested returns) and gives its boolean result; a three-way comparator
// (int result, slices.SortFunc) is "less" when the result is negative.
func (e *cmpEval) run(body *ast.BlockStmt) bool {
	v, ok := e.block(body.List)
	if !ok {
		if e.err == "" {
			e.err = "comparator falls off its end"
		}
		return false
	}
	if v.kind == "int" {
		return v.r < 0
	}
	return v.b
}

// value is run for a comparator whose raw result is needed (equality callbacks of CompactFunc).
func (e *cmpEval) value(body *ast.BlockStmt) (absVal, bool) { return e.block(body.List) }

func (e *cmpEval) block(list []ast.Stmt) (absVal, bool) {
	for _, st := range list {
		switch s := st.(type) {
		case *ast.ReturnStmt:
			if len(s.Results) != 1 {
				e.err = "return arity"
				return absVal{}, false
			}
			v := e.eval(s.Results[0])
			return v, e.err == ""
		case *ast.BlockStmt:
			if v, ok := e.block(s.List); ok || e.err != "" {
				return v, ok
			}
		case *ast.IfStmt:
			if s.Init != nil {
				e.err = "if with init in comparator"
				return absVal{}, false
			}
			c := e.eval(s.Cond)
			if e.err != "" {
				return absVal{}, false
			}
			if c.b {
				if v, ok := e.block(s.Body.List); ok || e.err != "" {
					return v, ok
				}
			} else if s.Else != nil {
				var next []ast.Stmt
				switch el := s.Else.(type) {
				case *ast.BlockStmt:
					next = el.List
				case *ast.IfStmt:
					next = []ast.Stmt{el}
				}
				if v, ok := e.block(next); ok || e.err != "" {
					return v, ok
				}
			}
		case *ast.SwitchStmt:
			// a tagless switch is an if / else-if chain; the first clause whose condition holds is taken
			if s.Init != nil || s.Tag != nil {
				e.err = "switch with init or tag in comparator"
				return absVal{}, false
			}
			var deflt *ast.CaseClause
			taken := false
			for _, cl := range s.Body.List {
				cc := cl.(*ast.CaseClause)
				if cc.List == nil {
					deflt = cc
					continue
				}
				hold := false
				for _, ce := range cc.List {
					c := e.eval(ce)
					if e.err != "" {
						return absVal{}, false
					}
					if c.b {
						hold = true
					}
				}
				if hold {
					taken = true
					if v, ok := e.block(cc.Body); ok || e.err != "" {
						return v, ok
					}
					break
				}
			}
			if !taken && deflt != nil {
				if v, ok := e.block(deflt.Body); ok || e.err != "" {
					return v, ok
				}
			}
		default:
			e.err = fmt.Sprintf("statement %T in comparator", st)
			return absVal{}, false
		}
	}
	return absVal{}, false
}

var absDomain = func() []absDecl {
	var d []absDecl
	for id := 0; id < 3; id++ {
		for _, p := range []bool{false, true} {
			d = append(d, absDecl{id, p})
		}
	}
	return d
}()

type lessTable map[[2]absDecl]bool

func comparatorTable(info *types.Info, slice string, fl *ast.FuncLit) (lessTable, string) {
	var params []types.Object
	for _, f := range fl.Type.Params.List {
		for _, nm := range f.Names {
			params = append(params, info.Defs[nm])
		}
	}
	if len(params) != 2 {
		return nil, "comparator does not take two indices"
	}
	t := lessTable{}
	for _, a := range absDomain {
		for _, b := range absDomain {
			e := &cmpEval{info: info, slice: slice, pi: params[0], pj: params[1], a: a, b: b}
			v := e.run(fl.Body)
			if e.err != "" {
				return nil, e.err
			}
			t[[2]absDecl{a, b}] = v
		}
	}
	return t, ""
}

// strictWeak checks irreflexivity, asymmetry, transitivity and transitivity of incomparability on the domain.
func strictWeak(t lessTable) string {
	for _, a := range absDomain {
		if t[[2]absDecl{a, a}] {
			return "not irreflexive (less(x,x) is true): sort's contract is broken and the resulting order is unspecified"
		}
		for _, b := range absDomain {
			if t[[2]absDecl{a, b}] && t[[2]absDecl{b, a}] {
				return "not asymmetric"
			}
			for _, c := range absDomain {
				if t[[2]absDecl{a, b}] && t[[2]absDecl{b, c}] && !t[[2]absDecl{a, c}] {
					return "not transitive"
				}
				inc := func(x, y absDecl) bool { return !t[[2]absDecl{x, y}] && !t[[2]absDecl{y, x}] }
				if inc(a, b) && inc(b, c) && !inc(a, c) {
					return "incomparability is not transitive (not a strict weak order)"
				}
			}
		}
	}
	return ""
}

type sortPass struct {
	call   *ast.CallExpr
	stable bool
	table  lessTable
	name   string
}

func checkC19(w *World, r *Result) {
	r.Explanation = "Decides structural necessary conditions of the assembly contract on generator.WriteDeclarations: ORD-5 every comparator, evaluated over the finite set of orderings of two declarations (ID <,=,> x Priority pairs), is a strict weak order; every sorting pass after the first is stable; the composition of the passes equals 'priority declarations first, then increasing ID'; PTH-C19a the emitting loop ranges over the sorted slice, every write of Content is guarded by a failed membership test on a set keyed by the declaration's ID that is updated in the same branch (first occurrence wins, each ID once), and is followed by a newline write; nothing else is written to the output. Does not decide: the functional specification over all lists as a statement about values (permutation invariance additionally needs equal IDs to carry equal content, which is a property of the generators: see DECL-ID in C01/C04)."
	r.Rules = []string{"ORD-5 comparator tables", "ORD-5 stability", "ORD-5 composition", "PTH-C19a guarded emission", "PTH-C19s unconditional passes", "SORT-PAR", "ALIAS-APPEND", "PTH-C19a exact guard"}
	aliasAppendRule(w, r, func(rel string) bool { return rel == "generator" })
	r.Assumptions = []string{"sort.Slice/sort.SliceStable implement their documented contracts", "comparators are pure functions of the two elements (checked: they read only .ID/.Priority of decls[i], decls[j])"}
	fi := w.MustFunc("generator.WriteDeclarations")
	info := fi.Pkg.TypesInfo
	name := fi.Name
	sortParallelRule(w, r, func(f *FuncInfo) bool { return f == fi })
	if fi.Decl.Type.Params.NumFields() != 1 {
		Undecided("WriteDeclarations no longer takes one parameter")
	}
	param := fi.Decl.Type.Params.List[0].Names[0]
	slice := param.Name

	// ---- pipeline stages, in statement order: sorts, optional filtering dedupe, emission
	var passes []sortPass
	type compactStep struct {
		call  *ast.CallExpr
		after int // number of sorting passes that precede it
	}
	var compacts []compactStep
	var loop *ast.RangeStmt
	reassigned := false
	cur := slice
	deduped := false
	mapCollections := map[string]bool{} // maps keyed by ID that hold the deduplicated declarations
	mergedDedupe := false               // the dedupe merges the priority of later copies into the kept one
	var dedupPos ast.Node
	hasContentWrite := func(rs *ast.RangeStmt) bool {
		found := false
		ast.Inspect(rs.Body, func(n ast.Node) bool {
			if sel, ok := n.(*ast.SelectorExpr); ok && sel.Sel.Name == "Content" {
				found = true
			}
			return true
		})
		return found
	}
	// PTH-C19s: every ordering pass over the declaration list runs on every path (it is a top-level statement)
	topLevel := map[ast.Node]bool{}
	condSort := false
	for _, st := range fi.Decl.Body.List {
		if es0, ok := st.(*ast.ExprStmt); ok {
			topLevel[es0.X] = true
		}
	}
	ast.Inspect(fi.Decl.Body, func(n ast.Node) bool {
		call, ok := n.(*ast.CallExpr)
		if !ok || len(call.Args) != 2 {
			return true
		}
		switch fullName(calleeOf(info, call)) {
		case "sort.Slice", "sort.SliceStable", "slices.SortFunc", "slices.SortStableFunc":
			if !topLevel[call] {
				var cs []string
				for _, c := range pathConds(fi.Decl, call) {
					if c.expr != nil {
						cs = append(cs, es(c.expr))
					}
				}
				condSort = true
				r.bad("PTH-C19s", name, fullName(calleeOf(info, call))+" under a condition", w.Pos(call.Pos()), "an ordering pass over the declarations runs only when {"+strings.Join(cs, ", ")+"}: on the other paths the list keeps the order in which it was supplied (priority declarations are not moved first, or IDs are not sorted)")
			}
		}
		return true
	})
	if condSort {
		return // the pipeline below assumes unconditional passes; the violation above is the verdict
	}
	// emission by strings.Join: the separator is written between elements, so "each content followed by a newline"
	// fails at one end (no final newline) or for the empty list (a lone newline), unless an emptiness test precedes
	joined := false
	ast.Inspect(fi.Decl.Body, func(x ast.Node) bool {
		ret, ok := x.(*ast.ReturnStmt)
		if !ok || len(ret.Results) != 1 {
			return true
		}
		ast.Inspect(ret.Results[0], func(y ast.Node) bool {
			if call, ok := y.(*ast.CallExpr); ok && fullName(calleeOf(info, call)) == "strings.Join" {
				joined = true
				guarded := false
				for _, c := range pathConds(fi.Decl, ret) {
					if c.expr != nil && strings.Contains(es(c.expr), "len(") {
						guarded = true
					}
				}
				r.cond(guarded, "PTH-C19a", name, "return "+es(ret.Results[0]), w.Pos(ret.Pos()),
					"the joined form is only used for a non-empty list",
					"the contents are joined with a separator instead of each being followed by its newline: for an empty list the result is not empty (a lone newline), or the last content has no newline")
			}
			return true
		})
		return true
	})
	if joined {
		return
	}
	for _, st := range fi.Decl.Body.List {
		switch s := st.(type) {
		case *ast.ExprStmt:
			call, ok := s.X.(*ast.CallExpr)
			if !ok {
				continue
			}
			full := fullName(calleeOf(info, call))
			switch full {
			case "sort.Slice", "sort.SliceStable", "slices.SortFunc", "slices.SortStableFunc":
				if len(call.Args) != 2 || es(call.Args[0]) != cur {
					continue
				}
				if loop != nil {
					r.bad("ORD-5", name, full+" after the emitting loop", w.Pos(call.Pos()), "sorting after emission has no effect on the output")
					continue
				}
				if deduped && !mergedDedupe {
					r.bad("ORD-5", name, full+" after deduplication", w.Pos(call.Pos()), "duplicates are removed before this sorting pass: which copy of an ID survives (and hence its priority group and position) depends on the order in which the declarations were supplied")
				}
				fl := comparatorLit(info, fi, call.Args[1])
				if fl == nil {
					Undecided("comparator of %s is neither a function literal nor a local bound once to one", full)
				}
				t, err := comparatorTable(info, cur, fl)
				if err != "" {
					Undecided("comparator at %s cannot be evaluated over the ordering domain: %s", w.Pos(call.Pos()), err)
				}
				passes = append(passes, sortPass{call: call, stable: strings.Contains(full, "Stable"), table: t, name: full})
			}
		case *ast.RangeStmt:
			if es(s.X) != cur || loop != nil {
				continue
			}
			if hasContentWrite(s) {
				loop = s
				continue
			}
			// filtering loop: `if !seen[d.ID] { seen[d.ID] = true; Y = append(Y, d) }`
			apps := appendStmts(info, s.Body, "")
			if len(apps) == 1 {
				elemName := ""
				if id := identOf(s.Value); id != nil {
					elemName = id.Name
				}
				filtered := false
				for _, c := range pathConds(fi.Decl, apps[0]) {
					if c.expr == nil || c.truth || c.loop {
						continue
					}
					if m, key := mapMembershipExpr(info, fi.Decl, c.expr); m != nil && es(key) == elemName+".ID" {
						filtered = true
					}
				}
				if filtered {
					deduped = true
					dedupPos = s
					cur = es(apps[0].Lhs[0])
					continue
				}
			}
			// dedupe into a map keyed by ID: `if _, seen := byID[d.ID]; seen { …; continue }; byID[d.ID] = d`
			if elem := identOf(s.Value); elem != nil {
				var store *ast.AssignStmt
				ast.Inspect(s.Body, func(x ast.Node) bool {
					as, ok := x.(*ast.AssignStmt)
					if !ok || len(as.Lhs) != 1 || len(as.Rhs) != 1 {
						return true
					}
					ix, ok := ast.Unparen(as.Lhs[0]).(*ast.IndexExpr)
					if !ok || es(ix.Index) != elem.Name+".ID" || es(as.Rhs[0]) != elem.Name {
						return true
					}
					if _, isMap := info.TypeOf(ix.X).Underlying().(*types.Map); isMap {
						store = as
					}
					return true
				})
				if store != nil {
					mapName := es(store.Lhs[0].(*ast.IndexExpr).X)
					guarded := false
					for _, c := range pathConds(fi.Decl, store) {
						if c.expr == nil || c.truth {
							continue
						}
						if m, key := mapMembershipExpr(info, fi.Decl, c.expr); m != nil && m.Name() == mapName && es(key) == elem.Name+".ID" {
							guarded = true
						}
					}
					// is the priority of a later copy merged into the kept one (stored back into the map)?
					merged := false
					ast.Inspect(s.Body, func(x ast.Node) bool {
						as, ok := x.(*ast.AssignStmt)
						if !ok || as == store || len(as.Lhs) != 1 {
							return true
						}
						if ix, ok := ast.Unparen(as.Lhs[0]).(*ast.IndexExpr); ok && es(ix.X) == mapName {
							merged = true
						}
						return true
					})
					if guarded {
						deduped, dedupPos = true, s
						mergedDedupe = merged // else the first copy wins as supplied: a later sorting pass sees only that copy
						mapCollections[mapName] = true
						cur = mapName
						continue
					}
				}
			}
			// the values of that map collected into a slice (any order: a total sort must follow)
			if mapCollections[cur] {
				apps := appendStmts(info, s.Body, "")
				if len(apps) == 1 && identOf(s.Value) != nil && es(apps[0].Rhs[0].(*ast.CallExpr).Args[1]) == identOf(s.Value).Name && len(pathConds(fi.Decl, apps[0])) <= 1 {
					cur = es(apps[0].Lhs[0])
					continue
				}
			}
			Undecided("loop over %s at %s neither emits nor filters by ID (shape not recognised)", cur, w.Pos(s.Pos()))
		case *ast.AssignStmt:
			// `decls = slices.Compact(decls)` / `slices.CompactFunc(decls, eq)`: removal of ADJACENT equal elements
			if len(s.Lhs) == 1 && len(s.Rhs) == 1 && es(s.Lhs[0]) == cur {
				if call, ok := s.Rhs[0].(*ast.CallExpr); ok && len(call.Args) >= 1 && es(call.Args[0]) == cur {
					switch fullName(calleeOf(info, call)) {
					case "slices.Compact":
						r.bad("PTH-C19a", name, "duplicates removed by slices.Compact", w.Pos(call.Pos()), "slices.Compact compares whole declarations (ID, content and priority): two declarations that share an ID but differ elsewhere are both kept and both written, so an ID is emitted more than once")
						deduped, dedupPos = true, s
						continue
					case "slices.CompactFunc":
						compacts = append(compacts, compactStep{call: call, after: len(passes)})
						deduped, dedupPos = true, s
						continue
					}
				}
			}
			for _, l := range s.Lhs {
				if es(l) == slice && s.Tok != token.DEFINE {
					reassigned = true
				}
			}
		}
	}
	_ = dedupPos
	if len(passes) == 0 {
		Undecided("no sort of the declaration slice found in WriteDeclarations (shape not recognised)")
	}
	if loop == nil {
		Undecided("no loop over the declaration slice found in WriteDeclarations (shape not recognised)")
	}
	if reassigned {
		Undecided("the declaration slice is re-assigned in WriteDeclarations (shape not recognised)")
	}
	for i, p := range passes {
		cons := fmt.Sprintf("pass %d: %s comparator", i+1, p.name)
		if why := strictWeak(p.table); why != "" {
			r.bad("ORD-5", name, cons, w.Pos(p.call.Pos()), "comparator is "+why)
		} else {
			r.ok("ORD-5", name, cons, w.Pos(p.call.Pos()), "strict weak order on all 36 ordered pairs of the (ID rank x Priority) domain", true)
		}
		if i > 0 {
			r.cond(p.stable, "ORD-5", name, fmt.Sprintf("pass %d is stable", i+1), w.Pos(p.call.Pos()), "a later pass uses a stable sort, so it preserves the order established by the earlier pass among its ties", "a later sorting pass is not stable: the ID order established by the previous pass is not preserved among equal elements")
		}
	}
	// composition: lexicographic from last pass to first
	combined := func(a, b absDecl) (less bool, unspecified bool) {
		for i := len(passes) - 1; i >= 0; i-- {
			t := passes[i].table
			if t[[2]absDecl{a, b}] {
				return true, false
			}
			if t[[2]absDecl{b, a}] {
				return false, false
			}
			if i > 0 && !passes[i].stable {
				return false, true
			}
		}
		return false, false
	}
	spec := func(a, b absDecl) bool {
		if a.prio != b.prio {
			return a.prio
		}
		return a.id < b.id
	}
	mismatch := ""
	for _, a := range absDomain {
		for _, b := range absDomain {
			if a == b {
				continue
			}
			got, unspec := combined(a, b)
			if unspec {
				continue // already reported by the stability rule
			}
			// elements with equal ID and equal priority may come in any order (dedupe keeps one)
			if a.id == b.id && a.prio == b.prio {
				continue
			}
			if got != spec(a, b) {
				mismatch = fmt.Sprintf("for (ID rank %d, priority %v) vs (ID rank %d, priority %v) the passes order them %v, the contract says %v", a.id, a.prio, b.id, b.prio, got, spec(a, b))
			}
		}
	}
	r.cond(mismatch == "", "ORD-5", name, "composition of the passes = priority first, then increasing ID", w.Pos(passes[0].call.Pos()),
		"the lexicographic composition of the passes agrees with the contract on every pair of the domain", "the sorting passes do not realise 'priority first, then increasing ID': "+mismatch)

	// ---- deduplication by removal of adjacent equals: the callback must be "same ID", and the order established by
	// the passes that precede it must keep equal IDs next to each other (no element of another ID strictly between two
	// elements of one ID, whatever their priorities)
	for _, cs := range compacts {
		cpos := w.Pos(cs.call.Pos())
		fl := comparatorLit(info, fi, cs.call.Args[1])
		if fl == nil {
			Undecided("equality callback of slices.CompactFunc at %s is neither a function literal nor a local bound once to one", cpos)
		}
		var params []types.Object
		for _, f := range fl.Type.Params.List {
			for _, nm := range f.Names {
				params = append(params, info.Defs[nm])
			}
		}
		if len(params) != 2 {
			Undecided("equality callback of slices.CompactFunc at %s does not take two elements", cpos)
		}
		eqBad := ""
		for _, a := range absDomain {
			for _, b := range absDomain {
				e := &cmpEval{info: info, slice: cur, pi: params[0], pj: params[1], a: a, b: b}
				v, ok := e.value(fl.Body)
				if !ok || e.err != "" {
					Undecided("equality callback of slices.CompactFunc at %s cannot be evaluated: %s", cpos, e.err)
				}
				if v.b != (a.id == b.id) {
					eqBad = fmt.Sprintf("it answers %v for (ID rank %d, priority %v) and (ID rank %d, priority %v)", v.b, a.id, a.prio, b.id, b.prio)
				}
			}
		}
		r.cond(eqBad == "", "PTH-C19a", name, "slices.CompactFunc merges exactly the declarations of one ID", cpos, "the callback is true exactly for equal IDs", "the equality callback of slices.CompactFunc is not 'same ID' ("+eqBad+"): declarations with different IDs are merged, or equal IDs kept")
		// adjacency under the order of the preceding passes
		prefix := passes[:cs.after]
		before := func(a, b absDecl) bool {
			for i := len(prefix) - 1; i >= 0; i-- {
				if prefix[i].table[[2]absDecl{a, b}] {
					return true
				}
				if prefix[i].table[[2]absDecl{b, a}] {
					return false
				}
			}
			return false
		}
		apart := ""
		for _, a := range absDomain {
			for _, b := range absDomain {
				for _, c := range absDomain {
					if a.id == c.id && b.id != a.id && a != c && before(a, b) && before(b, c) {
						apart = fmt.Sprintf("(ID rank %d, priority %v) < (ID rank %d, priority %v) < (ID rank %d, priority %v)", a.id, a.prio, b.id, b.prio, c.id, c.prio)
					}
				}
			}
		}
		r.cond(apart == "" && len(prefix) > 0, "PTH-C19a", name, "equal IDs are adjacent when slices.CompactFunc runs", cpos, "under the order of the preceding passes no other ID sits between two declarations of one ID", "slices.CompactFunc only removes ADJACENT duplicates, but after the preceding passes two declarations of one ID can be separated ("+apart+": a priority and a non-priority copy of the same ID): both are written")
	}
	// ---- emission loop
	checkEmission(w, r, fi, loop, cur, deduped)
}

func checkEmission(w *World, r *Result, fi *FuncInfo, loop *ast.RangeStmt, slice string, deduped bool) {
	info := fi.Pkg.TypesInfo
	name := fi.Name
	val := identOf(loop.Value)
	if val == nil {
		Undecided("emitting loop has no value variable")
	}
	elem := val.Name
	// writes to a strings.Builder / bytes.Buffer
	type write struct {
		call *ast.CallExpr
		arg  string
		path []ast.Node
	}
	var writes []write
	var stack []ast.Node
	ast.Inspect(loop.Body, func(n ast.Node) bool {
		if n == nil {
			stack = stack[:len(stack)-1]
			return false
		}
		stack = append(stack, n)
		call, ok := n.(*ast.CallExpr)
		if !ok {
			return true
		}
		fn := calleeOf(info, call)
		if fn == nil {
			return true
		}
		switch fn.FullName() {
		case "(*strings.Builder).WriteString", "(*strings.Builder).WriteByte", "(*strings.Builder).WriteRune", "(*bytes.Buffer).WriteString", "(*bytes.Buffer).WriteByte", "fmt.Fprintf", "fmt.Fprint", "fmt.Fprintln":
			arg := ""
			if len(call.Args) > 0 {
				arg = es(call.Args[len(call.Args)-1])
			}
			writes = append(writes, write{call, arg, append([]ast.Node{}, stack...)})
		}
		return true
	})
	// writes outside the loop (other than the final String())
	ast.Inspect(fi.Decl.Body, func(n ast.Node) bool {
		if n == ast.Node(loop) {
			return false
		}
		if call, ok := n.(*ast.CallExpr); ok {
			if fn := calleeOf(info, call); fn != nil {
				switch fn.FullName() {
				case "(*strings.Builder).WriteString", "(*strings.Builder).WriteByte", "(*bytes.Buffer).WriteString", "(*bytes.Buffer).WriteByte":
					r.bad("PTH-C19a", name, "write outside the loop: "+es(call), w.Pos(call.Pos()), "text other than declaration contents and their newlines is written to the output")
				}
			}
		}
		return true
	})
	nContent := 0
	for _, wr := range writes {
		if wr.arg != elem+".Content" {
			continue
		}
		nContent++
		cons := "write of " + elem + ".Content"
		// the conditions of the path to the write: one of them must be a failed membership test on a set keyed by
		// elem.ID (`if !seen[d.ID] {…}`, `if seen[d.ID] {continue}`, `if _, ok := seen[d.ID]; !ok`, `x := seen[d.ID]` …)
		condsOf := func(n ast.Node) ([]pcond, []string) {
			cs := pathConds(fi.Decl, n)
			for i, c := range cs { // `seen == false`
				if be, ok := c.expr.(*ast.BinaryExpr); ok && (be.Op == token.EQL || be.Op == token.NEQ) {
					if tv := info.Types[be.Y]; tv.Value != nil && tv.Value.Kind() == constant.Bool {
						cs[i].expr = ast.Unparen(be.X)
						cs[i].truth = c.truth == (constant.BoolVal(tv.Value) == (be.Op == token.EQL))
					}
				}
			}
			return cs, condSetN(info, cs, nil)
		}
		conds, condTxt := condsOf(wr.call)
		var setObj types.Object
		wrongBranch := false
		for _, c := range conds {
			if c.expr == nil || c.loop {
				continue
			}
			if m, key := mapMembershipExpr(info, fi.Decl, c.expr); m != nil && es(key) == elem+".ID" {
				if c.truth {
					wrongBranch = true
				} else {
					setObj = m
				}
			}
		}
		newlineAfter := func() bool {
			for _, w2 := range writes {
				if w2.call.Pos() <= wr.call.Pos() {
					continue
				}
				if _, txt := condsOf(w2.call); strings.Join(txt, "&&") != strings.Join(condTxt, "&&") {
					continue
				}
				if tv, ok := info.Types[w2.call.Args[len(w2.call.Args)-1]]; ok && tv.Value != nil {
					switch tv.Value.Kind() {
					case constant.String:
						if constant.StringVal(tv.Value) == "\n" {
							return true
						}
					case constant.Int:
						if v, _ := constant.Int64Val(tv.Value); v == '\n' {
							return true
						}
					}
				}
			}
			return false
		}
		if deduped && setObj == nil && !wrongBranch && len(condTxt) == 0 {
			r.ok("PTH-C19a", name, cons, w.Pos(wr.call.Pos()), "unconditional write of a slice that an earlier loop filtered by a membership test keyed by ID", true)
			r.cond(newlineAfter(), "PTH-C19a", name, "newline after content", w.Pos(wr.call.Pos()), "a newline write follows the content", "no newline is written after the content")
			continue
		}
		if wrongBranch {
			r.bad("PTH-C19a", name, cons, w.Pos(wr.call.Pos()), "the write sits in the branch where the ID was already seen")
			continue
		}
		if setObj == nil {
			if len(condTxt) == 0 {
				r.bad("PTH-C19a", name, cons, w.Pos(wr.call.Pos()), "the content is written unconditionally: a repeated ID is emitted more than once")
			} else {
				r.bad("PTH-C19a", name, cons, w.Pos(wr.call.Pos()), "the write is not guarded by a failed membership test on a set keyed by "+elem+".ID (it is reached under {"+strings.Join(condTxt, ", ")+"})")
			}
			continue
		}
		setName := setObj.Name()
		// "each distinct ID exactly once": the membership test is the only thing that may skip a declaration. Any other
		// condition on the way to the write (a comparison with the previous ID, whose initial value is itself a legal ID;
		// a test of the content) drops declarations whose ID was never written
		var extras []string
		for _, c := range conds {
			if c.loop || (c.expr == nil && c.text == "") {
				continue
			}
			if c.expr != nil {
				if m, key := mapMembershipExpr(info, fi.Decl, c.expr); m != nil && m == setObj && es(key) == elem+".ID" {
					continue
				}
			}
			extras = append(extras, normCond(info, c, nil))
		}
		if len(extras) > 0 {
			r.bad("PTH-C19a", name, cons, w.Pos(wr.call.Pos()), "besides the membership test on "+setName+", the write is only reached under {"+strings.Join(extras, ", ")+"}: a declaration can be skipped although its ID was never written (e.g. a comparison with `the previous ID` is true for the first declaration when its ID equals the variable's initial value, the empty string)")
			continue
		}
		r.ok("PTH-C19a", name, cons, w.Pos(wr.call.Pos()), "guarded by a failed membership test on "+setName+"["+elem+".ID]", true)
		// update of the set under the same conditions as the write (whenever a content is emitted its ID is recorded,
		// and it is not recorded before the test)
		updated := false
		ast.Inspect(loop.Body, func(y ast.Node) bool {
			as, ok := y.(*ast.AssignStmt)
			if !ok || len(as.Lhs) != 1 || len(as.Rhs) != 1 {
				return true
			}
			ix, ok := as.Lhs[0].(*ast.IndexExpr)
			if !ok || identOf(ix.X) == nil || objOf(info, identOf(ix.X)) != setObj || es(ix.Index) != elem+".ID" {
				return true
			}
			if _, txt := condsOf(as); strings.Join(txt, "&&") != strings.Join(condTxt, "&&") {
				return true
			}
			if tv, ok := info.Types[as.Rhs[0]]; ok && tv.Value != nil && tv.Value.Kind() == constant.Bool && constant.BoolVal(tv.Value) {
				updated = true
			}
			if _, isStruct := as.Rhs[0].(*ast.CompositeLit); isStruct {
				updated = true
			}
			return true
		})
		r.cond(updated, "PTH-C19a", name, "set update "+setName+"["+elem+".ID] = true", w.Pos(wr.call.Pos()), "the ID is recorded under the same conditions as the emission", "the ID is not recorded where it is emitted: later declarations with the same ID are emitted again")
		r.cond(newlineAfter(), "PTH-C19a", name, "newline after content", w.Pos(wr.call.Pos()), "a newline write follows the content under the same conditions", "no newline is written after the content")
	}
	if nContent != 1 {
		if nContent == 0 {
			Undecided("no write of %s.Content found in the emitting loop (shape not recognised)", elem)
		}
		r.bad("PTH-C19a", name, fmt.Sprintf("%d writes of %s.Content", nContent, elem), w.Pos(loop.Pos()), "the content is written at several sites")
	}
	for _, wr := range writes {
		if wr.arg == elem+".Content" {
			continue
		}
		if tv, ok := info.Types[wr.call.Args[len(wr.call.Args)-1]]; ok && tv.Value != nil {
			continue // constant separator
		}
		r.bad("PTH-C19a", name, "write of "+wr.arg, w.Pos(wr.call.Pos()), "something other than the declaration content or a constant separator is written")
	}
}

package main

// ALIAS-APPEND: append never writes into a backing array that another value still uses.
//
// Three shapes, all resolved on objects (not names):
//  (a) reset-and-reuse: a slice variable is reset with `x = x[:0]` and, in the same loop, the variable itself is
//      stored somewhere that outlives the iteration (appended as an element to another slice, stored into a map or
//      a field, returned): every stored value shares one backing array and the last iteration overwrites the others;
//  (b) shared prefix: `w := append(v, ...)` (result not assigned back to v) evaluated in a loop while v is defined
//      outside that loop and was created with spare capacity (`make(T, n, m)`), or is itself appended to elsewhere:
//      each evaluation writes into v's spare capacity, so the results alias one another;
//  (c) borrowed slice: `v = append(v, ...)` where some definition of v is another owner's slice (a field selection
//      such as `st.Fields`, a map element, a parameter) rather than a fresh value: the append may write into the
//      owner's spare capacity, and a second borrower overwrites the first one's element.
// Obligations: every self-append / cross-append / reset in the production packages that matches a shape's trigger.

import (
	"go/ast"
	"go/token"
	"go/types"
)

func aliasAppendRule(w *World, r *Result, only func(rel string) bool) int {
	n := 0
	for _, fi := range sortedFuncs(w) {
		if fi.Decl.Body == nil || (only != nil && !only(w.Rel(fi.Obj.Pkg()))) {
			continue
		}
		info := fi.Pkg.TypesInfo
		isSlice := func(o types.Object) bool {
			if o == nil {
				return false
			}
			_, ok := o.Type().Underlying().(*types.Slice)
			return ok
		}
		// loops, for "inside the same loop" questions
		var loops []ast.Node
		ast.Inspect(fi.Decl.Body, func(x ast.Node) bool {
			switch x.(type) {
			case *ast.ForStmt, *ast.RangeStmt:
				loops = append(loops, x)
			}
			return true
		})
		innermostLoop := func(n ast.Node) ast.Node {
			var best ast.Node
			for _, l := range loops {
				if l.Pos() <= n.Pos() && n.End() <= l.End() {
					if best == nil || (best.Pos() <= l.Pos() && l.End() <= best.End()) {
						best = l
					}
				}
			}
			return best
		}
		// definitions of slice variables
		type def struct {
			as  *ast.AssignStmt
			rhs ast.Expr
		}
		defs := map[types.Object][]def{}
		ast.Inspect(fi.Decl.Body, func(x ast.Node) bool {
			as, ok := x.(*ast.AssignStmt)
			if !ok {
				return true
			}
			for i, l := range as.Lhs {
				id := identOf(l)
				if id == nil {
					continue
				}
				o := objOf(info, id)
				if !isSlice(o) {
					continue
				}
				var rhs ast.Expr
				if len(as.Rhs) == len(as.Lhs) {
					rhs = as.Rhs[i]
				} else if len(as.Rhs) == 1 {
					rhs = as.Rhs[0]
				}
				defs[o] = append(defs[o], def{as, rhs})
			}
			return true
		})
		appendOf := func(e ast.Expr) (*ast.CallExpr, types.Object) {
			call, ok := ast.Unparen(e).(*ast.CallExpr)
			if !ok || !isBuiltinCall(info, call, "append") || len(call.Args) == 0 {
				return nil, nil
			}
			if id := identOf(call.Args[0]); id != nil {
				return call, objOf(info, id)
			}
			return call, nil
		}
		isParam := func(o types.Object) bool {
			for _, f := range fi.Decl.Type.Params.List {
				for _, nm := range f.Names {
					if info.Defs[nm] == o {
						return true
					}
				}
			}
			return false
		}
		// ---- shape (a): x = x[:0] and x escapes in the same loop
		for o, ds := range defs {
			for _, d := range ds {
				se, ok := ast.Unparen(d.rhs).(*ast.SliceExpr)
				if !ok || se.Low != nil {
					continue
				}
				if id := identOf(se.X); id == nil || objOf(info, id) != o {
					continue
				}
				if k, ok := constInt(info, se.High); !ok || k != 0 {
					continue
				}
				loop := innermostLoop(d.as)
				if loop == nil {
					continue
				}
				n++
				cons := "reset " + o.Name() + " = " + es(d.rhs)
				escaped := ""
				ast.Inspect(loop, func(y ast.Node) bool {
					switch v := y.(type) {
					case *ast.AssignStmt:
						for i, rhs := range v.Rhs {
							// out = append(out, x)   (x as an element, not x...)
							if call, _ := appendOf(rhs); call != nil && !call.Ellipsis.IsValid() {
								for _, a := range call.Args[1:] {
									if id := identOf(a); id != nil && objOf(info, id) == o {
										escaped = "appended as an element at " + w.Pos(call.Pos())
									}
								}
							}
							// m[k] = x ; s.f = x
							if id := identOf(rhs); id != nil && objOf(info, id) == o && i < len(v.Lhs) {
								switch ast.Unparen(v.Lhs[i]).(type) {
								case *ast.IndexExpr, *ast.SelectorExpr:
									escaped = "stored at " + w.Pos(v.Pos())
								}
							}
						}
					case *ast.ReturnStmt:
						for _, res := range v.Results {
							if id := identOf(res); id != nil && objOf(info, id) == o {
								escaped = "returned at " + w.Pos(v.Pos())
							}
						}
					}
					return true
				})
				if escaped != "" {
					r.bad("ALIAS-APPEND", fi.Name, cons, w.Pos(d.as.Pos()), "the buffer is reset and refilled on every iteration, and the slice itself is "+escaped+": all the stored values share one backing array, so each iteration overwrites what the previous ones stored")
				} else {
					r.ok("ALIAS-APPEND", fi.Name, cons, w.Pos(d.as.Pos()), "the reused buffer does not outlive the iteration (it is never stored, appended as an element or returned inside the loop)", true)
				}
			}
		}
		// ---- shapes (b) and (c): appends
		ast.Inspect(fi.Decl.Body, func(x ast.Node) bool {
			as, ok := x.(*ast.AssignStmt)
			if !ok {
				return true
			}
			for i, rhs := range as.Rhs {
				call, base := appendOf(rhs)
				if call == nil || base == nil || i >= len(as.Lhs) {
					continue
				}
				var target types.Object
				if id := identOf(as.Lhs[i]); id != nil {
					target = objOf(info, id)
				}
				if target == base {
					// (c) borrowed slice appended in place
					for _, d := range defs[base] {
						if d.rhs == nil {
							continue
						}
						if c2, b2 := appendOf(d.rhs); c2 != nil && b2 == base {
							continue // the self-append itself
						}
						borrowed := ""
						switch v := ast.Unparen(d.rhs).(type) {
						case *ast.SelectorExpr:
							if sel, ok := info.Selections[v]; ok && sel.Kind() == types.FieldVal {
								borrowed = "the field " + es(v)
							}
						case *ast.IndexExpr:
							if t := info.TypeOf(v.X); t != nil {
								if _, isMap := t.Underlying().(*types.Map); isMap {
									borrowed = "the map element " + es(v)
								}
							}
						}
						if borrowed == "" {
							continue
						}
						n++
						r.bad("ALIAS-APPEND", fi.Name, es(as.Lhs[i])+" = "+es(rhs)+" after "+base.Name()+" = "+es(d.rhs), w.Pos(as.Pos()), base.Name()+" is "+borrowed+" itself (assigned at "+w.Pos(d.as.Pos())+"), not a copy: the append may write into that owner's spare capacity, and a second value built the same way overwrites the first one's element")
					}
					continue
				}
				// (b) shared prefix
				loop := innermostLoop(as)
				if loop == nil {
					continue
				}
				definedOutside := true
				spare := false
				for _, d := range defs[base] {
					if loop.Pos() <= d.as.Pos() && d.as.End() <= loop.End() {
						definedOutside = false
					}
					if d.rhs != nil {
						if mk, ok := ast.Unparen(d.rhs).(*ast.CallExpr); ok && isBuiltinCall(info, mk, "make") && len(mk.Args) == 3 {
							spare = true
						}
						if c2, b2 := appendOf(d.rhs); c2 != nil && b2 == base {
							spare = true // grown by append: capacity unknown
						}
					}
				}
				if isParam(base) {
					spare = true
				}
				if !definedOutside || len(defs[base]) == 0 && !isParam(base) {
					continue
				}
				n++
				cons := es(as.Lhs[i]) + " := " + es(rhs)
				if spare {
					r.bad("ALIAS-APPEND", fi.Name, cons, w.Pos(as.Pos()), "each iteration appends to the shared prefix "+base.Name()+", which has (or may have) spare capacity: the results of different iterations share one backing array and overwrite one another's last elements")
				} else {
					r.ok("ALIAS-APPEND", fi.Name, cons, w.Pos(as.Pos()), "the shared prefix is a literal or make(T, n): it has no spare capacity, so every append copies", true)
				}
			}
			return true
		})
	}
	return n
}

var _ = token.NoPos

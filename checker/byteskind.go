package main

import (
	"go/ast"
	"go/token"
	"go/types"
	"strconv"
)

// bytesKindRule (BYTES-KIND): encoding/json writes a slice whose element kind is uint8 as one base64 *string* (and
// nil as null), not as an array of numbers. A JSON consumer whose type printer has a `case *an.Array` can only agree
// with Go if that case can tell uint8 elements apart, which needs the element's go/types kind (types.Uint8 /
// types.Byte), its name ("byte", "uint8"), or a helper of the analysis packages that reads one of these. A printer
// package that never reads any of them treats []byte as a list of integers: necessarily wrong for every []byte field.
// Decides only this necessary condition, not that a package that does read the kind handles it correctly.
func bytesKindRule(w *World, r *Result, rel string, anchor string) {
	fi := w.MustFunc(anchor)
	info := fi.Pkg.TypesInfo
	// the Array clause of the anchor's type switch on an analysis.Type
	var clause *ast.CaseClause
	ast.Inspect(fi.Decl.Body, func(x ast.Node) bool {
		cc, ok := x.(*ast.CaseClause)
		if !ok || clause != nil {
			return true
		}
		for _, e := range cc.List {
			if t := info.TypeOf(e); t != nil && t.String() == "*"+modPath+"/analysis.Array" {
				clause = cc
			}
		}
		return true
	})
	if clause == nil {
		Undecided("BYTES-KIND: %s has no `case *analysis.Array`", anchor)
	}
	reads := ""
	var reader *FuncInfo // the function in which the kind is read
	var cur *FuncInfo
	var scan func(body ast.Node, inf *types.Info, where string, depth int)
	seen := map[*types.Func]bool{}
	scan = func(body ast.Node, inf *types.Info, where string, depth int) {
		ast.Inspect(body, func(x ast.Node) bool {
			switch y := x.(type) {
			case *ast.SelectorExpr:
				if c, ok := inf.Uses[y.Sel].(*types.Const); ok && c.Pkg() != nil && c.Pkg().Path() == "go/types" && (c.Name() == "Uint8" || c.Name() == "Byte") {
					reads = where + " reads types." + c.Name()
					reader = cur
				}
			case *ast.BasicLit:
				if y.Kind == token.STRING {
					if s, err := strconv.Unquote(y.Value); err == nil && (s == "byte" || s == "uint8") {
						reads = where + " compares with the name " + y.Value
						reader = cur
					}
				}
			case *ast.CallExpr:
				// helpers of the analysis packages (e.g. an IsBytes predicate), one level deep
				if fn := calleeOf(inf, y); fn != nil && depth < 2 && !seen[fn] {
					seen[fn] = true
					if callee := w.FuncBy[w.QualName(fn)]; callee != nil && callee.Decl.Body != nil && fn.Pkg() != nil && (w.Rel(fn.Pkg()) == "analysis" || w.Rel(fn.Pkg()) == "analysis/sql" || w.Rel(fn.Pkg()) == rel) {
						save := cur
						cur = callee
						scan(callee.Decl.Body, callee.Pkg.TypesInfo, callee.Name, depth+1)
						cur = save
					}
				}
			}
			return true
		})
	}
	n := 0
	for _, f := range sortedFuncs(w) {
		if w.Rel(f.Obj.Pkg()) != rel || f.Decl.Body == nil {
			continue
		}
		n++
		cur = f
		scan(f.Decl.Body, f.Pkg.TypesInfo, f.Name, 0)
	}
	if n == 0 {
		Undecided("BYTES-KIND: no function of %s loaded", rel)
	}
	cons := "case *an.Array: the JSON kind of a slice of bytes (encoding/json: base64 string)"
	r.cond(reads != "", "BYTES-KIND", fi.Name, cons, w.Pos(clause.Pos()), reads+": the printer can tell a slice of uint8 from a list of integers",
		"no function of package "+rel+" (nor an analysis helper it calls) reads the uint8/byte kind or name of a basic element: `Data []byte` is described as a list of integers, while encoding/json writes it as one base64 string (\"AQID\") — the description rejects every document Go emits for such a field")
	if reader == nil {
		return
	}
	// second half: only a *slice* of bytes is a base64 string; encoding/json writes [N]byte as an array of N numbers.
	// The byte test is therefore joined with a test of the array length (analysis.Array.Len) or of *types.Slice:
	// in the reading function itself, or in the condition (or an enclosing condition) of every call of it.
	readsLen := func(n ast.Node, inf *types.Info) bool {
		found := false
		ast.Inspect(n, func(x ast.Node) bool {
			switch y := x.(type) {
			case *ast.SelectorExpr:
				if y.Sel.Name == "Len" {
					if t := inf.TypeOf(y.X); t != nil && (t.String() == "*"+modPath+"/analysis.Array" || t.String() == modPath+"/analysis.Array") {
						found = true
					}
				}
			case *ast.StarExpr:
				if t := inf.TypeOf(y); t != nil && t.String() == "*go/types.Slice" {
					found = true
				}
			}
			return true
		})
		return found
	}
	cons2 := "the byte special case is restricted to slices (Len < 0)"
	if readsLen(reader.Decl.Body, reader.Pkg.TypesInfo) {
		r.ok("BYTES-KIND", reader.Name, cons2, fnPos(w, reader), "the function that reads the byte kind also reads the array length / *types.Slice", true)
		return
	}
	ncall := 0
	for _, f := range sortedFuncs(w) {
		if f.Decl.Body == nil || (w.Rel(f.Obj.Pkg()) != rel && f.Pkg != reader.Pkg) {
			continue
		}
		inf := f.Pkg.TypesInfo
		var stack []ast.Node
		ast.Inspect(f.Decl.Body, func(x ast.Node) bool {
			if x == nil {
				stack = stack[:len(stack)-1]
				return true
			}
			stack = append(stack, x)
			call, ok := x.(*ast.CallExpr)
			if !ok || calleeOf(inf, call) != reader.Obj {
				return true
			}
			ncall++
			good := false
			for i := len(stack) - 1; i >= 0; i-- {
				if is, ok := stack[i].(*ast.IfStmt); ok && readsLen(is.Cond, inf) {
					good = true
				}
				if be, ok := stack[i].(*ast.BinaryExpr); ok && readsLen(be, inf) {
					good = true
				}
			}
			r.cond(good, "BYTES-KIND", f.Name, cons2+": "+normLocals(inf, call), w.Pos(call.Pos()), "the call is joined with a test of the array length",
				"the byte test "+reader.Name+" ignores the length of the array and this call does not test it either: a fixed array [N]byte, which encoding/json writes as an array of N numbers, is described as a base64 string — the description rejects what Go emits and accepts a string of any length")
			return true
		})
	}
	if ncall == 0 {
		r.bad("BYTES-KIND", reader.Name, cons2, fnPos(w, reader), "the byte kind is read in a function that never reads the array length (nor *types.Slice) and that nothing calls under such a test: [N]byte is treated like []byte")
	}
}

package main

// C10: enum detection.

import (
	"go/ast"
	"go/constant"
	"go/token"
	"go/types"
	"strings"
)

func init() { register("C10", "other", checkC10) }

func checkC10(w *World, r *Result) {
	r.Explanation = "Decides structural necessary conditions on analysis/enums.go: AGR-C10m a member is appended once per scope name under exactly the three filters (is a constant, its type is named, no opt-out comment), keyed by the constant's own named type, carrying the constant and its own comment; PTH-C10a every store of true into IsIota is dominated by the integer-kind test, by the per-member 'not an int64 or negative => return' test, by the gap test against max+1, by a duplicate rejection, and is preceded on its path by the sort of the members by value; the sort helper swaps every parallel slice and compares the values; AGR-C10b the population the iota test counts (exported constants) is the population positional consumers enumerate (Dart names/values, randdata choices skip exactly the unexported ones). Does not decide: the trailing-comment lookup against the syntax tree, same-name enums in two packages, exactness of values (go/constant's job)."
	r.Rules = []string{"AGR-C10m membership filters", "AGR-C10k comment lookup", "AGR-C10r import filter", "AGR-C10p import prefix", "PTH-C10a iota flag dominance", "AGR-C10s sort helper", "SORT-PAR", "MEMO-KEY", "AGR-C10b population agreement", "STATE-PKG", "MUT-AN", "POS-ORDER", "SHIFT-SKIP", "AGR-C10t"}
	posOrderRule(w, r, func(rel string) bool { return rel == "analysis" })
	mutAnRule(w, r, nil)
	statePkgRule(w, r, func(rel string) bool { return rel == "analysis" })
	checkEnumMembers(w, r)
	checkCommentLookup(w, r)
	checkSelectorRoot(w, r)
	checkSelectorPrefix(w, r)
	memoKeyRule(w, r, func(rel string) bool { return rel == "analysis" })
	checkSetIsIota(w, r)
	checkEnumConsumers(w, r)
}

func checkEnumMembers(w *World, r *Result) {
	root := w.MustFunc("analysis.fetchPkgEnums")
	info := root.Pkg.TypesInfo
	membersField := w.Field("analysis", "Enum", "Members")
	// the statement that adds a member (an append of an EnumMember to Enum.Members): in fetchPkgEnums, or in a helper
	// of the package it calls; other assignments to Members (a later filtering pass) are not the anchor
	var app *ast.AssignStmt
	fi := root
	n := 0
	for _, cf := range calleeClosure(w, root, 1) {
		ast.Inspect(cf.Decl.Body, func(x ast.Node) bool {
			as, ok := x.(*ast.AssignStmt)
			if !ok || len(as.Lhs) != 1 || len(as.Rhs) != 1 {
				return true
			}
			sel, ok := as.Lhs[0].(*ast.SelectorExpr)
			if !ok || info.Uses[sel.Sel] != membersField {
				return true
			}
			call, ok := as.Rhs[0].(*ast.CallExpr)
			if !ok || !isBuiltinCall(info, call, "append") || len(call.Args) != 2 {
				return true
			}
			if _, isLit := ast.Unparen(call.Args[1]).(*ast.CompositeLit); !isLit {
				return true
			}
			n++
			app, fi = as, cf
			return true
		})
	}
	name := fi.Name
	if n != 1 {
		Undecided("fetchPkgEnums: %d appends of a member to Enum.Members (expected 1)", n)
	}
	// AGR-C10t: the enum a member is appended to lives in a table created by this very call (`out := make(enumsMap)`):
	// a table handed in from outside keeps the enums of earlier calls, and a package reached twice through the
	// import graph (a diamond) gets every member twice
	{
		var tables []types.Object
		ast.Inspect(fi.Decl.Body, func(x ast.Node) bool {
			ix, ok := x.(*ast.IndexExpr)
			if !ok || identOf(ix.X) == nil {
				return true
			}
			mt, ok := info.TypeOf(ix.X).Underlying().(*types.Map)
			if !ok || !strings.HasSuffix(mt.Elem().String(), "analysis.Enum") {
				return true
			}
			tables = append(tables, objOf(info, identOf(ix.X)))
			return true
		})
		fresh := len(tables) > 0
		why := ""
		for _, t := range tables {
			ds := defsIn(info, fi.Decl, t)
			ok := len(ds) == 1
			if ok {
				call, isCall := ast.Unparen(ds[0]).(*ast.CallExpr)
				_, isLit := ast.Unparen(ds[0]).(*ast.CompositeLit)
				ok = isLit || (isCall && isBuiltinCall(info, call, "make"))
			}
			if !ok {
				fresh = false
				why = t.Name()
			}
		}
		r.cond(fresh, "AGR-C10t", name, "members are appended to enums of a table created by this call", w.Pos(app.Pos()),
			"the enum table is a map made in this function: each visit of a package builds its enums from scratch",
			"the enums are looked up in `"+why+"`, a table that is not created by this call (a parameter or an outer variable): an enum found there from an earlier visit of the same package keeps its members and receives them again, so a package reached through two import paths yields every member twice (and the iota test of the first visit is kept)")
	}
	// enclosing range over scope.Names()
	var loop *ast.RangeStmt
	ast.Inspect(fi.Decl.Body, func(x ast.Node) bool {
		rs, ok := x.(*ast.RangeStmt)
		if ok && rs.Body.Pos() <= app.Pos() && app.End() <= rs.Body.End() {
			if call, ok := rs.X.(*ast.CallExpr); ok && fullName(calleeOf(info, call)) == "(*go/types.Scope).Names" {
				loop = rs
			}
		}
		return true
	})
	r.cond(loop != nil, "AGR-C10m", name, "members come from scope.Names()", w.Pos(app.Pos()), "the append sits in a loop over the package scope's (sorted) names", "members are not collected by ranging over scope.Names(): order/completeness is no longer the scope's")
	if loop == nil {
		return
	}
	// classify path conditions
	conds := pathConds(fi.Decl, app)
	var got []string
	var declVar, namedVar, commentVar types.Object
	for _, c := range conds {
		if c.expr == nil || c.loop {
			continue
		}
		lbl := ""
		if id := identOf(c.expr); id != nil {
			// ok variable of a comma-ok assertion (read in the function the condition comes from: the loop itself, or
			// a helper whose success conditions were expanded)
			var scope ast.Node = loop.Body
			if hf := funcContaining(id); hf != nil && hf != fi {
				scope = hf.Decl.Body
			}
			ast.Inspect(scope, func(x ast.Node) bool {
				as, ok := x.(*ast.AssignStmt)
				if !ok || len(as.Lhs) != 2 || len(as.Rhs) != 1 {
					return true
				}
				if l := identOf(as.Lhs[1]); l == nil || objOf(info, l) != objOf(info, id) {
					return true
				}
				if ta, ok := as.Rhs[0].(*ast.TypeAssertExpr); ok && ta.Type != nil {
					switch info.TypeOf(ta.Type).String() {
					case "*go/types.Const":
						lbl = "isConst"
						declVar = objOf(info, identOf(as.Lhs[0]))
					case "*go/types.Named":
						lbl = "isNamed"
						namedVar = objOf(info, identOf(as.Lhs[0]))
					}
				}
				return true
			})
		}
		if be, ok := c.expr.(*ast.BinaryExpr); ok && (be.Op == token.NEQ || be.Op == token.EQL) {
			l, rr := es(be.X), es(be.Y)
			if (strings.HasSuffix(l, ".Obj().Pkg()") && strings.HasSuffix(rr, ".Types")) || (strings.HasSuffix(rr, ".Obj().Pkg()") && strings.HasSuffix(l, ".Types")) {
				lbl = "foreignType"
				if be.Op == token.EQL {
					lbl = "ownType"
				}
			}
		}
		if call, ok := c.expr.(*ast.CallExpr); ok && fullName(calleeOf(info, call)) == "strings.Contains" && len(call.Args) == 2 {
			if cst, ok := info.Uses[identOf(call.Args[1])].(*types.Const); ok && cst.Name() == "IgnoreDeclComment" {
				lbl = "optOut"
				commentVar = objOf(info, identOf(call.Args[0]))
			}
		}
		if lbl == "" {
			lbl = es(c.expr)
		}
		if !c.truth {
			lbl = "!" + lbl
		}
		got = append(got, lbl)
	}
	want := []string{"isConst", "isNamed", "!foreignType", "!optOut"}
	wantAlt := []string{"isConst", "isNamed", "ownType", "!optOut"}
	r.cond(setEq(uniqStr(got), want) || setEq(uniqStr(got), wantAlt), "AGR-C10m", name, "membership filters", w.Pos(app.Pos()),
		"a constant becomes a member exactly when it is a constant, its type is a named type declared in this package, and its comment does not opt out",
		"the member append is guarded by {"+strings.Join(got, ", ")+"} instead of exactly {isConst, isNamed, type declared in this package, !optOut}: constants are wrongly kept or dropped (e.g. an opt-out honoured only before the enum exists)")
	// the appended member pairs the constant with its own comment
	call, _ := app.Rhs[0].(*ast.CallExpr)
	okPair := false
	if call != nil && len(call.Args) == 2 {
		if lit, ok := call.Args[1].(*ast.CompositeLit); ok {
			cOK, mOK := false, false
			for _, el := range lit.Elts {
				if kv, ok := el.(*ast.KeyValueExpr); ok {
					if es(kv.Key) == "Const" && identOf(kv.Value) != nil && sameVar(objOf(info, identOf(kv.Value)), declVar) {
						cOK = true
					}
					if es(kv.Key) == "Comment" && identOf(kv.Value) != nil && objOf(info, identOf(kv.Value)) == commentVar && commentVar != nil {
						mOK = true
					}
				}
			}
			okPair = cOK && mOK
		}
	}
	// comment := fetchConstComment(pa, decl)
	cmtOK := false
	if commentVar != nil {
		for _, d := range defsIn(info, fi.Decl, commentVar) {
			if c2, ok := d.(*ast.CallExpr); ok && strings.HasSuffix(fullName(calleeOf(info, c2)), "analysis.fetchConstComment") && len(c2.Args) == 2 {
				if id := identOf(c2.Args[1]); id != nil && sameVar(objOf(info, id), declVar) {
					cmtOK = true
				}
			}
		}
	}
	r.cond(okPair && cmtOK, "AGR-C10m", name, "member = (constant, its own comment)", w.Pos(app.Pos()), "EnumMember{Const: decl, Comment: fetchConstComment(pa, decl)}", "the member does not pair the constant with the comment looked up for that same constant")
	// the enum is keyed by the constant's own named type
	keyOK := false
	ast.Inspect(loop.Body, func(x ast.Node) bool {
		as, ok := x.(*ast.AssignStmt)
		if !ok || len(as.Lhs) != 1 {
			return true
		}
		if ix, ok := as.Lhs[0].(*ast.IndexExpr); ok {
			if _, isMap := info.TypeOf(ix.X).Underlying().(*types.Map); isMap {
				if id := identOf(ix.Index); id != nil && sameVar(objOf(info, id), namedVar) {
					keyOK = true
				}
			}
		}
		return true
	})
	// named := decl.Type().(*types.Named)
	namedFromDecl := false
	for _, nv := range aliasClass(namedVar) {
		hf := funcContaining(&ast.Ident{NamePos: nv.Pos(), Name: nv.Name()})
		if hf == nil {
			continue
		}
		ast.Inspect(hf.Decl.Body, func(x ast.Node) bool {
			as, ok := x.(*ast.AssignStmt)
			if !ok || len(as.Lhs) != 2 || len(as.Rhs) != 1 {
				return true
			}
			if l := identOf(as.Lhs[0]); l != nil && objOf(info, l) == nv {
				if ta, ok := as.Rhs[0].(*ast.TypeAssertExpr); ok {
					inner := ast.Unparen(ta.X)
					// the constant's own type, possibly with its alias resolved: types.Unalias(decl.Type())
					if c0, ok := inner.(*ast.CallExpr); ok && fullName(calleeOf(info, c0)) == "go/types.Unalias" && len(c0.Args) == 1 {
						inner = ast.Unparen(c0.Args[0])
					}
					// a helper's parameter stands for what the caller passes
					inner = ast.Unparen(throughParam(info, inner))
					if c2, ok := inner.(*ast.CallExpr); ok {
						if sel, ok := c2.Fun.(*ast.SelectorExpr); ok && sel.Sel.Name == "Type" && identOf(sel.X) != nil && sameVar(objOf(info, identOf(sel.X)), declVar) {
							namedFromDecl = true
						}
					}
				}
			}
			return true
		})
	}
	r.cond(keyOK && namedFromDecl, "AGR-C10m", name, "enum keyed by the constant's named type", w.Pos(app.Pos()), "out[decl.Type().(*types.Named)]", "the enum a constant is added to is not the one of its own type")
}

func checkSetIsIota(w *World, r *Result) {
	fi := w.MustFunc("analysis.(*Enum).setIsIota")
	info := fi.Pkg.TypesInfo
	name := fi.Name
	isIota := w.Field("analysis", "Enum", "IsIota")
	var stores []*ast.AssignStmt
	// any store to IsIota anywhere in production code
	for _, f2 := range w.Funcs {
		ast.Inspect(f2.Decl.Body, func(x ast.Node) bool {
			as, ok := x.(*ast.AssignStmt)
			if !ok {
				return true
			}
			for _, l := range as.Lhs {
				if sel, ok := l.(*ast.SelectorExpr); ok && f2.Pkg.TypesInfo.Uses[sel.Sel] == isIota {
					if f2 != fi {
						r.bad("PTH-C10a", f2.Name, "store to IsIota", w.Pos(as.Pos()), "IsIota is written outside setIsIota")
					} else {
						stores = append(stores, as)
					}
				}
			}
			return true
		})
		ast.Inspect(f2.Decl.Body, func(x ast.Node) bool {
			if lit, ok := x.(*ast.CompositeLit); ok {
				for _, el := range lit.Elts {
					if kv, ok := el.(*ast.KeyValueExpr); ok {
						if id := identOf(kv.Key); id != nil && f2.Pkg.TypesInfo.Uses[id] == isIota {
							r.bad("PTH-C10a", f2.Name, "IsIota in a literal", w.Pos(kv.Pos()), "IsIota is set by a composite literal outside setIsIota")
						}
					}
				}
			}
			return true
		})
	}
	if len(stores) == 0 {
		Undecided("setIsIota never stores IsIota")
	}
	// the member loops (the test may be written as one pass over the members or as several): the bookkeeping loop is
	// the one that records the values in a set
	var loops []*ast.RangeStmt
	ast.Inspect(fi.Decl.Body, func(x ast.Node) bool {
		if rs, ok := x.(*ast.RangeStmt); ok {
			// over the members, or over a (sorted) copy of them: any []EnumMember
			t := info.TypeOf(rs.X)
			if strings.HasSuffix(es(rs.X), ".Members") || (t != nil && strings.HasSuffix(t.String(), "analysis.EnumMember")) {
				loops = append(loops, rs)
			}
		}
		return true
	})
	if len(loops) == 0 {
		Undecided("setIsIota: no loop over Members")
	}
	var loop *ast.RangeStmt
	msub := map[types.Object]string{}
	for _, l := range loops {
		if id := identOf(l.Value); id != nil {
			msub[objOf(info, id)] = "$m"
		}
	}
	// facts inside the loop: find the statements updating the "seen"/max bookkeeping: map store keyed by the value
	var seenStore *ast.AssignStmt
	var seenMap, valVar types.Object
	for _, l := range loops {
		ast.Inspect(l.Body, func(x ast.Node) bool {
			as, ok := x.(*ast.AssignStmt)
			if !ok || len(as.Lhs) != 1 {
				return true
			}
			if ix, ok := as.Lhs[0].(*ast.IndexExpr); ok {
				if _, isMap := info.TypeOf(ix.X).Underlying().(*types.Map); isMap {
					seenStore = as
					seenMap = objOf(info, identOf(ix.X))
					valVar = objOf(info, identOf(ix.Index))
					loop = l
				}
			}
			return true
		})
	}
	if loop == nil {
		loop = loops[0]
	}
	// the value may come from a slice filled by an earlier pass over the same members (`values[i] = v` … `v :=
	// values[i]`, both indexed by the range index): what dominates that store holds for the value read back
	valAlias := map[types.Object]bool{}
	if valVar != nil {
		valAlias[valVar] = true
	}
	var earlierStore *ast.AssignStmt
	if valVar != nil && identOf(loop.Key) != nil {
		for _, d := range defsIn(info, fi.Decl, valVar) {
			ix, ok := ast.Unparen(d).(*ast.IndexExpr)
			if !ok || identOf(ix.Index) == nil || objOf(info, identOf(ix.Index)) != objOf(info, identOf(loop.Key)) || identOf(ix.X) == nil {
				continue
			}
			slice := objOf(info, identOf(ix.X))
			for _, l := range loops {
				if l == loop || l.Pos() > loop.Pos() || identOf(l.Key) == nil {
					continue
				}
				ast.Inspect(l.Body, func(x ast.Node) bool {
					as, ok := x.(*ast.AssignStmt)
					if !ok || len(as.Lhs) != 1 || len(as.Rhs) != 1 {
						return true
					}
					lx, ok := as.Lhs[0].(*ast.IndexExpr)
					if !ok || identOf(lx.X) == nil || objOf(info, identOf(lx.X)) != slice || identOf(lx.Index) == nil || objOf(info, identOf(lx.Index)) != objOf(info, identOf(l.Key)) {
						return true
					}
					if w := identOf(as.Rhs[0]); w != nil {
						valAlias[objOf(info, w)] = true
						earlierStore = as
					}
					return true
				})
			}
		}
	}
	for _, st := range stores {
		tv := info.Types[st.Rhs[0]]
		if tv.Value == nil || !constant.BoolVal(tv.Value) {
			r.ok("PTH-C10a", name, "IsIota = "+es(st.Rhs[0]), w.Pos(st.Pos()), "not a store of true", false)
			continue
		}
		pos := w.Pos(st.Pos())
		conds := pathConds(fi.Decl, st)
		has := func(pred func(c pcond) bool) bool {
			for _, c := range conds {
				if c.expr != nil && pred(c) {
					return true
				}
			}
			return false
		}
		// (1) integer kind
		intOK := has(func(c pcond) bool {
			call, ok := c.expr.(*ast.CallExpr)
			return ok && c.truth && strings.HasSuffix(fullName(calleeOf(info, call)), "(*Enum).IsInteger") || (ok && c.truth && strings.HasSuffix(fullName(calleeOf(info, call)), "analysis.Enum).IsInteger"))
		})
		if !intOK {
			// the guard may have been moved to the callers: every call of this function is made under IsInteger() of
			// the value it is called on
			sites, all := 0, true
			for _, caller := range sortedFuncs(w) {
				if caller.Decl.Body == nil {
					continue
				}
				ci := caller.Pkg.TypesInfo
				ast.Inspect(caller.Decl.Body, func(x ast.Node) bool {
					call, ok := x.(*ast.CallExpr)
					if !ok || calleeOf(ci, call) != fi.Obj {
						return true
					}
					sites++
					recv := ""
					if sel, ok := call.Fun.(*ast.SelectorExpr); ok {
						recv = es(sel.X)
					}
					guarded := false
					for _, c := range pathConds(caller.Decl, call) {
						if c.expr == nil || !c.truth {
							continue
						}
						if gc, ok := ast.Unparen(c.expr).(*ast.CallExpr); ok && strings.HasSuffix(fullName(calleeOf(ci, gc)), "Enum).IsInteger") {
							if sel, ok := gc.Fun.(*ast.SelectorExpr); ok && es(sel.X) == recv {
								guarded = true
							}
						}
					}
					if !guarded {
						all = false
					}
					return true
				})
			}
			intOK = sites > 0 && all
		}
		r.cond(intOK, "PTH-C10a", name, "flag => integer-backed", pos, "dominated by `if !e.IsInteger() { return }` (or by the same test at every call site)", "IsIota can be set for an enum that is not integer-backed")
		// (2) gap test: a count compared with M+1, M being a running maximum of the member values (a local that the
		// member loop raises to the value: `if M < v { M = v }`, `M = max(M, v)`)
		maxVars := runningMaxVars(info, fi.Decl, loop, valVar)
		gapOK := has(func(c pcond) bool {
			be, ok := ast.Unparen(c.expr).(*ast.BinaryExpr)
			if !ok || !((be.Op == token.EQL && c.truth) || (be.Op == token.NEQ && !c.truth)) {
				return false
			}
			found := false
			ast.Inspect(be, func(x ast.Node) bool {
				if add, ok := x.(*ast.BinaryExpr); ok && add.Op == token.ADD {
					for _, pr := range [][2]ast.Expr{{add.X, add.Y}, {add.Y, add.X}} {
						if id := identOf(pr[0]); id != nil && maxVars[objOf(info, id)] {
							if tv := info.Types[pr[1]]; tv.Value != nil && tv.Value.ExactString() == "1" {
								found = true
							}
						}
					}
				}
				return true
			})
			return found
		})
		r.cond(gapOK, "PTH-C10a", name, "flag => no gap (count == max+1)", pos, "dominated by the comparison of the number of exported values with max+1", "no gap test against max+1 dominates the store: enums with holes are flagged iota-like")
		// (3) sort precedes the store in the same statement list, nothing but the sort in between
		sortOK := false
		nReorder, otherReorder := 0, ""
		ast.Inspect(fi.Decl.Body, func(x ast.Node) bool {
			b, ok := x.(*ast.BlockStmt)
			if !ok {
				return true
			}
			for i, s2 := range b.List {
				if s2 != ast.Stmt(st) {
					continue
				}
				for j := i - 1; j >= 0; j-- {
					if e, ok := b.List[j].(*ast.ExprStmt); ok {
						if call, ok := e.X.(*ast.CallExpr); ok {
							f := fullName(calleeOf(info, call))
							if f == "sort.Sort" || f == "sort.Stable" || f == "sort.Slice" || f == "sort.SliceStable" {
								mentions := false
								ast.Inspect(call, func(y ast.Node) bool {
									if sel, ok := y.(*ast.SelectorExpr); ok && sel.Sel.Name == "Members" {
										mentions = true
									}
									return true
								})
								// or the sort works on an auxiliary slice of (member, value) pairs that is written
								// back, in order and unconditionally, into Members between the sort and the store:
								// `for i, vm := range aux { e.Members[i] = vm.member }`
								if !mentions && len(call.Args) >= 1 {
									if aux := identOf(call.Args[0]); aux != nil {
										auxObj := objOf(info, aux)
										for k := j + 1; k < i; k++ {
											rs, ok := b.List[k].(*ast.RangeStmt)
											if !ok || identOf(rs.X) == nil || objOf(info, identOf(rs.X)) != auxObj || identOf(rs.Key) == nil || len(rs.Body.List) != 1 {
												continue
											}
											as, ok := rs.Body.List[0].(*ast.AssignStmt)
											if !ok || len(as.Lhs) != 1 || len(as.Rhs) != 1 {
												continue
											}
											ix, ok := as.Lhs[0].(*ast.IndexExpr)
											if !ok || !strings.HasSuffix(es(ix.X), ".Members") || identOf(ix.Index) == nil || objOf(info, identOf(ix.Index)) != objOf(info, identOf(rs.Key)) {
												continue
											}
											if root := rootIdent(as.Rhs[0]); root != nil && identOf(rs.Value) != nil && objOf(info, root) == objOf(info, identOf(rs.Value)) {
												mentions = true
											}
										}
									}
								}
								if mentions {
									nReorder++
									byValue := f == "sort.Sort" || f == "sort.Stable" // the sortBy helper, checked by AGR-C10s
									if lit := comparatorLit(info, fi, call.Args[len(call.Args)-1]); lit != nil && !byValue {
										ast.Inspect(lit.Body, func(y ast.Node) bool {
											if be, ok := y.(*ast.BinaryExpr); ok && (be.Op == token.LSS || be.Op == token.GTR) {
												byValue = true
											}
											return true
										})
									}
									if byValue {
										sortOK = true
									} else {
										otherReorder = w.Pos(call.Pos())
									}
								}
							}
						}
					}
					if _, isIf := b.List[j].(*ast.IfStmt); isIf {
						break
					}
				}
			}
			return true
		})
		if otherReorder != "" {
			r.bad("PTH-C10a", name, "members re-ordered after the sort by value", otherReorder, "between the sort of the members by value and the store of IsIota=true the members are re-ordered by another criterion (and by an unstable sort): the exported members no longer have the values 0,1,2,… in the reported order, which is what the flag promises to positional consumers")
		}
		_ = nReorder
		r.cond(sortOK, "PTH-C10a", name, "flag => members sorted by value", pos, "the sort of Members (by value) is the statement run before the store on every path", "the store of IsIota=true is not preceded by the sort of the members by value: positional consumers see members in declaration-name order")
	}
	// (4) per-member validity: `!ok || v < 0 => return` dominates the bookkeeping
	if seenStore == nil {
		// another algorithm: the members are sorted and each value is compared with its position. The position must
		// then count the population the positional consumers enumerate (the exported constants): a range index over
		// all the members, compared under a test that skips the unexported ones, counts another population
		for _, l := range loops {
			key := identOf(l.Key)
			if key == nil {
				continue
			}
			keyObj := objOf(info, key)
			ast.Inspect(l.Body, func(x ast.Node) bool {
				be, ok := x.(*ast.BinaryExpr)
				if !ok || (be.Op != token.NEQ && be.Op != token.EQL) {
					return true
				}
				usesKeyAsValue := false
				for _, side := range []ast.Expr{be.X, be.Y} {
					e := ast.Unparen(side)
					if conv, isCall := e.(*ast.CallExpr); isCall && len(conv.Args) == 1 {
						if tv, ok := info.Types[conv.Fun]; ok && tv.IsType() {
							e = ast.Unparen(conv.Args[0])
						}
					}
					if id := identOf(e); id != nil && objOf(info, id) == keyObj {
						usesKeyAsValue = true
					}
				}
				if !usesKeyAsValue {
					return true
				}
				filtered := false
				for _, c := range reachConds(info, fi.Decl, l, be, msub) {
					if c == "$m.Const.Exported()" {
						filtered = true
					}
				}
				if filtered {
					r.bad("AGR-C10b", name, "value compared with the range index: "+es(be), w.Pos(be.Pos()),
						"the position a value is compared with is the range index over ALL the members, while the comparison is only made for the exported ones: an unexported constant below or between the exported ones shifts the index (Low=0, medium=1, High=2 is flagged iota-like although the exported members, enumerated by position, are Low=0, High=1)")
				}
				return true
			})
		}
		Undecided("setIsIota: no bookkeeping map store found in the member loop")
	}
	conds := pathConds(fi.Decl, seenStore)
	if earlierStore != nil {
		// an early `continue` of the earlier pass would leave the slot at zero: only exits that end the test count,
		// which endsTest below requires anyway
		conds = append(conds, pathConds(fi.Decl, earlierStore)...)
	}
	var rendered []string
	expOK, negOK, okOK, dupOK := false, false, false, false
	skipWhy := "the non-negative/int64 test of each member no longer dominates the bookkeeping"
	for _, c := range conds {
		if c.expr == nil {
			continue
		}
		s := render(info, c.expr, msub)
		if !c.truth {
			s = "!(" + s + ")"
		}
		rendered = append(rendered, s)
		if c.truth && s == "$m.Const.Exported()" {
			expOK = true
		}
		// the failing member must end the whole test (return), not merely be skipped (continue): a skipped member
		// keeps position 0 in the sort and the enum is still flagged
		endsTest := func() bool {
			if c.exit == nil || len(c.exit.Body.List) == 0 {
				return false
			}
			_, isRet := c.exit.Body.List[len(c.exit.Body.List)-1].(*ast.ReturnStmt)
			return isRet
		}
		if be, ok := c.expr.(*ast.BinaryExpr); ok && !c.truth && be.Op == token.LSS && es(be.Y) == "0" && identOf(be.X) != nil && valAlias[objOf(info, identOf(be.X))] {
			negOK = endsTest()
			if !negOK {
				skipWhy = "a negative member is skipped instead of ending the test"
			}
		}
		if id := identOf(c.expr); id != nil && c.truth && id.Name != "" {
			// ok of `v, ok := member.int64()`
			if isOkOfInt64(info, fi.Decl.Body, id) {
				if endsTest() {
					okOK = true
				} else {
					skipWhy = "a member that is not representable as an int64 is skipped (continue) instead of ending the test (return): it keeps the sort key 0 and the enum is flagged although that exported member does not have the value of its position"
				}
			}
		}
		// duplicate rejection: !(seen[v])
		if ix, ok := c.expr.(*ast.IndexExpr); ok && !c.truth && identOf(ix.X) != nil && objOf(info, identOf(ix.X)) == seenMap {
			dupOK = true
		}
		// the same membership test in its comma-ok spelling (a set as map[T]struct{})
		if m, _ := mapMembershipExpr(info, fi.Decl, c.expr); m != nil && m == seenMap && !c.truth {
			dupOK = true
		}
	}
	pos := w.Pos(seenStore.Pos())
	r.cond(expOK, "AGR-C10b", name, "iota test counts exactly the exported constants", pos,
		"the bookkeeping of values is reached only for members with Const.Exported() (unexported ones are skipped, blank or not)",
		"the values entering the iota test are selected by {"+strings.Join(rendered, ", ")+"}, not by Const.Exported(): the flag is decided on a population other than the exported constants that Dart/randdata enumerate by position")
	r.cond(negOK && okOK, "PTH-C10a", name, "every member is a non-negative int64", pos, "dominated by `if !ok || v < 0 { return }` on the member's own value", skipWhy)
	// duplicates: either membership rejection, or a per-member counter compared later
	counterOK := false
	ast.Inspect(loop.Body, func(x ast.Node) bool {
		if inc, ok := x.(*ast.IncDecStmt); ok && inc.Tok == token.INC {
			if id := identOf(inc.X); id != nil {
				cnt := objOf(info, id)
				// compared after the loop
				ast.Inspect(fi.Decl.Body, func(y ast.Node) bool {
					if be, ok := y.(*ast.BinaryExpr); ok && be.Pos() > loop.End() {
						for _, side := range []ast.Expr{be.X, be.Y} {
							found := false
							ast.Inspect(side, func(z ast.Node) bool {
								if i2, ok := z.(*ast.Ident); ok && info.Uses[i2] == cnt {
									found = true
								}
								return true
							})
							if found {
								counterOK = true
							}
						}
					}
					return true
				})
			}
		}
		return true
	})
	r.cond(dupOK || counterOK, "PTH-C10a", name, "flag => no duplicate exported value", pos,
		"a repeated value is rejected (membership test before the set update, or a per-member counter compared with the set size)",
		"the iota test counts a set of distinct values only: `A=0; B=1; C=1` is flagged iota-like although three exported members cannot map to positions 0,1,2 (the property requires 'without gap or duplicate')")
	checkSortHelper(w, r)
}

func isOkOfInt64(info *types.Info, scope ast.Node, id *ast.Ident) bool {
	res := false
	ast.Inspect(scope, func(x ast.Node) bool {
		as, ok := x.(*ast.AssignStmt)
		if !ok || len(as.Lhs) != 2 || len(as.Rhs) != 1 {
			return true
		}
		if l := identOf(as.Lhs[1]); l != nil && objOf(info, l) == objOf(info, id) {
			if call, ok := as.Rhs[0].(*ast.CallExpr); ok && strings.HasSuffix(fullName(calleeOf(info, call)), ".int64") {
				res = true
			}
		}
		return true
	})
	return res
}

// checkSortHelper: the sort.Interface used by setIsIota swaps all parallel slices and compares values.
func checkSortHelper(w *World, r *Result) {
	// whatever the helper, a sort.Slice comparator must read the slice it sorts
	iota := w.MustFunc("analysis.(*Enum).setIsIota")
	nslice := sortParallelRule(w, r, func(fi *FuncInfo) bool { return fi == iota })
	// the sort.Interface helper is whatever named type of the package setIsIota hands to sort.Sort / sort.Stable
	var t *types.TypeName
	ast.Inspect(iota.Decl.Body, func(x ast.Node) bool {
		call, ok := x.(*ast.CallExpr)
		if !ok || len(call.Args) != 1 {
			return true
		}
		if f := fullName(calleeOf(iota.Pkg.TypesInfo, call)); f != "sort.Sort" && f != "sort.Stable" {
			return true
		}
		at := iota.Pkg.TypesInfo.TypeOf(call.Args[0])
		if p, isPtr := at.(*types.Pointer); isPtr {
			at = p.Elem()
		}
		if nt, isNamed := at.(*types.Named); isNamed && nt.Obj().Pkg() == iota.Obj.Pkg() {
			t = nt.Obj()
		}
		return true
	})
	ok := t != nil
	if !ok {
		// no sort.Interface helper: the members must be sorted by a sort.Slice over e.Members itself
		r.cond(nslice > 0, "AGR-C10s", iota.Name, "members sorted by value", fnPos(w, iota), "sorted by sort.Slice (comparator checked by SORT-PAR)", "setIsIota neither uses the sortBy helper nor sort.Slice: members are not sorted by increasing value before IsIota is set, while consumers use positions as values")
		return
	}
	st, ok := t.Type().Underlying().(*types.Struct)
	if !ok {
		return
	}
	swap := methodOf(w, t.Type(), "Swap")
	less := methodOf(w, t.Type(), "Less")
	if swap == nil || less == nil {
		swap, less = methodOf(w, types.NewPointer(t.Type()), "Swap"), methodOf(w, types.NewPointer(t.Type()), "Less")
	}
	if swap == nil || less == nil {
		Undecided("%s has no Swap/Less", t.Name())
	}
	// the key slice: the field of integer elements (the other one holds the members)
	keyField := ""
	for i := 0; i < st.NumFields(); i++ {
		if sl, isSlice := st.Field(i).Type().Underlying().(*types.Slice); isSlice {
			if b, isBasic := sl.Elem().Underlying().(*types.Basic); isBasic && b.Info()&types.IsInteger != 0 {
				keyField = st.Field(i).Name()
			}
		}
	}
	swapped := map[string]bool{}
	ast.Inspect(swap.Decl.Body, func(x ast.Node) bool {
		as, ok := x.(*ast.AssignStmt)
		if !ok || len(as.Lhs) != 2 || len(as.Rhs) != 2 {
			return true
		}
		if es(as.Lhs[0]) == es(as.Rhs[1]) && es(as.Lhs[1]) == es(as.Rhs[0]) {
			if ix, ok := as.Lhs[0].(*ast.IndexExpr); ok {
				if sel, ok := ix.X.(*ast.SelectorExpr); ok {
					swapped[sel.Sel.Name] = true
				}
			}
		}
		return true
	})
	all := true
	var missing []string
	for i := 0; i < st.NumFields(); i++ {
		if _, isSlice := st.Field(i).Type().Underlying().(*types.Slice); isSlice && !swapped[st.Field(i).Name()] {
			all = false
			missing = append(missing, st.Field(i).Name())
		}
	}
	r.cond(all, "AGR-C10s", swap.Name, "Swap exchanges every parallel slice", fnPos(w, swap), "members and values are swapped together", "Swap does not exchange "+strings.Join(missing, ",")+": members and their values go out of step during the sort")
	lessOK := false
	ast.Inspect(less.Decl.Body, func(x ast.Node) bool {
		if ret, ok := x.(*ast.ReturnStmt); ok && len(ret.Results) == 1 {
			if be, ok := ret.Results[0].(*ast.BinaryExpr); ok && be.Op == token.LSS {
				l, rr := es(be.X), es(be.Y)
				if keyField != "" && strings.Contains(l, "."+keyField+"[") && strings.Contains(rr, "."+keyField+"[") && l != rr {
					pi := less.Decl.Type.Params.List[0].Names
					if len(pi) >= 1 && strings.Contains(l, "["+pi[0].Name+"]") {
						lessOK = true
					}
				}
			}
		}
		return true
	})
	r.cond(lessOK, "AGR-C10s", less.Name, "Less compares values[i] < values[j]", fnPos(w, less), "ascending by value", "Less is not `values[i] < values[j]`: members are not sorted by increasing value")
}

// checkEnumConsumers: positional consumers skip exactly the unexported constants.
func checkEnumConsumers(w *World, r *Result) {
	for _, q := range []string{"generator/dart.codeForEnum", "generator/go/randdata.(context).codeForEnum"} {
		fi := w.MustFunc(q)
		info := fi.Pkg.TypesInfo
		var loop *ast.RangeStmt
		ast.Inspect(fi.Decl.Body, func(x ast.Node) bool {
			if rs, ok := x.(*ast.RangeStmt); ok && strings.HasSuffix(es(rs.X), ".Members") && loop == nil {
				loop = rs
			}
			return true
		})
		if loop == nil {
			Undecided("%s: no loop over Members", q)
		}
		v := objOf(info, identOf(loop.Value))
		guards, uniform, nacc := loopFilter(info, fi.Decl, loop, map[types.Object]string{v: "$m"})
		r.cond(nacc > 0 && uniform && len(guards) == 1 && guards[0] == "$m.Const.Exported()", "AGR-C10b", fi.Name, "positional consumer skips exactly the unexported constants", w.Pos(loop.Pos()),
			"an entry is added exactly for the members with Const.Exported(): the same population setIsIota counts",
			"the loop adds an entry under {"+strings.Join(guards, ", ")+"} instead of exactly Const.Exported(): positions no longer correspond to the values the iota flag was decided on")
	}
}

// checkCommentLookup (AGR-C10k): the opt-out (`gomacro:no-enum`) and the label of a member are read from the
// trailing comment fetchConstComment returns. The lookup must be total: it may give up ("") only because the
// syntax tree holds no spec or no comment for the constant (a nil test, a failed assertion), never because of a
// property of the constant itself (exported or not, its type, its value).
func checkCommentLookup(w *World, r *Result) {
	fi := w.MustFunc("analysis.fetchConstComment")
	info := fi.Pkg.TypesInfo
	n := 0
	ast.Inspect(fi.Decl.Body, func(x ast.Node) bool {
		ret, ok := x.(*ast.ReturnStmt)
		if !ok || len(ret.Results) != 1 {
			return true
		}
		tv := info.Types[ret.Results[0]]
		if tv.Value == nil || tv.Value.Kind() != constant.String || constant.StringVal(tv.Value) != "" {
			return true
		}
		n++
		bad := ""
		for _, c := range pathConds(fi.Decl, ret) {
			if c.expr == nil {
				continue
			}
			e := ast.Unparen(c.expr)
			okForm := false
			if be, isBin := e.(*ast.BinaryExpr); isBin && (be.Op == token.EQL || be.Op == token.NEQ) && (es(be.Y) == "nil" || es(be.X) == "nil") {
				okForm = true // a nil test of a syntax node / comment group
			}
			if id, isID := e.(*ast.Ident); isID && info.TypeOf(id) != nil && info.TypeOf(id).String() == "bool" {
				okForm = true // the ok of a comma-ok assertion on a syntax node
			}
			if !okForm {
				bad = es(c.expr)
			}
		}
		r.cond(bad == "", "AGR-C10k", fi.Name, "gives up only when the syntax tree has no comment", w.Pos(ret.Pos()),
			"this `return \"\"` is reached only through nil tests and failed assertions on syntax nodes",
			"the comment lookup gives up under `"+bad+"`, a property of the constant rather than of the syntax tree: the opt-out comment `gomacro:no-enum` and the label of such a constant are never seen (an opted-out sentinel becomes a member and can change IsIota)")
		return true
	})
	if n == 0 {
		Undecided("AGR-C10k: fetchConstComment has no `return \"\"`")
	}
	// the text itself: what go/ast defines as the text of the comment group (markers //, /* */ removed, lines joined)
	viaText := false
	ast.Inspect(fi.Decl.Body, func(x ast.Node) bool {
		ret, ok := x.(*ast.ReturnStmt)
		if !ok || len(ret.Results) != 1 {
			return true
		}
		if tv := info.Types[ret.Results[0]]; tv.Value != nil {
			return true
		}
		ast.Inspect(ret.Results[0], func(y ast.Node) bool {
			if call, ok := y.(*ast.CallExpr); ok && fullName(calleeOf(info, call)) == "(*go/ast.CommentGroup).Text" {
				viaText = true
			}
			return true
		})
		r.cond(viaText, "AGR-C10k", fi.Name, "comment text = CommentGroup.Text()", w.Pos(ret.Pos()),
			"the returned comment is go/ast's text of the trailing comment group",
			"the comment is not obtained from (*ast.CommentGroup).Text(): a hand-rolled stripping of the markers handles `//` only, so a `/* … */` trailing comment keeps its markers in the member's comment (and in every label generated from it)")
		return true
	})
}

// checkSelectorRoot (AGR-C10r): the import filter of the enum/union walk (which imported packages belong to the
// user's module) is computed from the root package, the parameter of fetchEnumsAndUnions, once -- not from the
// package being visited, whose own path would become the prefix and exclude its siblings.
func checkSelectorRoot(w *World, r *Result) {
	fi := w.MustFunc("analysis.fetchEnumsAndUnions")
	info := fi.Pkg.TypesInfo
	sel := w.MustFunc("analysis.NewPkgSelector")
	n := 0
	ast.Inspect(fi.Decl.Body, func(x ast.Node) bool {
		call, ok := x.(*ast.CallExpr)
		if !ok || calleeOf(info, call) != sel.Obj || len(call.Args) != 1 {
			return true
		}
		n++
		isRoot := false
		if id := identOf(call.Args[0]); id != nil {
			for _, f := range fi.Decl.Type.Params.List {
				for _, nm := range f.Names {
					if info.Defs[nm] == objOf(info, id) {
						isRoot = true
					}
				}
			}
		}
		// the enclosing function itself must not be re-entered for the imports (its parameter is then the visited package)
		selfRec := false
		ast.Inspect(fi.Decl.Body, func(y ast.Node) bool {
			if c2, ok := y.(*ast.CallExpr); ok && calleeOf(info, c2) == fi.Obj {
				selfRec = true
			}
			return true
		})
		if selfRec {
			r.bad("AGR-C10r", fi.Name, "import filter rebuilt at every level: "+es(call), w.Pos(call.Pos()), "fetchEnumsAndUnions calls itself for the imports, so its parameter is the package being visited and the import filter is rebuilt from it at every level: while visiting a sub-package its own path becomes the prefix and its sibling packages are ignored")
			return true
		}
		r.cond(isRoot, "AGR-C10r", fi.Name, "import filter built from the root package: "+es(call), w.Pos(call.Pos()),
			"NewPkgSelector receives the parameter of fetchEnumsAndUnions",
			"the import filter is built from `"+es(call.Args[0])+"`, not from the root package: while visiting a sub-package its own path becomes the prefix, so its sibling packages are ignored and the enums and unions declared there are analysed as plain named types")
		return true
	})
	if n == 0 {
		Undecided("AGR-C10r: fetchEnumsAndUnions no longer calls NewPkgSelector")
	}
}

// checkSelectorPrefix (AGR-C10p): the import filter keeps a package when its path starts with the prefix
// <domain>/<org> computed from the root package. The prefix and the test belong together: a prefix that ends with
// the separator needs a test that also accepts the path equal to the prefix without it (a module whose root
// package is exactly <domain>/<org>), otherwise that package is skipped and its enums and unions are lost.
func checkSelectorPrefix(w *World, r *Result) {
	ns := w.MustFunc("analysis.NewPkgSelector")
	ig := w.MustFunc("analysis.(PkgSelector).ignorePath")
	info := ns.Pkg.TypesInfo
	endsWithSep := false
	var at ast.Node = ns.Decl
	ast.Inspect(ns.Decl.Body, func(x ast.Node) bool {
		as, ok := x.(*ast.AssignStmt)
		if !ok || len(as.Lhs) != 1 || len(as.Rhs) != 1 || es(as.Lhs[0]) != "prefix" {
			return true
		}
		if be, ok := ast.Unparen(as.Rhs[0]).(*ast.BinaryExpr); ok && be.Op == token.ADD {
			if tv := info.Types[be.Y]; tv.Value != nil && tv.Value.Kind() == constant.String && strings.HasSuffix(constant.StringVal(tv.Value), "/") {
				endsWithSep = true
				at = as
			}
		}
		return true
	})
	// the separator may also be appended where the test is made: strings.HasPrefix(path, prefix+"/")
	iginfo := ig.Pkg.TypesInfo
	ast.Inspect(ig.Decl.Body, func(x ast.Node) bool {
		call, ok := x.(*ast.CallExpr)
		if !ok || len(call.Args) != 2 {
			return true
		}
		if f := fullName(calleeOf(iginfo, call)); f != "strings.HasPrefix" && f != "strings.CutPrefix" {
			return true
		}
		if be, ok := ast.Unparen(call.Args[1]).(*ast.BinaryExpr); ok && be.Op == token.ADD {
			if tv := iginfo.Types[be.Y]; tv.Value != nil && tv.Value.Kind() == constant.String && strings.HasSuffix(constant.StringVal(tv.Value), "/") {
				endsWithSep = true
				at = call
			}
		}
		return true
	})
	hasEquality := false
	ast.Inspect(ig.Decl.Body, func(x ast.Node) bool {
		// an equality test on the path being examined (a parameter of ignorePath)
		if be, ok := x.(*ast.BinaryExpr); ok && be.Op == token.EQL {
			for _, side := range []ast.Expr{be.X, be.Y} {
				if id := identOf(side); id != nil && paramIndex(ig, objOf(ig.Pkg.TypesInfo, id)) >= 0 {
					hasEquality = true
				}
			}
		}
		return true
	})
	r.cond(!endsWithSep || hasEquality, "AGR-C10p", ns.Name, "prefix and prefix test agree", w.Pos(at.Pos()),
		"the prefix has no trailing separator (or the test also accepts the path equal to it)",
		"the prefix is compared with a trailing `/` (appended when it is built, or in the test itself) while the path equal to the prefix is not accepted separately: the package whose path is exactly <domain>/<org> (the module's root package) no longer matches, is skipped by the walk, and the enums and unions it declares are analysed as plain named types")
}

// runningMaxVars returns the locals of fn that the loop raises to val: assigned val under a guard `M < val` /
// `val > M`, or assigned max(M, val).
func runningMaxVars(info *types.Info, fn *ast.FuncDecl, loop *ast.RangeStmt, val types.Object) map[types.Object]bool {
	out := map[types.Object]bool{}
	isVal := func(e ast.Expr) bool { id := identOf(e); return id != nil && val != nil && objOf(info, id) == val }
	ast.Inspect(loop.Body, func(x ast.Node) bool {
		as, ok := x.(*ast.AssignStmt)
		if !ok || len(as.Lhs) != 1 || len(as.Rhs) != 1 || as.Tok != token.ASSIGN {
			return true
		}
		id := identOf(as.Lhs[0])
		if id == nil {
			return true
		}
		m := objOf(info, id)
		isM := func(e ast.Expr) bool { i := identOf(e); return i != nil && objOf(info, i) == m }
		if call, ok := ast.Unparen(as.Rhs[0]).(*ast.CallExpr); ok && len(call.Args) == 2 {
			if f, ok := call.Fun.(*ast.Ident); ok && f.Name == "max" {
				if _, isBuiltin := info.Uses[f].(*types.Builtin); isBuiltin && ((isM(call.Args[0]) && isVal(call.Args[1])) || (isM(call.Args[1]) && isVal(call.Args[0]))) {
					out[m] = true
				}
			}
			return true
		}
		if !isVal(as.Rhs[0]) {
			return true
		}
		for _, c := range pathConds(fn, as) {
			be, ok := c.expr.(*ast.BinaryExpr)
			if !ok || c.loop {
				continue
			}
			lt := (be.Op == token.LSS || be.Op == token.LEQ) && isM(be.X) && isVal(be.Y)
			gt := (be.Op == token.GTR || be.Op == token.GEQ) && isVal(be.X) && isM(be.Y)
			if c.truth && (lt || gt) {
				out[m] = true
			}
		}
		return true
	})
	return out
}

package main

// PKG-ID: a Go package is identified by its import path (or by the identity of its go/types / go/packages
// object), never by its name: two packages of one program may share a name (app/models and db/models).
//
// Obligations: every comparison (==, !=, switch tag/case) and every map index whose operand is a package --
// *types.Package, *packages.Package -- or a string selected from one (Path(), PkgPath, ID, Name(), Name).
// Comparing names, or keying a map by a name, is the violation. The rule is armed by the identity comparisons
// that exist (a floor on their number), so it never passes vacuously.

import (
	"go/ast"
	"go/token"
	"go/types"
)

// pkgStringKind classifies e: "name" (package name), "path" (import path / ID), "obj" (the package object), "".
func pkgStringKind(info *types.Info, e ast.Expr) string {
	e = ast.Unparen(e)
	isPkgObj := func(t types.Type) bool {
		if t == nil {
			return false
		}
		s := t.String()
		return s == "*go/types.Package" || s == "*golang.org/x/tools/go/packages.Package" || s == "golang.org/x/tools/go/packages.Package"
	}
	if isPkgObj(info.TypeOf(e)) {
		return "obj"
	}
	switch v := e.(type) {
	case *ast.CallExpr:
		if fn := calleeOf(info, v); fn != nil {
			switch fn.FullName() {
			case "(*go/types.Package).Name":
				return "name"
			case "(*go/types.Package).Path":
				return "path"
			}
		}
	case *ast.SelectorExpr:
		if isPkgObj(info.TypeOf(v.X)) {
			switch v.Sel.Name {
			case "Name":
				return "name"
			case "PkgPath", "ID":
				return "path"
			}
		}
	case *ast.Ident:
		// a local with a single definition
		obj, ok := info.Uses[v].(*types.Var)
		if !ok || obj.IsField() {
			return ""
		}
		return ""
	}
	return ""
}

// localPkgKinds: locals of fi defined exactly once, by a package name / path expression.
func localPkgKinds(fi *FuncInfo) map[types.Object]string {
	info := fi.Pkg.TypesInfo
	kinds := map[types.Object]string{}
	ndef := map[types.Object]int{}
	ast.Inspect(fi.Decl, func(x ast.Node) bool {
		as, ok := x.(*ast.AssignStmt)
		if !ok {
			return true
		}
		for i, l := range as.Lhs {
			id := identOf(l)
			if id == nil {
				continue
			}
			o := objOf(info, id)
			ndef[o]++
			if len(as.Rhs) == len(as.Lhs) {
				if k := pkgStringKind(info, as.Rhs[i]); k == "name" || k == "path" {
					kinds[o] = k
				}
			}
		}
		return true
	})
	for o, n := range ndef {
		if n != 1 {
			delete(kinds, o)
		}
	}
	return kinds
}

func pkgIDRule(w *World, r *Result, only func(rel string) bool) (identity int) {
	for _, fi := range sortedFuncs(w) {
		if fi.Decl.Body == nil || (only != nil && !only(w.Rel(fi.Obj.Pkg()))) {
			continue
		}
		info := fi.Pkg.TypesInfo
		locals := localPkgKinds(fi)
		kindOf := func(e ast.Expr) string {
			if k := pkgStringKind(info, e); k != "" {
				return k
			}
			if id := identOf(e); id != nil {
				return locals[objOf(info, id)]
			}
			return ""
		}
		report := func(n ast.Node, what string, kinds ...string) {
			hasName, hasID := false, false
			for _, k := range kinds {
				if k == "name" {
					hasName = true
				}
				if k == "path" || k == "obj" {
					hasID = true
				}
			}
			if !hasName && !hasID {
				return
			}
			cons := what + " " + es(n.(ast.Expr))
			if hasName {
				r.bad("PKG-ID", fi.Name, cons, w.Pos(n.Pos()), "a package is identified by its name: two packages of the analysed program may share a name (app/models, db/models), and are then taken for one another")
				return
			}
			identity++
			r.ok("PKG-ID", fi.Name, cons, w.Pos(n.Pos()), "packages are identified by import path or by object identity", false)
		}
		ast.Inspect(fi.Decl.Body, func(x ast.Node) bool {
			switch v := x.(type) {
			case *ast.BinaryExpr:
				if v.Op == token.EQL || v.Op == token.NEQ {
					// comparing a name with a constant is also an identification (`Pkg().Name() != "time"`)
					report(v, "comparison", kindOf(v.X), kindOf(v.Y))
				}
			case *ast.IndexExpr:
				if t := info.TypeOf(v.X); t != nil {
					if _, isMap := t.Underlying().(*types.Map); isMap {
						report(v, "map key", kindOf(v.Index))
					}
				}
			case *ast.SwitchStmt:
				if v.Tag != nil {
					if k := kindOf(v.Tag); k != "" {
						report(v.Tag, "switch tag", k)
					}
				}
			}
			return true
		})
	}
	return identity
}

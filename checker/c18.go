package main

func init() { register("C18", "other", checkC18) }

func notCmd(rel string) bool { return rel != "cmd" }

var c18Anchors = []string{
	"analysis.(*Analysis).createType", "analysis.(*Analysis).handleType", "analysis.nodeAt", "analysis.nodeAtFile",
	"analysis.fetchConstComment", "analysis.LocalName",
	"generator/typescript.typeName", "generator/dart.typeName", "generator/dart.lowerFirst",
	"generator/sql.typeID", "analysis/sql.newType",
	"generator/go/gounions.(context).generate", "generator/go/gounions.jsonForUnion",
	"generator/go/randdata.functionIDBasicOrNamed",
}

func checkC18(w *World, r *Result) {
	r.Explanation = "Decides, for every function of the analysis and generator packages (a superset of what is reachable from the public entry points), on every path: OBL-ASSERT every single-value type assertion succeeds (enclosing case, callee's static return type, named-kind receiver, or a justified invariant with a machine-checked call-site precondition OBL-PRE); OBL-INDEX/OBL-SLICE/OBL-ACCESSOR every index, slice and positional go/types accessor is dominated by a bound (range key, length guard, counted loop, groups of a constant regexp, minimal match length); OBL-NIL values from curated nil sources (Scope.Lookup, types.Info lookups, TypeAndValue.Value, map lookups of pointer/interface type, module functions with a nil return, conditionally assigned locals) are not dereferenced without a nil test; OBL-NILMAP stores into map-typed struct fields happen only on structs whose every construction initialises the map; REC-* every recursive call-graph SCC has a termination argument (memo registered before descent, Cache.Check guard cutting every cycle, import DAG, kind graph without a cycle through a cycle-capable node kind); EXH-a/PANIC-class defaults and panics are string/error diagnostics. Does not decide: general nil safety beyond the curated sources, nil-map writes through locals and parameters, stack depth of bounded recursion, panics raised inside go/types or x/tools, package cmd (its inputs are configuration, not Go source)."
	r.Rules = []string{"OBL-ASSERT", "OBL-INDEX", "OBL-SLICE", "OBL-ACCESSOR", "OBL-NIL", "OBL-NILMAP", "OBL-PRE", "REC-C12a", "REC-memo", "REC-dag", "REC-kind", "REC-typeargs", "REC-table", "PKG-ID", "EXH-a", "PANIC-class", "OBL lower bound for search results"}
	r.Assumptions = []string{"inputs are well-typed Go packages (go/packages reported no error)", "go/types and x/tools do not panic themselves", "justified-invariant table entries (each with a one-line reason, listed as 'justified' obligations in this evidence)"}
	for _, a := range c18Anchors {
		w.MustFunc(a)
	}
	obs := runOBL(w, notCmd)
	for _, o := range obs {
		r.add(o)
	}
	for _, o := range runNilMap(w, notCmd) {
		r.add(o)
	}
	perFn := map[string]int{}
	for _, o := range obs {
		perFn[o.Func]++
	}
	r.note("functions_with_partial_operations", len(perFn))
	pkgIDRule(w, r, notCmd)
	nrec := runREC(w, r, notCmd)
	r.note("recursive_sccs", nrec)
	nsw := runEXHdefaults(w, r, notCmd)
	r.note("node_type_switches", nsw)
	np := runPanicClass(w, r, notCmd)
	r.note("panic_sites", np)
	if len(obs) < 40 {
		Undecided("only %d partial-operation obligations were enumerated: the enumeration no longer matches the code", len(obs))
	}
	if nrec < 5 {
		Undecided("only %d recursive SCCs found", nrec)
	}
	if nsw < 8 {
		Undecided("only %d node type switches found", nsw)
	}
}

package main

import (
	"go/ast"
	"go/types"
	"strings"
)

func init() { register("C18", "other", checkC18) }

func notCmd(rel string) bool { return rel != "cmd" }

var c18Anchors = []string{
	"analysis.(*Analysis).createType", "analysis.(*Analysis).handleType", "analysis.nodeAt", "analysis.nodeAtFile",
	"analysis.fetchConstComment", "analysis.LocalName",
	"generator/typescript.typeName", "generator/dart.typeName", "generator/dart.lowerFirst",
	"generator/sql.typeID", "analysis/sql.newType",
	"generator/go/gounions.(context).generate", "generator/go/gounions.jsonForUnion",
	"generator/go/randdata.functionIDBasicOrNamed",
}

func checkC18(w *World, r *Result) {
	r.Explanation = "Decides, for every function of the analysis and generator packages (a superset of what is reachable from the public entry points), on every path: OBL-ASSERT every single-value type assertion succeeds (enclosing case, callee's static return type, named-kind receiver, or a justified invariant with a machine-checked call-site precondition OBL-PRE); OBL-INDEX/OBL-SLICE/OBL-ACCESSOR every index, slice and positional go/types accessor is dominated by a bound (range key, length guard, counted loop, groups of a constant regexp, minimal match length); OBL-NIL values from curated nil sources (Scope.Lookup, types.Info lookups, TypeAndValue.Value, map lookups of pointer/interface type, module functions with a nil return, conditionally assigned locals) are not dereferenced without a nil test; OBL-NILMAP stores into map-typed struct fields happen only on structs whose every construction initialises the map; REC-* every recursive call-graph SCC has a termination argument (memo registered before descent, Cache.Check guard cutting every cycle, import DAG, kind graph without a cycle through a cycle-capable node kind); EXH-a/PANIC-class defaults and panics are string/error diagnostics. Does not decide: general nil safety beyond the curated sources, nil-map writes through locals and parameters, stack depth of bounded recursion, panics raised inside go/types or x/tools, package cmd (its inputs are configuration, not Go source)."
	r.Rules = []string{"OBL-ASSERT", "OBL-INDEX", "OBL-SLICE", "OBL-ACCESSOR", "OBL-NIL", "OBL-NILMAP", "OBL-PRE", "REC-C12a", "REC-memo", "REC-dag", "REC-kind", "REC-typeargs", "REC-table", "PKG-ID", "EXH-a", "PANIC-class", "OBL lower bound for search results"}
	r.Assumptions = []string{"inputs are well-typed Go packages (go/packages reported no error)", "go/types and x/tools do not panic themselves", "justified-invariant table entries (each with a one-line reason, listed as 'justified' obligations in this evidence)"}
	for _, a := range c18Anchors {
		w.MustFunc(a)
	}
	obs := runOBL(w, notCmd)
	for _, o := range obs {
		r.add(o)
	}
	for _, o := range runNilMap(w, notCmd) {
		r.add(o)
	}
	perFn := map[string]int{}
	for _, o := range obs {
		perFn[o.Func]++
	}
	r.note("functions_with_partial_operations", len(perFn))
	pkgIDRule(w, r, notCmd)
	primaryInRange(w, r)
	nrec := runREC(w, r, notCmd)
	r.note("recursive_sccs", nrec)
	nsw := runEXHdefaults(w, r, notCmd)
	r.note("node_type_switches", nsw)
	np := runPanicClass(w, r, notCmd)
	r.note("panic_sites", np)
	if len(obs) < 40 {
		Undecided("only %d partial-operation obligations were enumerated: the enumeration no longer matches the code", len(obs))
	}
	if nrec < 5 {
		Undecided("only %d recursive SCCs found", nrec)
	}
	if nsw < 8 {
		Undecided("only %d node type switches found", nsw)
	}
}

// primaryInRange (OBL-PRE side condition of the justified `Columns[Primary()]` accesses): every value Table.Primary
// returns is a constant ("not found", tested by the callers) or a position in Columns -- the key of a loop over
// Columns, or a stored field that is only ever assigned len(Columns) / such a key.
func primaryInRange(w *World, r *Result) {
	prim := w.MustFunc("analysis/sql.(Table).Primary")
	info := prim.Pkg.TypesInfo
	columnsKey := func(fi *FuncInfo, e ast.Expr) (bool, string) {
		finfo := fi.Pkg.TypesInfo
		if call, ok := ast.Unparen(e).(*ast.CallExpr); ok && isBuiltinCall(finfo, call, "len") && strings.HasSuffix(es(call.Args[0]), ".Columns") {
			return true, ""
		}
		if call, ok := ast.Unparen(e).(*ast.CallExpr); ok && len(call.Args) >= 1 && strings.HasSuffix(es(call.Args[0]), ".Columns") {
			switch fullName(calleeOf(finfo, call)) {
			case "slices.IndexFunc", "slices.Index":
				return true, "" // -1 or a position in its first argument
			}
		}
		id := identOf(e)
		if id == nil {
			return false, "`" + es(e) + "` is not a position in Columns"
		}
		// counted loop `for i := 0; i < len(x.Columns); i++`
		counted := false
		ast.Inspect(fi.Decl.Body, func(y ast.Node) bool {
			fs, ok := y.(*ast.ForStmt)
			if !ok || fs.Cond == nil {
				return true
			}
			be, ok := ast.Unparen(fs.Cond).(*ast.BinaryExpr)
			if !ok || be.Op.String() != "<" || identOf(be.X) == nil || objOf(finfo, identOf(be.X)) != objOf(finfo, id) {
				return true
			}
			if call, ok := ast.Unparen(be.Y).(*ast.CallExpr); ok && isBuiltinCall(finfo, call, "len") && strings.HasSuffix(es(call.Args[0]), ".Columns") {
				counted = true
			}
			return true
		})
		if counted {
			return true, ""
		}
		good, why := false, "`"+es(e)+"` is not the key of a loop over Columns"
		ast.Inspect(fi.Decl.Body, func(y ast.Node) bool {
			rs, ok := y.(*ast.RangeStmt)
			if !ok || identOf(rs.Key) == nil || finfo.Defs[identOf(rs.Key)] != objOf(finfo, id) {
				return true
			}
			if strings.HasSuffix(es(rs.X), ".Columns") {
				good = true
			} else {
				why = "the index is a position in " + es(rs.X) + ", not in Columns: when the loop skips an element that is not a column (an unexported field before Id) Columns[Primary()] is out of range or the wrong column"
			}
			return true
		})
		return good, why
	}
	nret := 0
	ast.Inspect(prim.Decl.Body, func(x ast.Node) bool {
		if _, isLit := x.(*ast.FuncLit); isLit {
			return false // the returns of a predicate closure are not returns of Primary
		}
		ret, ok := x.(*ast.ReturnStmt)
		if !ok || len(ret.Results) != 1 {
			return true
		}
		nret++
		res := ast.Unparen(ret.Results[0])
		if tv := info.Types[res]; tv.Value != nil {
			return true
		}
		if sel, ok := res.(*ast.SelectorExpr); ok {
			field, _ := info.Uses[sel.Sel].(*types.Var)
			if field == nil || !field.IsField() {
				r.bad("OBL-PRE", prim.Name, "return "+es(res), w.Pos(ret.Pos()), "Table.Primary returns something that is neither a loop key over Columns nor a stored index")
				return true
			}
			nst := 0
			for _, fi := range sortedFuncs(w) {
				if fi.Pkg != prim.Pkg || fi.Decl.Body == nil {
					continue
				}
				finfo := fi.Pkg.TypesInfo
				ast.Inspect(fi.Decl.Body, func(y ast.Node) bool {
					as, ok := y.(*ast.AssignStmt)
					if !ok || len(as.Lhs) != 1 || len(as.Rhs) != 1 {
						return true
					}
					s2, ok := ast.Unparen(as.Lhs[0]).(*ast.SelectorExpr)
					if !ok || finfo.Uses[s2.Sel] != types.Object(field) {
						return true
					}
					if tv := finfo.Types[as.Rhs[0]]; tv.Value != nil {
						return true
					}
					nst++
					good, why := columnsKey(fi, as.Rhs[0])
					r.cond(good, "OBL-PRE", fi.Name, "Primary(): "+es(as.Lhs[0])+" = "+normLocals(finfo, as.Rhs[0]), w.Pos(as.Pos()), "the stored primary index is a position in Columns", "SIDE condition of Columns[Primary()] broken: "+why)
					return true
				})
			}
			if nst == 0 {
				Undecided("OBL-PRE: the index Table.Primary returns is never assigned")
			}
			return true
		}
		good, why := columnsKey(prim, res)
		r.cond(good, "OBL-PRE", prim.Name, "Primary(): return of a Columns key", w.Pos(ret.Pos()), "the returned index is the key of a loop over Columns", "SIDE condition of Columns[Primary()] broken: "+why)
		return true
	})
	if nret == 0 {
		Undecided("OBL-PRE: Table.Primary has no return statement")
	}
}

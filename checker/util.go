package main

import "regexp"

func regexpMust(s string) *regexp.Regexp { return regexp.MustCompile(s) }

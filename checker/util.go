package main

import (
	"go/ast"
	"go/types"
	"regexp"
	"strings"
)

func regexpMust(s string) *regexp.Regexp { return regexp.MustCompile(s) }

// normLocals renders e with every local variable (parameter, receiver, local; not fields, not package-level
// variables) replaced by `$<its type>`: the rendering does not change when a local is renamed. Keys of justification
// tables and of known findings use it.
func normLocals(info *types.Info, e ast.Expr) string {
	if e == nil || info == nil {
		return ""
	}
	sub := map[types.Object]string{}
	ast.Inspect(e, func(x ast.Node) bool {
		id, ok := x.(*ast.Ident)
		if !ok {
			return true
		}
		v, ok := objOf(info, id).(*types.Var)
		if !ok || v.IsField() || (v.Pkg() != nil && v.Parent() == v.Pkg().Scope()) {
			return true
		}
		// a local that is a pointer and one that is the value render alike: `buf buffer` -> `buf *buffer` keeps the key
		sub[v] = "$" + strings.TrimPrefix(types.TypeString(v.Type(), func(p *types.Package) string { return p.Name() }), "*")
		return true
	})
	if len(sub) == 0 {
		return es(e)
	}
	return render(info, e, sub)
}

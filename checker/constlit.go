package main

// CONST-EXACT: enum constants reach generated text through an exact printer.
//
// go/constant's Value.String() is the short human-readable form (strings cut after 72 runes, floats rounded to 6
// digits); Value.ExactString() writes non-integer floats as a fraction a/b, which SQL evaluates as an integer
// division. Obligations: every call of String/ExactString on a constant.Value in the production packages.
// String() is a violation; ExactString() is accepted only inside a function that treats the Float kind
// separately (it compares Kind() with constant.Float). Every other rendering must go through such a function.

import (
	"go/ast"
	"go/types"
	"strings"
)

// exactPrinters: the module functions that print a constant.Value exactly (they call ExactString and treat the
// Float kind separately).
func exactPrinters(w *World) map[*types.Func]bool {
	exact := map[*types.Func]bool{}
	for _, fi := range sortedFuncs(w) {
		if fi.Decl.Body == nil {
			continue
		}
		info := fi.Pkg.TypesInfo
		handlesFloat, callsExact := false, false
		ast.Inspect(fi.Decl.Body, func(x ast.Node) bool {
			switch v := x.(type) {
			case *ast.SelectorExpr:
				if obj, ok := info.Uses[v.Sel].(*types.Const); ok && obj.Pkg() != nil && obj.Pkg().Path() == "go/constant" && obj.Name() == "Float" {
					handlesFloat = true
				}
			case *ast.CallExpr:
				if fn := calleeOf(info, v); fn != nil && fn.FullName() == "(go/constant.Value).ExactString" {
					callsExact = true
				}
			}
			return true
		})
		if handlesFloat && callsExact {
			exact[fi.Obj] = true
		}
	}
	return exact
}

func constExactRule(w *World, r *Result, only func(rel string) bool) (printers, uses int) {
	exact := exactPrinters(w)
	printers = len(exact)
	// inside an exact printer every result is the full-precision float form or ExactString of the value itself
	for fn := range exact {
		fi := w.Funcs[fn]
		info := fi.Pkg.TypesInfo
		ast.Inspect(fi.Decl.Body, func(x ast.Node) bool {
			ret, ok := x.(*ast.ReturnStmt)
			if !ok || len(ret.Results) != 1 {
				return true
			}
			call, isCall := ast.Unparen(ret.Results[0]).(*ast.CallExpr)
			good, why := false, "the exact printer returns `"+es(ret.Results[0])+"`, which is neither strconv.FormatFloat(f, fmt, -1, 64) nor ExactString() of the value"
			if isCall {
				switch fullName(calleeOf(info, call)) {
				case "strconv.FormatFloat":
					if len(call.Args) == 4 {
						prec, okp := constInt(info, call.Args[2])
						bits, okb := constInt(info, call.Args[3])
						good = okp && okb && prec == -1 && bits == 64
						if !good {
							why = "a float constant is formatted with precision/bit size other than -1/64: the literal is rounded (to float32: about 7 digits), so it is not the value Go emits"
						}
					}
				case "(go/constant.Value).ExactString":
					good = true
				}
			}
			if !good && isCall && strings.HasPrefix(fullName(calleeOf(info, call)), "strconv.Quote") {
				why = "string constants are re-quoted with " + fullName(calleeOf(info, call)) + " instead of ExactString(): escapes such as \\u00e9 are Go syntax, which SQL reads literally, so the literal is not the constant's value"
			}
			r.cond(good, "CONST-EXACT", fi.Name, "return "+es(ret.Results[0]), w.Pos(ret.Pos()), "exact form", why)
			return true
		})
	}
	for _, fi := range sortedFuncs(w) {
		if fi.Decl.Body == nil || (only != nil && !only(w.Rel(fi.Obj.Pkg()))) {
			continue
		}
		info := fi.Pkg.TypesInfo
		ast.Inspect(fi.Decl.Body, func(x ast.Node) bool {
			call, ok := x.(*ast.CallExpr)
			if !ok {
				return true
			}
			fn := calleeOf(info, call)
			if fn == nil {
				return true
			}
			pos := w.Pos(call.Pos())
			switch fn.FullName() {
			case "(go/constant.Value).String":
				r.bad("CONST-EXACT", fi.Name, es(call), pos, "constant.Value.String() is the shortened form: a string constant longer than 72 runes is cut to an unterminated literal and a float is rounded to 6 digits, so the generated value set is not the enum's")
			case "(go/constant.Value).ExactString":
				if exact[fi.Obj] {
					r.ok("CONST-EXACT", fi.Name, es(call), pos, "inside the exact printer, which treats the Float kind separately", false)
				} else {
					r.bad("CONST-EXACT", fi.Name, es(call), pos, "ExactString() writes a non-integer float constant as a fraction a/b (an integer division in SQL, a non-literal in TypeScript) and is used here outside a function that treats the Float kind separately")
				}
			default:
				if exact[fn] {
					uses++
					r.ok("CONST-EXACT", fi.Name, es(call), pos, "the constant is printed by "+fn.Name()+", which is exact for every kind", true)
				}
			}
			return true
		})
	}
	constFitsRule(w, r, only)
	return printers, uses
}

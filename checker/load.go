package main

import (
	"fmt"
	"go/ast"
	"go/token"
	"go/types"
	"os"
	"os/exec"
	"path/filepath"
	"sort"
	"strings"

	"golang.org/x/tools/go/callgraph"
	"golang.org/x/tools/go/callgraph/cha"
	"golang.org/x/tools/go/callgraph/vta"
	"golang.org/x/tools/go/packages"
	"golang.org/x/tools/go/ssa"
	"golang.org/x/tools/go/ssa/ssautil"
)

const modPath = "github.com/benoitkugler/gomacro"

// the production packages every run must see (relative to the module root)
var expectedPkgs = []string{
	"analysis", "analysis/sql", "analysis/httpapi", "generator", "generator/dart",
	"generator/go/gounions", "generator/go/randdata", "generator/go/sqlcrud",
	"generator/sql", "generator/typescript", "cmd",
}

// World is the loaded, type-checked production program.
type World struct {
	Repo   string
	Tier   string
	Pkgs   []*packages.Package
	ByRel  map[string]*packages.Package // "analysis/sql" -> pkg
	Fset   *token.FileSet
	Funcs  map[*types.Func]*FuncInfo
	FuncBy map[string]*FuncInfo // qualified name -> info

	// lazily built
	prog    *ssa.Program
	ssaPkgs []*ssa.Package
	cg      *callgraph.Graph
	cgAlgo  string
}

type FuncInfo struct {
	Obj  *types.Func
	Decl *ast.FuncDecl
	Pkg  *packages.Package
	Name string // qualified, e.g. analysis.(*Enum).setIsIota
}

type undecided struct{ reason string }

func (u undecided) Error() string { return u.reason }

// Undecided aborts the current check with exit code 2.
func Undecided(format string, args ...any) {
	panic(undecided{fmt.Sprintf(format, args...)})
}

func goEnv() []string {
	env := os.Environ()
	var out []string
	for _, e := range env {
		if strings.HasPrefix(e, "GOWORK=") || strings.HasPrefix(e, "GOFLAGS=") {
			continue
		}
		out = append(out, e)
	}
	out = append(out, "GOFLAGS=-mod=mod", "GOPROXY=off", "GOSUMDB=off", "GOTOOLCHAIN=local", "GOWORK=off")
	return out
}

func isFixturePath(rel string) bool {
	if rel == "testutils" || strings.HasPrefix(rel, "testutils/") {
		return true
	}
	for _, seg := range strings.Split(rel, "/") {
		if seg == "test" || seg == "testdata" {
			return true
		}
	}
	return false
}

// listProduction enumerates the packages of the module that are not fixtures.
func listProduction(repo string) []string {
	cmd := exec.Command("go", "list", "-e", "-tags", "verif", "-f", "{{.ImportPath}}", "./...")
	cmd.Dir = repo
	cmd.Env = goEnv()
	out, _ := cmd.Output() // -e: errors of fixture packages are expected (self-import of a generated fixture)
	var rels []string
	seen := map[string]bool{}
	for _, line := range strings.Split(string(out), "\n") {
		line = strings.TrimSpace(line)
		if line == "" || !strings.HasPrefix(line, modPath) {
			continue
		}
		rel := strings.TrimPrefix(strings.TrimPrefix(line, modPath), "/")
		if rel == "" || isFixturePath(rel) || seen[rel] {
			continue
		}
		seen[rel] = true
		rels = append(rels, rel)
	}
	for _, e := range expectedPkgs {
		if !seen[e] {
			// go list may have died on a broken fixture; fall back on the directory
			if st, err := os.Stat(filepath.Join(repo, e)); err == nil && st.IsDir() {
				rels = append(rels, e)
				seen[e] = true
			} else {
				Undecided("production package %s not found in %s", e, repo)
			}
		}
	}
	sort.Strings(rels)
	return rels
}

func Load(repo, tier string) *World {
	rels := listProduction(repo)
	patterns := make([]string, len(rels))
	for i, r := range rels {
		patterns[i] = "./" + r
	}
	cfg := &packages.Config{
		Dir:        repo,
		Mode:       packages.LoadAllSyntax,
		Env:        goEnv(),
		BuildFlags: []string{"-tags", "verif"},
		Tests:      false,
	}
	pkgs, err := packages.Load(cfg, patterns...)
	if err != nil {
		Undecided("packages.Load: %v", err)
	}
	if len(pkgs) < len(expectedPkgs) {
		Undecided("only %d packages loaded, expected at least %d", len(pkgs), len(expectedPkgs))
	}
	w := &World{Repo: repo, Tier: tier, ByRel: map[string]*packages.Package{}, Funcs: map[*types.Func]*FuncInfo{}, FuncBy: map[string]*FuncInfo{}}
	for _, p := range pkgs {
		if len(p.Errors) > 0 {
			Undecided("package %s has errors: %v", p.PkgPath, p.Errors[0])
		}
		if p.Types == nil || p.TypesInfo == nil || len(p.Syntax) == 0 {
			Undecided("package %s loaded without syntax/types", p.PkgPath)
		}
		rel := strings.TrimPrefix(strings.TrimPrefix(p.PkgPath, modPath), "/")
		w.ByRel[rel] = p
		w.Pkgs = append(w.Pkgs, p)
		w.Fset = p.Fset
	}
	sort.Slice(w.Pkgs, func(i, j int) bool { return w.Pkgs[i].PkgPath < w.Pkgs[j].PkgPath })
	for _, e := range expectedPkgs {
		if w.ByRel[e] == nil {
			Undecided("production package %s not loaded", e)
		}
	}
	for _, p := range w.Pkgs {
		for _, f := range p.Syntax {
			for _, d := range f.Decls {
				fd, ok := d.(*ast.FuncDecl)
				if !ok || fd.Body == nil {
					continue
				}
				obj, _ := p.TypesInfo.Defs[fd.Name].(*types.Func)
				if obj == nil {
					continue
				}
				fi := &FuncInfo{Obj: obj, Decl: fd, Pkg: p, Name: w.QualName(obj)}
				w.Funcs[obj] = fi
				w.FuncBy[fi.Name] = fi
			}
		}
	}
	initSprintf(w)
	theWorld = w
	rebindRenamedAnchors(w)
	return w
}

func (w *World) Rel(p *types.Package) string {
	if p == nil {
		return ""
	}
	return strings.TrimPrefix(strings.TrimPrefix(p.Path(), modPath), "/")
}

// QualName gives "analysis.(*Enum).setIsIota" / "generator/sql.codeFor".
func (w *World) QualName(fn *types.Func) string {
	if _, rebound := renamedFull[fn]; rebound {
		if fi := w.Funcs[fn]; fi != nil && fi.Name != "" {
			return fi.Name // an anchor rebound after a rename answers to the name the rules know
		}
	}
	rel := w.Rel(fn.Pkg())
	sig, _ := fn.Type().(*types.Signature)
	if sig != nil && sig.Recv() != nil {
		t := sig.Recv().Type()
		ptr := ""
		if p, ok := t.(*types.Pointer); ok {
			ptr = "*"
			t = p.Elem()
		}
		name := "?"
		if n, ok := t.(*types.Named); ok {
			name = n.Obj().Name()
		}
		if ptr != "" {
			return fmt.Sprintf("%s.(*%s).%s", rel, name, fn.Name())
		}
		return fmt.Sprintf("%s.(%s).%s", rel, name, fn.Name())
	}
	return rel + "." + fn.Name()
}

// MustFunc resolves an anchor function or aborts as undecided.
func (w *World) MustFunc(q string) *FuncInfo {
	fi := w.Func(q)
	if fi == nil {
		Undecided("anchor function %s no longer resolvable", q)
	}
	return fi
}

// Func resolves a qualified name (pkg.Func, pkg.(T).Method, pkg.(*T).Method). When the exact spelling is gone, the
// one function or method of the same package with the same bare name is taken instead: turning a method into a
// function, or a value receiver into a pointer receiver, keeps an anchor.
func (w *World) Func(q string) *FuncInfo {
	if fi := w.FuncBy[q]; fi != nil {
		return fi
	}
	slash := strings.LastIndex(q, "/")
	dot := strings.Index(q[slash+1:], ".")
	if dot < 0 {
		return nil
	}
	pkg := q[:slash+1+dot]
	bare := q[strings.LastIndex(q, ".")+1:]
	var found *FuncInfo
	n := 0
	for name, fi := range w.FuncBy {
		s2 := strings.LastIndex(name, "/")
		d2 := strings.Index(name[s2+1:], ".")
		if d2 < 0 || name[:s2+1+d2] != pkg {
			continue
		}
		if name[strings.LastIndex(name, ".")+1:] == bare {
			found = fi
			n++
		}
	}
	if n == 1 {
		return found
	}
	return nil
}

// Pos renders a position relative to the repo.
func (w *World) Pos(p token.Pos) string {
	if !p.IsValid() {
		return "?"
	}
	pos := w.Fset.Position(p)
	rel, err := filepath.Rel(w.Repo, pos.Filename)
	if err != nil {
		rel = pos.Filename
	}
	return fmt.Sprintf("%s:%d", rel, pos.Line)
}

// EnclosingFunc returns the qualified name of the function declaration containing pos in pkg.
func (w *World) EnclosingFunc(p *packages.Package, pos token.Pos) string {
	for _, f := range p.Syntax {
		if f.Pos() <= pos && pos <= f.End() {
			for _, d := range f.Decls {
				if fd, ok := d.(*ast.FuncDecl); ok && fd.Pos() <= pos && pos <= fd.End() {
					if obj, ok := p.TypesInfo.Defs[fd.Name].(*types.Func); ok {
						return w.QualName(obj)
					}
				}
			}
			return w.Rel(p.Types) + ".<package-level>"
		}
	}
	return "?"
}

// Named type lookup: "analysis", "Struct".
func (w *World) TypeOf(rel, name string) types.Type {
	p := w.ByRel[rel]
	if p == nil {
		Undecided("package %s missing", rel)
	}
	obj := p.Types.Scope().Lookup(name)
	if obj == nil {
		Undecided("anchor type %s.%s no longer resolvable", rel, name)
	}
	return obj.Type()
}

func (w *World) Object(rel, name string) types.Object {
	p := w.ByRel[rel]
	if p == nil {
		Undecided("package %s missing", rel)
	}
	obj := p.Types.Scope().Lookup(name)
	if obj == nil {
		Undecided("anchor object %s.%s no longer resolvable", rel, name)
	}
	return obj
}

// Field returns the *types.Var of a struct field.
func (w *World) Field(rel, typ, field string) *types.Var {
	t := w.TypeOf(rel, typ)
	st, ok := t.Underlying().(*types.Struct)
	if !ok {
		Undecided("anchor type %s.%s is no longer a struct", rel, typ)
	}
	for i := 0; i < st.NumFields(); i++ {
		if st.Field(i).Name() == field {
			return st.Field(i)
		}
	}
	Undecided("anchor field %s.%s.%s no longer resolvable", rel, typ, field)
	return nil
}

// ---------- SSA ----------

func (w *World) SSA() *ssa.Program {
	if w.prog != nil {
		return w.prog
	}
	prog, spkgs := ssautil.AllPackages(w.Pkgs, ssa.InstantiateGenerics)
	prog.Build()
	w.prog = prog
	w.ssaPkgs = spkgs
	return prog
}

func (w *World) SSAFunc(fi *FuncInfo) *ssa.Function {
	prog := w.SSA()
	fn := prog.FuncValue(fi.Obj)
	if fn == nil {
		Undecided("no SSA for %s", fi.Name)
	}
	return fn
}

// InProd reports whether an SSA function belongs to a production package.
func (w *World) InProd(f *ssa.Function) bool {
	if f == nil {
		return false
	}
	for f.Parent() != nil {
		f = f.Parent()
	}
	if f.Pkg == nil || f.Pkg.Pkg == nil {
		return false
	}
	_, ok := w.ByRel[w.Rel(f.Pkg.Pkg)]
	return ok && strings.HasPrefix(f.Pkg.Pkg.Path(), modPath)
}

func (w *World) CallGraph() *callgraph.Graph {
	if w.cg != nil {
		return w.cg
	}
	prog := w.SSA()
	c := cha.CallGraph(prog)
	w.cgAlgo = "cha"
	if w.Tier == "thorough" {
		c = vta.CallGraph(ssautil.AllFunctions(prog), c)
		w.cgAlgo = "vta"
	}
	w.cg = c
	return c
}

// ProdSSAFuncs lists all SSA functions (incl. closures) of production packages, sorted.
func (w *World) ProdSSAFuncs() []*ssa.Function {
	prog := w.SSA()
	var out []*ssa.Function
	for f := range ssautil.AllFunctions(prog) {
		if w.InProd(f) && f.Blocks != nil && f.Synthetic == "" {
			out = append(out, f)
		}
	}
	sort.Slice(out, func(i, j int) bool {
		if out[i].Pos() != out[j].Pos() {
			return out[i].Pos() < out[j].Pos()
		}
		return out[i].String() < out[j].String()
	})
	return out
}

// ---------- AST helpers ----------

func es(e ast.Expr) string { return types.ExprString(e) }

// calleeOf resolves the static callee of a call (function, method, or nil).
func calleeOf(info *types.Info, call *ast.CallExpr) *types.Func {
	var id *ast.Ident
	fun := ast.Unparen(call.Fun)
	if ix, ok := fun.(*ast.IndexExpr); ok {
		fun = ix.X
	}
	if ix, ok := fun.(*ast.IndexListExpr); ok {
		fun = ix.X
	}
	switch f := fun.(type) {
	case *ast.Ident:
		id = f
	case *ast.SelectorExpr:
		id = f.Sel
	}
	if id == nil {
		return nil
	}
	if fn, ok := info.Uses[id].(*types.Func); ok {
		return fn
	}
	return nil
}

func fullName(fn *types.Func) string {
	if fn == nil {
		return ""
	}
	if old, ok := renamedFull[fn]; ok {
		return old // a renamed anchor answers to the name the rules know
	}
	return fn.FullName()
}

func isBuiltinCall(info *types.Info, call *ast.CallExpr, name string) bool {
	id, ok := ast.Unparen(call.Fun).(*ast.Ident)
	if !ok || id.Name != name {
		return false
	}
	_, isB := info.Uses[id].(*types.Builtin)
	return isB
}

func objOf(info *types.Info, id *ast.Ident) types.Object {
	if o := info.Uses[id]; o != nil {
		return o
	}
	return info.Defs[id]
}

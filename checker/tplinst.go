package main

// Instantiation of sketches and the queries run on instantiations (TPL-1 parse, TPL-3 hole completeness).

import (
	"fmt"
	"go/ast"
	"go/parser"
	"go/token"
	"os"
	"regexp"
	"strings"
)

type instCtx struct {
	rep    int // unrolling of every Star
	choice int // alternative selector (each-choice coverage: option = choice mod #options)
	tokens map[string]string
	n      int
	iter   []int
}

func (ic *instCtx) token(a Atom) string {
	key := a.Class + "|" + a.Prov + "|" + fmt.Sprint(ic.iter)
	if t, ok := ic.tokens[key]; ok {
		return t
	}
	ic.n++
	var t string
	switch a.Class {
	case "IDENT", "REC":
		t = fmt.Sprintf("Id%d", ic.n)
	case "TYPE":
		t = fmt.Sprintf("Ty%d", ic.n)
	case "INT":
		t = "3"
	case "QSTR":
		t = fmt.Sprintf("%q", fmt.Sprintf("s%d", ic.n))
	case "SQLID":
		t = fmt.Sprintf("tbl%d", ic.n)
	case "CONST":
		t = "1"
	case "COMMENT":
		t = "origin"
	case "USER", "TAGTEXT":
		t = fmt.Sprintf("Usr%d", ic.n)
	case "EMPTY?":
		t = ""
	default:
		t = fmt.Sprintf("Unk%d", ic.n)
	}
	ic.tokens[key] = t
	return t
}

func (ic *instCtx) inst(s Sketch) string {
	var b strings.Builder
	for _, p := range s {
		switch p := p.(type) {
		case Lit:
			b.WriteString(p.S)
		case Atom:
			b.WriteString(ic.token(p))
		case Star:
			for i := 0; i < ic.rep; i++ {
				if i > 0 {
					b.WriteString(p.Sep)
				}
				ic.iter = append(ic.iter, i)
				b.WriteString(ic.inst(p.Body))
				ic.iter = ic.iter[:len(ic.iter)-1]
			}
		case Guarded:
			if ic.inst(p.Cond) != "" {
				b.WriteString(ic.inst(p.Body))
			}
		case Alt:
			if len(p.Opts) > 0 {
				// vary the choice with the iteration so that one unrolling mixes alternatives
				k := ic.choice
				for _, it := range ic.iter {
					k += it
				}
				b.WriteString(ic.inst(p.Opts[k%len(p.Opts)]))
			}
		}
	}
	return b.String()
}

func maxAltWidth(s Sketch) int {
	m := 1
	for _, p := range s {
		switch p := p.(type) {
		case Star:
			if w := maxAltWidth(p.Body); w > m {
				m = w
			}
		case Guarded:
			if w := maxAltWidth(p.Body); w > m {
				m = w
			}
			if w := maxAltWidth(p.Cond); w > m {
				m = w
			}
		case Alt:
			if len(p.Opts) > m {
				m = len(p.Opts)
			}
			for _, o := range p.Opts {
				if w := maxAltWidth(o); w > m {
					m = w
				}
			}
		}
	}
	return m
}

type instance struct {
	rep, choice int
	text        string
}

// instances enumerates instantiations: Star unrolled 0..maxRep, every alternative of every Alt chosen at least once.
func instances(s Sketch, maxRep int) []instance {
	var out []instance
	seen := map[string]bool{}
	width := maxAltWidth(s)
	for rep := 0; rep <= maxRep; rep++ {
		for c := 0; c < width; c++ {
			ic := &instCtx{rep: rep, choice: c, tokens: map[string]string{}}
			t := ic.inst(s)
			if !seen[t] {
				seen[t] = true
				out = append(out, instance{rep, c, t})
			}
		}
	}
	return out
}

var atomTokenRe = regexp.MustCompile(`\b(Ty|Id|Unk|Usr|tbl)\d+`)

// goSource wraps an instantiation of a Go declaration into a parsable file.
func goSource(text string) string {
	if regexp.MustCompile(`(?m)^\s*package\s+\w+`).MatchString(text) {
		return text
	}
	return "package p\n" + text
}

// userTextInQuotes: an atom of class USER stands directly between a literal ending with `"` and a literal starting
// with `"` (the shape `"%s"` filled with free text), anywhere in the sketch.
func userTextInQuotes(s Sketch) (string, bool) {
	// the free text may come as one atom, or as the alternative of several (a local assigned twice)
	userProv := func(part interface{}) (string, bool) {
		switch v := part.(type) {
		case Atom:
			if v.Class == "USER" {
				return v.Prov, true
			}
		case Alt:
			for _, o := range v.Opts {
				if len(o) == 1 {
					if a, ok := o[0].(Atom); ok && a.Class == "USER" {
						return a.Prov, true
					}
				}
			}
		}
		return "", false
	}
	for i, p := range s {
		if prov, isUser := userProv(p); isUser && i > 0 && i+1 < len(s) {
			prev, ok1 := s[i-1].(Lit)
			next, ok2 := s[i+1].(Lit)
			if ok1 && ok2 && strings.HasSuffix(prev.S, `"`) && !strings.HasSuffix(prev.S, `\\"`) && strings.HasPrefix(next.S, `"`) {
				return prov, true
			}
		}
		switch p := p.(type) {
		case Star:
			if pr, ok := userTextInQuotes(p.Body); ok {
				return pr, true
			}
		case Guarded:
			if pr, ok := userTextInQuotes(p.Body); ok {
				return pr, true
			}
		case Alt:
			for _, o := range p.Opts {
				if pr, ok := userTextInQuotes(o); ok {
					return pr, true
				}
			}
		}
	}
	return "", false
}

// hasAtomClass: some atom of the sketch has the given class; returns its provenance.
func hasAtomClass(s Sketch, class string) (string, bool) {
	for _, p := range s {
		switch p := p.(type) {
		case Atom:
			if p.Class == class {
				return p.Prov, true
			}
		case Star:
			if pr, ok := hasAtomClass(p.Body, class); ok {
				return pr, true
			}
		case Guarded:
			if pr, ok := hasAtomClass(p.Body, class); ok {
				return pr, true
			}
			if pr, ok := hasAtomClass(p.Cond, class); ok {
				return pr, true
			}
		case Alt:
			for _, o := range p.Opts {
				if pr, ok := hasAtomClass(o, class); ok {
					return pr, true
				}
			}
		}
	}
	return "", false
}

func hasUnknown(s Sketch) (string, bool) {
	for _, p := range s {
		switch p := p.(type) {
		case Atom:
			if p.Class == "UNKNOWN" {
				return p.Prov, true
			}
		case Star:
			if w, ok := hasUnknown(p.Body); ok {
				return w, true
			}
		case Guarded:
			if w, ok := hasUnknown(p.Body); ok {
				return w, true
			}
		case Alt:
			for _, o := range p.Opts {
				if w, ok := hasUnknown(o); ok {
					return w, true
				}
			}
		}
	}
	return "", false
}

// emptyInSeparated: an element that may be empty inside a Star whose separator is syntactically significant.
func emptyInSeparated(s Sketch) (string, bool) {
	for _, p := range s {
		switch p := p.(type) {
		case Star:
			if strings.Contains(p.Sep, ",") {
				if prov, ok := mayBeEmptyElem(p.Body); ok {
					return prov, true
				}
			}
			if w, ok := emptyInSeparated(p.Body); ok {
				return w, true
			}
		case Alt:
			for _, o := range p.Opts {
				if w, ok := emptyInSeparated(o); ok {
					return w, true
				}
			}
		}
	}
	return "", false
}

func mayBeEmptyElem(s Sketch) (string, bool) {
	if len(s) == 1 {
		if alt, ok := s[0].(Alt); ok {
			for _, o := range alt.Opts {
				if len(o) == 1 {
					if a, ok := o[0].(Atom); ok && a.Class == "EMPTY?" {
						return a.Prov, true
					}
				}
				if len(o) == 0 {
					return "empty alternative", true
				}
			}
		}
	}
	return "", false
}

// runTPLGo: TPL-1 and TPL-3 over the declarations of a Go generator package.
func runTPLGo(w *World, r *Result, rel string, maxRep int) (ndecl, ninst int) {
	decls := extractDecls(w, rel)
	for _, d := range decls {
		ndecl++
		cons := "declaration template at " + w.Pos(d.pos)
		pos := w.Pos(d.pos)
		if why, bad := hasUnknown(d.content); bad && os.Getenv("GMDEBUG") != "" {
			fmt.Println("UNKNOWN", d.label, pos, why)
			continue
		}
		if why, bad := hasUnknown(d.content); bad {
			Undecided("template of %s at %s has a hole the evaluator cannot classify: %s", d.label, pos, why)
		}
		// TPL-6: the whole text of a struct tag is arbitrary text full of double quotes; in generated Go source it can
		// only stand as a string literal produced by strconv.Quote / %q (class QSTR). Wrapped by hand in back quotes
		// (or double quotes) it breaks the file for every tag that contains that quote character.
		if prov, raw := hasAtomClass(d.content, "TAGTEXT"); raw {
			r.bad("TPL-6", d.label, cons+": struct tag "+prov, pos, "the text of a struct tag ("+prov+") is written into the generated Go source without strconv.Quote / %q: a tag that contains the quote character it is wrapped in (a back quote inside a raw string, e.g. `doc:\"use `x`\"`) ends the literal early and the generated file does not parse")
		} else {
			r.ok("TPL-6", d.label, cons, pos, "no raw struct tag text in this template", false)
		}
		// TPL-7: free text of the analysed program (a custom SQL query, a tag value) placed between the double quotes of
		// a Go string literal of the template, without %q / strconv.Quote: a double quote or a backslash in it ends or
		// corrupts the literal
		if prov, raw := userTextInQuotes(d.content); raw {
			r.bad("TPL-7", d.label, "free text of the analysed program between the double quotes of a generated Go string literal", pos, "the text "+prov+" comes from the analysed program (a custom query, a tag) and is written between the double quotes of a string literal of the generated Go code as it is: a `\"` in it (a quoted SQL identifier) ends the literal and the generated file does not parse; a backslash becomes a Go escape sequence. It has to be written with %q / strconv.Quote")
		} else {
			r.ok("TPL-7", d.label, cons, pos, "no free text of the analysed program stands unquoted inside a Go string literal of this template", false)
		}
		if prov, bad := emptyInSeparated(d.content); bad {
			r.bad("TPL-3", d.label, cons+": list "+prov, pos, "the list "+prov+" is pre-sized and filled by a store that is skipped for some elements: the skipped slots stay empty strings and are joined with a comma, producing `a, , b` (a syntax error in the generated Go)")
		} else {
			r.ok("TPL-3", d.label, cons, pos, "no comma-separated list of this template can contain an empty element", false)
		}
		insts := instances(d.content, maxRep)
		failed := ""
		positional := false
		for _, in := range insts {
			ninst++
			src := goSource(in.text)
			fset := token.NewFileSet()
			file, err := parser.ParseFile(fset, "gen.go", src, parser.SkipObjectResolution)
			if err == nil && !positional {
				// TPL-5: a composite literal of a user type (its type is a hole) lists its fields by name: the
				// order of the fields is the user's, and the analysis accepts the look-alike wrappers in both orders
				ast.Inspect(file, func(n ast.Node) bool {
					lit, ok := n.(*ast.CompositeLit)
					if !ok || len(lit.Elts) < 2 {
						return true
					}
					id, ok := lit.Type.(*ast.Ident)
					if !ok || !(strings.HasPrefix(id.Name, "Id") || strings.HasPrefix(id.Name, "Ty") || strings.HasPrefix(id.Name, "Usr")) {
						return true
					}
					if _, keyed := lit.Elts[0].(*ast.KeyValueExpr); !keyed {
						positional = true
					}
					return true
				})
			}
			if err != nil {
				failed = fmt.Sprintf("unrolling=%d choice=%d: %v", in.rep, in.choice, err)
				// an empty-slot failure is already reported by TPL-3
				if _, isEmpty := emptyInSeparated(d.content); isEmpty && strings.Contains(err.Error(), "expected operand") {
					failed = ""
					continue
				}
				break
			}
		}
		if positional {
			r.bad("TPL-5", d.label, cons+": positional literal of a user type", pos, "the template builds a value of a user-declared struct with an unkeyed composite literal: the order of the fields is the user's (the nullable-wrapper look-alikes are accepted with the data field first or last), so the values land in the wrong fields or the literal is ill-typed")
		}
		if failed == "" {
			r.ok("TPL-1", d.label, cons, pos, fmt.Sprintf("%d instantiations (repetitions 0..%d, every alternative chosen) parse as Go", len(insts), maxRep), true)
		} else {
			r.bad("TPL-1", d.label, cons, pos, "an instantiation of the template is not syntactically valid Go ("+failed+")")
		}
	}
	return
}

// runTPLBalance (TPL-4i): instantiated balance of the declaration templates of a non-Go generator.
func runTPLBalance(w *World, r *Result, rel string, maxRep int) (ndecl, ninst int) {
	lang := langOf(rel)
	for _, d := range extractDecls(w, rel) {
		pos := w.Pos(d.pos)
		if why, bad := hasUnknown(d.content); bad {
			Undecided("template of %s at %s has a hole the evaluator cannot classify: %s", d.label, pos, why)
		}
		ndecl++
		insts := instances(d.content, maxRep)
		failed := ""
		for _, in := range insts {
			ninst++
			if why := balanceText(in.text, lang); why != "" {
				failed = fmt.Sprintf("unrolling=%d choice=%d: %s", in.rep, in.choice, why)
				break
			}
		}
		cons := "declaration template at " + pos
		if failed == "" {
			r.ok("TPL-4", d.label, cons, pos, fmt.Sprintf("%d instantiations (repetitions 0..%d, every alternative chosen) are bracket/block balanced outside strings and comments", len(insts), maxRep), true)
		} else {
			r.bad("TPL-4", d.label, cons, pos, "an instantiation of the template is not balanced ("+failed+"): syntactically invalid "+strings.ToUpper(lang))
		}
	}
	return
}

package main

// STATE-PKG: the generators and the analysis keep no mutable state between two calls.
//
// The same process generates several outputs (the configuration-file mode loads all files once and runs every
// generator per file; tests and tools call Generate repeatedly). A package-level map, slice, pointer, struct or
// cached function value that generation writes to makes the output of one call depend on the calls before it
// (a validator skipped because "already seen" for another script, a folded constant remembered for another
// package, a working directory frozen at first use).
// Obligations: every package-level variable of the production packages (cmd excluded: its formatter cache is the
// subject of C20) whose type can hold mutable or lazily computed state. Violation: the variable, one of its
// elements or fields is assigned outside its declaration; it is passed to a function of the module (maps, slices
// and pointers share storage); a method of the module with a pointer or map receiver that writes through the
// receiver is called on it; it is a func value produced by sync.Once* helpers.

import (
	"go/ast"
	"go/types"
	"strings"
)

func statePkgRule(w *World, r *Result, only func(rel string) bool) int {
	n := 0
	// package-level variables of interest
	type gv struct {
		obj  *types.Var
		decl *ast.ValueSpec
		init ast.Expr
		rel  string
		pkgI *types.Info
	}
	var globals []gv
	for _, p := range w.Pkgs {
		rel := w.Rel(p.Types)
		if rel == "cmd" || (only != nil && !only(rel)) {
			continue
		}
		for _, f := range p.Syntax {
			for _, d := range f.Decls {
				gd, ok := d.(*ast.GenDecl)
				if !ok {
					continue
				}
				for _, sp := range gd.Specs {
					vs, ok := sp.(*ast.ValueSpec)
					if !ok {
						continue
					}
					for i, nm := range vs.Names {
						v, ok := p.TypesInfo.Defs[nm].(*types.Var)
						if !ok || nm.Name == "_" {
							continue
						}
						var init ast.Expr
						if i < len(vs.Values) {
							init = vs.Values[i]
						}
						globals = append(globals, gv{v, vs, init, rel, p.TypesInfo})
					}
				}
			}
		}
	}
	mutableType := func(t types.Type) bool {
		switch t.Underlying().(type) {
		case *types.Map, *types.Slice, *types.Pointer, *types.Struct, *types.Chan, *types.Signature, *types.Interface, *types.Array:
			return true
		}
		return false
	}
	for _, g := range globals {
		if !mutableType(g.obj.Type()) {
			continue
		}
		n++
		cons := "package-level " + g.obj.Name() + " " + types.TypeString(g.obj.Type(), func(p *types.Package) string { return p.Name() })
		pos := w.Pos(g.obj.Pos())
		why := ""
		// lazily computed function values
		if g.init != nil {
			if call, ok := ast.Unparen(g.init).(*ast.CallExpr); ok {
				if fn := calleeOf(g.pkgI, call); fn != nil && fn.Pkg() != nil && fn.Pkg().Path() == "sync" && strings.HasPrefix(fn.Name(), "Once") {
					why = "it is a " + fn.FullName() + " value: the result is computed at first use and frozen for the rest of the process"
				}
			}
		}
		// uses in function bodies
		for _, fi := range sortedFuncs(w) {
			if fi.Decl.Body == nil || why != "" {
				continue
			}
			info := fi.Pkg.TypesInfo
			rootIs := func(e ast.Expr) bool {
				id := rootIdent(e)
				return id != nil && info.Uses[id] == types.Object(g.obj)
			}
			ast.Inspect(fi.Decl.Body, func(x ast.Node) bool {
				if why != "" {
					return false
				}
				switch v := x.(type) {
				case *ast.AssignStmt:
					for _, l := range v.Lhs {
						if rootIs(l) {
							why = "it (or one of its elements or fields) is assigned at " + w.Pos(v.Pos()) + " in " + fi.Name
						}
					}
				case *ast.IncDecStmt:
					if rootIs(v.X) {
						why = "it is modified at " + w.Pos(v.Pos()) + " in " + fi.Name
					}
				case *ast.CallExpr:
					fn := calleeOf(info, v)
					// passed to a module function: shares storage
					for ai, a := range v.Args {
						if id := identOf(a); id != nil && info.Uses[id] == types.Object(g.obj) {
							switch g.obj.Type().Underlying().(type) {
							case *types.Map, *types.Slice, *types.Pointer:
								if fn != nil && w.Funcs[fn] != nil && !paramReadOnly(w, w.Funcs[fn], ai, 0) {
									why = "it is passed to " + fn.Name() + " at " + w.Pos(v.Pos()) + " in " + fi.Name + " (maps, slices and pointers share their storage with the callee)"
								}
							}
						}
						if u, ok := ast.Unparen(a).(*ast.UnaryExpr); ok && u.Op.String() == "&" && rootIs(u.X) {
							if fn != nil && w.Funcs[fn] != nil {
								why = "its address is passed to " + fn.Name() + " at " + w.Pos(v.Pos()) + " in " + fi.Name
							}
						}
					}
					// method of the module writing through its receiver
					if sel, ok := v.Fun.(*ast.SelectorExpr); ok && rootIs(sel.X) && fn != nil {
						if mfi := w.Funcs[fn]; mfi != nil && mfi.Decl.Recv != nil && len(mfi.Decl.Recv.List[0].Names) > 0 {
							recvObj := mfi.Pkg.TypesInfo.Defs[mfi.Decl.Recv.List[0].Names[0]]
							writes := false
							ast.Inspect(mfi.Decl.Body, func(y ast.Node) bool {
								if as, ok := y.(*ast.AssignStmt); ok {
									for _, l := range as.Lhs {
										if _, isIdent := ast.Unparen(l).(*ast.Ident); isIdent {
											continue
										}
										if id := rootIdent(l); id != nil && mfi.Pkg.TypesInfo.Uses[id] == recvObj {
											writes = true
										}
									}
								}
								return true
							})
							if writes {
								why = "the method " + fn.Name() + ", which writes through its receiver, is called on it at " + w.Pos(v.Pos()) + " in " + fi.Name
							}
						}
					}
				}
				return true
			})
		}
		if why == "" {
			r.ok("STATE-PKG", g.rel+".<package>", cons, pos, "never written, never handed to code that could write it: read-only after initialisation", true)
		} else {
			r.bad("STATE-PKG", g.rel+".<package>", cons, pos, "package-level state that generation changes: "+why+". The output of a call then depends on the calls made before it in the same process (the configuration-file mode generates for several files in one process)")
		}
	}
	return n
}

// paramReadOnly: the module function fi only reads through its i-th parameter: the parameter is never the root of an
// assigned or stepped expression, never aliased (assigned to another variable, stored, returned, captured by a
// closure), only passed on to module functions that are read-only in turn, and the methods called on it are those
// of a standard-library type documented as safe for concurrent use without mutation (*regexp.Regexp, except Longest).
func paramReadOnly(w *World, fi *FuncInfo, i int, depth int) bool {
	if fi == nil || fi.Decl.Body == nil || depth > 2 {
		return false
	}
	info := fi.Pkg.TypesInfo
	var pobj types.Object
	k := 0
	for _, f := range fi.Decl.Type.Params.List {
		for _, nm := range f.Names {
			if k == i {
				pobj = info.Defs[nm]
			}
			k++
		}
	}
	if pobj == nil {
		return false
	}
	isRegexp := pobj.Type().String() == "*regexp.Regexp"
	ok := true
	// parent map to classify each use
	parent := map[ast.Node]ast.Node{}
	var stack []ast.Node
	ast.Inspect(fi.Decl.Body, func(x ast.Node) bool {
		if x == nil {
			stack = stack[:len(stack)-1]
			return false
		}
		if len(stack) > 0 {
			parent[x] = stack[len(stack)-1]
		}
		stack = append(stack, x)
		return true
	})
	ast.Inspect(fi.Decl.Body, func(x ast.Node) bool {
		if _, isLit := x.(*ast.FuncLit); isLit {
			// captured by a closure: give up if it is mentioned inside
			if usesObj(info, x, pobj) {
				ok = false
			}
			return false
		}
		id, isID := x.(*ast.Ident)
		if !isID || info.Uses[id] != pobj {
			return true
		}
		// climb through selectors / indexes / parens / stars: the expression rooted at the parameter
		var e ast.Node = id
		for {
			p := parent[e]
			switch pv := p.(type) {
			case *ast.ParenExpr, *ast.StarExpr:
				e = p
				continue
			case *ast.SelectorExpr:
				if pv.X == e {
					e = p
					continue
				}
			case *ast.IndexExpr:
				if pv.X == e {
					e = p
					continue
				}
			case *ast.SliceExpr:
				if pv.X == e {
					e = p
					continue
				}
			}
			break
		}
		switch pv := parent[e].(type) {
		case *ast.AssignStmt:
			for _, l := range pv.Lhs {
				if l == e {
					if e != ast.Node(id) {
						ok = false // element or field assigned
					}
				}
			}
			for _, r := range pv.Rhs {
				if r == e && e == ast.Node(id) {
					ok = false // aliased
				}
			}
		case *ast.IncDecStmt:
			ok = false
		case *ast.ReturnStmt, *ast.CompositeLit, *ast.KeyValueExpr, *ast.UnaryExpr:
			if e == ast.Node(id) {
				ok = false // escapes
			}
		case *ast.CallExpr:
			if pv.Fun == e {
				// a method called on the parameter
				if sel, isSel := e.(*ast.SelectorExpr); isSel {
					if isRegexp && sel.Sel.Name != "Longest" {
						return true
					}
					if mfn := calleeOf(info, pv); mfn != nil && w.Funcs[mfn] != nil {
						if sig, _ := mfn.Type().(*types.Signature); sig != nil && sig.Recv() != nil {
							if _, ptr := sig.Recv().Type().(*types.Pointer); !ptr {
								return true // value receiver: works on a copy
							}
						}
					}
				}
				ok = false
				return true
			}
			for j, a := range pv.Args {
				if a != e {
					continue
				}
				if e != ast.Node(id) {
					continue // an element or field value is passed, not the shared storage itself
				}
				if isBuiltinCall(info, pv, "len") || isBuiltinCall(info, pv, "cap") {
					continue
				}
				cfn := calleeOf(info, pv)
				if cfn != nil && w.Funcs[cfn] != nil && paramReadOnly(w, w.Funcs[cfn], j, depth+1) {
					continue
				}
				switch fullName(cfn) {
				case "strings.Join", "slices.Contains", "slices.Index", "slices.ContainsFunc", "slices.IndexFunc", "fmt.Sprintf", "fmt.Sprint", "fmt.Errorf":
					continue
				}
				ok = false
			}
		}
		return true
	})
	return ok
}

package main

// MUT-AN: generators read the analysis and the tables they are handed; they never change them.
//
// One analysis is given to several generators in turn (and to the same generator for several files); the
// TableNameReplacer and similar tables are shared by all the statements of a run. A generator that sorts
// `e.Members` in place, assigns a field of an analysis node, or adds an entry to a map it received changes what
// the next consumer sees: the output of a target then depends on which targets ran before it.
// Obligations, in the generator packages: (a) every in-place sort (sort.Slice/SliceStable/Sort/Stable/Strings/Ints,
// slices.Sort*) whose slice is a field of an analysis node or a local bound to one; (b) every assignment through a
// value of an analysis node type (field or element store); (c) every store into a map-typed parameter.
//
// RANGE-INSERT: no entry with a new key is added to a map while it is ranged over (whether the new entry is
// visited by the same loop is unspecified).

import (
	"go/ast"
	"go/types"
	"strings"
)

func isAnalysisNodeType(t types.Type) bool {
	if t == nil {
		return false
	}
	if p, ok := t.(*types.Pointer); ok {
		t = p.Elem()
	}
	n, ok := t.(*types.Named)
	if !ok || n.Obj().Pkg() == nil {
		return false
	}
	p := n.Obj().Pkg().Path()
	return strings.HasSuffix(p, "gomacro/analysis") || strings.HasSuffix(p, "gomacro/analysis/sql") || strings.HasSuffix(p, "gomacro/analysis/httpapi")
}

func mutAnRule(w *World, r *Result, only func(rel string) bool) int {
	n := 0
	for _, fi := range sortedFuncs(w) {
		rel := w.Rel(fi.Obj.Pkg())
		if fi.Decl.Body == nil || !strings.HasPrefix(rel, "generator") || (only != nil && !only(rel)) {
			continue
		}
		info := fi.Pkg.TypesInfo
		// locals bound to a field of an analysis node (aliases of the node's slice)
		aliasOf := map[types.Object]string{}
		ast.Inspect(fi.Decl.Body, func(x ast.Node) bool {
			as, ok := x.(*ast.AssignStmt)
			if !ok || len(as.Lhs) != len(as.Rhs) {
				return true
			}
			for i, rhs := range as.Rhs {
				sel, ok := ast.Unparen(rhs).(*ast.SelectorExpr)
				if !ok || !isAnalysisNodeType(info.TypeOf(sel.X)) {
					continue
				}
				if _, isSlice := info.TypeOf(rhs).Underlying().(*types.Slice); !isSlice {
					continue
				}
				if id := identOf(as.Lhs[i]); id != nil {
					aliasOf[objOf(info, id)] = es(sel)
				}
			}
			return true
		})
		sharedSlice := func(e ast.Expr) string {
			e = ast.Unparen(e)
			if sel, ok := e.(*ast.SelectorExpr); ok && isAnalysisNodeType(info.TypeOf(sel.X)) {
				return es(sel)
			}
			if id := identOf(e); id != nil {
				return aliasOf[objOf(info, id)]
			}
			return ""
		}
		isMapParam := func(e ast.Expr) bool {
			id := identOf(e)
			if id == nil {
				return false
			}
			o := objOf(info, id)
			if _, isMap := o.Type().Underlying().(*types.Map); !isMap {
				return false
			}
			for _, f := range fi.Decl.Type.Params.List {
				for _, nm := range f.Names {
					if info.Defs[nm] == o {
						return true
					}
				}
			}
			return false
		}
		ast.Inspect(fi.Decl.Body, func(x ast.Node) bool {
			switch v := x.(type) {
			case *ast.CallExpr:
				fn := calleeOf(info, v)
				if fn == nil || fn.Pkg() == nil || len(v.Args) == 0 {
					return true
				}
				p := fn.Pkg().Path()
				if (p == "sort" && (strings.HasPrefix(fn.Name(), "Slice") && fn.Name() != "SliceIsSorted" || fn.Name() == "Strings" || fn.Name() == "Ints" || fn.Name() == "Float64s")) || (p == "slices" && strings.HasPrefix(fn.Name(), "Sort")) || (p == "slices" && fn.Name() == "Reverse") {
					if owner := sharedSlice(v.Args[0]); owner != "" {
						n++
						r.bad("MUT-AN", fi.Name, fn.FullName()+"("+es(v.Args[0])+")", w.Pos(v.Pos()), "a generator sorts "+owner+" in place: that slice belongs to the analysis shared by all generators, so what the other targets (or this one, on its next call) print depends on whether and when this target ran")
					}
				}
			case *ast.AssignStmt:
				for _, l := range v.Lhs {
					l = ast.Unparen(l)
					switch lv := l.(type) {
					case *ast.SelectorExpr:
						if isAnalysisNodeType(info.TypeOf(lv.X)) && !freshLocal(info, fi, lv.X) {
							n++
							r.bad("MUT-AN", fi.Name, "assignment to "+es(lv), w.Pos(v.Pos()), "a generator assigns a field of an analysis value: the analysis is shared by all generators and all files of a run")
						}
					case *ast.IndexExpr:
						if owner := sharedSlice(lv.X); owner != "" {
							n++
							r.bad("MUT-AN", fi.Name, "assignment to "+es(lv), w.Pos(v.Pos()), "a generator overwrites an element of "+owner+", a slice of the shared analysis")
						}
						if isMapParam(lv.X) {
							n++
							r.bad("MUT-AN", fi.Name, "store into the map parameter "+es(lv), w.Pos(v.Pos()), "a generator adds an entry to a table it was handed ("+es(lv.X)+"): the table is shared by every statement and every declaration of the run, so the entry changes how later text is rewritten")
						}
					}
				}
			}
			return true
		})
	}
	return n
}

// rangeInsertRule: inside `for k := range m`, a store m[x] = v with x other than the range key.
func rangeInsertRule(w *World, r *Result, only func(rel string) bool) int {
	n := 0
	for _, fi := range sortedFuncs(w) {
		if fi.Decl.Body == nil || (only != nil && !only(w.Rel(fi.Obj.Pkg()))) {
			continue
		}
		info := fi.Pkg.TypesInfo
		ast.Inspect(fi.Decl.Body, func(x ast.Node) bool {
			rs, ok := x.(*ast.RangeStmt)
			if !ok {
				return true
			}
			t := info.TypeOf(rs.X)
			if t == nil {
				return true
			}
			if _, isMap := t.Underlying().(*types.Map); !isMap {
				return true
			}
			ranged := render(info, rs.X, nil)
			var key types.Object
			if id := identOf(rs.Key); id != nil {
				key = info.Defs[id]
			}
			ast.Inspect(rs.Body, func(y ast.Node) bool {
				as, ok := y.(*ast.AssignStmt)
				if !ok {
					return true
				}
				for _, l := range as.Lhs {
					ix, ok := ast.Unparen(l).(*ast.IndexExpr)
					if !ok || render(info, ix.X, nil) != ranged {
						continue
					}
					if id := identOf(ix.Index); id != nil && key != nil && objOf(info, id) == key {
						continue // updates the entry being visited
					}
					n++
					r.bad("RANGE-INSERT", fi.Name, "store "+es(ix)+" while ranging over "+ranged, w.Pos(as.Pos()), "an entry with another key is added to the map being ranged over: the language leaves open whether the same loop visits it, so the result differs from run to run")
				}
				return true
			})
			return true
		})
	}
	return n
}

// freshLocal: e is a local variable whose every definition is a constructor call or a composite literal made in
// this function (a value the function owns), not something it was handed.
func freshLocal(info *types.Info, fi *FuncInfo, e ast.Expr) bool {
	id := identOf(e)
	if id == nil {
		return false
	}
	defs := defsIn(info, fi.Decl, objOf(info, id))
	if len(defs) == 0 {
		return false
	}
	for _, d := range defs {
		switch v := ast.Unparen(d).(type) {
		case *ast.CompositeLit:
		case *ast.UnaryExpr:
			if _, ok := v.X.(*ast.CompositeLit); !ok {
				return false
			}
		case *ast.CallExpr:
			fn := calleeOf(info, v)
			if fn == nil || !strings.HasPrefix(fn.Name(), "New") && !strings.HasPrefix(fn.Name(), "new") {
				return false
			}
		default:
			return false
		}
	}
	return true
}

package main

// MUT-AN: generators read the analysis and the tables they are handed; they never change them.
//
// One analysis is given to several generators in turn (and to the same generator for several files); the
// TableNameReplacer and similar tables are shared by all the statements of a run. A generator that sorts
// `e.Members` in place, assigns a field of an analysis node, or adds an entry to a map it received changes what
// the next consumer sees: the output of a target then depends on which targets ran before it.
// Obligations, in the generator packages: (a) every in-place sort (sort.Slice/SliceStable/Sort/Stable/Strings/Ints,
// slices.Sort*) whose slice is a field of an analysis node or a local bound to one; (b) every assignment through a
// value of an analysis node type (field or element store); (c) every store into a map-typed parameter.
//
// RANGE-INSERT: no entry with a new key is added to a map while it is ranged over (whether the new entry is
// visited by the same loop is unspecified).

import (
	"go/ast"
	"go/constant"
	"go/token"
	"go/types"
	"strconv"
	"strings"
)

func isAnalysisNodeType(t types.Type) bool {
	if t == nil {
		return false
	}
	if p, ok := t.(*types.Pointer); ok {
		t = p.Elem()
	}
	n, ok := t.(*types.Named)
	if !ok || n.Obj().Pkg() == nil {
		return false
	}
	p := n.Obj().Pkg().Path()
	return strings.HasSuffix(p, "gomacro/analysis") || strings.HasSuffix(p, "gomacro/analysis/sql") || strings.HasSuffix(p, "gomacro/analysis/httpapi")
}

func mutAnRule(w *World, r *Result, only func(rel string) bool) int {
	n := 0
	shiftSkipRule(w, r, only)
	sepIndexRule(w, r, only)
	worklistRangeRule(w, r, only)
	cutsetRule(w, r, only)
	for _, fi := range sortedFuncs(w) {
		rel := w.Rel(fi.Obj.Pkg())
		if fi.Decl.Body == nil || !strings.HasPrefix(rel, "generator") || (only != nil && !only(rel)) {
			continue
		}
		info := fi.Pkg.TypesInfo
		// locals bound to a field of an analysis node (aliases of the node's slice)
		aliasOf := map[types.Object]string{}
		ast.Inspect(fi.Decl.Body, func(x ast.Node) bool {
			as, ok := x.(*ast.AssignStmt)
			if !ok || len(as.Lhs) != len(as.Rhs) {
				return true
			}
			for i, rhs := range as.Rhs {
				sel, ok := ast.Unparen(rhs).(*ast.SelectorExpr)
				if !ok || !isAnalysisNodeType(info.TypeOf(sel.X)) {
					continue
				}
				if _, isSlice := info.TypeOf(rhs).Underlying().(*types.Slice); !isSlice {
					continue
				}
				if id := identOf(as.Lhs[i]); id != nil {
					aliasOf[objOf(info, id)] = es(sel)
				}
			}
			return true
		})
		sharedSlice := func(e ast.Expr) string {
			e = ast.Unparen(e)
			if sel, ok := e.(*ast.SelectorExpr); ok && isAnalysisNodeType(info.TypeOf(sel.X)) {
				return es(sel)
			}
			if id := identOf(e); id != nil {
				return aliasOf[objOf(info, id)]
			}
			return ""
		}
		isMapParam := func(e ast.Expr) bool {
			id := identOf(e)
			if id == nil {
				return false
			}
			o := objOf(info, id)
			if _, isMap := o.Type().Underlying().(*types.Map); !isMap {
				return false
			}
			for _, f := range fi.Decl.Type.Params.List {
				for _, nm := range f.Names {
					if info.Defs[nm] == o {
						return true
					}
				}
			}
			return false
		}
		ast.Inspect(fi.Decl.Body, func(x ast.Node) bool {
			switch v := x.(type) {
			case *ast.CallExpr:
				fn := calleeOf(info, v)
				if fn == nil || fn.Pkg() == nil || len(v.Args) == 0 {
					return true
				}
				p := fn.Pkg().Path()
				if (p == "sort" && (strings.HasPrefix(fn.Name(), "Slice") && fn.Name() != "SliceIsSorted" || fn.Name() == "Strings" || fn.Name() == "Ints" || fn.Name() == "Float64s")) || (p == "slices" && strings.HasPrefix(fn.Name(), "Sort")) || (p == "slices" && fn.Name() == "Reverse") {
					if owner := sharedSlice(v.Args[0]); owner != "" {
						n++
						r.bad("MUT-AN", fi.Name, fn.FullName()+"("+es(v.Args[0])+")", w.Pos(v.Pos()), "a generator sorts "+owner+" in place: that slice belongs to the analysis shared by all generators, so what the other targets (or this one, on its next call) print depends on whether and when this target ran")
					}
				}
			case *ast.AssignStmt:
				for _, l := range v.Lhs {
					l = ast.Unparen(l)
					switch lv := l.(type) {
					case *ast.SelectorExpr:
						if isAnalysisNodeType(info.TypeOf(lv.X)) && !freshLocal(info, fi, lv.X) {
							n++
							r.bad("MUT-AN", fi.Name, "assignment to "+es(lv), w.Pos(v.Pos()), "a generator assigns a field of an analysis value: the analysis is shared by all generators and all files of a run")
						}
					case *ast.IndexExpr:
						if owner := sharedSlice(lv.X); owner != "" {
							n++
							r.bad("MUT-AN", fi.Name, "assignment to "+es(lv), w.Pos(v.Pos()), "a generator overwrites an element of "+owner+", a slice of the shared analysis")
						}
						if isMapParam(lv.X) {
							n++
							r.bad("MUT-AN", fi.Name, "store into the map parameter "+es(lv), w.Pos(v.Pos()), "a generator adds an entry to a table it was handed ("+es(lv.X)+"): the table is shared by every statement and every declaration of the run, so the entry changes how later text is rewritten")
						}
					}
				}
			}
			return true
		})
	}
	return n
}

// rangeInsertRule: inside `for k := range m`, a store m[x] = v with x other than the range key.
func rangeInsertRule(w *World, r *Result, only func(rel string) bool) int {
	n := 0
	for _, fi := range sortedFuncs(w) {
		if fi.Decl.Body == nil || (only != nil && !only(w.Rel(fi.Obj.Pkg()))) {
			continue
		}
		info := fi.Pkg.TypesInfo
		ast.Inspect(fi.Decl.Body, func(x ast.Node) bool {
			rs, ok := x.(*ast.RangeStmt)
			if !ok {
				return true
			}
			t := info.TypeOf(rs.X)
			if t == nil {
				return true
			}
			if _, isMap := t.Underlying().(*types.Map); !isMap {
				return true
			}
			ranged := render(info, rs.X, nil)
			var key types.Object
			if id := identOf(rs.Key); id != nil {
				key = info.Defs[id]
			}
			ast.Inspect(rs.Body, func(y ast.Node) bool {
				as, ok := y.(*ast.AssignStmt)
				if !ok {
					return true
				}
				for _, l := range as.Lhs {
					ix, ok := ast.Unparen(l).(*ast.IndexExpr)
					if !ok || render(info, ix.X, nil) != ranged {
						continue
					}
					if id := identOf(ix.Index); id != nil && key != nil && objOf(info, id) == key {
						continue // updates the entry being visited
					}
					n++
					r.bad("RANGE-INSERT", fi.Name, "store "+es(ix)+" while ranging over "+ranged, w.Pos(as.Pos()), "an entry with another key is added to the map being ranged over: the language leaves open whether the same loop visits it, so the result differs from run to run")
				}
				return true
			})
			return true
		})
	}
	return n
}

// freshLocal: e is a local variable whose every definition is a constructor call or a composite literal made in
// this function (a value the function owns), not something it was handed.
func freshLocal(info *types.Info, fi *FuncInfo, e ast.Expr) bool {
	id := identOf(e)
	if id == nil {
		return false
	}
	defs := defsIn(info, fi.Decl, objOf(info, id))
	if len(defs) == 0 {
		return false
	}
	for _, d := range defs {
		switch v := ast.Unparen(d).(type) {
		case *ast.CompositeLit:
		case *ast.UnaryExpr:
			if _, ok := v.X.(*ast.CompositeLit); !ok {
				return false
			}
		case *ast.CallExpr:
			fn := calleeOf(info, v)
			if fn == nil || !strings.HasPrefix(fn.Name(), "New") && !strings.HasPrefix(fn.Name(), "new") {
				return false
			}
		default:
			return false
		}
	}
	return true
}

// shiftSkipRule (SHIFT-SKIP): removing the element at the loop index of a counted loop (`xs = append(xs[:i],
// xs[i+1:]...)`, slices.Delete(xs, i, i+1)) moves the next element into position i; unless the index is stepped back
// (or the loop is left), the increment skips that element. Obligations: every such removal inside `for i …; i++`.
func shiftSkipRule(w *World, r *Result, only func(rel string) bool) int {
	n := 0
	for _, fi := range sortedFuncs(w) {
		rel := w.Rel(fi.Obj.Pkg())
		if fi.Decl.Body == nil || (only != nil && !only(rel)) {
			continue
		}
		info := fi.Pkg.TypesInfo
		ast.Inspect(fi.Decl.Body, func(x ast.Node) bool {
			loop, ok := x.(*ast.ForStmt)
			if !ok || loop.Post == nil {
				return true
			}
			inc, ok := loop.Post.(*ast.IncDecStmt)
			if !ok || inc.Tok != token.INC || identOf(inc.X) == nil {
				return true
			}
			idx := objOf(info, identOf(inc.X))
			isIdx := func(e ast.Expr) bool { id := identOf(e); return id != nil && objOf(info, id) == idx }
			var visit func(list []ast.Stmt)
			visit = func(list []ast.Stmt) {
				for k, st := range list {
					switch s := st.(type) {
					case *ast.IfStmt:
						visit(s.Body.List)
						if eb, ok := s.Else.(*ast.BlockStmt); ok {
							visit(eb.List)
						}
					case *ast.BlockStmt:
						visit(s.List)
					case *ast.AssignStmt:
						if len(s.Lhs) != 1 || len(s.Rhs) != 1 {
							continue
						}
						call, ok := s.Rhs[0].(*ast.CallExpr)
						if !ok {
							continue
						}
						removes := false
						target := es(s.Lhs[0])
						if isBuiltinCall(info, call, "append") && len(call.Args) == 2 && call.Ellipsis.IsValid() {
							a0, ok0 := ast.Unparen(call.Args[0]).(*ast.SliceExpr)
							a1, ok1 := ast.Unparen(call.Args[1]).(*ast.SliceExpr)
							if ok0 && ok1 && es(a0.X) == target && es(a1.X) == target && a0.High != nil && isIdx(a0.High) && a1.Low != nil {
								if be, ok := ast.Unparen(a1.Low).(*ast.BinaryExpr); ok && be.Op == token.ADD && isIdx(be.X) {
									removes = true
								}
							}
						}
						if fullName(calleeOf(info, call)) == "slices.Delete" && len(call.Args) == 3 && es(call.Args[0]) == target && isIdx(call.Args[1]) {
							removes = true
						}
						if !removes {
							continue
						}
						n++
						// stepped back, or the loop is left, in the rest of this block
						ok2 := false
						for _, later := range list[k+1:] {
							switch l := later.(type) {
							case *ast.IncDecStmt:
								if l.Tok == token.DEC && isIdx(l.X) {
									ok2 = true
								}
							case *ast.BranchStmt:
								if l.Tok == token.BREAK {
									ok2 = true
								}
							case *ast.ReturnStmt:
								ok2 = true
							}
						}
						r.cond(ok2, "SHIFT-SKIP", fi.Name, "removal at the loop index: "+es(s.Lhs[0])+" = "+es(s.Rhs[0]), w.Pos(s.Pos()),
							"the index is stepped back (or the loop left) after the removal",
							"the element at the loop index is removed and the loop goes on with i++: the element that slid into position "+identOf(inc.X).Name+" is never examined (two adjacent elements to remove: the second one stays)")
					}
				}
			}
			visit(loop.Body.List)
			return true
		})
	}
	return n
}

// sepIndexRule (SEP-INDEX): inside a range loop that skips elements (`if <filter> { continue }` with a filter that
// does not look at the index), a later test of the loop index against 0 — or against len(...)-1 — does not mean
// "first (last) element emitted": when the element at that index is skipped the test never (or wrongly) fires. When
// what the test guards only writes literals (a separator, an opening or closing bracket), the generated text gets a
// leading, missing or doubled separator for every input whose first (last) element is filtered out.
func sepIndexRule(w *World, r *Result, only func(rel string) bool) int {
	n := 0
	for _, fi := range sortedFuncs(w) {
		rel := w.Rel(fi.Obj.Pkg())
		if fi.Decl.Body == nil || (only != nil && !only(rel)) {
			continue
		}
		info := fi.Pkg.TypesInfo
		ast.Inspect(fi.Decl.Body, func(x ast.Node) bool {
			loop, ok := x.(*ast.RangeStmt)
			if !ok || loop.Key == nil || identOf(loop.Key) == nil || identOf(loop.Key).Name == "_" {
				return true
			}
			if _, isMap := info.TypeOf(loop.X).Underlying().(*types.Map); isMap {
				return true
			}
			idx := objOf(info, identOf(loop.Key))
			var val types.Object
			if loop.Value != nil && identOf(loop.Value) != nil {
				val = objOf(info, identOf(loop.Value))
			}
			filtered := ""
			var filterCond ast.Expr
			for _, st := range loop.Body.List {
				ifs, ok := st.(*ast.IfStmt)
				if !ok {
					continue
				}
				// a filter: `if cond { continue }`, cond does not mention the index
				if len(ifs.Body.List) == 1 && ifs.Else == nil && !usesObj(info, ifs.Cond, idx) {
					if br, ok := ifs.Body.List[0].(*ast.BranchStmt); ok && br.Tok == token.CONTINUE {
						if filtered == "" {
							filtered = es(ifs.Cond)
							filterCond = ifs.Cond
						}
						continue
					}
				}
				if filtered == "" || ifs.Init != nil {
					continue
				}
				be, ok := ast.Unparen(ifs.Cond).(*ast.BinaryExpr)
				if !ok || !(be.Op == token.NEQ || be.Op == token.GTR || be.Op == token.EQL || be.Op == token.LSS) {
					continue
				}
				id := identOf(be.X)
				if id == nil || objOf(info, id) != idx {
					continue
				}
				edge := false
				if v, ok := constInt(info, be.Y); ok && v == 0 {
					edge = true
				}
				if sub, ok := ast.Unparen(be.Y).(*ast.BinaryExpr); ok && sub.Op == token.SUB {
					if c, ok := ast.Unparen(sub.X).(*ast.CallExpr); ok && isBuiltinCall(info, c, "len") && es(c.Args[0]) == es(loop.X) {
						edge = true
					}
				}
				if !edge {
					continue
				}
				// what the test guards writes literals only (nothing about the element)
				body := ifs.Body
				if be.Op == token.EQL && ifs.Else != nil {
					if eb, ok := ifs.Else.(*ast.BlockStmt); ok {
						body = eb
					}
				}
				literalOnly := len(body.List) > 0
				for _, bs := range body.List {
					if val != nil && usesObj(info, bs, val) {
						literalOnly = false
					}
					hasLit := false
					ast.Inspect(bs, func(y ast.Node) bool {
						if bl, ok := y.(*ast.BasicLit); ok && bl.Kind == token.STRING {
							hasLit = true
						}
						if _, ok := y.(*ast.BranchStmt); ok {
							literalOnly = false
						}
						if _, ok := y.(*ast.ReturnStmt); ok {
							literalOnly = false
						}
						return true
					})
					if !hasLit {
						literalOnly = false
					}
				}
				if !literalOnly {
					continue
				}
				n++
				r.bad("SEP-INDEX", fi.Name, "if "+normLocals(info, ifs.Cond)+" { <literal> } after `if "+normLocals(info, filterCond)+" { continue }`", w.Pos(ifs.Pos()),
					"the loop skips elements (`"+filtered+"`), so the index of "+es(loop.X)+" is not the number of elements emitted so far: when the element at the tested index is skipped, the literal (separator or bracket) is written in the wrong place — a leading or missing separator in the generated text")
			}
			return true
		})
	}
	return n
}

// worklistRangeRule (WORKLIST-RANGE): `for _, x := range work` evaluates the slice once; elements appended to it while
// the loop runs are never visited. When the address of the slice was handed out (`&work` stored in a struct or passed
// on) and a function the loop body reaches appends through a pointer of that type, the loop is a worklist that stops
// early: whatever the body discovers is registered and then forgotten. A worklist must re-read the length
// (`for i := 0; i < len(work); i++`).
func worklistRangeRule(w *World, r *Result, only func(rel string) bool) int {
	n := 0
	for _, fi := range sortedFuncs(w) {
		rel := w.Rel(fi.Obj.Pkg())
		if fi.Decl.Body == nil || (only != nil && !only(rel)) {
			continue
		}
		info := fi.Pkg.TypesInfo
		// locals whose address is taken
		addr := map[types.Object]bool{}
		ast.Inspect(fi.Decl.Body, func(x ast.Node) bool {
			if u, ok := x.(*ast.UnaryExpr); ok && u.Op == token.AND {
				if id := identOf(u.X); id != nil {
					if _, isSlice := info.TypeOf(id).Underlying().(*types.Slice); isSlice {
						addr[objOf(info, id)] = true
					}
				}
			}
			return true
		})
		if len(addr) == 0 {
			continue
		}
		ast.Inspect(fi.Decl.Body, func(x ast.Node) bool {
			loop, ok := x.(*ast.RangeStmt)
			if !ok || identOf(loop.X) == nil || !addr[objOf(info, identOf(loop.X))] {
				return true
			}
			st := info.TypeOf(loop.X)
			// the address must have been taken before the loop
			// functions reached from the body that append through a pointer to this slice type
			var grower *FuncInfo
			var growAt token.Pos
			seen := map[*FuncInfo]bool{}
			var reach func(body ast.Node, inf *types.Info, cur *FuncInfo, depth int)
			reach = func(body ast.Node, inf *types.Info, cur *FuncInfo, depth int) {
				ast.Inspect(body, func(y ast.Node) bool {
					switch v := y.(type) {
					case *ast.AssignStmt:
						if len(v.Lhs) == 1 && len(v.Rhs) == 1 {
							if star, ok := ast.Unparen(v.Lhs[0]).(*ast.StarExpr); ok {
								if c, ok := v.Rhs[0].(*ast.CallExpr); ok && isBuiltinCall(inf, c, "append") {
									if pt, ok := inf.TypeOf(star.X).Underlying().(*types.Pointer); ok && types.Identical(pt.Elem(), st) && grower == nil && cur != nil {
										grower, growAt = cur, v.Pos()
									}
								}
							}
						}
					case *ast.CallExpr:
						if depth >= 6 {
							return true
						}
						if fn := calleeOf(inf, v); fn != nil {
							if cf := w.Funcs[fn]; cf != nil && cf.Decl.Body != nil && !seen[cf] {
								seen[cf] = true
								reach(cf.Decl.Body, cf.Pkg.TypesInfo, cf, depth+1)
							}
						}
					}
					return true
				})
			}
			reach(loop.Body, info, nil, 0)
			n++
			cons := "for range " + normLocals(info, loop.X) + " (address taken)"
			if grower != nil {
				r.bad("WORKLIST-RANGE", fi.Name, cons, w.Pos(loop.Pos()), "the loop body reaches "+grower.Name+", which appends through a pointer to this slice ("+w.Pos(growAt)+"); `range` read the slice once, so the elements discovered while the loop runs are never processed: what they stand for stays incomplete")
			} else {
				r.ok("WORKLIST-RANGE", fi.Name, cons, w.Pos(loop.Pos()), "nothing reached from the loop body appends through a pointer to this slice type", true)
			}
			return true
		})
	}
	return n
}

// cutsetRule (CUTSET): the second argument of strings.Trim / TrimLeft / TrimRight is a SET of characters, not a prefix
// or suffix: `strings.TrimLeft(s, "REFERENCES ")` also eats the leading R, E, F, N, C, S of what follows. A constant
// cutset that repeats a character, or that is a word of letters, was meant as a prefix or suffix (TrimPrefix /
// TrimSuffix / strings.Cut).
func cutsetRule(w *World, r *Result, only func(rel string) bool) int {
	n := 0
	for _, fi := range sortedFuncs(w) {
		rel := w.Rel(fi.Obj.Pkg())
		if fi.Decl.Body == nil || (only != nil && !only(rel)) {
			continue
		}
		info := fi.Pkg.TypesInfo
		ast.Inspect(fi.Decl.Body, func(x ast.Node) bool {
			call, ok := x.(*ast.CallExpr)
			if !ok || len(call.Args) != 2 {
				return true
			}
			switch fullName(calleeOf(info, call)) {
			case "strings.Trim", "strings.TrimLeft", "strings.TrimRight", "bytes.Trim", "bytes.TrimLeft", "bytes.TrimRight":
			default:
				return true
			}
			tv := info.Types[call.Args[1]]
			if tv.Value == nil || tv.Value.Kind() != constant.String {
				return true
			}
			n++
			set := constant.StringVal(tv.Value)
			seen := map[rune]bool{}
			dup := false
			letters := 0
			for _, c := range set {
				if seen[c] {
					dup = true
				}
				seen[c] = true
				if (c >= 'a' && c <= 'z') || (c >= 'A' && c <= 'Z') {
					letters++
				}
			}
			word := letters >= 3
			cons := normLocals(info, call)
			if dup || word {
				r.bad("CUTSET", fi.Name, cons, w.Pos(call.Pos()), "the second argument of "+fullName(calleeOf(info, call))+" is a set of characters, and "+strconv.Quote(set)+" reads as a word (it repeats a character or spells letters): every leading/trailing character of the text that belongs to the set is removed too, so a name that starts (or ends) with one of these letters is cut")
			} else {
				r.ok("CUTSET", fi.Name, cons, w.Pos(call.Pos()), "the cutset is a set of distinct separator characters", true)
			}
			return true
		})
	}
	return n
}

// aliasStoreRule (ALIAS-STORE): a node of the analysis is shared by everything that refers to the type; writing into the
// elements of one of its slices through a local that merely aliases the field (`fs := st.Fields; fs[i].Tag = …`), or
// through the field itself, changes the node for every other user (the struct analysed on its own, other embedders).
// Accepted: stores into slices of a node that this very function builds (composite literal or new), and stores through
// a copy (slices.Clone, append to a nil/empty slice, make+copy).
func aliasStoreRule(w *World, r *Result, only func(rel string) bool) int {
	n := 0
	for _, fi := range sortedFuncs(w) {
		rel := w.Rel(fi.Obj.Pkg())
		if fi.Decl.Body == nil || (only != nil && !only(rel)) {
			continue
		}
		info := fi.Pkg.TypesInfo
		isNodeField := func(e ast.Expr) (types.Object, bool) { // X.F with X a variable holding an analysis node
			sel, ok := ast.Unparen(e).(*ast.SelectorExpr)
			if !ok {
				return nil, false
			}
			f, ok := info.Uses[sel.Sel].(*types.Var)
			if !ok || !f.IsField() || f.Pkg() == nil || w.Rel(f.Pkg()) != "analysis" {
				return nil, false
			}
			if _, isSlice := f.Type().Underlying().(*types.Slice); !isSlice {
				return nil, false
			}
			id := identOf(sel.X)
			if id == nil {
				return nil, false
			}
			// the owner is a node of the analysis (implements analysis.Type), not a helper struct of the package
			if itf, ok := w.TypeOf("analysis", "Type").Underlying().(*types.Interface); ok {
				if t := info.TypeOf(sel.X); t == nil || !(types.Implements(t, itf) || types.Implements(types.NewPointer(t), itf)) {
					return nil, false
				}
			}
			return objOf(info, id), true
		}
		built := func(o types.Object) bool { // the node is created in this function
			for _, d := range defsIn(info, fi.Decl, o) {
				switch v := ast.Unparen(d).(type) {
				case *ast.UnaryExpr:
					if _, ok := v.X.(*ast.CompositeLit); ok {
						return true
					}
				case *ast.CompositeLit:
					return true
				case *ast.CallExpr:
					if isBuiltinCall(info, v, "new") {
						return true
					}
				}
			}
			return false
		}
		ast.Inspect(fi.Decl.Body, func(x ast.Node) bool {
			as, ok := x.(*ast.AssignStmt)
			if !ok {
				return true
			}
			for _, l := range as.Lhs {
				// find the indexed slice at the root of the left-hand side: S[i], S[i].F, …
				var ix *ast.IndexExpr
				e := ast.Unparen(l)
				for {
					switch v := e.(type) {
					case *ast.SelectorExpr:
						e = ast.Unparen(v.X)
						continue
					case *ast.IndexExpr:
						ix = v
					}
					break
				}
				if ix == nil {
					continue
				}
				if _, isSlice := info.TypeOf(ix.X).Underlying().(*types.Slice); !isSlice {
					continue
				}
				src := ast.Unparen(ix.X)
				via := ""
				if id := identOf(src); id != nil {
					ds := defsIn(info, fi.Decl, objOf(info, id))
					if len(ds) != 1 {
						continue
					}
					via = id.Name + " := " + es(ds[0])
					src = ast.Unparen(ds[0])
				}
				owner, isField := isNodeField(src)
				if !isField || owner == nil || built(owner) {
					continue
				}
				// a method of the node arranging its own slice (the value sort of an enum's members, run while the
				// table of enums is built) is the node's own business
				if fi.Decl.Recv != nil && len(fi.Decl.Recv.List) == 1 && len(fi.Decl.Recv.List[0].Names) == 1 && info.Defs[fi.Decl.Recv.List[0].Names[0]] == owner {
					continue
				}
				n++
				cons := normLocals(info, l)
				why := "the element is stored into a slice of an analysis node that this function did not build"
				if via != "" {
					why += " (through the alias `" + via + "`, which shares the backing array)"
				}
				r.bad("ALIAS-STORE", fi.Name, cons, w.Pos(as.Pos()), why+": the node is shared by every place the type occurs, so the change shows wherever it is used (the struct analysed on its own, other structs embedding it); copy the slice first")
			}
			return true
		})
	}
	return n
}

package main

// E-REC: recursion guards. Static call graph over production functions (AST, resolved callees,
// closures bound to local variables), SCCs, and one termination argument per recursive SCC.

import (
	"fmt"
	"go/ast"
	"go/types"
	"sort"
	"strings"
)

type recNode struct {
	name string // qualified; closures: parent$var
	fi   *FuncInfo
	body *ast.BlockStmt
	typ  *ast.FuncType
	lit  *ast.FuncLit
	out  map[*recNode][]*ast.CallExpr
}

type recGraph struct {
	w     *World
	nodes []*recNode
	byFn  map[*types.Func]*recNode
	byVar map[types.Object]*recNode // closure variables
}

func buildRecGraph(w *World) *recGraph {
	g := &recGraph{w: w, byFn: map[*types.Func]*recNode{}, byVar: map[types.Object]*recNode{}}
	var fis []*FuncInfo
	for _, fi := range w.Funcs {
		fis = append(fis, fi)
	}
	sort.Slice(fis, func(i, j int) bool { return fis[i].Name < fis[j].Name })
	for _, fi := range fis {
		n := &recNode{name: fi.Name, fi: fi, body: fi.Decl.Body, typ: fi.Decl.Type, out: map[*recNode][]*ast.CallExpr{}}
		g.nodes = append(g.nodes, n)
		g.byFn[fi.Obj] = n
		// closures assigned to local variables: `aux = func(...) {...}` / `aux := func`
		info := fi.Pkg.TypesInfo
		ast.Inspect(fi.Decl.Body, func(x ast.Node) bool {
			as, ok := x.(*ast.AssignStmt)
			if !ok || len(as.Lhs) != len(as.Rhs) {
				return true
			}
			for i, r := range as.Rhs {
				fl, ok := r.(*ast.FuncLit)
				if !ok {
					continue
				}
				id := identOf(as.Lhs[i])
				if id == nil {
					continue
				}
				obj := objOf(info, id)
				cn := &recNode{name: fi.Name + "$" + id.Name, fi: fi, body: fl.Body, typ: fl.Type, lit: fl, out: map[*recNode][]*ast.CallExpr{}}
				g.nodes = append(g.nodes, cn)
				g.byVar[obj] = cn
			}
			return true
		})
	}
	for _, n := range g.nodes {
		info := n.fi.Pkg.TypesInfo
		ast.Inspect(n.body, func(x ast.Node) bool {
			if fl, ok := x.(*ast.FuncLit); ok && fl != n.lit {
				// body of a nested closure bound to a variable belongs to that closure's node
				for _, cn := range g.byVar {
					if cn.lit == fl {
						return false
					}
				}
				return true
			}
			call, ok := x.(*ast.CallExpr)
			if !ok {
				return true
			}
			if fn := calleeOf(info, call); fn != nil {
				if t := g.byFn[fn]; t != nil {
					n.out[t] = append(n.out[t], call)
				}
				return true
			}
			if id := identOf(call.Fun); id != nil {
				if t := g.byVar[objOf(info, id)]; t != nil {
					n.out[t] = append(n.out[t], call)
				}
			}
			return true
		})
		// a function that defines a closure "calls" it (the closure runs on its behalf)
		for _, cn := range g.byVar {
			if cn.fi == n.fi && n.lit == nil && cn != n {
				if _, ok := n.out[cn]; !ok {
					n.out[cn] = nil
				}
			}
		}
	}
	return g
}

func (g *recGraph) sccs() [][]*recNode {
	index := 0
	idx := map[*recNode]int{}
	low := map[*recNode]int{}
	on := map[*recNode]bool{}
	var st []*recNode
	var out [][]*recNode
	var strong func(v *recNode)
	strong = func(v *recNode) {
		index++
		idx[v], low[v] = index, index
		st = append(st, v)
		on[v] = true
		var succ []*recNode
		for t := range v.out {
			succ = append(succ, t)
		}
		sort.Slice(succ, func(i, j int) bool { return succ[i].name < succ[j].name })
		for _, t := range succ {
			if idx[t] == 0 {
				strong(t)
				if low[t] < low[v] {
					low[v] = low[t]
				}
			} else if on[t] && idx[t] < low[v] {
				low[v] = idx[t]
			}
		}
		if low[v] == idx[v] {
			var c []*recNode
			for {
				x := st[len(st)-1]
				st = st[:len(st)-1]
				on[x] = false
				c = append(c, x)
				if x == v {
					break
				}
			}
			_, self := v.out[v]
			if len(c) > 1 || (self && len(v.out[v]) > 0) {
				sort.Slice(c, func(i, j int) bool { return c[i].name < c[j].name })
				out = append(out, c)
			}
		}
	}
	for _, n := range g.nodes {
		if idx[n] == 0 {
			strong(n)
		}
	}
	sort.Slice(out, func(i, j int) bool { return out[i][0].name < out[j][0].name })
	return out
}

// acyclicWithout: is the SCC acyclic once the nodes in cut are removed?
func acyclicWithout(scc []*recNode, cut map[*recNode]bool) bool {
	in := map[*recNode]bool{}
	for _, n := range scc {
		if !cut[n] {
			in[n] = true
		}
	}
	state := map[*recNode]int{}
	var dfs func(n *recNode) bool
	dfs = func(n *recNode) bool {
		state[n] = 1
		for t, calls := range n.out {
			if !in[t] || (t == n && len(calls) == 0) {
				continue
			}
			if state[t] == 1 {
				return false
			}
			if state[t] == 0 && !dfs(t) {
				return false
			}
		}
		state[n] = 2
		return true
	}
	for n := range in {
		if state[n] == 0 && !dfs(n) {
			return false
		}
	}
	return true
}

// memoGuarded: the function starts with `if <x>.Check(<param>) { return ... }` where Check is generator.Cache.Check.
func memoGuarded(n *recNode, g *recGraph, scc []*recNode) bool {
	info := n.fi.Pkg.TypesInfo
	inSCC := func(t *recNode) bool {
		for _, m := range scc {
			if m == t && t != nil {
				return true
			}
		}
		return false
	}
	for _, st := range n.body.List {
		if is, ok := st.(*ast.IfStmt); ok && is.Init == nil && terminates(is.Body) {
			if call, ok := ast.Unparen(is.Cond).(*ast.CallExpr); ok && len(call.Args) == 1 {
				fn := calleeOf(info, call)
				if fn != nil && fn.FullName() == "("+modPath+"/generator.Cache).Check" && isParamExpr(n, info, call.Args[0]) {
					return true
				}
			}
		}
		// any recursive call before the guard defeats it
		rec := false
		ast.Inspect(st, func(x ast.Node) bool {
			if call, ok := x.(*ast.CallExpr); ok {
				if fn := calleeOf(info, call); fn != nil && inSCC(g.byFn[fn]) {
					rec = true
				}
			}
			return true
		})
		if rec {
			return false
		}
	}
	return false
}

// nodeKinds returns the implementations of analysis.Type (pointer types), by name.
func nodeKinds(w *World) map[string]types.Type {
	p := w.ByRel["analysis"]
	itf, _ := w.TypeOf("analysis", "Type").Underlying().(*types.Interface)
	if itf == nil {
		Undecided("analysis.Type is not an interface")
	}
	out := map[string]types.Type{}
	for _, name := range p.Types.Scope().Names() {
		tn, ok := p.Types.Scope().Lookup(name).(*types.TypeName)
		if !ok || tn.IsAlias() {
			continue
		}
		if _, isItf := tn.Type().Underlying().(*types.Interface); isItf {
			continue
		}
		pt := types.NewPointer(tn.Type())
		if types.Implements(pt, itf) {
			out[name] = pt
		}
	}
	if len(out) < 5 {
		Undecided("only %d implementations of analysis.Type found", len(out))
	}
	return out
}

// cycleCapable: node kinds through which every cycle of the analysis.Type graph passes: those whose
// Type() is a declared *types.Named and that have Type-typed children (Struct, Union, Named).
func cycleCapableKinds(w *World) map[string]bool {
	out := map[string]bool{}
	typeItf := w.TypeOf("analysis", "Type")
	anon := w.TypeOf("analysis", "AnonymousType")
	for name, pt := range nodeKinds(w) {
		st, ok := pt.(*types.Pointer).Elem().Underlying().(*types.Struct)
		if !ok {
			continue
		}
		hasNamed, hasChild := false, false
		for i := 0; i < st.NumFields(); i++ {
			ft := st.Field(i).Type()
			if ft.String() == "*go/types.Named" {
				hasNamed = true
			}
			if containsType(ft, typeItf) || containsType(ft, anon) || strings.Contains(ft.String(), "analysis.StructField") || strings.Contains(ft.String(), "analysis.Union") {
				hasChild = true
			}
		}
		if hasNamed && hasChild {
			out[name] = true
		}
	}
	return out
}

func containsType(t, target types.Type) bool {
	if types.Identical(t, target) {
		return true
	}
	switch u := t.(type) {
	case *types.Slice:
		return containsType(u.Elem(), target)
	case *types.Array:
		return containsType(u.Elem(), target)
	case *types.Pointer:
		return containsType(u.Elem(), target)
	}
	return false
}

// kindsOfStatic: node kinds admitted by a static type.
func kindsOfStatic(w *World, t types.Type) []string {
	var out []string
	kinds := nodeKinds(w)
	if itf, ok := t.Underlying().(*types.Interface); ok {
		for name, pt := range kinds {
			if types.Implements(pt, itf) {
				out = append(out, name)
			}
		}
	} else if p, ok := t.(*types.Pointer); ok {
		if n, ok := p.Elem().(*types.Named); ok && kinds[n.Obj().Name()] != nil {
			out = append(out, n.Obj().Name())
		}
	}
	sort.Strings(out)
	return out
}

// kindGraphRule: for a memo-less recursive function over analysis.Type, build the kind graph and
// require that no cycle passes through a cycle-capable kind.
func (g *recGraph) kindGraphRule(r *Result, scc []*recNode) bool {
	w := g.w
	capable := cycleCapableKinds(w)
	edges := map[string]map[string]bool{}
	sites := map[string]string{}
	okShape := true
	for _, n := range scc {
		info := n.fi.Pkg.TypesInfo
		// outer type switch on a parameter
		var walk func(list []ast.Stmt, cur []string, switched map[string][]string)
		walk = func(list []ast.Stmt, cur []string, narrowed map[string][]string) {
			// okAssert: e is the ok identifier of `_, ok := X.(*Kind)`; returns X rendered and the kind
			okAssert := func(e ast.Expr) (string, string) {
				id := identOf(e)
				if id == nil {
					return "", ""
				}
				for _, d := range defsIn(info, n.fi.Decl, objOf(info, id)) {
					ta, ok := ast.Unparen(d).(*ast.TypeAssertExpr)
					if !ok || ta.Type == nil {
						continue
					}
					if p, ok := info.TypeOf(ta.Type).(*types.Pointer); ok {
						if nn, ok := p.Elem().(*types.Named); ok && len(kindsOfStatic(w, info.TypeOf(ta.X))) > 0 {
							return es(ta.X), nn.Obj().Name()
						}
					}
				}
				return "", ""
			}
			for _, st := range list {
				// `if isA || isB { <terminates> }` with isA, isB the oks of assertions of one expression to node
				// kinds: afterwards the expression is none of those kinds
				if is, ok := st.(*ast.IfStmt); ok && is.Else == nil && is.Init == nil && terminates(is.Body) {
					subject, excluded := "", map[string]bool{}
					good := true
					for _, c := range splitCond(is.Cond, false) {
						x, k := okAssert(c.expr)
						if x == "" || c.truth || (subject != "" && x != subject) {
							good = false
							break
						}
						subject = x
						excluded[k] = true
					}
					if good && subject != "" {
						base := narrowed[subject]
						if base == nil {
							ast.Inspect(is.Cond, func(y ast.Node) bool {
								if id, ok := y.(*ast.Ident); ok {
									for _, d := range defsIn(info, n.fi.Decl, objOf(info, id)) {
										if ta, ok := ast.Unparen(d).(*ast.TypeAssertExpr); ok && es(ta.X) == subject {
											base = kindsOfStatic(w, info.TypeOf(ta.X))
										}
									}
								}
								return true
							})
						}
						var rest []string
						for _, k := range base {
							if !excluded[k] {
								rest = append(rest, k)
							}
						}
						nn := map[string][]string{}
						for k, v := range narrowed {
							nn[k] = v
						}
						nn[subject] = rest
						// the body is walked with the old facts, what follows with the new ones
						walk(is.Body.List, cur, narrowed)
						narrowed = nn
						continue
					}
				}
				ast.Inspect(st, func(x ast.Node) bool {
					switch x := x.(type) {
					case *ast.TypeSwitchStmt:
						var sx ast.Expr
						var bind string
						switch a := x.Assign.(type) {
						case *ast.AssignStmt:
							sx = a.Rhs[0].(*ast.TypeAssertExpr).X
							bind = a.Lhs[0].(*ast.Ident).Name
						case *ast.ExprStmt:
							sx = a.X.(*ast.TypeAssertExpr).X
						}
						st := info.TypeOf(sx)
						all := kindsOfStatic(w, st)
						if len(all) == 0 {
							return true
						}
						covered := map[string]bool{}
						for _, cl := range x.Body.List {
							cc := cl.(*ast.CaseClause)
							var set []string
							for _, te := range cc.List {
								if p, ok := info.TypeOf(te).(*types.Pointer); ok {
									if nn, ok := p.Elem().(*types.Named); ok {
										set = append(set, nn.Obj().Name())
										covered[nn.Obj().Name()] = true
									}
								}
							}
							if cc.List == nil {
								continue
							}
							nn := map[string][]string{}
							for k, v := range narrowed {
								nn[k] = v
							}
							nn[es(sx)] = set
							if bind != "" {
								nn[bind] = set
							}
							nc := cur
							if isParamExpr(n, info, sx) {
								nc = set
							}
							walk(cc.Body, nc, nn)
						}
						for _, cl := range x.Body.List {
							cc := cl.(*ast.CaseClause)
							if cc.List != nil {
								continue
							}
							var rest []string
							for _, k := range all {
								if !covered[k] {
									rest = append(rest, k)
								}
							}
							nn := map[string][]string{}
							for k, v := range narrowed {
								nn[k] = v
							}
							nn[es(sx)] = rest
							if bind != "" {
								nn[bind] = rest
							}
							nc := cur
							if isParamExpr(n, info, sx) {
								nc = rest
							}
							walk(cc.Body, nc, nn)
						}
						return false
					case *ast.CallExpr:
						var target *recNode
						if fn := calleeOf(info, x); fn != nil {
							target = g.byFn[fn]
						} else if id := identOf(x.Fun); id != nil {
							target = g.byVar[objOf(info, id)]
						}
						inSCC := false
						for _, m := range scc {
							if m == target {
								inSCC = true
							}
						}
						if !inSCC {
							return true
						}
						// which argument is the node? the first argument whose static type admits node kinds
						var child ast.Expr
						for _, a := range x.Args {
							if t := info.TypeOf(a); t != nil && len(kindsOfStatic(w, t)) > 0 {
								child = a
								break
							}
						}
						if child == nil {
							okShape = false
							return true
						}
						to := narrowed[es(child)]
						if to == nil {
							to = kindsOfStatic(w, info.TypeOf(child))
						}
						from := cur
						if from == nil {
							from = []string{"*"}
						}
						for _, f := range from {
							if edges[f] == nil {
								edges[f] = map[string]bool{}
							}
							for _, t := range to {
								edges[f][t] = true
								sites[f+"→"+t] = w.Pos(x.Pos()) + " " + normLocals(info, x) // locals by type: a rename keeps the construct
							}
						}
					}
					return true
				})
			}
		}
		walk(n.body.List, nil, map[string][]string{})
	}
	if !okShape {
		return false
	}
	// "*" (outside any case on the parameter) stands for every kind
	if e, ok := edges["*"]; ok {
		for k := range nodeKinds(w) {
			if edges[k] == nil {
				edges[k] = map[string]bool{}
			}
			for t := range e {
				edges[k][t] = true
				sites[k+"→"+t] = sites["*→"+t]
			}
		}
		delete(edges, "*")
	}
	name := scc[0].name
	// find a cycle through a capable kind
	var capNames []string
	for k := range capable {
		capNames = append(capNames, k)
	}
	sort.Strings(capNames)
	bad := false
	for _, k := range capNames {
		// DFS from k back to k
		seen := map[string]bool{}
		var path []string
		var dfs func(x string) bool
		dfs = func(x string) bool {
			var nxt []string
			for t := range edges[x] {
				nxt = append(nxt, t)
			}
			sort.Strings(nxt)
			for _, t := range nxt {
				if t == k {
					path = append(path, x+"→"+t)
					return true
				}
				if !seen[t] {
					seen[t] = true
					if dfs(t) {
						path = append([]string{x + "→" + t}, path...)
						return true
					}
				}
			}
			return false
		}
		if dfs(k) {
			bad = true
			first := path[len(path)-1]
			if len(path) > 1 {
				first = path[0]
			}
			posCons := strings.SplitN(sites[k+"→"+strings.SplitN(first, "→", 2)[1]], " ", 2)
			pos, cons := "?", "recursion through "+k
			if len(posCons) == 2 {
				pos, cons = posCons[0], posCons[1]
			}
			r.add(Ob{Rule: "REC-kind", Func: name, Construct: "case *" + k + ": " + cons, Pos: pos, Verdict: VViolation, Nontrivial: true,
				How:  "memo-less recursion follows an edge out of a " + k + " node and can come back to a " + k + ": a recursive declaration (e.g. `type T []T`) never terminates",
				Path: strings.Join(path, ", ")})
		} else {
			r.ok("REC-kind", name, "no cycle through *"+k, w.Pos(scc[0].body.Pos()), "kind graph of the recursive calls has no cycle through this cycle-capable node kind: descent is structural and finite", true)
		}
	}
	_ = bad
	return true
}

func isParamExpr(n *recNode, info *types.Info, e ast.Expr) bool {
	id := identOf(e)
	if id == nil {
		return false
	}
	obj := info.Uses[id]
	for _, f := range n.typ.Params.List {
		for _, nm := range f.Names {
			if info.Defs[nm] == obj {
				return true
			}
		}
	}
	return false
}

// importWalker: every recursive call passes the range value over <param>.Imports (a DAG by Go's rules).
func (g *recGraph) importWalker(scc []*recNode) bool {
	for _, n := range scc {
		info := n.fi.Pkg.TypesInfo
		for t, calls := range n.out {
			in := false
			for _, m := range scc {
				if m == t {
					in = true
				}
			}
			if !in {
				continue
			}
			if len(calls) == 0 && t != n {
				continue // definition edge parent→closure
			}
			for _, call := range calls {
				if n.lit == nil && t.lit != nil {
					continue // the parent starting the walk
				}
				okc := false
				for _, a := range call.Args {
					id := identOf(a)
					if id == nil {
						continue
					}
					obj := objOf(info, id)
					ast.Inspect(n.body, func(x ast.Node) bool {
						rs, ok := x.(*ast.RangeStmt)
						if !ok {
							return true
						}
						vid, ok := rs.Value.(*ast.Ident)
						if !ok || info.Defs[vid] != obj {
							return true
						}
						if sel, ok := ast.Unparen(rs.X).(*ast.SelectorExpr); ok && sel.Sel.Name == "Imports" {
							if t := info.TypeOf(sel.X); t != nil && strings.HasSuffix(t.String(), "go/packages.Package") && isParamExpr(n, info, sel.X) {
								okc = true
							}
						}
						return true
					})
				}
				if !okc {
					return false
				}
			}
		}
	}
	return true
}

// createTypeRule (REC-C12a): in analysis.createType every recursive descent from a composite,
// non-named go/types node is preceded by the registration of the node under the looked-up key.
func (g *recGraph) createTypeRule(r *Result, scc []*recNode) bool {
	w := g.w
	var ct *recNode
	hasHandle := false
	for _, n := range scc {
		switch n.name {
		case "analysis.(*Analysis).createType":
			ct = n
		case "analysis.(*Analysis).handleType":
			hasHandle = true
			// memo hit first
			first := false
			if len(n.body.List) > 0 {
				if is, ok := n.body.List[0].(*ast.IfStmt); ok && terminates(is.Body) && is.Init != nil {
					if as, ok := is.Init.(*ast.AssignStmt); ok && len(as.Rhs) == 1 {
						if ix, ok := as.Rhs[0].(*ast.IndexExpr); ok && strings.HasSuffix(es(ix.X), ".Types") && isParamExpr(n, n.fi.Pkg.TypesInfo, ix.Index) {
							first = true
						}
					}
				}
			}
			r.cond(first, "REC-memo", n.name, "memo hit returns first", w.Pos(n.body.Pos()), "handleType returns the registered node before doing anything else", "handleType no longer starts with the memo lookup on its parameter: registered nodes are re-analysed")
		}
	}
	if ct == nil || !hasHandle {
		return false
	}
	info := ct.fi.Pkg.TypesInfo
	var curInfo = func() *types.Info { return info }
	isRecCall := func(call *ast.CallExpr) bool {
		fn := calleeOf(curInfo(), call)
		t := g.byFn[fn]
		for _, m := range scc {
			if m == t && t != nil {
				return true
			}
		}
		return false
	}
	// the key under which the current function registers: createType's own parameter; in a helper the case hands its
	// node to (`an.newArray(typ, …)`), the parameters that receive that key
	keys := map[types.Object]bool{}
	for _, f := range ct.typ.Params.List {
		for _, nm := range f.Names {
			keys[info.Defs[nm]] = true
		}
	}
	cur := ct
	curInfo = func() *types.Info { return cur.fi.Pkg.TypesInfo }
	isRegistration := func(st ast.Stmt) bool {
		as, ok := st.(*ast.AssignStmt)
		if !ok || len(as.Lhs) != 1 {
			return false
		}
		ix, ok := as.Lhs[0].(*ast.IndexExpr)
		if !ok || !strings.HasSuffix(es(ix.X), ".Types") {
			return false
		}
		if cur == ct {
			return isParamExpr(ct, info, ix.Index)
		}
		id := identOf(ix.Index)
		return id != nil && keys[objOf(cur.fi.Pkg.TypesInfo, id)]
	}
	// a helper of the cycle that is neither createType nor handleType: its body is walked in place, with the key bound
	helperOf := func(call *ast.CallExpr) *recNode {
		fn := calleeOf(cur.fi.Pkg.TypesInfo, call)
		t := g.byFn[fn]
		if t == nil || t == ct || t.lit != nil || strings.HasSuffix(t.name, ").handleType") || strings.HasSuffix(t.name, ".handleStructFields") {
			return nil
		}
		for _, m := range scc {
			if m == t {
				return t
			}
		}
		return nil
	}
	depth := 0
	// every statement list: walk in order, track "registered"
	n := 0
	var walkList func(list []ast.Stmt, registered bool, ctx string)
	walkList = func(list []ast.Stmt, registered bool, ctx string) {
		for _, st := range list {
			if isRegistration(st) {
				registered = true
				continue
			}
			// `return an.helper(key, …)` / `x := an.helper(key, …)`: continue inside the helper
			if depth < 2 {
				var hcall *ast.CallExpr
				switch s := st.(type) {
				case *ast.ReturnStmt:
					if len(s.Results) == 1 {
						hcall, _ = ast.Unparen(s.Results[0]).(*ast.CallExpr)
					}
				case *ast.AssignStmt:
					if len(s.Rhs) == 1 {
						hcall, _ = ast.Unparen(s.Rhs[0]).(*ast.CallExpr)
					}
				case *ast.ExprStmt:
					hcall, _ = ast.Unparen(s.X).(*ast.CallExpr)
				}
				if hcall != nil {
					if h := helperOf(hcall); h != nil {
						cinfo := cur.fi.Pkg.TypesInfo
						hkeys := map[types.Object]bool{}
						i := 0
						for _, f := range h.typ.Params.List {
							for _, nm := range f.Names {
								if i < len(hcall.Args) {
									if id := identOf(hcall.Args[i]); id != nil && ((cur == ct && isParamExpr(ct, info, id)) || (cur != ct && keys[objOf(cinfo, id)])) {
										hkeys[h.fi.Pkg.TypesInfo.Defs[nm]] = true
									}
								}
								i++
							}
						}
						savedKeys, savedCur := keys, cur
						keys, cur = hkeys, h
						depth++
						walkList(h.body.List, registered, ctx+"/"+h.fi.Obj.Name())
						depth--
						keys, cur = savedKeys, savedCur
						continue
					}
				}
			}
			switch s := st.(type) {
			case *ast.IfStmt:
				c := ctx
				walkList(s.Body.List, registered, c+"/if "+shortCond(s))
				if s.Else != nil {
					if eb, ok := s.Else.(*ast.BlockStmt); ok {
						walkList(eb.List, registered, c+"/else")
					} else {
						walkList([]ast.Stmt{s.Else}, registered, c)
					}
				}
				continue
			case *ast.TypeSwitchStmt:
				for _, cl := range s.Body.List {
					cc := cl.(*ast.CaseClause)
					var names []string
					for _, te := range cc.List {
						names = append(names, es(te))
					}
					lbl := "default"
					if len(names) > 0 {
						lbl = "case " + strings.Join(names, ",")
					}
					walkList(cc.Body, registered, ctx+"/"+lbl)
				}
				continue
			case *ast.ForStmt:
				walkList(s.Body.List, registered, ctx)
				continue
			case *ast.RangeStmt:
				walkList(s.Body.List, registered, ctx)
				continue
			case *ast.BlockStmt:
				walkList(s.List, registered, ctx)
				continue
			}
			ast.Inspect(st, func(x ast.Node) bool {
				call, ok := x.(*ast.CallExpr)
				if !ok || !isRecCall(call) {
					return true
				}
				n++
				cons := strings.TrimPrefix(ctx, "/") + ": " + es(call)
				pos := w.Pos(call.Pos())
				switch {
				case calleeOf(curInfo(), call) == ct.fi.Obj:
					// the memo lookup lives in handleType: calling createType directly skips it, so a type that is being
					// built (registered, incomplete) is built again instead of being returned
					r.bad("REC-C12a", ct.name, cons, pos, "createType calls itself directly: the memo lookup of handleType, which is what cuts a declaration cycle, is bypassed — `type Tree []Tree` (a named type whose underlying composite refers back to it without a struct in between) recurses until the stack overflows")
				case registered:
					r.ok("REC-C12a", ct.name, cons, pos, "the node is registered under the looked-up key before this recursive descent", true)
				case strings.Contains(ctx, "isNamed") || strings.Contains(ctx, "Named"):
					// descent from a *types.Named that is not a struct: the cycle continues through the
					// underlying composite or the member, which must itself be guarded
					r.justified("REC-C12a", ct.name, cons, pos, "descent from a named non-struct type or a union: any cycle continues through the underlying composite / member type, whose own case is checked")
				default:
					r.bad("REC-C12a", ct.name, cons, pos, "recursive descent from a composite go/types node that is not registered first: a declaration cycle through this kind (e.g. `type P *P`) recurses without bound")
				}
				return true
			})
		}
	}
	walkList(ct.body.List, false, "")
	if n < 4 {
		Undecided("createType has only %d recursive descents: REC-C12a no longer matches", n)
	}
	return true
}

func shortCond(s *ast.IfStmt) string {
	c := es(s.Cond)
	if s.Init != nil {
		if as, ok := s.Init.(*ast.AssignStmt); ok && len(as.Lhs) > 0 {
			c = es(as.Lhs[len(as.Lhs)-1])
		}
	}
	if len(c) > 30 {
		c = c[:30]
	}
	return c
}

// runREC classifies every recursive SCC and emits obligations into r.
func runREC(w *World, r *Result, only func(rel string) bool) int {
	g := buildRecGraph(w)
	sccs := g.sccs()
	count := 0
	for _, scc := range sccs {
		rel := w.Rel(scc[0].fi.Obj.Pkg())
		if only != nil && !only(rel) {
			continue
		}
		count++
		var names []string
		for _, n := range scc {
			names = append(names, n.name)
		}
		label := strings.Join(names, ", ")
		if len(label) > 160 {
			label = label[:160] + "…"
		}
		pos := w.Pos(scc[0].body.Pos())
		// 1. analysis memo family
		if strings.Contains(label, "analysis.(*Analysis).createType") {
			if g.createTypeRule(r, scc) {
				continue
			}
		}
		// 2. generator memo families
		cut := map[*recNode]bool{}
		for _, n := range scc {
			if memoGuarded(n, g, scc) {
				cut[n] = true
			}
		}
		if len(cut) > 0 && acyclicWithout(scc, cut) {
			if why := cacheNotThreaded(g, scc); why != "" {
				r.bad("REC-memo", scc[0].name, "SCC{"+label+"}", pos, why)
				continue
			}
			var cn []string
			for n := range cut {
				cn = append(cn, n.name)
			}
			sort.Strings(cn)
			r.ok("REC-memo", scc[0].name, "SCC{"+label+"}", pos, "every cycle of this SCC passes through "+strings.Join(cn, ", ")+", which returns first on a generator.Cache.Check hit of its parameter; every cycle of the analysis.Type graph passes through a named node, which Check memoises", true)
			continue
		}
		// 3. import walkers
		if g.importWalker(scc) {
			r.ok("REC-dag", scc[0].name, "SCC{"+label+"}", pos, "every recursive call passes an element of <param>.Imports of a *packages.Package: the import graph is acyclic by the language rules", true)
			continue
		}
		// 4. type-argument descent
		if g.typeArgDescent(scc) {
			r.ok("REC-typeargs", scc[0].name, "SCC{"+label+"}", pos, "every recursive call passes an element X.TypeArgs().At(i) of the type-argument list of the *types.Named it was called with: an instantiated type is a finite term (a type cannot be its own type argument), so the descent is structural", true)
			continue
		}
		if why, ok := justifiedREC[label]; ok {
			r.justified("REC-table", scc[0].name, "SCC{"+label+"}", pos, why)
			continue
		}
		// 5. memo-less descent over analysis.Type
		if g.kindGraphRule(r, scc) {
			continue
		}
		r.bad("REC-unclassified", scc[0].name, "SCC{"+label+"}", pos, fmt.Sprintf("recursive SCC of %d functions with no recognised termination argument (memo guard, import DAG, structural descent over node kinds)", len(scc)))
	}
	return count
}

var justifiedREC = map[string]string{}

// typeArgDescent: a single self-recursive function each of whose recursive calls passes L.At(i) -- or the
// variable a type switch binds from L.At(i) -- where L is X.TypeArgs() of a value X derived from a parameter
// (the parameter itself, or the variable a type switch binds from it).
func (g *recGraph) typeArgDescent(scc []*recNode) bool {
	// every call between the functions of the SCC either descends into a type argument of the *types.Named the
	// caller received ("desc") or hands on what the caller received, unchanged ("same"); and every cycle contains a
	// descending call (the SCC without the descending edges is acyclic). A helper extracted from a self-recursive
	// function gives exactly this shape.
	inSCC := map[*recNode]bool{}
	for _, n := range scc {
		if n.lit != nil {
			return false
		}
		inSCC[n] = true
	}
	same := map[*recNode]map[*recNode]bool{}
	for _, n := range scc {
		for m, calls := range n.out {
			if !inSCC[m] {
				continue
			}
			for _, call := range calls {
				switch g.typeArgEdge(n, call) {
				case "desc":
				case "same":
					if same[n] == nil {
						same[n] = map[*recNode]bool{}
					}
					same[n][m] = true
				default:
					return false
				}
			}
		}
	}
	// the "same" edges alone must not form a cycle
	state := map[*recNode]int{}
	var visit func(n *recNode) bool
	visit = func(n *recNode) bool {
		switch state[n] {
		case 1:
			return false
		case 2:
			return true
		}
		state[n] = 1
		for m := range same[n] {
			if !visit(m) {
				return false
			}
		}
		state[n] = 2
		return true
	}
	for _, n := range scc {
		if !visit(n) {
			return false
		}
	}
	return true
}

// typeArgEdge classifies one call made by n to a function of its SCC: "desc" when an argument is an element
// X.TypeArgs().At(i) of a value derived from n's parameters (or a variable bound by a type switch over such an
// element), "same" when the type-valued arguments are n's own parameters (or their type-switch binders), "" otherwise.
func (g *recGraph) typeArgEdge(n *recNode, call *ast.CallExpr) string {
	info := n.fi.Pkg.TypesInfo
	// variables holding a TypeArgs() list of a parameter-derived value
	paramDerived := func(e ast.Expr) bool {
		id := rootIdent(e)
		if id == nil {
			return false
		}
		obj := objOf(info, id)
		if isParamExpr(n, info, id) {
			return true
		}
		// bound by `switch v := param.(type)`
		found := false
		ast.Inspect(n.body, func(x ast.Node) bool {
			ts, ok := x.(*ast.TypeSwitchStmt)
			if !ok {
				return true
			}
			as, ok := ts.Assign.(*ast.AssignStmt)
			if !ok || len(as.Rhs) != 1 {
				return true
			}
			ta, ok := as.Rhs[0].(*ast.TypeAssertExpr)
			if !ok || !isParamExpr(n, info, ta.X) {
				return true
			}
			for _, cl := range ts.Body.List {
				if info.Implicits[cl] == obj {
					found = true
				}
			}
			return true
		})
		return found
	}
	isTypeArgsOf := func(e ast.Expr) bool {
		c, ok := ast.Unparen(e).(*ast.CallExpr)
		if !ok {
			return false
		}
		fn := calleeOf(info, c)
		if fn == nil || fn.FullName() != "(*go/types.Named).TypeArgs" {
			return false
		}
		sel, ok := c.Fun.(*ast.SelectorExpr)
		return ok && paramDerived(sel.X)
	}
	lists := map[types.Object]bool{}
	ast.Inspect(n.body, func(x ast.Node) bool {
		as, ok := x.(*ast.AssignStmt)
		if !ok || len(as.Lhs) != 1 || len(as.Rhs) != 1 {
			return true
		}
		if isTypeArgsOf(as.Rhs[0]) {
			if id := identOf(as.Lhs[0]); id != nil {
				lists[objOf(info, id)] = true
			}
		}
		return true
	})
	isElem := func(e ast.Expr) bool {
		c, ok := ast.Unparen(e).(*ast.CallExpr)
		if !ok {
			return false
		}
		fn := calleeOf(info, c)
		if fn == nil || fn.FullName() != "(*go/types.TypeList).At" {
			return false
		}
		sel, ok := c.Fun.(*ast.SelectorExpr)
		if !ok {
			return false
		}
		if id := identOf(sel.X); id != nil && lists[objOf(info, id)] {
			return true
		}
		return isTypeArgsOf(sel.X)
	}
	// variables bound by a type switch over an element
	elemVars := map[types.Object]bool{}
	ast.Inspect(n.body, func(x ast.Node) bool {
		ts, ok := x.(*ast.TypeSwitchStmt)
		if !ok {
			return true
		}
		as, ok := ts.Assign.(*ast.AssignStmt)
		if !ok || len(as.Rhs) != 1 {
			return true
		}
		ta, ok := as.Rhs[0].(*ast.TypeAssertExpr)
		if !ok || !isElem(ta.X) {
			return true
		}
		for _, cl := range ts.Body.List {
			if o := info.Implicits[cl]; o != nil {
				elemVars[o] = true
			}
		}
		return true
	})
	// variables bound to an element, directly (`arg := args.At(i)`) or through a comma-ok assertion of one
	// (`named, ok := arg.(*types.Named)`), are elements too
	for changed := true; changed; {
		changed = false
		ast.Inspect(n.body, func(x ast.Node) bool {
			as, ok := x.(*ast.AssignStmt)
			if !ok || len(as.Rhs) != 1 || len(as.Lhs) < 1 {
				return true
			}
			lid := identOf(as.Lhs[0])
			if lid == nil || lid.Name == "_" || elemVars[objOf(info, lid)] {
				return true
			}
			rhs := ast.Unparen(as.Rhs[0])
			if ta, isTA := rhs.(*ast.TypeAssertExpr); isTA {
				rhs = ast.Unparen(ta.X)
			}
			from := isElem(rhs)
			if id := identOf(rhs); id != nil && elemVars[objOf(info, id)] {
				from = true
			}
			if from {
				// bound once only
				if len(defsIn(info, n.fi.Decl, objOf(info, lid))) == 1 {
					elemVars[objOf(info, lid)] = true
					changed = true
				}
			}
			return true
		})
	}
	desc, other := false, false
	for _, a := range call.Args {
		t := info.TypeOf(a)
		if t == nil {
			continue
		}
		isTypeVal := strings.HasPrefix(t.String(), "go/types.") || strings.HasPrefix(t.String(), "*go/types.")
		switch {
		case isElem(a):
			desc = true
		case identOf(a) != nil && elemVars[objOf(info, identOf(a))]:
			desc = true
		case isTypeVal && identOf(a) != nil && paramDerived(a):
			// handed on unchanged
		case isTypeVal:
			other = true
		}
	}
	switch {
	case other:
		return ""
	case desc:
		return "desc"
	}
	return "same"
}

// cacheNotThreaded: the memo guard only cuts the recursion if the whole cycle works on ONE cache. Every call
// between two functions of the SCC that passes a generator.Cache must pass the caller's own Cache parameter, and
// no function of the SCC creates a cache (make(gen.Cache), a literal) of its own.
func cacheNotThreaded(g *recGraph, scc []*recNode) string {
	isCache := func(t types.Type) bool {
		return t != nil && strings.HasSuffix(t.String(), "generator.Cache")
	}
	for _, n := range scc {
		info := n.fi.Pkg.TypesInfo
		why := ""
		ast.Inspect(n.body, func(x ast.Node) bool {
			switch v := x.(type) {
			case *ast.CallExpr:
				if isBuiltinCall(info, v, "make") && len(v.Args) >= 1 && isCache(info.TypeOf(v.Args[0])) {
					why = n.name + " creates a fresh generator.Cache at " + g.w.Pos(v.Pos()) + " inside the recursive cycle: the types already visited on the way down are forgotten, so a recursive type (a union that contains itself) is generated again and again until the stack overflows"
				}
				fn := calleeOf(info, v)
				if fn == nil {
					return true
				}
				t := g.byFn[fn]
				in := false
				for _, m := range scc {
					if m == t && t != nil {
						in = true
					}
				}
				if !in {
					return true
				}
				for _, a := range v.Args {
					if isCache(info.TypeOf(a)) && !isParamExpr(n, info, a) {
						why = n.name + " calls " + t.name + " at " + g.w.Pos(v.Pos()) + " with a cache (" + es(a) + ") that is not its own parameter: the cycle does not work on one cache, so the memo guard does not cut it"
					}
				}
			case *ast.CompositeLit:
				if isCache(info.TypeOf(v)) {
					why = n.name + " creates a fresh generator.Cache at " + g.w.Pos(v.Pos()) + " inside the recursive cycle"
				}
			}
			return true
		})
		if why != "" {
			return why
		}
	}
	return ""
}

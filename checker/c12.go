package main

// C12: the analysed type graph is closed, faithful and finite.

import (
	"fmt"
	"go/ast"
	"go/constant"
	"go/token"
	"go/types"
	"sort"
	"strings"
)

func init() { register("C12", "other", checkC12) }

// lenComparisons: every comparison of an (*analysis.Array).Len value with an integer constant must be
// equivalent, on the domain {-1} ∪ ℕ, to `Len >= 0` (fixed-size array) or to its negation (slice).
func lenComparisons(w *World, r *Result, rule string, only func(rel string) bool) int {
	lenField := w.Field("analysis", "Array", "Len")
	n := 0
	for _, fi := range sortedFuncs(w) {
		if only != nil && !only(w.Rel(fi.Obj.Pkg())) {
			continue
		}
		info := fi.Pkg.TypesInfo
		// local aliases: L := x.Len
		alias := map[types.Object]bool{}
		ast.Inspect(fi.Decl.Body, func(x ast.Node) bool {
			as, ok := x.(*ast.AssignStmt)
			if !ok || len(as.Lhs) != len(as.Rhs) {
				return true
			}
			for i, rhs := range as.Rhs {
				if sel, ok := ast.Unparen(rhs).(*ast.SelectorExpr); ok && info.Uses[sel.Sel] == lenField {
					if id := identOf(as.Lhs[i]); id != nil {
						alias[objOf(info, id)] = true
					}
				}
			}
			return true
		})
		isLen := func(e ast.Expr) bool {
			e = ast.Unparen(e)
			if sel, ok := e.(*ast.SelectorExpr); ok && info.Uses[sel.Sel] == lenField {
				return true
			}
			if id := identOf(e); id != nil && alias[objOf(info, id)] {
				return true
			}
			return false
		}
		ast.Inspect(fi.Decl.Body, func(x ast.Node) bool {
			be, ok := x.(*ast.BinaryExpr)
			if !ok {
				return true
			}
			var k int64
			op := be.Op
			switch {
			case isLen(be.X):
				tv := info.Types[be.Y]
				if tv.Value == nil || tv.Value.Kind() != constant.Int {
					return true
				}
				k, _ = constant.Int64Val(tv.Value)
			case isLen(be.Y):
				tv := info.Types[be.X]
				if tv.Value == nil || tv.Value.Kind() != constant.Int {
					return true
				}
				k, _ = constant.Int64Val(tv.Value)
				op = flipTok(op)
			default:
				return true
			}
			switch op {
			case token.EQL, token.NEQ, token.LSS, token.LEQ, token.GTR, token.GEQ:
			default:
				return true
			}
			n++
			eval := func(v int64) bool {
				switch op {
				case token.EQL:
					return v == k
				case token.NEQ:
					return v != k
				case token.LSS:
					return v < k
				case token.LEQ:
					return v <= k
				case token.GTR:
					return v > k
				default:
					return v >= k
				}
			}
			same, neg := true, true
			var witness int64 = -2
			for v := int64(-1); v <= 6; v++ {
				fixed := v >= 0
				if eval(v) != fixed {
					same = false
					if witness == -2 && neg == false {
						witness = v
					}
				}
				if eval(v) != !fixed {
					neg = false
				}
				if !same && !neg && witness == -2 {
					witness = v
				}
			}
			cons := es(be)
			if same || neg {
				how := "equivalent to `Len >= 0` (fixed-size array) on {-1} ∪ ℕ"
				if neg {
					how = "equivalent to `Len < 0` (slice) on {-1} ∪ ℕ"
				}
				r.ok(rule, fi.Name, cons, w.Pos(be.Pos()), how, true)
			} else {
				r.bad(rule, fi.Name, cons, w.Pos(be.Pos()), "this test of Array.Len is neither 'is a fixed-size array' (Len >= 0) nor 'is a slice' (Len == -1): it disagrees with the other sites for some length (e.g. a zero-length array [0]T), so the type is handled as an array in one place and as a slice in another")
			}
			return true
		})
	}
	return n
}

func sortedFuncs(w *World) []*FuncInfo {
	var fis []*FuncInfo
	for _, fi := range w.Funcs {
		fis = append(fis, fi)
	}
	sortFuncInfos(fis)
	return fis
}

func sortFuncInfos(fis []*FuncInfo) {
	for i := 1; i < len(fis); i++ {
		for j := i; j > 0 && fis[j].Name < fis[j-1].Name; j-- {
			fis[j], fis[j-1] = fis[j-1], fis[j]
		}
	}
}

func checkC12(w *World, r *Result) {
	r.Explanation = "Decides structural necessary conditions: REC-C12a/REC-memo composite nodes are registered under the looked-up key before the recursive descent and handleType returns the memo hit first (termination on recursive declarations); AGR-C12b createType is only entered through handleType, and every child type obtained from go/types accessors is passed to handleType; AGR-C12c node fields are filled from the accessor of the same name of the switch-bound go/types value (Key<-Key(), Elem<-Elem(), Len<-Len(), slice Len=-1) and Type() rebuilds with NewMap(Key,Elem), NewArray(Elem,Len) under Len>=0, NewSlice(Elem), NewPointer(Elem), named kinds returning their stored *types.Named; AGR-C12k alias keys are resolved with types.Unalias (all levels); AGR-C03a every test of Array.Len in package analysis is equivalent to Len>=0 or its negation; AGR-C12t the string NewTime compares against equals the underlying type string of time.Time in the loaded standard library; AGR-C12n NewBasicKind maps the go/types flag of each kind to the kind of the same name; PTH-C12d Source is ordered by declaration position between collection and use. Does not decide: identity of the round trip through Type() as a value-level statement, classification values beyond the agreements above."
	r.Rules = []string{"REC-C12a", "REC-memo", "AGR-C12b", "AGR-C12c", "AGR-C12s", "AGR-C12k", "AGR-C03a", "AGR-C12t", "AGR-C12n", "PTH-C12d", "PKG-ID", "MEMO-KEY", "ALIAS-APPEND", "STATE-PKG", "POS-ORDER", "BASIC-ID", "ALIAS-STORE"}
	basicIDRule(w, r, func(rel string) bool { return rel == "analysis" })
	posOrderRule(w, r, func(rel string) bool { return rel == "analysis" })
	statePkgRule(w, r, func(rel string) bool { return rel == "analysis" })
	aliasAppendRule(w, r, func(rel string) bool { return rel == "analysis" })
	aliasStoreRule(w, r, func(rel string) bool { return rel == "analysis" })
	// recursion guards of the analysis SCC
	sub := &Result{}
	runREC(w, sub, func(rel string) bool { return rel == "analysis" })
	for _, o := range sub.Obs {
		if o.Rule == "REC-C12a" || (o.Rule == "REC-memo" && strings.Contains(o.Func, "handleType")) {
			r.add(o)
		}
	}
	if pkgIDRule(w, r, func(rel string) bool { return rel == "analysis" }) < 2 {
		Undecided("PKG-ID: fewer package identity comparisons in package analysis than confirmed by hand")
	}
	memoKeyRule(w, r, func(rel string) bool { return rel == "analysis" })
	checkBasicNode(w, r)
	checkChildrenRegistered(w, r)
	checkAccessorAgreement(w, r)
	checkTypeRebuild(w, r)
	checkAliasResolution(w, r)
	n := lenComparisons(w, r, "AGR-C03a", func(rel string) bool { return rel == "analysis" })
	if n == 0 {
		Undecided("no comparison of Array.Len found in package analysis")
	}
	checkTimeString(w, r)
	checkBasicKind(w, r)
	checkSourceOrder(w, r)
}

func checkChildrenRegistered(w *World, r *Result) {
	ct := w.MustFunc("analysis.(*Analysis).createType")
	ht := w.MustFunc("analysis.(*Analysis).handleType")
	// callers of createType
	bad := 0
	ncall := 0
	for _, fi := range sortedFuncs(w) {
		info := fi.Pkg.TypesInfo
		ast.Inspect(fi.Decl.Body, func(x ast.Node) bool {
			if call, ok := x.(*ast.CallExpr); ok && calleeOf(info, call) == ct.Obj {
				ncall++
				if fi != ht {
					bad++
					r.bad("AGR-C12b", fi.Name, "call createType", w.Pos(call.Pos()), "createType is called outside handleType: the node is built without the memo lookup and without being registered")
				}
			}
			return true
		})
	}
	if bad == 0 {
		r.ok("AGR-C12b", ht.Name, "createType only entered through handleType", fnPos(w, ht), "single caller", true)
	}
	if ncall == 0 {
		Undecided("createType is never called")
	}
	// in handleType: the result of createType is stored under the parameter unless extern
	info := ht.Pkg.TypesInfo
	param := info.Defs[ht.Decl.Type.Params.List[0].Names[0]]
	stored := false
	ast.Inspect(ht.Decl.Body, func(x ast.Node) bool {
		as, ok := x.(*ast.AssignStmt)
		if ok && len(as.Lhs) == 1 {
			if ix, ok := as.Lhs[0].(*ast.IndexExpr); ok && strings.HasSuffix(es(ix.X), ".Types") && identOf(ix.Index) != nil && objOf(info, identOf(ix.Index)) == param {
				stored = true
			}
		}
		return true
	})
	r.cond(stored, "AGR-C12b", ht.Name, "result registered under the looked-up key", fnPos(w, ht), "an.Types[typ] = createType(typ)", "handleType no longer registers the created node under its parameter")
	// every go/types child accessor result inside createType / handleStructFields flows into handleType
	for _, q := range []string{"analysis.(*Analysis).createType", "analysis.(*Analysis).handleStructFields"} {
		fi := w.MustFunc(q)
		inf := fi.Pkg.TypesInfo
		ast.Inspect(fi.Decl.Body, func(x ast.Node) bool {
			call, ok := x.(*ast.CallExpr)
			if !ok {
				return true
			}
			fn := calleeOf(inf, call)
			if fn == nil || fn.Pkg() == nil || fn.Pkg().Path() != "go/types" {
				return true
			}
			switch fn.FullName() {
			case "(*go/types.Map).Key", "(*go/types.Map).Elem", "(*go/types.Slice).Elem", "(*go/types.Array).Elem", "(*go/types.Pointer).Elem":
			default:
				return true
			}
			// must be the argument of a handleType call
			okk := false
			ast.Inspect(fi.Decl.Body, func(y ast.Node) bool {
				if c2, ok := y.(*ast.CallExpr); ok && calleeOf(inf, c2) == ht.Obj && len(c2.Args) >= 1 && ast.Unparen(c2.Args[0]) == ast.Expr(call) {
					okk = true
				}
				// handed to a helper of the package that passes that parameter to handleType
				if c2, ok := y.(*ast.CallExpr); ok && !okk {
					if h := w.Funcs[calleeOf(inf, c2)]; h != nil && h.Decl.Body != nil && h.Pkg == fi.Pkg && h.Obj != ht.Obj {
						for j, a := range c2.Args {
							if ast.Unparen(a) != ast.Expr(call) {
								continue
							}
							var pobj types.Object
							k := 0
							for _, f := range h.Decl.Type.Params.List {
								for _, nm := range f.Names {
									if k == j {
										pobj = h.Pkg.TypesInfo.Defs[nm]
									}
									k++
								}
							}
							if pobj == nil {
								continue
							}
							ast.Inspect(h.Decl.Body, func(z ast.Node) bool {
								if c3, ok := z.(*ast.CallExpr); ok && calleeOf(h.Pkg.TypesInfo, c3) == ht.Obj && len(c3.Args) >= 1 {
									if id := identOf(c3.Args[0]); id != nil && objOf(h.Pkg.TypesInfo, id) == pobj && len(defsIn(h.Pkg.TypesInfo, h.Decl, pobj)) == 0 {
										okk = true
									}
								}
								return true
							})
						}
					}
				}
				return true
			})
			r.cond(okk, "AGR-C12b", fi.Name, "child "+es(call)+" analysed", w.Pos(call.Pos()), "the child type is handed to handleType", "a child type is obtained but not analysed through handleType: the graph is not closed")
			return true
		})
	}
}

// checkAccessorAgreement: in createType's switch on the underlying type, node fields are filled from
// the accessor of the same name on the switch-bound value.
func checkAccessorAgreement(w *World, r *Result) {
	fi := w.MustFunc("analysis.(*Analysis).createType")
	info := fi.Pkg.TypesInfo
	var ts *ast.TypeSwitchStmt
	ast.Inspect(fi.Decl.Body, func(x ast.Node) bool {
		if s, ok := x.(*ast.TypeSwitchStmt); ok {
			ts = s
		}
		return true
	})
	if ts == nil {
		Undecided("createType has no type switch")
	}
	bind := ""
	if as, ok := ts.Assign.(*ast.AssignStmt); ok {
		bind = as.Lhs[0].(*ast.Ident).Name
	}
	n := 0
	for _, cl := range ts.Body.List {
		cc := cl.(*ast.CaseClause)
		if len(cc.List) != 1 {
			continue
		}
		kind := es(cc.List[0])
		// field <- accessor pairs
		check := func(field string, val ast.Expr, pos token.Pos) {
			if field != "Key" && field != "Elem" && field != "Len" {
				return
			}
			n++
			cons := "case " + kind + ": " + field + " <- " + es(val)
			want := field
			good := false
			var acc *ast.CallExpr
			ast.Inspect(val, func(y ast.Node) bool {
				if c, ok := y.(*ast.CallExpr); ok {
					if sel, ok := c.Fun.(*ast.SelectorExpr); ok && es(sel.X) == bind {
						acc = c
					}
				}
				return true
			})
			if field == "Len" {
				if acc != nil && acc.Fun.(*ast.SelectorExpr).Sel.Name == "Len" {
					good = true
				}
				if tv := info.Types[val]; tv.Value != nil && kind == "*types.Slice" && tv.Value.ExactString() == "-1" {
					good = true
				}
			} else if acc != nil && acc.Fun.(*ast.SelectorExpr).Sel.Name == want {
				good = true
			}
			r.cond(good, "AGR-C12c", fi.Name, cons, w.Pos(pos), "the node field is filled from the go/types accessor of the same name on the switch-bound value", "the node field "+field+" is not filled from "+bind+"."+want+"(): key/element/length are swapped or taken from another value")
		}
		ast.Inspect(&ast.BlockStmt{List: cc.Body}, func(x ast.Node) bool {
			switch s := x.(type) {
			case *ast.AssignStmt:
				for i, l := range s.Lhs {
					if sel, ok := l.(*ast.SelectorExpr); ok && i < len(s.Rhs) {
						if v, ok := info.Uses[sel.Sel].(*types.Var); ok && v.IsField() && w.Rel(v.Pkg()) == "analysis" {
							check(sel.Sel.Name, s.Rhs[i], s.Pos())
						}
					}
				}
			case *ast.CompositeLit:
				for _, el := range s.Elts {
					if kv, ok := el.(*ast.KeyValueExpr); ok {
						if id := identOf(kv.Key); id != nil {
							if v, ok := info.Uses[id].(*types.Var); ok && v.IsField() && w.Rel(v.Pkg()) == "analysis" {
								check(id.Name, kv.Value, kv.Pos())
							}
						}
					}
				}
			case *ast.CallExpr:
				// the case hands its values to a helper that builds the node: the helper's field assignments are read
				// with its parameters replaced by what this case passes
				h := w.Funcs[calleeOf(info, s)]
				if h == nil || h.Decl.Body == nil || h.Pkg != fi.Pkg || strings.HasSuffix(h.Name, ").handleType") || h == fi {
					return true
				}
				hinfo := h.Pkg.TypesInfo
				argOf := map[types.Object]ast.Expr{}
				k := 0
				for _, f := range h.Decl.Type.Params.List {
					for _, nm := range f.Names {
						if k < len(s.Args) {
							argOf[hinfo.Defs[nm]] = s.Args[k]
						}
						k++
					}
				}
				subst := func(val ast.Expr) ast.Expr {
					var out ast.Expr
					ast.Inspect(val, func(y ast.Node) bool {
						if id, ok := y.(*ast.Ident); ok && out == nil {
							if a, ok := argOf[objOf(hinfo, id)]; ok && len(defsIn(hinfo, h.Decl, objOf(hinfo, id))) == 0 {
								out = a
							}
						}
						return true
					})
					return out
				}
				ast.Inspect(h.Decl.Body, func(y ast.Node) bool {
					switch hs := y.(type) {
					case *ast.AssignStmt:
						for i, l := range hs.Lhs {
							if sel, ok := l.(*ast.SelectorExpr); ok && i < len(hs.Rhs) {
								if v, ok := hinfo.Uses[sel.Sel].(*types.Var); ok && v.IsField() && w.Rel(v.Pkg()) == "analysis" {
									if a := subst(hs.Rhs[i]); a != nil {
										check(sel.Sel.Name, a, s.Pos())
									}
								}
							}
						}
					case *ast.CompositeLit:
						for _, el := range hs.Elts {
							if kv, ok := el.(*ast.KeyValueExpr); ok {
								if id := identOf(kv.Key); id != nil {
									if v, ok := hinfo.Uses[id].(*types.Var); ok && v.IsField() && w.Rel(v.Pkg()) == "analysis" {
										if a := subst(kv.Value); a != nil {
											check(id.Name, a, s.Pos())
										}
									}
								}
							}
						}
					}
					return true
				})
			}
			return true
		})
	}
	if n < 5 {
		Undecided("createType: only %d node-field assignments found", n)
	}
}

// checkTypeRebuild: Type() methods reconstruct with the constructor and argument order of the node kind.
func checkTypeRebuild(w *World, r *Result) {
	type want struct {
		fn    string
		calls map[string][]string // constructor -> rendered args (receiver as $r)
	}
	wants := []want{
		{"analysis.(*Map).Type", map[string][]string{"go/types.NewMap": {"$r.Key.Type()", "$r.Elem.Type()"}}},
		{"analysis.(*Array).Type", map[string][]string{"go/types.NewArray": {"$r.Elem.Type()", "int64($r.Len)"}, "go/types.NewSlice": {"$r.Elem.Type()"}}},
		{"analysis.(*Pointer).Type", map[string][]string{"go/types.NewPointer": {"$r.Elem.Type()"}}},
	}
	for _, wt := range wants {
		fi := w.MustFunc(wt.fn)
		info := fi.Pkg.TypesInfo
		recv := info.Defs[fi.Decl.Recv.List[0].Names[0]]
		seen := map[string]bool{}
		ast.Inspect(fi.Decl.Body, func(x ast.Node) bool {
			call, ok := x.(*ast.CallExpr)
			if !ok {
				return true
			}
			full := fullName(calleeOf(info, call))
			args, ok := wt.calls[full]
			if !ok {
				return true
			}
			seen[full] = true
			var got []string
			for _, a := range call.Args {
				got = append(got, render(info, a, map[types.Object]string{recv: "$r"}))
			}
			r.cond(strings.Join(got, ", ") == strings.Join(args, ", "), "AGR-C12c", fi.Name, full+"("+strings.Join(got, ", ")+")", w.Pos(call.Pos()),
				"rebuilt with the node's own fields in the constructor's argument order", "Type() does not rebuild the Go type from the node's fields in the right order: expected "+full+"("+strings.Join(args, ", ")+")")
			return true
		})
		for c := range wt.calls {
			if !seen[c] {
				r.bad("AGR-C12c", fi.Name, "missing "+c, fnPos(w, fi), "Type() no longer rebuilds this kind with "+c)
			}
		}
	}
	// named kinds return their stored *types.Named
	for _, q := range []string{"analysis.(*Struct).Type", "analysis.(*Named).Type", "analysis.(*Enum).Type", "analysis.(*Union).Type"} {
		fi := w.MustFunc(q)
		st := singleReturnStaticType(fi)
		r.cond(st == "*go/types.Named", "AGR-C12c", fi.Name, "returns the stored *types.Named", fnPos(w, fi), "single return of a *types.Named field", "Type() of a named kind does not return its stored *types.Named")
	}
}

func checkAliasResolution(w *World, r *Result) {
	fi := w.MustFunc("analysis.(*Analysis).createType")
	info := fi.Pkg.TypesInfo
	param := info.Defs[fi.Decl.Type.Params.List[0].Names[0]]
	n := 0
	ast.Inspect(fi.Decl.Body, func(x ast.Node) bool {
		as, ok := x.(*ast.AssignStmt)
		if !ok || len(as.Lhs) != 1 || len(as.Rhs) != 1 {
			return true
		}
		if id := identOf(as.Lhs[0]); id == nil || objOf(info, id) != param {
			return true
		}
		n++
		call, ok := as.Rhs[0].(*ast.CallExpr)
		good := ok && fullName(calleeOf(info, call)) == "go/types.Unalias"
		r.cond(good, "AGR-C12k", fi.Name, "alias resolution: "+es(as.Rhs[0]), w.Pos(as.Pos()), "types.Unalias resolves a chain of aliases completely", "the alias is resolved one level only (or not with types.Unalias): for `type A = B; type B = C` the key is still an alias, the named-type branch is skipped and the node loses its name")
		return true
	})
	if n == 0 {
		// aliases must then be handled by some Unalias call on the parameter
		found := false
		ast.Inspect(fi.Decl.Body, func(x ast.Node) bool {
			if call, ok := x.(*ast.CallExpr); ok && fullName(calleeOf(info, call)) == "go/types.Unalias" {
				found = true
			}
			return true
		})
		r.cond(found, "AGR-C12k", fi.Name, "alias resolution", fnPos(w, fi), "types.Unalias is applied", "createType no longer resolves aliases")
	}
}

func checkTimeString(w *World, r *Result) {
	fi := w.MustFunc("analysis.NewTime")
	info := fi.Pkg.TypesInfo
	// the string constant compared with typ.Underlying().String()
	var lit string
	var pos token.Pos
	ast.Inspect(fi.Decl.Body, func(x ast.Node) bool {
		be, ok := x.(*ast.BinaryExpr)
		if !ok || (be.Op != token.NEQ && be.Op != token.EQL) {
			return true
		}
		for _, side := range []ast.Expr{be.X, be.Y} {
			if tv := info.Types[side]; tv.Value != nil && tv.Value.Kind() == constant.String && strings.HasPrefix(constant.StringVal(tv.Value), "struct{") {
				lit = constant.StringVal(tv.Value)
				pos = be.Pos()
			}
		}
		return true
	})
	if lit == "" {
		// the other way to recognise time.Time: identity with the struct of the real time.Time. The reference must then
		// be found independently of what the declaring package happens to import: (*types.Package).Imports() lists the
		// DIRECT imports only, so a search of it misses `type Deadline clock.Stamp` declared in a package that reaches
		// time only through clock.
		identical, viaImports := false, ""
		for _, cf := range calleeClosure(w, fi, 2) {
			if cf.Pkg != fi.Pkg || cf.Decl.Body == nil {
				continue
			}
			ci := cf.Pkg.TypesInfo
			ast.Inspect(cf.Decl.Body, func(x ast.Node) bool {
				switch v := x.(type) {
				case *ast.CallExpr:
					if fullName(calleeOf(ci, v)) == "go/types.Identical" {
						identical = true
					}
				case *ast.RangeStmt:
					if call, ok := ast.Unparen(v.X).(*ast.CallExpr); ok && fullName(calleeOf(ci, call)) == "(*go/types.Package).Imports" {
						viaImports = w.Pos(v.Pos()) + " in " + cf.Name
					}
				}
				return true
			})
		}
		if identical {
			r.cond(viaImports == "", "AGR-C12t", fi.Name, "time.Time recognised by identity with the real struct", fnPos(w, fi),
				"the reference struct is not looked up among the direct imports of the declaring package",
				"the struct of time.Time is looked up by scanning (*types.Package).Imports() at "+viaImports+", which lists direct imports only: a named type over a time-derived type of another package, declared in a package that does not import time itself, is no longer recognised as a time (it becomes a struct with the private fields wall, ext, loc, and time.Location leaks into the graph)")
			return
		}
		Undecided("NewTime: the struct-text comparison was not found")
	}
	// time.Time in the loaded program
	var timePkg *types.Package
	for _, imp := range w.ByRel["analysis"].Types.Imports() {
		_ = imp
	}
	var find func(p *types.Package, seen map[*types.Package]bool)
	find = func(p *types.Package, seen map[*types.Package]bool) {
		if seen[p] || timePkg != nil {
			return
		}
		seen[p] = true
		if p.Path() == "time" {
			timePkg = p
			return
		}
		for _, q := range p.Imports() {
			find(q, seen)
		}
	}
	for _, p := range w.Pkgs {
		find(p.Types, map[*types.Package]bool{})
	}
	if timePkg == nil {
		Undecided("package time is not in the import graph of the production packages")
	}
	tt := timePkg.Scope().Lookup("Time")
	if tt == nil {
		Undecided("time.Time not found")
	}
	actual := tt.Type().Underlying().String()
	r.cond(actual == lit, "AGR-C12t", fi.Name, "time detection string", w.Pos(pos), "the compared text equals time.Time's underlying type string in the loaded standard library: "+actual, "NewTime compares against "+lit+" but time.Time's underlying type prints as "+actual+": time types are no longer recognised")
}

func checkBasicKind(w *World, r *Result) {
	fi := w.MustFunc("analysis.NewBasicKind")
	info := fi.Pkg.TypesInfo
	pairs := map[string]string{"IsBoolean": "BKBool", "IsInteger": "BKInt", "IsFloat": "BKFloat", "IsString": "BKString"}
	n := 0
	// each return is reached under the test of one go/types flag (whatever the dispatch is written as: if / else-if
	// chain, tagless switch, early returns): the kind returned there must be the one of the same name
	flagOf := func(c pcond) string {
		flag := ""
		if c.expr == nil {
			return ""
		}
		ast.Inspect(c.expr, func(x ast.Node) bool {
			if sel, ok := x.(*ast.SelectorExpr); ok {
				if k, ok := info.Uses[sel.Sel].(*types.Const); ok && k.Pkg() != nil && k.Pkg().Path() == "go/types" {
					flag = k.Name()
				}
			}
			return true
		})
		return flag
	}
	ast.Inspect(fi.Decl.Body, func(x ast.Node) bool {
		if _, ok := x.(*ast.FuncLit); ok {
			return false
		}
		ret, ok := x.(*ast.ReturnStmt)
		if !ok || len(ret.Results) < 1 {
			return true
		}
		var flags []string
		for _, c := range pathConds(fi.Decl, ret) {
			// `info&types.IsX != 0` holds, or `info&types.IsX == 0` does not
			be, isBin := ast.Unparen(c.expr).(*ast.BinaryExpr)
			if !isBin || (be.Op != token.NEQ && be.Op != token.EQL) {
				continue
			}
			if (be.Op == token.NEQ) != c.truth {
				continue
			}
			if f := flagOf(c); f != "" {
				flags = append(flags, f)
			}
		}
		if len(flags) != 1 {
			return true
		}
		n++
		flag := flags[0]
		got := es(ret.Results[0])
		want, known := pairs[flag]
		r.cond(known && got == want, "AGR-C12n", fi.Name, "types."+flag+" -> "+got, w.Pos(ret.Pos()), "flag and kind of the same name", "the go/types flag "+flag+" is mapped to "+got+" (expected "+want+")")
		return true
	})
	// table form: `for _, row := range table { if info&row.flag != 0 { return row.kind, true } }` over a read-only
	// package-level table of {flag, kind} rows
	ast.Inspect(fi.Decl.Body, func(x ast.Node) bool {
		rs, ok := x.(*ast.RangeStmt)
		if !ok || identOf(rs.Value) == nil {
			return true
		}
		t := pkgTable(w, info, rs.X)
		if t == nil {
			return true
		}
		row := objOf(info, identOf(rs.Value))
		fieldOf := func(e ast.Expr) string { // row.<field>
			var name string
			ast.Inspect(e, func(y ast.Node) bool {
				if sel, ok := y.(*ast.SelectorExpr); ok {
					if id := identOf(sel.X); id != nil && objOf(info, id) == row {
						name = sel.Sel.Name
					}
				}
				return true
			})
			return name
		}
		ast.Inspect(rs.Body, func(y ast.Node) bool {
			ret, ok := y.(*ast.ReturnStmt)
			if !ok || len(ret.Results) < 1 {
				return true
			}
			kindField := fieldOf(ret.Results[0])
			flagField := ""
			for _, c := range pathConds(fi.Decl, ret) {
				be, isBin := ast.Unparen(c.expr).(*ast.BinaryExpr)
				if !isBin || (be.Op != token.NEQ && be.Op != token.EQL) || (be.Op == token.NEQ) != c.truth {
					continue
				}
				if f := fieldOf(c.expr); f != "" {
					flagField = f
				}
			}
			if kindField == "" || flagField == "" {
				return true
			}
			for _, en := range t.entries {
				lit, ok := ast.Unparen(en.val).(*ast.CompositeLit)
				if !ok {
					continue
				}
				st, ok := t.info.TypeOf(lit).Underlying().(*types.Struct)
				if !ok {
					continue
				}
				vals := map[string]ast.Expr{}
				for i, el := range lit.Elts {
					if kv, ok := el.(*ast.KeyValueExpr); ok {
						vals[es(kv.Key)] = kv.Value
					} else if i < st.NumFields() {
						vals[st.Field(i).Name()] = el
					}
				}
				fe, ke := vals[flagField], vals[kindField]
				if fe == nil || ke == nil {
					continue
				}
				flag := es(fe)
				flag = flag[strings.LastIndex(flag, ".")+1:]
				got := es(ke)
				n++
				want, known := pairs[flag]
				r.cond(known && got == want, "AGR-C12n", fi.Name, "types."+flag+" -> "+got, w.Pos(fe.Pos()), "flag and kind of the same name (row of the lookup table)", "the go/types flag "+flag+" is mapped to "+got+" (expected "+want+")")
			}
			return true
		})
		return true
	})
	if n < 4 {
		Undecided("NewBasicKind: only %d flag branches recognised", n)
	}
	checkKindMethods(w, r)
}

// checkKindMethods (AGR-C12n, second half): (*Basic).Kind and (*Enum).Kind classify the underlying go/types basic.
// Either they go through NewBasicKind with the Info() flags (checked above), or they dispatch on the go/types
// BasicKind themselves (switch or read-only table): then every typed basic kind that go/types flags as boolean,
// integer, float or string must be covered, with the kind of that flag.
func checkKindMethods(w *World, r *Result) {
	pairs := []struct {
		flag types.BasicInfo
		kind string
	}{{types.IsBoolean, "BKBool"}, {types.IsInteger, "BKInt"}, {types.IsFloat, "BKFloat"}, {types.IsString, "BKString"}}
	want := map[string]string{} // go/types constant name -> analysis kind
	for k := types.Bool; k <= types.UnsafePointer; k++ {
		b := types.Typ[k]
		for _, p := range pairs {
			if b.Info()&p.flag != 0 {
				want[basicKindConstName(k)] = p.kind
			}
		}
	}
	nbk := w.MustFunc("analysis.NewBasicKind")
	for _, name := range []string{"analysis.(*Basic).Kind", "analysis.(*Enum).Kind"} {
		fi := w.Func(name)
		if fi == nil {
			continue
		}
		viaFlags := false
		got := map[string]string{}
		var at token.Pos
		dispatch := false
		for _, cf := range calleeClosure(w, fi, 2) {
			if cf.Decl.Body == nil || cf.Pkg != fi.Pkg {
				continue
			}
			info := cf.Pkg.TypesInfo
			isBK := func(e ast.Expr) bool {
				t := info.TypeOf(e)
				return t != nil && t.String() == "go/types.BasicKind"
			}
			cname := func(i *types.Info, e ast.Expr) string {
				if sel, ok := ast.Unparen(e).(*ast.SelectorExpr); ok {
					if c, ok := i.Uses[sel.Sel].(*types.Const); ok && c.Type().String() == "go/types.BasicKind" {
						if v, ok := constant.Int64Val(c.Val()); ok {
							return basicKindConstName(types.BasicKind(v))
						}
					}
				}
				return ""
			}
			ast.Inspect(cf.Decl.Body, func(x ast.Node) bool {
				switch s := x.(type) {
				case *ast.CallExpr:
					if calleeOf(info, s) == nbk.Obj {
						viaFlags = true
					}
				case *ast.SwitchStmt:
					if s.Tag == nil || !isBK(s.Tag) {
						return true
					}
					dispatch, at = true, s.Pos()
					for _, cl := range s.Body.List {
						cc := cl.(*ast.CaseClause)
						val := ""
						for _, st := range cc.Body {
							if ret, ok := st.(*ast.ReturnStmt); ok && len(ret.Results) >= 1 {
								val = es(ret.Results[0])
							}
						}
						for _, e := range cc.List {
							if n := cname(info, e); n != "" {
								got[n] = val
							}
						}
					}
				case *ast.IndexExpr:
					t, key := tableLookup(w, info, s)
					if t == nil || !isBK(key) {
						return true
					}
					dispatch, at = true, t.pos
					for _, en := range t.entries {
						if n := cname(t.info, en.key); n != "" {
							got[n] = es(en.val)
						}
					}
				}
				return true
			})
		}
		switch {
		case dispatch:
			var names []string
			for n := range want {
				names = append(names, n)
			}
			sort.Strings(names)
			for _, n := range names {
				g, ok := got[n]
				g = g[strings.LastIndex(g, ".")+1:]
				r.cond(ok && g == want[n], "AGR-C12n", fi.Name, "types."+n+" -> "+want[n], w.Pos(at), "the dispatch on the go/types kind has this kind, with the class of its go/types flag",
					"go/types flags "+n+" as "+want[n]+", but the dispatch on the basic kind "+map[bool]string{true: "maps it to " + g, false: "does not list it"}[ok]+": a declaration over this basic type is refused or misclassified")
			}
		case viaFlags:
			r.ok("AGR-C12n", fi.Name, "classification through NewBasicKind(Info())", fnPos(w, fi), "the go/types flags decide, for every basic kind", true)
		default:
			Undecided("%s: neither NewBasicKind nor a dispatch on go/types.BasicKind found", name)
		}
	}
}

func basicKindConstName(k types.BasicKind) string {
	names := map[types.BasicKind]string{types.Bool: "Bool", types.Int: "Int", types.Int8: "Int8", types.Int16: "Int16", types.Int32: "Int32", types.Int64: "Int64", types.Uint: "Uint", types.Uint8: "Uint8", types.Uint16: "Uint16", types.Uint32: "Uint32", types.Uint64: "Uint64", types.Uintptr: "Uintptr", types.Float32: "Float32", types.Float64: "Float64", types.Complex64: "Complex64", types.Complex128: "Complex128", types.String: "String", types.UnsafePointer: "UnsafePointer"}
	if n, ok := names[k]; ok {
		return n
	}
	return fmt.Sprintf("kind%d", k)
}

func checkSourceOrder(w *World, r *Result) {
	fi := w.MustFunc("analysis.NewAnalysisFromFile")
	info := fi.Pkg.TypesInfo
	// objs collected in a loop, then sort.Slice(objs, by Pos), then used
	var sortCall *ast.CallExpr
	var spec *sortSpec
	ast.Inspect(fi.Decl.Body, func(x ast.Node) bool {
		if call, ok := x.(*ast.CallExpr); ok {
			if sp := sortSpecOf(info, fi, call); sp != nil && sp.key != "$e" {
				sortCall, spec = call, sp
			}
		}
		return true
	})
	if sortCall == nil {
		r.bad("PTH-C12d", fi.Name, "source order", fnPos(w, fi), "the collected declarations are no longer sorted by position: Source is in name order, not source order")
		return
	}
	// whatever the sorting API: elements compared by their Pos(), increasing
	good := spec.key == "$e.Pos()" && spec.asc
	r.cond(good, "PTH-C12d", fi.Name, "Source sorted by increasing Pos()", w.Pos(sortCall.Pos()), "objs[i].Pos() < objs[j].Pos() (all objects are declared in the one source file, so positions compare as source order)", "the comparator is not increasing declaration position")
	// the sorted slice is what feeds Source: a later loop ranges over it in order
	sorted := es(sortCall.Args[0])
	used := false
	for _, st := range fi.Decl.Body.List {
		if st.Pos() < sortCall.End() {
			continue
		}
		if rs, ok := st.(*ast.RangeStmt); ok && es(rs.X) == sorted {
			used = true
		}
	}
	r.cond(used, "PTH-C12d", fi.Name, "Source built from the sorted slice", w.Pos(sortCall.Pos()), "the sorted slice is ranged over, in order, after the sort", "the sorted slice is not the one Source is built from")
}

// checkBasicNode (AGR-C12s): a basic type is reported with the go/types basic it was built from
// (`&Basic{B: <the switch-bound *types.Basic>}`): sharing one predefined node per simplified kind makes float32
// come back as float64 and complex128 as string when the node is converted back with Type().
func checkBasicNode(w *World, r *Result) {
	fi := w.MustFunc("analysis.(*Analysis).createType")
	info := fi.Pkg.TypesInfo
	n := 0
	ast.Inspect(fi.Decl.Body, func(x ast.Node) bool {
		cc, ok := x.(*ast.CaseClause)
		if !ok || len(cc.List) != 1 || es(cc.List[0]) != "*types.Basic" {
			return true
		}
		bound := info.Implicits[cc]
		ast.Inspect(&ast.BlockStmt{List: cc.Body}, func(y ast.Node) bool {
			ret, ok := y.(*ast.ReturnStmt)
			if !ok || len(ret.Results) != 1 {
				return true
			}
			n++
			good := false
			if u, ok := ast.Unparen(ret.Results[0]).(*ast.UnaryExpr); ok {
				if lit, ok := u.X.(*ast.CompositeLit); ok && strings.HasSuffix(es(lit.Type), "Basic") {
					for _, el := range lit.Elts {
						if kv, ok := el.(*ast.KeyValueExpr); ok && es(kv.Key) == "B" {
							if id := identOf(kv.Value); id != nil && bound != nil && objOf(info, id) == bound {
								good = true
							}
						}
					}
				}
			}
			r.cond(good, "AGR-C12s", fi.Name, "case *types.Basic: return "+es(ret.Results[0]), w.Pos(ret.Pos()),
				"the node keeps the go/types basic it was built from",
				"a basic type is reported through `"+es(ret.Results[0])+"` instead of a node holding its own *types.Basic: Type() of the result is the shared node's type (float32 becomes float64; a kind outside the simplified table becomes whatever kind has value 0)")
			return true
		})
		return false
	})
	if n == 0 {
		Undecided("AGR-C12s: createType has no `case *types.Basic` with a return")
	}
}

package main

// Anchors that survive a rename.
//
// Rules name the functions they are anchored in. A maintainer may rename an unexported function; the property still
// holds and the rule still has something to say, but the name is gone. anchors.json (generated from the tree the rules
// were written against by `gmverif anchors`, embedded in the binary) keeps a fingerprint of every function of the
// production packages: signature, callees, string constants. When a name of the snapshot no longer resolves, the one
// new function of the same package with the same signature and a close fingerprint is taken for it: it answers to the
// old qualified name in FuncBy, and fullName/render print the old name for it, so that the rules read the renamed
// program as they read the original. No candidate, or several, leaves the anchor unresolved (the check is then
// undecided, as before).

import (
	_ "embed"
	"encoding/json"
	"go/ast"
	"go/constant"
	"go/types"
	"sort"
	"strings"
)

//go:embed anchors.json
var anchorsJSON []byte

type anchorPrint struct {
	Sig     string   `json:"sig"`
	Callees []string `json:"callees"`
	Consts  []string `json:"consts"`
}

var (
	renamedFuncs = map[*types.Func]string{} // current function -> the bare name the rules know it under
	renamedFull  = map[*types.Func]string{} // current function -> old FullName()
)

func fingerprint(fi *FuncInfo) anchorPrint {
	info := fi.Pkg.TypesInfo
	sig := fi.Obj.Type().(*types.Signature)
	p := anchorPrint{Sig: types.TypeString(types.NewSignatureType(nil, nil, nil, sig.Params(), sig.Results(), sig.Variadic()), nil)}
	if sig.Recv() != nil {
		p.Sig = "(" + types.TypeString(sig.Recv().Type(), nil) + ")" + p.Sig
	}
	cs, ks := map[string]bool{}, map[string]bool{}
	if fi.Decl.Body != nil {
		ast.Inspect(fi.Decl.Body, func(x ast.Node) bool {
			switch v := x.(type) {
			case *ast.CallExpr:
				if fn := calleeOf(info, v); fn != nil && types.Object(fn) != types.Object(fi.Obj) {
					cs[fn.FullName()] = true
				}
			case *ast.BasicLit:
				if tv := info.Types[v]; tv.Value != nil && tv.Value.Kind() == constant.String {
					s := constant.StringVal(tv.Value)
					if len(s) > 40 {
						s = s[:40]
					}
					ks[s] = true
				}
			}
			return true
		})
	}
	for c := range cs {
		p.Callees = append(p.Callees, c)
	}
	for k := range ks {
		p.Consts = append(p.Consts, k)
	}
	sort.Strings(p.Callees)
	sort.Strings(p.Consts)
	return p
}

func dumpAnchors(w *World) []byte {
	out := map[string]anchorPrint{}
	for name, fi := range w.FuncBy {
		out[name] = fingerprint(fi)
	}
	b, _ := json.MarshalIndent(out, "", " ")
	return b
}

func pkgOfQualified(q string) string {
	slash := strings.LastIndex(q, "/")
	dot := strings.Index(q[slash+1:], ".")
	if dot < 0 {
		return q
	}
	return q[:slash+1+dot]
}

// rebindRenamedAnchors is run once after loading.
func rebindRenamedAnchors(w *World) {
	var snap map[string]anchorPrint
	if len(anchorsJSON) == 0 || json.Unmarshal(anchorsJSON, &snap) != nil {
		return
	}
	// functions of today that the snapshot does not know, per package
	fresh := map[string][]*FuncInfo{}
	for name, fi := range w.FuncBy {
		if _, known := snap[name]; !known {
			fresh[pkgOfQualified(name)] = append(fresh[pkgOfQualified(name)], fi)
		}
	}
	var missing []string
	for name := range snap {
		if w.FuncBy[name] == nil {
			missing = append(missing, name)
		}
	}
	sort.Strings(missing)
	jaccard := func(a, b []string) float64 {
		if len(a) == 0 && len(b) == 0 {
			return 1
		}
		set := map[string]int{}
		for _, x := range a {
			set[x] |= 1
		}
		for _, x := range b {
			set[x] |= 2
		}
		inter := 0
		for _, v := range set {
			if v == 3 {
				inter++
			}
		}
		return float64(inter) / float64(len(set))
	}
	taken := map[*FuncInfo]bool{}
	rebind := func(name string, best *FuncInfo) {
		taken[best] = true
		w.FuncBy[name] = best
		bare := name[strings.LastIndex(name, ".")+1:]
		renamedFuncs[best.Obj] = bare
		full := best.Obj.FullName()
		renamedFull[best.Obj] = full[:strings.LastIndex(full, ".")+1] + bare
		if i := strings.Index(name, "("); i >= 0 { // keep the receiver spelling the rules know
			if j := strings.Index(full, "("); j >= 0 {
				nf := renamedFull[best.Obj]
				renamedFull[best.Obj] = nf[:j] + normRecvOf(name[i:], nf[j:])
			}
		}
		best.Name = name
	}
	// a method whose receiver went from value to pointer (or back) keeps its name: same package, same type, same
	// method name
	toggle := func(name string) string {
		i := strings.Index(name, ".(")
		if i < 0 {
			return ""
		}
		if strings.HasPrefix(name[i+2:], "*") {
			return name[:i+2] + name[i+3:]
		}
		return name[:i+2] + "*" + name[i+2:]
	}
	for _, name := range missing {
		if alt := toggle(name); alt != "" {
			if fi := w.FuncBy[alt]; fi != nil && !taken[fi] {
				if _, known := snap[alt]; !known {
					rebind(name, fi)
				}
			}
		}
	}
	// two passes: same signature first; then, for anchors still missing, a changed signature is accepted when the
	// body is clearly the same one (what it calls and the constants it mentions agree almost entirely, and there are
	// enough of them for that to mean something)
	for pass := 0; pass < 2; pass++ {
		for _, name := range missing {
			if w.FuncBy[name] != nil {
				continue
			}
			old := snap[name]
			var best *FuncInfo
			bestScore, ties := 0.0, 0
			for _, fi := range fresh[pkgOfQualified(name)] {
				if taken[fi] {
					continue
				}
				fp := fingerprint(fi)
				fp.Sig, fp.Callees = strings.ReplaceAll(fp.Sig, "(*", "("), stripStars(fp.Callees)
				old.Sig, old.Callees = strings.ReplaceAll(old.Sig, "(*", "("), stripStars(old.Callees)
				if pass == 0 && fp.Sig != old.Sig {
					continue
				}
				if pass == 1 && len(old.Callees)+len(old.Consts) < 4 {
					continue
				}
				score := (jaccard(fp.Callees, old.Callees) + jaccard(fp.Consts, old.Consts)) / 2
				switch {
				case score > bestScore:
					best, bestScore, ties = fi, score, 0
				case score == bestScore:
					ties++
				}
			}
			if best == nil || bestScore < 0.6 || ties > 0 || (pass == 1 && bestScore < 0.85) {
				continue
			}
			taken[best] = true
			w.FuncBy[name] = best
			bare := name[strings.LastIndex(name, ".")+1:]
			renamedFuncs[best.Obj] = bare
			full := best.Obj.FullName()
			renamedFull[best.Obj] = full[:strings.LastIndex(full, ".")+1] + bare
			best.Name = name
		}
	}
}

// normRecvOf: the full name of a method (as go/types prints it from the "(" on) with the receiver spelled as in the
// name the rules know (pointer or value).
func normRecvOf(oldTail, fullTail string) string {
	oldPtr := strings.HasPrefix(oldTail, "(*")
	newPtr := strings.HasPrefix(fullTail, "(*")
	switch {
	case oldPtr == newPtr:
		return fullTail
	case oldPtr:
		return "(*" + fullTail[1:]
	default:
		return "(" + fullTail[2:]
	}
}

func stripStars(xs []string) []string {
	out := make([]string, len(xs))
	for i, x := range xs {
		out[i] = strings.ReplaceAll(x, "(*", "(")
	}
	return out
}

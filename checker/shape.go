package main

// Mention/declare agreement and recursion-shape agreement between a naming function (prints a
// reference to a type) and a defining function (emits the declarations a reference needs).

import (
	"go/ast"
	"go/token"
	"go/types"
	"sort"
	"strings"
)

// callSitesOf lists calls to any of the target functions inside fi, with rendered first node argument.
type namedCall struct {
	call  *ast.CallExpr
	arg   ast.Expr
	text  string
	conds []string
	exits map[string]*ast.IfStmt // condition text -> early exit it negates
	fn    *FuncInfo
}

func nodeArg(w *World, info *types.Info, call *ast.CallExpr) ast.Expr {
	for _, a := range call.Args {
		if t := info.TypeOf(a); t != nil && len(kindsOfStatic(w, t)) > 0 {
			return a
		}
	}
	return nil
}

func callsTo(w *World, fi *FuncInfo, targets map[*types.Func]bool) []namedCall {
	var out []namedCall
	info := fi.Pkg.TypesInfo
	ast.Inspect(fi.Decl.Body, func(x ast.Node) bool {
		call, ok := x.(*ast.CallExpr)
		if !ok {
			return true
		}
		fn := calleeOf(info, call)
		if fn == nil || !targets[fn] {
			return true
		}
		a := nodeArg(w, info, call)
		if a == nil {
			return true
		}
		var cs []string
		exits := map[string]*ast.IfStmt{}
		for _, c := range pathConds(fi.Decl, call) {
			if c.loop {
				continue
			}
			s := c.text
			if c.expr != nil {
				s = es(c.expr)
			}
			if !c.truth {
				s = "!(" + s + ")"
			}
			cs = append(cs, s)
			if c.exit != nil {
				exits[s] = c.exit
			}
		}
		sort.Strings(cs)
		out = append(out, namedCall{call: call, arg: a, text: es(a), conds: cs, exits: exits, fn: fi})
		return true
	})
	return out
}

func subset(a, b []string) bool {
	m := map[string]bool{}
	for _, x := range b {
		m[x] = true
	}
	for _, x := range a {
		if !m[x] {
			return false
		}
	}
	return true
}

// mentionDeclare: in every function of pkg rel (except the naming functions themselves), each call
// namer(x) with x a child expression must be matched by a call definer(x) in the same function whose
// path conditions are a subset of the mention's (declared at least whenever mentioned).
// Mentions of the function's own node parameter are skipped (a declaration names itself).
func mentionDeclare(w *World, r *Result, rule, rel string, namers []string, definer string, skipFns map[string]bool) int {
	nm := map[*types.Func]bool{}
	for _, q := range namers {
		nm[w.MustFunc(q).Obj] = true
	}
	df := map[*types.Func]bool{w.MustFunc(definer).Obj: true}
	n := 0
	for _, fi := range sortedFuncs(w) {
		if w.Rel(fi.Obj.Pkg()) != rel || nm[fi.Obj] || skipFns[fi.Name] {
			continue
		}
		mentions := callsTo(w, fi, nm)
		if len(mentions) == 0 {
			continue
		}
		defs := callsTo(w, fi, df)
		info := fi.Pkg.TypesInfo
		// own node parameters
		own := map[string]bool{}
		sig := fi.Obj.Type().(*types.Signature)
		for i := 0; i < sig.Params().Len(); i++ {
			if len(kindsOfStatic(w, sig.Params().At(i).Type())) > 0 {
				own[sig.Params().At(i).Name()] = true
			}
		}
		if sig.Recv() != nil && len(kindsOfStatic(w, sig.Recv().Type())) > 0 {
			own[sig.Recv().Name()] = true
		}
		seen := map[string]bool{}
		for _, m := range mentions {
			if own[m.text] {
				continue
			}
			// an alias of the own parameter narrowed by a type switch is still "self"
			if id := identOf(m.arg); id != nil {
				if v, ok := objOf(info, id).(*types.Var); ok && isSwitchBinderOfParam(fi, v, own) {
					continue
				}
			}
			key := m.text + "|" + strings.Join(m.conds, "&")
			if seen[key] {
				continue
			}
			seen[key] = true
			n++
			matched := false
			mv := assignedVar(info, fi.Decl, m.call)
			for _, d := range defs {
				if d.text != m.text {
					continue
				}
				okAll := true
				for _, dc := range d.conds {
					if containsStr(m.conds, dc) {
						continue
					}
					// the declaration is skipped only on an early exit that does not use the printed name
					if ex := d.exits[dc]; ex != nil && mv != nil && !usesObj(info, ex.Body, mv) {
						continue
					}
					okAll = false
				}
				if okAll {
					matched = true
				}
			}
			cons := "mention " + es(m.call.Fun) + "(" + m.text + ")"
			if matched {
				r.ok(rule, fi.Name, cons, w.Pos(m.call.Pos()), "the same function hands "+m.text+" to the defining function whenever it prints a reference to it", true)
			} else {
				r.bad(rule, fi.Name, cons, w.Pos(m.call.Pos()), "a reference to the type of "+m.text+" is printed here, but this function does not (on the same path) hand "+m.text+" to "+definer+": the name can be used without ever being declared")
			}
		}
	}
	return n
}

// assignedVar: the variable a call's result is assigned to (x := f(..) or x, y := f(..), g(..)).
func assignedVar(info *types.Info, fd *ast.FuncDecl, call *ast.CallExpr) types.Object {
	var res types.Object
	ast.Inspect(fd, func(x ast.Node) bool {
		as, ok := x.(*ast.AssignStmt)
		if !ok || len(as.Lhs) != len(as.Rhs) {
			return true
		}
		for i, rhs := range as.Rhs {
			if ast.Unparen(rhs) == ast.Expr(call) {
				if id := identOf(as.Lhs[i]); id != nil {
					res = objOf(info, id)
				}
			}
		}
		return true
	})
	return res
}

func isSwitchBinderOfParam(fi *FuncInfo, v *types.Var, own map[string]bool) bool {
	res := false
	ast.Inspect(fi.Decl.Body, func(x ast.Node) bool {
		ts, ok := x.(*ast.TypeSwitchStmt)
		if !ok {
			return true
		}
		if as, ok := ts.Assign.(*ast.AssignStmt); ok {
			if own[es(as.Rhs[0].(*ast.TypeAssertExpr).X)] {
				for _, cl := range ts.Body.List {
					if obj := fi.Pkg.TypesInfo.Implicits[cl]; obj == types.Object(v) {
						res = true
					}
				}
			}
		}
		return true
	})
	return res
}

// kindChildren: for a function with a type switch on its node parameter, per node kind the set of
// child paths (relative to the narrowed node, "$") passed to a call of one of the targets, following
// same-package helper calls that receive the narrowed node. Only calls that happen on every path
// (no condition other than loop iteration and field filters) are recorded as unconditional.
type childUse struct {
	path   string
	uncond bool
	pos    string
}

var kindChildrenBusy = map[*FuncInfo]bool{}

func kindChildren(w *World, root *FuncInfo, targets map[*types.Func]bool) map[string][]childUse {
	out := map[string][]childUse{}
	info := root.Pkg.TypesInfo
	var ts *ast.TypeSwitchStmt
	ast.Inspect(root.Decl.Body, func(x ast.Node) bool {
		s, ok := x.(*ast.TypeSwitchStmt)
		if !ok || (ts != nil && len(s.Body.List) <= len(ts.Body.List)) {
			return true
		}
		var sx ast.Expr
		switch a := s.Assign.(type) {
		case *ast.AssignStmt:
			sx = a.Rhs[0].(*ast.TypeAssertExpr).X
		case *ast.ExprStmt:
			sx = a.X.(*ast.TypeAssertExpr).X
		}
		if t := info.TypeOf(sx); t != nil && len(kindsOfStatic(w, t)) > 1 && identOf(sx) != nil {
			// on a parameter
			if v, ok := info.Uses[identOf(sx)].(*types.Var); ok {
				sig := root.Obj.Type().(*types.Signature)
				for i := 0; i < sig.Params().Len(); i++ {
					if sig.Params().At(i) == v {
						ts = s
					}
				}
			}
		}
		return true
	})
	if ts == nil {
		// the dispatch over the node kinds may sit in a helper the function hands its node parameter to
		// (generate -> declare): read it there
		var vias []*FuncInfo
		sig := root.Obj.Type().(*types.Signature)
		ast.Inspect(root.Decl.Body, func(x ast.Node) bool {
			call, ok := x.(*ast.CallExpr)
			if !ok {
				return true
			}
			h := w.Funcs[calleeOf(info, call)]
			if h == nil || h == root || h.Pkg != root.Pkg || h.Decl.Body == nil {
				return true
			}
			for _, a := range call.Args {
				id := identOf(a)
				if id == nil {
					continue
				}
				v, ok := info.Uses[id].(*types.Var)
				if !ok || len(kindsOfStatic(w, v.Type())) <= 1 {
					continue
				}
				for i := 0; i < sig.Params().Len(); i++ {
					if sig.Params().At(i) == v {
						vias = append(vias, h)
					}
				}
			}
			return true
		})
		for _, via := range vias {
			if kindChildrenBusy[via] {
				continue
			}
			kindChildrenBusy[via] = true
			for k, us := range kindChildren(w, via, targets) {
				out[k] = append(out[k], us...)
			}
			delete(kindChildrenBusy, via)
		}
		return out
	}
	for _, cl := range ts.Body.List {
		cc := cl.(*ast.CaseClause)
		var kinds []string
		for _, te := range cc.List {
			if p, ok := info.TypeOf(te).(*types.Pointer); ok {
				if nn, ok := p.Elem().(*types.Named); ok {
					kinds = append(kinds, nn.Obj().Name())
				}
			}
		}
		if len(kinds) == 0 {
			continue
		}
		binder := info.Implicits[cc]
		roots := map[types.Object]string{}
		if binder != nil {
			roots[binder] = "$"
		}
		uses := collectChildUses(w, root, &ast.BlockStmt{List: cc.Body}, roots, targets, 0, map[*types.Func]bool{})
		for _, k := range kinds {
			out[k] = append(out[k], uses...)
		}
	}
	return out
}

func nodeRange(n ast.Node) (token.Pos, token.Pos) {
	if b, ok := n.(*ast.BlockStmt); ok && !b.Lbrace.IsValid() && len(b.List) > 0 {
		return b.List[0].Pos(), b.List[len(b.List)-1].End()
	}
	return n.Pos(), n.End()
}

func collectChildUses(w *World, fi *FuncInfo, body ast.Node, roots map[types.Object]string, targets map[*types.Func]bool, depth int, visiting map[*types.Func]bool) []childUse {
	info := fi.Pkg.TypesInfo
	var out []childUse
	bodyPos, bodyEnd := nodeRange(body)
	// range variables over children of roots
	changed := true
	for changed {
		changed = false
		ast.Inspect(body, func(x ast.Node) bool {
			switch s := x.(type) {
			case *ast.RangeStmt:
				if p := slotPath(info, s.X, roots); p != "" {
					if id := identOf(s.Value); id != nil && id.Name != "_" && roots[info.Defs[id]] == "" {
						roots[info.Defs[id]] = p + "[*]"
						changed = true
					}
				}
			case *ast.AssignStmt:
				if len(s.Lhs) == len(s.Rhs) {
					for i, rhs := range s.Rhs {
						if ta, ok := ast.Unparen(rhs).(*ast.TypeAssertExpr); ok {
							rhs = ta.X
						}
						if p := slotPath(info, rhs, roots); p != "" {
							if id := identOf(s.Lhs[i]); id != nil && id.Name != "_" {
								o := objOf(info, id)
								if roots[o] == "" {
									roots[o] = p
									changed = true
								}
							}
						}
					}
				} else if len(s.Rhs) == 1 && len(s.Lhs) == 2 {
					if ta, ok := ast.Unparen(s.Rhs[0]).(*ast.TypeAssertExpr); ok {
						if p := slotPath(info, ta.X, roots); p != "" {
							if id := identOf(s.Lhs[0]); id != nil && id.Name != "_" {
								o := objOf(info, id)
								if roots[o] == "" {
									roots[o] = p
									changed = true
								}
							}
						}
					}
				}
			}
			return true
		})
	}
	ast.Inspect(body, func(x ast.Node) bool {
		call, ok := x.(*ast.CallExpr)
		if !ok {
			return true
		}
		fn := calleeOf(info, call)
		if fn == nil {
			return true
		}
		if targets[fn] {
			if a := nodeArg(w, info, call); a != nil {
				if p := slotPath(info, a, roots); p != "" && p != "$" {
					uncond := true
					if fd := fi.Decl; fd != nil {
						for _, c := range pathConds(fd, call) {
							if c.loop {
								continue
							}
							if c.text != "" {
								// a case clause inside the examined body is a condition, unless its switch refines
								// the kind of the node itself
								if c.clause != nil && c.clause.Pos() >= bodyPos && c.clause.End() <= bodyEnd {
									if ts, ok := c.sw.(*ast.TypeSwitchStmt); ok {
										var subj ast.Expr
										switch a := ts.Assign.(type) {
										case *ast.AssignStmt:
											if ta, ok := a.Rhs[0].(*ast.TypeAssertExpr); ok {
												subj = ta.X
											}
										case *ast.ExprStmt:
											if ta, ok := a.X.(*ast.TypeAssertExpr); ok {
												subj = ta.X
											}
										}
										if subj != nil && slotPath(info, subj, roots) != "$" {
											uncond = false
										}
									} else {
										uncond = false
									}
								}
								continue
							}
							s := es(c.expr)
							if strings.Contains(s, "Exported()") || strings.Contains(s, "IsOpaqueFor") || strings.Contains(s, "gomacro") {
								continue
							}
							// conditions inside the part of the body we are looking at only
							if c.expr.Pos() < bodyPos || c.expr.End() > bodyEnd {
								continue
							}
							uncond = false
						}
					}
					out = append(out, childUse{path: p, uncond: uncond, pos: w.Pos(call.Pos())})
				}
			}
			return true
		}
		// helper of the same package receiving a rooted node
		hf := w.Funcs[fn]
		if hf == nil || hf.Pkg != fi.Pkg || depth >= 3 || visiting[fn] {
			return true
		}
		sig := fn.Type().(*types.Signature)
		nroots := map[types.Object]string{}
		for i, a := range call.Args {
			if i >= sig.Params().Len() {
				break
			}
			if p := slotPath(info, a, roots); p != "" && len(kindsOfStatic(w, sig.Params().At(i).Type())) > 0 {
				// parameter object in the callee's declaration
				idx := 0
				for _, f := range hf.Decl.Type.Params.List {
					for _, nm := range f.Names {
						if idx == i {
							nroots[hf.Pkg.TypesInfo.Defs[nm]] = p
						}
						idx++
					}
				}
			}
		}
		if len(nroots) == 0 {
			return true
		}
		// conditions on the call to the helper itself
		helperUncond := true
		for _, c := range pathConds(fi.Decl, call) {
			if c.loop || c.text != "" || c.expr.Pos() < bodyPos || c.expr.End() > bodyEnd {
				continue
			}
			helperUncond = false
		}
		visiting[fn] = true
		sub := collectChildUses(w, hf, hf.Decl.Body, nroots, targets, depth+1, visiting)
		delete(visiting, fn)
		for _, u := range sub {
			u.uncond = u.uncond && helperUncond
			out = append(out, u)
		}
		return true
	})
	return out
}

// recursionShape: namer ⊑ definer, per node kind.
func recursionShape(w *World, r *Result, rule, namer, definer string) int {
	nf, df := w.MustFunc(namer), w.MustFunc(definer)
	// the descent may sit in a helper the function hands its node parameter to (`f(ty) = fRec(ty, seen)`): the helper's
	// own recursive calls are descents too
	targetsOf := func(fi *FuncInfo) map[*types.Func]bool {
		t := map[*types.Func]bool{fi.Obj: true}
		for _, h := range nodeParamHelpers(w, fi) {
			t[h.Obj] = true
		}
		return t
	}
	total := func(m map[string][]childUse) int {
		c := 0
		for _, v := range m {
			c += len(v)
		}
		return c
	}
	nUses := kindChildren(w, nf, targetsOf(nf))
	if total(nUses) == 0 {
		Undecided("%s: %s follows no child of any node kind: the namer's descent was not found", rule, namer)
	}
	dUses := kindChildren(w, df, targetsOf(df))
	var kinds []string
	for k := range nUses {
		kinds = append(kinds, k)
	}
	sort.Strings(kinds)
	n := 0
	for _, k := range kinds {
		seen := map[string]bool{}
		for _, u := range nUses[k] {
			if seen[u.path] {
				continue
			}
			seen[u.path] = true
			n++
			cons := "*" + k + ": " + namer[strings.LastIndex(namer, ".")+1:] + " follows " + u.path
			covered, condOnly := false, false
			for _, d := range dUses[k] {
				if d.path == u.path {
					if d.uncond {
						covered = true
					} else {
						condOnly = true
					}
				}
			}
			switch {
			case covered:
				r.ok(rule, df.Name, cons, u.pos, "the defining function descends into the same child on every path", true)
			case condOnly:
				r.bad(rule, df.Name, cons, u.pos, "the naming function mentions the type of "+u.path+", but the defining function descends into it only under a condition: for some inputs the mentioned name is never declared")
			default:
				r.bad(rule, df.Name, cons, u.pos, "the naming function mentions the type of "+u.path+", but the defining function never descends into it: a type reachable only there is mentioned and not declared")
			}
		}
	}
	return n
}

// nodeParamHelpers lists the functions of root's package that root hands one of its node-typed parameters to: the
// dispatch over the node kinds may have been moved there (generate -> declare).
func nodeParamHelpers(w *World, root *FuncInfo) []*FuncInfo {
	var out []*FuncInfo
	if root == nil || root.Decl.Body == nil {
		return nil
	}
	info := root.Pkg.TypesInfo
	sig := root.Obj.Type().(*types.Signature)
	seen := map[*FuncInfo]bool{}
	ast.Inspect(root.Decl.Body, func(x ast.Node) bool {
		call, ok := x.(*ast.CallExpr)
		if !ok {
			return true
		}
		h := w.Funcs[calleeOf(info, call)]
		if h == nil || h == root || h.Pkg != root.Pkg || h.Decl.Body == nil || seen[h] {
			return true
		}
		for _, a := range call.Args {
			id := identOf(a)
			if id == nil {
				continue
			}
			v, ok := info.Uses[id].(*types.Var)
			if !ok || len(kindsOfStatic(w, v.Type())) <= 1 {
				continue
			}
			for i := 0; i < sig.Params().Len(); i++ {
				if sig.Params().At(i) == v && !seen[h] {
					seen[h] = true
					out = append(out, h)
				}
			}
		}
		return true
	})
	return out
}

// descentDominatesReturns (REC-DOM): in the functions that declare a named type, the recursion into the underlying
// type (the call of the generator on <param>.Underlying) comes, on every path, before the return: a return that is
// reached without it drops the declarations of the underlying type (the JSON routines of a basic type, the
// declaration a renamed `Time` relies on), and the names the output mentions are never declared. Obligations: every
// return of every function named codeForNamed that contains such a recursion on the current tree.
func descentDominatesReturns(w *World, r *Result, rel string) int {
	n := 0
	for _, fi := range sortedFuncs(w) {
		if w.Rel(fi.Obj.Pkg()) != rel || fi.Obj.Name() != "codeForNamed" || fi.Decl.Body == nil {
			continue
		}
		info := fi.Pkg.TypesInfo
		var descents []*ast.CallExpr
		ast.Inspect(fi.Decl.Body, func(x ast.Node) bool {
			call, ok := x.(*ast.CallExpr)
			if !ok || len(call.Args) < 1 {
				return true
			}
			fn := calleeOf(info, call)
			if fn == nil || w.Funcs[fn] == nil || w.Funcs[fn].Pkg != fi.Pkg {
				return true
			}
			// the generator, not the namer: the callee leads back to this function (generate -> codeForNamed)
			back := false
			for _, cf := range calleeClosure(w, w.Funcs[fn], 2) {
				if cf == fi {
					back = true
				}
			}
			if !back {
				return true
			}
			if sel, ok := ast.Unparen(call.Args[0]).(*ast.SelectorExpr); ok && sel.Sel.Name == "Underlying" {
				if id := identOf(sel.X); id != nil && paramIndex(fi, objOf(info, id)) >= 0 {
					descents = append(descents, call)
				}
			}
			return true
		})
		if len(descents) == 0 {
			continue
		}
		conds := func(x ast.Node) map[string]bool {
			m := map[string]bool{}
			for _, c := range condSetN(info, pathCondsNoLoop(fi, x), nil) {
				m[c] = true
			}
			return m
		}
		ast.Inspect(fi.Decl.Body, func(x ast.Node) bool {
			if _, isLit := x.(*ast.FuncLit); isLit {
				return false
			}
			ret, ok := x.(*ast.ReturnStmt)
			if !ok {
				return true
			}
			// a return that yields only the type's own declaration, built without looking at the underlying type (the
			// branded `number` of a named integer), mentions nothing the recursion would declare
			if len(ret.Results) >= 1 {
				inl := inlineLocals(info, fi.Decl)
				txt := render(info, ret.Results[0], inl)
				if _, isLit := ast.Unparen(ret.Results[0]).(*ast.CompositeLit); isLit && !strings.Contains(txt, "Underlying") {
					return true
				}
			}
			n++
			rc := conds(ret)
			dominated := false
			for _, d := range descents {
				if d.Pos() > ret.Pos() {
					continue
				}
				sub := true
				for c := range conds(d) {
					if !rc[c] {
						sub = false
					}
				}
				if sub {
					dominated = true
				}
			}
			cons := "return at " + w.Pos(ret.Pos())
			r.cond(dominated, "REC-DOM", fi.Name, cons, w.Pos(ret.Pos()),
				"the recursion into the underlying type precedes this return on its path",
				"this return is reached without the recursion into "+es(descents[0].Args[0])+": the declarations of the underlying type (and what it needs) are dropped for the inputs that take this path, while the generated text still mentions them")
			return true
		})
	}
	return n
}

package main

import (
	"flag"
	"fmt"
	"os"
	"runtime/debug"
	"sort"
	"strconv"
	"strings"
	"time"
)

type checkFn func(w *World, r *Result)

type propDef struct {
	level string
	run   checkFn
}

var registry = map[string]propDef{}

func register(id, level string, fn checkFn) { registry[id] = propDef{level, fn} }

func main() {
	if len(os.Args) < 2 {
		fmt.Fprintln(os.Stderr, "usage: gmverif check -prop Cnn [-tier quick|thorough] [-repo /repo] [-verif /verif] | gmverif explain <replay.json> | gmverif list")
		os.Exit(2)
	}
	switch os.Args[1] {
	case "explain":
		if len(os.Args) < 3 {
			os.Exit(2)
		}
		os.Exit(explain(os.Args[2]))
	case "list":
		var ids []string
		for k := range registry {
			ids = append(ids, k)
		}
		sort.Strings(ids)
		fmt.Println(strings.Join(ids, " "))
		return
	case "anchors":
		// gmverif anchors [repo]: prints the fingerprints of the functions of the production packages
		repo := "/repo"
		if len(os.Args) > 2 {
			repo = os.Args[2]
		}
		os.Stdout.Write(dumpAnchors(Load(repo, "quick")))
		return
	case "check":
	default:
		fmt.Fprintln(os.Stderr, "unknown command", os.Args[1])
		os.Exit(2)
	}
	fs := flag.NewFlagSet("check", flag.ExitOnError)
	prop := fs.String("prop", "", "property id (Cnn), comma list, or all")
	tier := fs.String("tier", "quick", "quick|thorough")
	repo := fs.String("repo", "/repo", "repository root")
	verif := fs.String("verif", "/verif", "verif dir (evidence, known findings)")
	fs.Parse(os.Args[2:])
	if t := os.Getenv("VERIF_TIER"); t != "" && *tier == "" {
		*tier = t
	}
	seed := 0
	if s := os.Getenv("VERIF_SEED"); s != "" {
		seed, _ = strconv.Atoi(s)
	}
	var ids []string
	if *prop == "all" {
		for k := range registry {
			ids = append(ids, k)
		}
		sort.Strings(ids)
	} else {
		ids = strings.Split(*prop, ",")
	}
	for _, id := range ids {
		if _, ok := registry[id]; !ok {
			fmt.Fprintf(os.Stderr, "no check registered for %q\n", id)
			os.Exit(2)
		}
	}
	cmdline := "gmverif " + strings.Join(os.Args[1:], " ")

	start := time.Now()
	var w *World
	code := 0
	func() {
		defer func() {
			if e := recover(); e != nil {
				reason := fmt.Sprint(e)
				if _, ok := e.(undecided); !ok {
					reason = fmt.Sprintf("checker panic: %v\n%s", e, debug.Stack())
				}
				for _, id := range ids {
					fmt.Printf("UNDECIDED property=%s reason=%s\n", id, reason)
					writeUndecidedEvidence(id, *verif, *tier, seed, time.Since(start).Seconds(), reason, registry[id].level)
				}
				code = 2
			}
		}()
		w = Load(*repo, *tier)
	}()
	if code != 0 {
		os.Exit(code)
	}
	loadS := time.Since(start).Seconds()
	for _, id := range ids {
		t0 := time.Now()
		r := &Result{Prop: id, Level: registry[id].level}
		c := func() (c int) {
			defer func() {
				if e := recover(); e != nil {
					reason := fmt.Sprint(e)
					if _, ok := e.(undecided); !ok {
						reason = fmt.Sprintf("checker panic: %v\n%s", e, debug.Stack())
					}
					// violations found before the analysis had to stop are a verdict: report them (exit 1); only when
					// there is none (or all are listed findings) is the run undecided
					if _, isUndecided := e.(undecided); isUndecided {
						hasBad := false
						for _, o := range r.Obs {
							if o.Verdict == VViolation {
								hasBad = true
							}
						}
						if hasBad {
							r.warn("analysis stopped early: %s", reason)
							if fc := finish(r, w, *verif, *tier, seed, time.Since(t0).Seconds()+loadS, cmdline); fc == 1 {
								c = 1
								return
							}
						}
					}
					fmt.Printf("UNDECIDED property=%s reason=%s\n", id, reason)
					writeUndecidedEvidence(id, *verif, *tier, seed, time.Since(t0).Seconds()+loadS, reason, registry[id].level)
					c = 2
				}
			}()
			registry[id].run(w, r)
			if len(r.Obs) == 0 {
				Undecided("no obligation was generated for %s (vacuous run)", id)
			}
			return finish(r, w, *verif, *tier, seed, time.Since(t0).Seconds()+loadS, cmdline)
		}()
		if c > code {
			code = c
		}
	}
	os.Exit(code)
}

package main

// C06: Dart JSON routines and cross-file linking.

import (
	"go/ast"
	"go/token"
	"go/types"
	"regexp"
	"strings"
)

func init() { register("C06", "other", checkC06) }

func checkC06(w *World, r *Result) {
	r.Explanation = "Decides structural necessary conditions on generator/dart: CONS both struct loops (class declaration and JSON routines) are json consumers; AGR-C06a the two loops have the same leading filter and derive the Dart field identifier the same way, so constructor parameters and fromJson arguments align; AGR-C02b union dispatch uses the members' local Go names on both the decoding and the encoding side; REC-SHAPE/EXH-b typeName and jsonID never follow a child buffer.generate skips and accept the same kinds; AGR-C06p every jsonFor* helper is only called from the code* function of the same node; FLW-C06b the file name returned by every buffer.generate(child) call inside a code* function flows into the imports that function returns, and the import emission skips exactly the file itself; AGR-C06c buffer.generate returns, on every path, the file computed for the node itself (Linker.GetOutput of its own type, the parent's only for anonymous maps and arrays), and Linker.GetOutput/OutputFiles read the same table; AGR-C10b/PTH-C10a/AGR-C10s the iota flag that licenses the positional conversion is decided on exactly the exported constants, after the integer, non-negative, gap and duplicate tests and the sort by value (rules shared with C10); AGR-C06i enum tables list exactly the exported constants and `implements` lists exactly the exported unions of Implements; AGR-C06e the index-based enum mapping is used exactly when IsIota; DECL-ID declaration IDs cover what their content reads; GEN-ID every name derived from a go/types Named also covers its type arguments, so two instantiations of one generic type are two classes; TPL-4 bracket balance of the constant templates; AGR-C06q buffer.generate leaves before the emission only under the named-type memo (or a per-file memo), so the list/dict helpers of an anonymous container are written into every file that reaches it. Does not decide: Dart syntax beyond balance, identity of member<->value conversion as a value-level fact."
	r.Rules = []string{"CONS", "FLW-C09a", "AGR-C09b", "AGR-C06a", "AGR-C02b", "REC-SHAPE", "EXH-b", "AGR-C06p", "FLW-C06b", "AGR-C06j", "AGR-C06c", "AGR-C06r", "AGR-C10b", "PTH-C10a", "AGR-C10s", "SORT-PAR", "AGR-C06i", "AGR-C11i", "AGR-C06e", "DECL-ID", "GEN-ID", "CONST-EXACT", "UTF8-SLICE", "TPL-4", "ALIAS-APPEND", "PRINTF", "CACHE-DROP", "MUT-AN", "AGR-C09c", "POS-ORDER", "AGR-C06q", "BYTES-KIND"}
	bytesKindRule(w, r, "generator/dart", "generator/dart.typeName")
	checkDartNoForeignSkip(w, r)
	posOrderRule(w, r, func(rel string) bool { return rel == "analysis" || rel == "generator/dart" })
	mutAnRule(w, r, func(rel string) bool { return rel == "generator/dart" })
	// which embedded fields are flattened decides the keys this generator reads and writes (rule shared with C09)
	shared(r, nil, func(sub *Result) { checkFlatten(w, sub) })
	cacheDropRule(w, r, func(rel string) bool { return rel == "generator/dart" })
	printfRule(w, r, "generator/dart")
	aliasAppendRule(w, r, func(rel string) bool { return rel == "analysis" || rel == "generator/dart" || rel == "generator" })
	sub := &Result{}
	checkJSONConsumers(w, sub, "CONS")
	for _, o := range sub.Obs {
		if strings.HasPrefix(o.Func, "generator/dart") {
			r.add(o)
		}
	}
	// the key set itself (rules shared with C09)
	checkJSONName(w, r)
	checkExported(w, r)
	checkDartLoopAgreement(w, r)
	kindProvenance(w, r, "AGR-C02b", "generator/dart.jsonForUnion", 2)
	recursionShape(w, r, "REC-SHAPE", "generator/dart.typeName", "generator/dart.(buffer).generate")
	recursionShape(w, r, "REC-SHAPE", "generator/dart.jsonID", "generator/dart.(buffer).generate")
	siblingAgreement(w, r, "EXH-b", []string{"generator/dart.(buffer).generate", "generator/dart.typeName", "generator/dart.jsonID"})
	checkDartHelperPairs(w, r)
	checkDartImports(w, r)
	checkDartHelperFile(w, r)
	checkDartFileAssignment(w, r)
	checkLinkerRootTest(w, r)
	subE := &Result{}
	checkEnumConsumers(w, subE)
	for _, o := range subE.Obs {
		if strings.HasPrefix(o.Func, "generator/dart") {
			r.add(o)
		}
	}
	// the positional enum conversion is only sound under the IsIota precondition (rules shared with C10)
	shared(r, nil, func(sub *Result) { checkSetIsIota(w, sub) })
	checkDartEnumAndImplements(w, r)
	// `implements` lists what Struct.Implements holds: that table is filled for every struct of the memo (rule shared with C11)
	checkImplements(w, r)
	declIDRule(w, r, "generator/dart")
	utf8SliceRule(w, r, func(rel string) bool { return rel == "generator/dart" || rel == "generator" })
	if _, n := constExactRule(w, r, func(rel string) bool { return rel == "generator/dart" || rel == "generator" }); n < 1 {
		Undecided("CONST-EXACT: fewer enum value renderings than confirmed by hand")
	}
	// the assembly keeps one declaration per ID (rule shared with C19): two declarations of one ID written twice are a
	// redeclaration in the generated file
	{
		sub := &Result{Prop: "C19"}
		checkC19(w, sub)
		for _, o := range sub.Obs {
			if o.Rule == "PTH-C19a" {
				r.add(o)
			}
		}
	}
	descentDominatesReturns(w, r, "generator/dart")
	genIDAccumulation(w, r)
	if genIDRule(w, r, "generator/dart") < 3 {
		Undecided("GEN-ID: fewer naming sites than confirmed by hand in generator/dart")
	}
	runTPLBalance(w, r, "generator/dart", 2)
	tplBalanceFor(w, r, allTemplateFuncs(w, "generator/dart"))
}

func checkDartLoopAgreement(w *World, r *Result) {
	var loops []*fieldLoop
	for _, l := range fieldLoops(w) {
		if l.kind == "StructField" && (l.fn.Name == "generator/dart.(buffer).codeForStruct" || l.fn.Name == "generator/dart.jsonForStruct") {
			loops = append(loops, l)
		}
	}
	if len(loops) < 2 {
		Undecided("dart: expected at least two struct-field loops (class declaration, JSON routines), found %d", len(loops))
	}
	// every loop over the fields (there may be one per list) keeps the same fields
	g0, _ := loopFilterSplit(loops[0].pkg.TypesInfo, loops[0].fn.Decl, loops[0].rs, loops[0].subst)
	for _, l := range loops[1:] {
		g1, _ := loopFilterSplit(l.pkg.TypesInfo, l.fn.Decl, l.rs, l.subst)
		r.cond(setEq(g0, g1), "AGR-C06a", l.fn.Name, "same field filter in the class and in the JSON routines", w.Pos(l.rs.Pos()), "both loops keep a field exactly under {"+strings.Join(g0, ", ")+"}", "the class declaration keeps a field under {"+strings.Join(g0, ", ")+"} but the JSON routines under {"+strings.Join(g1, ", ")+"}: positional constructor arguments and fromJson arguments no longer align")
	}
	idByFn := map[*FuncInfo]bool{}
	// appends: every append in the loops is reached for every kept field (either unconditional or in both arms of the opaque test)
	for _, l := range loops {
		info := l.pkg.TypesInfo
		perTarget := map[string]int{}
		condTargets := map[string]int{}
		_, accs := loopFilterSplit(info, l.fn.Decl, l.rs, l.subst)
		for _, a := range accs {
			if len(a.own) == 0 {
				perTarget[a.target]++
			} else {
				condTargets[a.target]++
			}
		}
		good := true
		var detail []string
		for t, n := range perTarget {
			if n != 1 {
				good = false
				detail = append(detail, t)
			}
		}
		for t, n := range condTargets {
			// conditional appends must come in if/else pairs (2 arms) — except import lists
			if strings.Contains(strings.ToLower(t), "import") {
				continue
			}
			if n != 2 {
				good = false
				detail = append(detail, t)
			}
		}
		r.cond(good, "AGR-C06a", l.fn.Name, "one entry per kept field in every per-field list", w.Pos(l.rs.Pos()), "each list grows exactly once per kept field (unconditionally, or once in each arm of the opaque test)", "lists "+strings.Join(detail, ",")+" do not grow exactly once per kept field: fields and constructor/JSON arguments go out of step")
		// dart field id = lowerFirst(f.JSONName())
		idOK := false
		ast.Inspect(l.rs.Body, func(x ast.Node) bool {
			if as, ok := x.(*ast.AssignStmt); ok && len(as.Rhs) == 1 {
				if s := render(info, as.Rhs[0], l.subst); s == "lowerFirst($f.JSONName())" {
					idOK = true
				}
				if call, ok := as.Rhs[0].(*ast.CallExpr); ok && strings.HasSuffix(fullName(calleeOf(info, call)), "dart.lowerFirst") && len(call.Args) == 1 {
					if id := identOf(call.Args[0]); id != nil {
						for _, d := range defsIn(info, l.fn.Decl, objOf(info, id)) {
							if render(info, d, l.subst) == "$f.JSONName()" {
								idOK = true
							}
						}
					}
				}
			}
			return true
		})
		if idOK {
			idByFn[l.fn] = true
		}
	}
	// per function (its field loops taken together: one may build only positional lists)
	seenFn := map[*FuncInfo]bool{}
	for _, l := range loops {
		if seenFn[l.fn] {
			continue
		}
		seenFn[l.fn] = true
		r.cond(idByFn[l.fn], "AGR-C06a", l.fn.Name, "Dart field identifier = lowerFirst(JSONName)", w.Pos(l.rs.Pos()), "same derivation in the class and in the JSON routines", "the Dart field identifier is not lowerFirst(f.JSONName()) here: the routines refer to fields the class does not have")
	}
}

func checkDartHelperPairs(w *World, r *Result) {
	pairs := map[string]string{"jsonForStruct": "codeForStruct", "jsonForUnion": "codeForUnion", "jsonForArray": "codeForArray", "jsonForMap": "codeForMap", "jsonForNamed": "codeForNamed", "jsonForEnum": "codeForEnum", "jsonForBasic": "codeForBasic"}
	for _, fi := range sortedFuncs(w) {
		if w.Rel(fi.Obj.Pkg()) != "generator/dart" {
			continue
		}
		info := fi.Pkg.TypesInfo
		ast.Inspect(fi.Decl.Body, func(x ast.Node) bool {
			call, ok := x.(*ast.CallExpr)
			if !ok {
				return true
			}
			fn := calleeOf(info, call)
			if fn == nil {
				return true
			}
			want, ok := pairs[fn.Name()]
			if !ok || w.Rel(fn.Pkg()) != "generator/dart" {
				return true
			}
			good := fi.Obj.Name() == want
			if good && len(call.Args) == 1 {
				// same node: the caller's own node parameter
				own := false
				sig := fi.Obj.Type().(*types.Signature)
				for i := 0; i < sig.Params().Len(); i++ {
					if id := identOf(call.Args[0]); id != nil && info.Uses[id] == types.Object(sig.Params().At(i)) {
						own = true
					}
				}
				good = own
			}
			r.cond(good, "AGR-C06p", fi.Name, "call "+fn.Name()+"("+argsStr(call)+")", w.Pos(call.Pos()), "the JSON routines of a node are emitted by the code* function of that same node (which also generates its children)", "the JSON helper "+fn.Name()+" is called from "+fi.Obj.Name()+" (expected "+want+" with its own node): routines are emitted without the declarations they use")
			return true
		})
	}
}

func argsStr(call *ast.CallExpr) string {
	var a []string
	for _, x := range call.Args {
		a = append(a, es(x))
	}
	return strings.Join(a, ", ")
}

// checkDartImports (FLW-C06b)
func checkDartImports(w *World, r *Result) {
	gen := w.MustFunc("generator/dart.(buffer).generate")
	n := 0
	for _, fi := range sortedFuncs(w) {
		if w.Rel(fi.Obj.Pkg()) != "generator/dart" || fi == gen || !strings.HasPrefix(fi.Obj.Name(), "codeFor") {
			continue
		}
		info := fi.Pkg.TypesInfo
		// returned identifiers
		returned := map[types.Object]bool{}
		ast.Inspect(fi.Decl.Body, func(x ast.Node) bool {
			if ret, ok := x.(*ast.ReturnStmt); ok {
				for _, res := range ret.Results {
					if id := identOf(res); id != nil {
						returned[objOf(info, id)] = true
					}
					// a slice literal listing the files: `return decl, []string{importKey, importElem}`
					if lit, ok := ast.Unparen(res).(*ast.CompositeLit); ok {
						for _, el := range lit.Elts {
							if id := identOf(el); id != nil {
								returned[objOf(info, id)] = true
							}
						}
					}
				}
			}
			return true
		})
		ast.Inspect(fi.Decl.Body, func(x ast.Node) bool {
			call, ok := x.(*ast.CallExpr)
			if !ok || calleeOf(info, call) != gen.Obj {
				return true
			}
			n++
			// the call must be the RHS of an assignment to a variable that is returned, or appended to a returned slice
			flows := false
			overwritten := ""
			var holder types.Object
			ast.Inspect(fi.Decl.Body, func(y ast.Node) bool {
				if as, ok := y.(*ast.AssignStmt); ok {
					for i, rhs := range as.Rhs {
						if ast.Unparen(rhs) == ast.Expr(call) && i < len(as.Lhs) {
							if id := identOf(as.Lhs[i]); id != nil && id.Name != "_" {
								holder = objOf(info, id)
							}
						}
					}
				}
				return true
			})
			if holder != nil && returned[holder] {
				flows = true
				// ... and nothing else is ever stored into the holder: an overwrite on some path drops the file
				ast.Inspect(fi.Decl.Body, func(y ast.Node) bool {
					as, ok := y.(*ast.AssignStmt)
					if !ok {
						return true
					}
					for i, l := range as.Lhs {
						id := identOf(l)
						if id == nil || objOf(info, id) != holder {
							continue
						}
						var rhs ast.Expr
						if len(as.Rhs) == len(as.Lhs) {
							rhs = ast.Unparen(as.Rhs[i])
						} else if len(as.Rhs) == 1 {
							rhs = ast.Unparen(as.Rhs[0])
						}
						if c2, ok := rhs.(*ast.CallExpr); ok && calleeOf(info, c2) == gen.Obj {
							continue
						}
						overwritten = w.Pos(as.Pos()) + ": " + es(l) + " = " + es(rhs)
					}
					return true
				})
			}
			// appended to (or stored at the loop index of a pre-sized) returned slice, directly or through the holder
			ast.Inspect(fi.Decl.Body, func(y ast.Node) bool {
				rs, ok := y.(*ast.RangeStmt)
				if !ok {
					return true
				}
				for _, a := range accumStmts(info, fi.Decl, rs) {
					var tgt types.Object
					switch l := a.stmt.Lhs[0].(type) {
					case *ast.IndexExpr:
						if id := identOf(l.X); id != nil {
							tgt = objOf(info, id)
						}
					default:
						if id := identOf(l); id != nil {
							tgt = objOf(info, id)
						}
					}
					if tgt == nil || !returned[tgt] {
						continue
					}
					for _, arg := range a.values {
						if aid := identOf(arg); aid != nil && holder != nil && objOf(info, aid) == holder {
							flows = true
						}
						if ast.Unparen(arg) == ast.Expr(call) {
							flows = true
						}
					}
				}
				return true
			})
			for _, a := range appendStmts(info, fi.Decl.Body, "") {
				if id := identOf(a.Lhs[0]); id != nil && returned[objOf(info, id)] {
					for _, arg := range a.Rhs[0].(*ast.CallExpr).Args[1:] {
						if aid := identOf(arg); aid != nil && holder != nil && objOf(info, aid) == holder {
							flows = true
						}
						if ast.Unparen(arg) == ast.Expr(call) {
							flows = true
						}
					}
				}
			}
			if overwritten != "" {
				r.bad("FLW-C06b", fi.Name, "file of "+argsStr(call)+" is not overwritten before it is returned", w.Pos(call.Pos()), "the variable holding the file in which the child was emitted is assigned another value on some path ("+overwritten+"): on that path the import is lost while the generated code still calls the child's class or JSON helpers")
			}
			r.cond(flows, "FLW-C06b", fi.Name, "file of "+argsStr(call)+" reaches the returned imports", w.Pos(call.Pos()), "the file name returned by buffer.generate for the child is returned to the caller, which records it as an import", "the file in which the child type was emitted is dropped: the generated file uses a class or helper of another file without importing it")
			return true
		})
	}
	if n < 5 {
		Undecided("dart: only %d recursive generate calls found in code* functions", n)
	}
	// generate's cases pass the returned import(s) to file.add
	ginfo := gen.Pkg.TypesInfo
	addOK := true
	nAdd := 0
	ast.Inspect(gen.Decl.Body, func(x ast.Node) bool {
		cc, ok := x.(*ast.CaseClause)
		if !ok || len(cc.Body) != 2 {
			return true
		}
		as, ok := cc.Body[0].(*ast.AssignStmt)
		if !ok || len(as.Lhs) < 2 {
			return true
		}
		es0, ok := cc.Body[1].(*ast.ExprStmt)
		if !ok {
			return true
		}
		call, ok := es0.X.(*ast.CallExpr)
		if !ok || !strings.HasSuffix(fullName(calleeOf(ginfo, call)), ".add") {
			return true
		}
		nAdd++
		for i, l := range as.Lhs {
			found := false
			for _, a := range call.Args {
				if es(a) == es(l) {
					found = true
				}
			}
			if !found {
				addOK = false
				r.bad("FLW-C06b", gen.Name, "import "+es(l)+" recorded", w.Pos(call.Pos()), "the "+ordinal(i)+" result of the code* function is not handed to file.add: an import is lost")
			}
		}
		return true
	})
	if addOK && nAdd > 0 {
		r.ok("FLW-C06b", gen.Name, "imports handed to file.add", fnPos(w, gen), "every result of the code* functions (declaration and import files) is passed to file.add", true)
	}
	// emission skips exactly the file itself
	gf := w.MustFunc("generator/dart.Generate")
	_ = gf.Pkg.TypesInfo
	selfSkip := false
	for _, cf := range calleeClosure(w, gf, 2) {
		cinfo := cf.Pkg.TypesInfo
		ast.Inspect(cf.Decl.Body, func(x ast.Node) bool {
			rs, ok := x.(*ast.RangeStmt)
			if !ok || !strings.HasSuffix(es(rs.X), ".imports") || identOf(rs.Key) == nil {
				return true
			}
			key := objOf(cinfo, identOf(rs.Key))
			for _, a := range appendStmts(cinfo, rs.Body, "") {
				var inner []pcond
				for _, c := range pathCondsNoLoop(cf, a) {
					if c.expr != nil && c.expr.Pos() >= rs.Body.Pos() {
						inner = append(inner, c)
					}
				}
				if len(inner) == 1 {
					// the one condition: the imported file differs from a file name (the loop key against an identifier)
					if be, ok := inner[0].expr.(*ast.BinaryExpr); ok && ((be.Op == token.NEQ && inner[0].truth) || (be.Op == token.EQL && !inner[0].truth)) {
						kx, ky := identOf(be.X), identOf(be.Y)
						if kx != nil && ky != nil && (objOf(cinfo, kx) == key) != (objOf(cinfo, ky) == key) {
							selfSkip = true
						}
					}
				}
			}
			return true
		})
	}
	r.cond(selfSkip, "FLW-C06b", gf.Name, "an import is emitted for every recorded file except the file itself", fnPos(w, gf), "`if imp != fileName`", "the import emission does not skip exactly the file itself (self-import, or dropped imports)")
}

func ordinal(i int) string {
	return []string{"first", "second", "third", "fourth"}[i%4]
}

// checkDartFileAssignment (AGR-C06c)
func checkDartFileAssignment(w *World, r *Result) {
	gen := w.MustFunc("generator/dart.(buffer).generate")
	info := gen.Pkg.TypesInfo
	// the variable defined from linker.GetOutput(typ.Type()): in generate itself, or in a helper of the package that
	// computes the file and whose result generate binds (outfile := buf.outputFor(typ, parent))
	var fileVar types.Object // in generate
	unit := gen              // where the file is computed
	var unitVar types.Object
	for _, cf := range calleeClosure(w, gen, 1) {
		ast.Inspect(cf.Decl.Body, func(x ast.Node) bool {
			if as, ok := x.(*ast.AssignStmt); ok && len(as.Rhs) == 1 {
				if call, ok := as.Rhs[0].(*ast.CallExpr); ok && strings.HasSuffix(fullName(calleeOf(info, call)), "Linker).GetOutput") {
					if len(call.Args) == 1 && strings.HasSuffix(es(call.Args[0]), ".Type()") && unitVar == nil {
						if id := identOf(as.Lhs[0]); id != nil {
							unitVar = objOf(info, id)
							unit = cf
						}
					}
				}
			}
			return true
		})
	}
	if unitVar == nil {
		Undecided("dart.generate: no `outfile := linker.GetOutput(typ.Type())`")
	}
	if unit == gen {
		fileVar = unitVar
	} else {
		// the helper returns its variable on every path, and generate binds the result
		helperOK := true
		ast.Inspect(unit.Decl.Body, func(x ast.Node) bool {
			if ret, ok := x.(*ast.ReturnStmt); ok && len(ret.Results) == 1 {
				if id := identOf(ret.Results[0]); id == nil || objOf(info, id) != unitVar {
					helperOK = false
				}
			}
			return true
		})
		ast.Inspect(gen.Decl.Body, func(x ast.Node) bool {
			if as, ok := x.(*ast.AssignStmt); ok && len(as.Rhs) == 1 && len(as.Lhs) == 1 {
				if call, ok := as.Rhs[0].(*ast.CallExpr); ok && calleeOf(info, call) == unit.Obj {
					if id := identOf(as.Lhs[0]); id != nil && fileVar == nil {
						fileVar = objOf(info, id)
					}
				}
			}
			return true
		})
		if !helperOK || fileVar == nil {
			Undecided("dart.generate: the helper %s computing the output file does not return it on every path, or its result is not bound", unit.Name)
		}
	}
	// overrides of the file variable only inside a type switch case for Map/Array
	okOverride := true
	for _, pr := range []struct {
		fi *FuncInfo
		v  types.Object
	}{{unit, unitVar}, {gen, fileVar}} {
		ast.Inspect(pr.fi.Decl.Body, func(x ast.Node) bool {
			as, ok := x.(*ast.AssignStmt)
			if !ok || as.Tok == token.DEFINE {
				return true
			}
			for _, l := range as.Lhs {
				if id := identOf(l); id != nil && objOf(info, id) == pr.v {
					kinds := ""
					for _, c := range pathConds(pr.fi.Decl, as) {
						if strings.HasPrefix(c.text, "case ") {
							kinds = c.text
						}
					}
					if kinds != "case *an.Map,*an.Array" && kinds != "case *an.Array,*an.Map" {
						okOverride = false
					}
				}
			}
			return true
		})
	}
	r.cond(okOverride, "AGR-C06c", gen.Name, "only anonymous maps and arrays take the parent's file", fnPos(w, gen), "the file of a node is Linker.GetOutput(its own type), overridden by the parent's file only in `case *an.Map, *an.Array`", "a named node can be assigned the parent's file: it is emitted outside the file of its package")
	// every return returns fileVar
	allRet := true
	nret := 0
	ast.Inspect(gen.Decl.Body, func(x ast.Node) bool {
		if _, ok := x.(*ast.FuncLit); ok {
			return false
		}
		if ret, ok := x.(*ast.ReturnStmt); ok && len(ret.Results) == 1 {
			nret++
			id := identOf(ret.Results[0])
			if id == nil || objOf(info, id) != fileVar {
				allRet = false
				r.bad("AGR-C06c", gen.Name, "return "+es(ret.Results[0]), w.Pos(ret.Pos()), "buffer.generate returns something other than the file computed for the node itself (e.g. the parent's file on a cache hit): the caller records a wrong import and the file that uses the type does not import the file that defines it")
			}
		}
		return true
	})
	if allRet && nret > 0 {
		r.ok("AGR-C06c", gen.Name, "every return yields the node's own file", fnPos(w, gen), "cache hit and fresh generation both return the file computed from the node's own type", true)
	}
	// the file variable is computed before the cache check
	// Linker: GetOutput and OutputFiles read the same table
	// the table from named type to output file: the one field of Linker of type map[*types.Named]string (unexported,
	// so it is found by its type rather than by its name)
	var tt *types.Var
	if st, ok := w.TypeOf("analysis", "Linker").Underlying().(*types.Struct); ok {
		n := 0
		for i := 0; i < st.NumFields(); i++ {
			if st.Field(i).Type().String() == "map[*go/types.Named]string" {
				tt = st.Field(i)
				n++
			}
		}
		if n != 1 {
			tt = nil
		}
	}
	if tt == nil {
		Undecided("analysis.Linker has no single field of type map[*types.Named]string (the type-to-output-file table)")
	}
	for _, q := range []string{"analysis.(Linker).GetOutput", "analysis.(Linker).OutputFiles", "analysis.NewLinker"} {
		fi := w.MustFunc(q)
		uses := false
		ast.Inspect(fi.Decl.Body, func(x ast.Node) bool {
			if sel, ok := x.(*ast.SelectorExpr); ok && fi.Pkg.TypesInfo.Uses[sel.Sel] == tt {
				uses = true
			}
			return true
		})
		r.cond(uses, "AGR-C06c", fi.Name, "reads/writes the one type->file table", fnPos(w, fi), "Linker.typeToOut", "this function no longer uses the shared type->file table: a type can be assigned to a file that is not created")
	}
	// NewLinker: the file is a function of the package path of the named type
	nl := w.MustFunc("analysis.NewLinker")
	ninfo := nl.Pkg.TypesInfo
	byPath := false
	ast.Inspect(nl.Decl.Body, func(x ast.Node) bool {
		as, ok := x.(*ast.AssignStmt)
		if !ok || len(as.Lhs) != 1 {
			return true
		}
		ix, ok := as.Lhs[0].(*ast.IndexExpr)
		if !ok {
			return true
		}
		if sel, ok := ix.X.(*ast.SelectorExpr); !ok || ninfo.Uses[sel.Sel] != tt {
			return true
		}
		// the stored value derives from named.Obj().Pkg().Path()
		pc := &pathCtx{w: w, fi: nl, seen: map[types.Object]bool{}, keepContext: true}
		ps := map[string]bool{}
		pc.pathsOf(as.Rhs[0], 0, ps)

		hasPath, hasName := false, false
		for p := range ps {
			if strings.Contains(p, ".Pkg().Path()") {
				hasPath = true
			}
			if strings.Contains(p, ".Pkg().Name()") || strings.Contains(p, ".Pkg().Name") && !strings.Contains(p, ".Pkg().Path()") {
				hasName = true
			}
		}
		byPath = hasPath && !hasName
		return true
	})
	r.cond(byPath, "AGR-C06c", nl.Name, "file of a type = function of its package path", fnPos(w, nl), "derived from named.Obj().Pkg().Path()", "the output file is not derived from the package path of the type (e.g. from the package name: two packages sharing a name collapse into one file)")
}

func checkDartEnumAndImplements(w *World, r *Result) {
	cs := w.MustFunc("generator/dart.(buffer).codeForStruct")
	info := cs.Pkg.TypesInfo
	good := false
	ast.Inspect(cs.Decl.Body, func(x ast.Node) bool {
		rs, ok := x.(*ast.RangeStmt)
		if !ok || !strings.HasSuffix(es(rs.X), ".Implements") {
			return true
		}
		v := info.Defs[identOf(rs.Value)]
		sub := map[types.Object]string{v: "$u"}
		apps := accumStmts(info, cs.Decl, rs)
		if len(apps) == 1 && !apps[0].sized && len(apps[0].values) == 1 {
			if g := reachConds(info, cs.Decl, rs, apps[0].stmt, sub); len(g) == 1 && g[0] == "$u.IsExported()" {
				if render(info, apps[0].values[0], sub) == "an.LocalName($u)" {
					good = true
				}
			}
		}
		return true
	})
	r.cond(good, "AGR-C06i", cs.Name, "implements = exported unions of Implements, by local name", fnPos(w, cs), "one `implements` entry per exported union the struct is a member of", "the implements clause is not exactly the exported unions of typ.Implements")
	ce := w.MustFunc("generator/dart.codeForEnum")
	// wherever the two templates live (codeForEnum or a helper it calls): the positional one is reached only under
	// IsIota, the table one only under !IsIota, and both exist
	posOK, tabOK, nPos, nTab := true, true, 0, 0
	for _, cf := range calleeClosure(w, ce, 2) {
		if cf.Pkg != ce.Pkg || cf.Decl.Body == nil {
			continue
		}
		ast.Inspect(cf.Decl.Body, func(x ast.Node) bool {
			lit, ok := x.(*ast.BasicLit)
			if !ok || lit.Kind != token.STRING {
				return true
			}
			positional := strings.Contains(lit.Value, ".values[i]") || strings.Contains(lit.Value, "return index")
			table := strings.Contains(lit.Value, "_values") && strings.Contains(lit.Value, "indexOf")
			if !positional && !table {
				return true
			}
			underIota, underNotIota := false, false
			for _, c := range pathConds(cf.Decl, lit) {
				if c.expr != nil && strings.HasSuffix(es(c.expr), ".IsIota") {
					if c.truth {
						underIota = true
					} else {
						underNotIota = true
					}
				}
			}
			if positional && !table {
				nPos++
				if !underIota {
					posOK = false
				}
			}
			if table {
				nTab++
				if !underNotIota {
					tabOK = false
				}
			}
			return true
		})
	}
	iota := nPos > 0 && nTab > 0 && posOK && tabOK
	r.cond(iota, "AGR-C06e", ce.Name, "index-based conversion exactly when IsIota, lookup table otherwise", fnPos(w, ce), "IsIota: values[i]/index; otherwise: _values table with indexOf", "the positional conversion is not restricted to iota-like enums (or the table branch is missing)")
}

// checkLinkerRootTest (AGR-C06r): whether a package lies inside the source root is decided on its import path,
// where `/` separates the elements: after the separators have been flattened to `_` (the spelling of the output
// file names) `root_ext/model` and `root/ext/model` are the same string, so a package outside the root is filed
// as an inside one and same-named types of the two packages end up in one file.
func checkLinkerRootTest(w *World, r *Result) {
	fi := w.MustFunc("analysis.NewLinker")
	info := fi.Pkg.TypesInfo
	n := 0
	ast.Inspect(fi.Decl.Body, func(x ast.Node) bool {
		call, ok := x.(*ast.CallExpr)
		if !ok || len(call.Args) != 2 {
			return true
		}
		if full := fullName(calleeOf(info, call)); full != "strings.HasPrefix" && full != "strings.CutPrefix" {
			return true
		}
		n++
		// the tested value: a (*types.Package).Path() call, or a local all of whose definitions are one
		isPath := func(e ast.Expr) bool {
			c, ok := ast.Unparen(e).(*ast.CallExpr)
			return ok && fullName(calleeOf(info, c)) == "(*go/types.Package).Path"
		}
		good := isPath(call.Args[0])
		if id := identOf(call.Args[0]); id != nil && !good {
			defs := defsIn(info, fi.Decl, objOf(info, id))
			good = len(defs) > 0
			for _, d := range defs {
				if d.Pos() < call.Pos() && !isPath(d) {
					good = false
				}
			}
		}
		r.cond(good, "AGR-C06r", fi.Name, "inside-the-root test on "+es(call.Args[0]), w.Pos(call.Pos()),
			"the tested value is the import path of the type's package",
			"the inside-the-root test is applied to `"+es(call.Args[0])+"`, which is not the import path itself (the separators were already rewritten): a package whose path merely continues the root's name with the replacement character is taken for a sub-package of the root and shares its output file")
		return true
	})
	if n == 0 {
		Undecided("AGR-C06r: NewLinker has no prefix test")
	}
}

// checkDartHelperFile (AGR-C06j): a generated function calls the JSON helpers named by jsonID(child). Where jsonID
// *delegates* — for a named type that is not a list or a map it answers with the name of the underlying type's helpers
// (`intFromJson` for `type ID int64`) — the helper lives in the file of the underlying type (predefined.dart), not in
// the file of the named type, which is the only one buffer.generate reports to the user. Dart imports are not
// transitive, so the user must import the underlying type's file itself. Obligation, one per function that records
// imports for its children (codeForStruct, codeForArray, codeForMap): it also asks for the file of a named child's
// underlying type (a call of generate on `.Underlying`, directly or in a package helper it calls).
func checkDartHelperFile(w *World, r *Result) {
	jid := w.MustFunc("generator/dart.jsonID")
	jinfo := jid.Pkg.TypesInfo
	delegates := false
	var at token.Pos
	ast.Inspect(jid.Decl.Body, func(x ast.Node) bool {
		ret, ok := x.(*ast.ReturnStmt)
		if !ok || len(ret.Results) != 1 {
			return true
		}
		call, ok := ast.Unparen(ret.Results[0]).(*ast.CallExpr)
		if !ok || calleeOf(jinfo, call) != jid.Obj || len(call.Args) != 1 {
			return true
		}
		if sel, ok := ast.Unparen(call.Args[0]).(*ast.SelectorExpr); ok && sel.Sel.Name == "Underlying" {
			delegates, at = true, ret.Pos()
		}
		return true
	})
	if !delegates {
		r.ok("AGR-C06j", jid.Name, "jsonID names the helpers of the node itself", fnPos(w, jid), "no delegation to the underlying type: the helper lives in the file buffer.generate reports", true)
		return
	}
	gen := w.MustFunc("generator/dart.(buffer).generate")
	n := 0
	for _, fi := range sortedFuncs(w) {
		if w.Rel(fi.Obj.Pkg()) != "generator/dart" || fi.Decl.Body == nil || !strings.HasPrefix(fi.Obj.Name(), "codeFor") || fi.Obj.Name() == "codeForNamed" {
			continue
		}
		info := fi.Pkg.TypesInfo
		// does it record imports for children (calls generate on something that is not its own node's Underlying)?
		callsGen := false
		ast.Inspect(fi.Decl.Body, func(x ast.Node) bool {
			call, ok := x.(*ast.CallExpr)
			if !ok || calleeOf(info, call) != gen.Obj || len(call.Args) < 1 {
				return true
			}
			// the members of a union are declared in the union's own package, hence emitted in the union's own file;
			// a named member's typedef, declared in that same file, brings the import of its underlying type with it
			if id := identOf(call.Args[0]); id != nil {
				member := false
				ast.Inspect(fi.Decl.Body, func(y ast.Node) bool {
					if rs, ok := y.(*ast.RangeStmt); ok && identOf(rs.Value) != nil && info.Defs[identOf(rs.Value)] == objOf(info, id) {
						if sel, ok := ast.Unparen(rs.X).(*ast.SelectorExpr); ok && sel.Sel.Name == "Members" {
							member = true
						}
					}
					return true
				})
				if member {
					return true
				}
			}
			callsGen = true
			return true
		})
		if !callsGen {
			continue
		}
		n++
		asksUnderlying := false
		for _, cf := range calleeClosure(w, fi, 1) {
			if cf.Pkg != fi.Pkg || cf.Decl.Body == nil || cf == gen || cf.Obj.Name() == "codeForNamed" {
				continue
			}
			ci := cf.Pkg.TypesInfo
			ast.Inspect(cf.Decl.Body, func(x ast.Node) bool {
				call, ok := x.(*ast.CallExpr)
				if !ok || calleeOf(ci, call) != gen.Obj || len(call.Args) < 1 {
					return true
				}
				if sel, ok := ast.Unparen(call.Args[0]).(*ast.SelectorExpr); ok && sel.Sel.Name == "Underlying" {
					asksUnderlying = true
				}
				return true
			})
		}
		r.cond(asksUnderlying, "AGR-C06j", fi.Name, "users of jsonID(child) import the file of the helper it names", fnPos(w, fi),
			"for a named child the file of its underlying type is requested too",
			"jsonID answers, for a named type that is not a list or a map, with the helpers of its underlying type ("+w.Pos(at)+"), but this function imports only the file buffer.generate returns for the child itself: for `type ID int64` declared in another package the generated file calls intFromJson / intToJson (predefined.dart) while importing only the package's file — Dart imports are not transitive, the file does not compile unless something else in it happens to import predefined.dart")
	}
	if n == 0 {
		Undecided("AGR-C06j: no code* function of generator/dart records imports for its children")
	}
}

// checkDartNoForeignSkip (AGR-C06q): the helpers of an anonymous list/map are written into the file of the parent that
// uses them, so one node is emitted once per file that reaches it. The only sound way to leave generate before the
// emission is the named-type memo (generator.Cache.Check of the node, which ignores anonymous nodes) or a memo whose
// key carries the output file. Any other early return drops the helpers of the second file that reaches the node.
func checkDartNoForeignSkip(w *World, r *Result) {
	gen := w.MustFunc("generator/dart.(buffer).generate")
	info := gen.Pkg.TypesInfo
	sig := gen.Obj.Type().(*types.Signature)
	if sig.Params().Len() < 1 {
		Undecided("dart.generate has no node parameter")
	}
	param := sig.Params().At(0)
	fileNames := map[string]bool{}
	for i := 1; i < sig.Params().Len(); i++ {
		fileNames[sig.Params().At(i).Name()] = true
	}
	ast.Inspect(gen.Decl.Body, func(x ast.Node) bool {
		if as, ok := x.(*ast.AssignStmt); ok {
			for _, l := range as.Lhs {
				if id := identOf(l); id != nil {
					if t := info.TypeOf(id); t != nil && t.String() == "string" {
						fileNames[id.Name] = true
					}
				}
			}
		}
		return true
	})
	isAdd := func(n ast.Node) bool {
		found := false
		ast.Inspect(n, func(y ast.Node) bool {
			if call, ok := y.(*ast.CallExpr); ok {
				if fn := calleeOf(info, call); fn != nil && fn.Pkg() == gen.Obj.Pkg() {
					if s, ok := fn.Type().(*types.Signature); ok && s.Recv() != nil && strings.Contains(s.Recv().Type().String(), "outFile") {
						found = true
					}
				}
			}
			return true
		})
		return found
	}
	n := 0
	var walk func(list []ast.Stmt, emitted bool, guards []ast.Expr, top bool)
	walk = func(list []ast.Stmt, emitted bool, guards []ast.Expr, top bool) {
		for i, st := range list {
			switch s := st.(type) {
			case *ast.ReturnStmt:
				if top && i == len(list)-1 {
					continue // the final return, after the emission switch
				}
				n++
				cons := "early return of generate"
				if emitted {
					r.ok("AGR-C06q", gen.Name, cons+" after the emission", w.Pos(s.Pos()), "an add into the output file precedes this return", true)
					continue
				}
				okGuard, how := false, ""
				for _, g := range guards {
					ast.Inspect(g, func(y ast.Node) bool {
						if call, ok := y.(*ast.CallExpr); ok && fullName(calleeOf(info, call)) == "("+modPath+"/generator.Cache).Check" && len(call.Args) == 1 {
							if id := identOf(call.Args[0]); id != nil && objOf(info, id) == types.Object(param) {
								okGuard, how = true, "guarded by the named-type memo Cache.Check("+param.Name()+"), which never skips an anonymous list or map"
							}
						}
						return true
					})
					if !okGuard {
						txt := es(g)
						mentionsFile := false
						for f := range fileNames {
							if regexp.MustCompile(`\b` + regexp.QuoteMeta(f) + `\b`).MatchString(txt) {
								mentionsFile = true
							}
						}
						if mentionsFile && regexp.MustCompile(`\b`+regexp.QuoteMeta(param.Name())+`\b`).MatchString(txt) {
							okGuard, how = true, "guarded by a test that reads both the node and the output file (a per-file memo)"
						}
					}
				}
				r.cond(okGuard, "AGR-C06q", gen.Name, cons+" before the emission", w.Pos(s.Pos()), how,
					"generate returns before writing the declaration under a condition other than the named-type memo: an anonymous list or map reached from a second output file is skipped, and that file calls list/dict helpers it neither defines nor imports")
			case *ast.IfStmt:
				g2 := append(append([]ast.Expr{}, guards...), s.Cond)
				walk(s.Body.List, emitted, g2, false)
				if s.Else != nil {
					if b, ok := s.Else.(*ast.BlockStmt); ok {
						walk(b.List, emitted, g2, false)
					} else {
						walk([]ast.Stmt{s.Else}, emitted, g2, false)
					}
				}
			case *ast.BlockStmt:
				walk(s.List, emitted, guards, false)
			case *ast.SwitchStmt:
				for _, c := range s.Body.List {
					walk(c.(*ast.CaseClause).Body, emitted, guards, false)
				}
			case *ast.TypeSwitchStmt:
				for _, c := range s.Body.List {
					walk(c.(*ast.CaseClause).Body, emitted, guards, false)
				}
			case *ast.ForStmt:
				walk(s.Body.List, emitted, guards, false)
			case *ast.RangeStmt:
				walk(s.Body.List, emitted, guards, false)
			}
			if isAdd(st) {
				if _, isIf := st.(*ast.IfStmt); !isIf {
					emitted = true
				}
			}
		}
	}
	walk(gen.Decl.Body.List, false, nil, true)
	if n == 0 {
		r.ok("AGR-C06q", gen.Name, "no early return in generate", fnPos(w, gen), "generate has a single exit after the emission switch", true)
	}
}

package main

// TPL-2: stub type-check of instantiated Go templates. Holes are declared as opaque types; only two
// error kinds count: a literal selector on a hole-typed value, and a literal identifier that neither
// the standard library nor a sibling template of the same generator defines.

import (
	"fmt"
	"go/ast"
	"go/parser"
	"go/token"
	"go/types"
	"regexp"
	"sort"
	"strings"

	"golang.org/x/tools/go/packages"
)

var stubStd = []string{"database/sql", "database/sql/driver", "encoding/json", "errors", "fmt", "strconv", "strings", "math/rand", "time"}

const fakePQ = `package pq
import ("database/sql/driver"; "time")
type Int64Array []int64
func (a *Int64Array) Scan(src any) error { return nil }
func (a Int64Array) Value() (driver.Value, error) { return nil, nil }
type Int32Array []int32
func (a *Int32Array) Scan(src any) error { return nil }
func (a Int32Array) Value() (driver.Value, error) { return nil, nil }
type Float64Array []float64
func (a *Float64Array) Scan(src any) error { return nil }
func (a Float64Array) Value() (driver.Value, error) { return nil, nil }
type BoolArray []bool
func (a *BoolArray) Scan(src any) error { return nil }
func (a BoolArray) Value() (driver.Value, error) { return nil, nil }
type StringArray []string
func (a *StringArray) Scan(src any) error { return nil }
func (a StringArray) Value() (driver.Value, error) { return nil, nil }
type NullTime struct { Time time.Time; Valid bool }
func (nt *NullTime) Scan(value any) error { return nil }
func (nt NullTime) Value() (driver.Value, error) { return nil, nil }
func CopyIn(table string, columns ...string) string { return "" }
`

type mapImporter map[string]*types.Package

func (m mapImporter) Import(path string) (*types.Package, error) {
	if p, ok := m[path]; ok {
		return p, nil
	}
	return nil, fmt.Errorf("package %s not available to the stub type-check", path)
}

func loadStubImporter(w *World) mapImporter {
	cfg := &packages.Config{Dir: w.Repo, Env: goEnv(), Mode: packages.NeedName | packages.NeedTypes | packages.NeedImports | packages.NeedDeps | packages.NeedSyntax | packages.NeedTypesInfo}
	pkgs, err := packages.Load(cfg, stubStd...)
	if err != nil {
		Undecided("cannot load the standard packages for the stub type-check: %v", err)
	}
	imp := mapImporter{}
	var walk func(p *packages.Package)
	walk = func(p *packages.Package) {
		if p.Types == nil || imp[p.PkgPath] != nil {
			return
		}
		imp[p.PkgPath] = p.Types
		for _, q := range p.Imports {
			walk(q)
		}
	}
	for _, p := range pkgs {
		if len(p.Errors) > 0 {
			Undecided("standard package %s has errors: %v", p.PkgPath, p.Errors[0])
		}
		walk(p)
	}
	fset := token.NewFileSet()
	f, err := parser.ParseFile(fset, "pq.go", fakePQ, 0)
	if err != nil {
		Undecided("fake pq does not parse: %v", err)
	}
	conf := types.Config{Importer: imp}
	pq, err := conf.Check("github.com/lib/pq", fset, []*ast.File{f}, nil)
	if err != nil {
		Undecided("fake pq does not type-check: %v", err)
	}
	imp["github.com/lib/pq"] = pq
	return imp
}

// literal selectors on user types that the analysis does establish
var establishedSelectors = map[string]string{
	"Valid": "this template is only emitted for types matched by sql.IsNullXXX, which requires a bool field named exactly `Valid`",
}

var (
	reUndefined = regexp.MustCompile(`^undefined: (\w+)`)
	reNoField   = regexp.MustCompile(`^(\S+)\.(\w+) undefined \(type (\S+) has no field or method (\w+)`)
	reStubTok   = regexp.MustCompile(`(Ty|Id|Usr|Unk|tbl)\d+`)
)

func stubTypeCheck(w *World, r *Result) int {
	imp := loadStubImporter(w)
	n := 0
	for _, rel := range goGenerators {
		decls := extractDecls(w, rel)
		// sibling top-level names (literal ones) over all instantiations
		sibling := map[string]bool{}
		type inst struct {
			d   *tplDecl
			in  instance
			src string
		}
		var all []inst
		for _, d := range decls {
			for _, in := range instances(d.content, 1) {
				src := goSource(in.text)
				all = append(all, inst{d, in, src})
				fset := token.NewFileSet()
				f, err := parser.ParseFile(fset, "gen.go", src, parser.SkipObjectResolution)
				if err != nil {
					continue
				}
				for _, dc := range f.Decls {
					switch x := dc.(type) {
					case *ast.FuncDecl:
						if x.Recv == nil {
							sibling[x.Name.Name] = true
						}
					case *ast.GenDecl:
						for _, sp := range x.Specs {
							switch s := sp.(type) {
							case *ast.TypeSpec:
								sibling[s.Name.Name] = true
							case *ast.ValueSpec:
								for _, nm := range s.Names {
									sibling[nm.Name] = true
								}
							}
						}
					}
				}
			}
		}
		reported := map[string]bool{}
		for _, it := range all {
			// strip package clause and imports of the instantiation; add our own prelude
			body := it.src
			fsetP := token.NewFileSet()
			pf, err := parser.ParseFile(fsetP, "gen.go", body, parser.ImportsOnly)
			if err != nil {
				continue
			}
			end := pf.Name.End()
			for _, d := range pf.Decls {
				if d.End() > end {
					end = d.End()
				}
			}
			rest := body[fsetP.Position(end).Offset:]
			var b strings.Builder
			b.WriteString("package p\nimport (\n")
			for _, s := range stubStd {
				fmt.Fprintf(&b, "%q\n", s)
			}
			b.WriteString("\"github.com/lib/pq\"\n)\n")
			b.WriteString("var _ = sql.ErrNoRows\nvar _ driver.Value\nvar _ = json.Marshal\nvar _ = errors.New\nvar _ = fmt.Sprint\nvar _ = strconv.Itoa\nvar _ = strings.Join\nvar _ = rand.Intn\nvar _ = time.Now\nvar _ pq.Int64Array\n")
			// stub types for hole tokens not declared by the instantiation itself
			declared := map[string]bool{}
			fsetD := token.NewFileSet()
			if df, err := parser.ParseFile(fsetD, "gen.go", "package p\n"+rest, parser.SkipObjectResolution); err == nil {
				for _, dc := range df.Decls {
					if gd, ok := dc.(*ast.GenDecl); ok {
						for _, sp := range gd.Specs {
							if ts, ok := sp.(*ast.TypeSpec); ok {
								declared[ts.Name.Name] = true
							}
						}
					}
					if fd, ok := dc.(*ast.FuncDecl); ok && fd.Recv == nil {
						declared[fd.Name.Name] = true
					}
				}
			}
			toks := map[string]bool{}
			for _, m := range regexp.MustCompile(`\b(Ty|Id|Usr)\d+\b`).FindAllString(rest, -1) {
				toks[m] = true
			}
			var ts []string
			for t := range toks {
				ts = append(ts, t)
			}
			sort.Strings(ts)
			for _, t := range ts {
				if !declared[t] {
					fmt.Fprintf(&b, "type %s struct{}\n", t)
				}
			}
			b.WriteString(rest)
			fset := token.NewFileSet()
			f, err := parser.ParseFile(fset, "gen.go", b.String(), parser.SkipObjectResolution)
			if err != nil {
				continue // TPL-1 reports parse failures
			}
			n++
			var msgs []string
			conf := types.Config{Importer: imp, Error: func(err error) {
				if te, ok := err.(types.Error); ok {
					msgs = append(msgs, te.Msg)
				}
			}}
			conf.Check("p", fset, []*ast.File{f}, nil)
			for _, m := range msgs {
				if mm := reUndefined.FindStringSubmatch(m); mm != nil {
					name := mm[1]
					if reStubTok.MatchString(name) || sibling[name] {
						continue
					}
					key := it.d.label + "|undef|" + name
					if reported[key] {
						continue
					}
					reported[key] = true
					r.bad("TPL-2", it.d.label, "literal identifier "+name, w.Pos(it.d.pos), "the template refers to `"+name+"`, which is neither standard library, nor a hole, nor defined by any template of this generator: the user's package must happen to define it")
					continue
				}
				if mm := reNoField.FindStringSubmatch(m); mm != nil {
					sel, typ := mm[2], mm[3]
					if reStubTok.MatchString(sel) || !reStubTok.MatchString(typ) {
						continue
					}
					if why, ok := establishedSelectors[sel]; ok {
						key := it.d.label + "|sel|" + sel
						if !reported[key] {
							reported[key] = true
							r.justified("TPL-2", it.d.label, "literal selector ."+sel+" on a user type", w.Pos(it.d.pos), why)
						}
						continue
					}
					key := it.d.label + "|sel|" + sel
					if reported[key] {
						continue
					}
					reported[key] = true
					r.bad("TPL-2", it.d.label, "literal selector ."+sel+" on a user type", w.Pos(it.d.pos), "the template hard-codes the field or method `"+sel+"` of a user type; the analysis never established that the type has it under that spelling")
				}
			}
		}
		r.ok("TPL-2", rel+".<package>", "stub type-check", rel, fmt.Sprintf("%d instantiations type-checked against opaque holes; %d sibling top-level names", len(all), len(sibling)), true)
	}
	return n
}

package main

// C15: generated random-data functions.

import (
	"fmt"
	"go/ast"
	"go/parser"
	"go/token"
	"go/types"
	"sort"
	"strconv"
	"strings"
)

func init() { register("C15", "other", checkC15) }

func checkC15(w *World, r *Result) {
	r.Explanation = "Decides structural necessary conditions on generator/go/randdata: TPL-C15f in every instantiation of the container templates each element is produced by the element generator: fixed arrays are filled by a loop over the whole array, slices by a loop over the whole freshly made slice, maps by l insertions of generated key and value; pointers return the address of a generated value (never nil); AGR-C15u the union template lists one generated value per member (lock-step append) and draws the index below len(Members); AGR-C15e the table-based enum template draws an index below len(choix) and returns choix[i], the choices being exactly the exported constants (AGR-C10b, TPL-3: no empty slot); AGR-C15s the struct loop skips exactly unexported fields and fields tagged gomacro-data:\"ignore\" before emitting anything for them, and assigns every other field from the generator named functionID(field type) (AGR-C01a); TPL-C15a termination: some cycle-capable constructor (slice, map, pointer, union) must be able to stop the recursion (zero length, or a conditional call) - today none can (known finding); TPL-1 templates parse. Does not decide: variation across calls, well-formedness of values as a run-time fact, the JSON round trip."
	r.Rules = []string{"TPL-C15f", "TPL-C15l", "AGR-C15u", "AGR-C15e", "AGR-C15s", "AGR-C10b", "AGR-C01a", "TPL-C15a", "TPL-1", "TPL-3", "AGR-C09c", "AGR-C11f", "GEN-ID", "AGR-C15d", "AGR-C10r", "AGR-C10p", "ALIAS-APPEND", "PRINTF", "CACHE-DROP", "MUT-AN", "AGR-C11c", "AGR-C09c own struct", "ALIAS-STORE"}
	// the union table consumed by the templates: candidates are the defined named types of the scope, each once (rule shared with C11)
	checkCandidates(w, r)
	mutAnRule(w, r, func(rel string) bool { return rel == "generator/go/randdata" })
	cacheDropRule(w, r, func(rel string) bool { return rel == "generator/go/randdata" })
	descentDominatesReturns(w, r, "generator/go/randdata")
	printfRule(w, r, "generator/go/randdata")
	aliasAppendRule(w, r, func(rel string) bool { return rel == "analysis" || rel == "generator/go/randdata" })
	aliasStoreRule(w, r, func(rel string) bool { return rel == "analysis" })
	// the gomacro-data:"ignore" tag the struct loop reads is the field's own, also for fields promoted from an embedded struct
	checkFlatten(w, r)
	// the union table the union template draws from (rules shared with C11), names of generic instantiations
	checkMemberFilter(w, r)
	// the enum table the enum template draws from: which packages are scanned (rules shared with C10)
	checkSelectorRoot(w, r)
	checkSelectorPrefix(w, r)
	checkDeclaredOnEveryPath(w, r)
	genIDRule(w, r, "generator/go/randdata")
	// names first: they do not need the templates to be evaluated
	sub := &Result{}
	checkEnumConsumers(w, sub)
	checkRandNames(w, sub)
	for _, o := range sub.Obs {
		if strings.HasPrefix(o.Func, "generator/go/randdata") {
			r.add(o)
		}
	}
	decls := extractDecls(w, "generator/go/randdata")
	byFn := map[string][]*tplDecl{}
	for _, d := range decls {
		if why, bad := hasUnknown(d.content); bad {
			Undecided("randdata template in %s has an unclassified hole: %s", d.label, why)
		}
		byFn[d.label] = append(byFn[d.label], d)
	}
	parseAll := func(label string) []*ast.File {
		var out []*ast.File
		for _, d := range byFn[label] {
			for _, in := range instances(d.content, 2) {
				f, err := parser.ParseFile(token.NewFileSet(), "gen.go", goSource(in.text), parser.SkipObjectResolution)
				if err == nil {
					out = append(out, f)
				}
			}
		}
		if len(out) == 0 {
			Undecided("no parsable instantiation of the template of %s", label)
		}
		return out
	}
	// TPL-C15l: every loop of the generated code is bounded: a range, or a counted loop whose counter is stepped by the
	// post statement and compared with a bound the body does not assign. A loop that waits for a condition on what it
	// has produced (`for len(out) < l`) does not end when the generators cannot produce enough distinct values (a map
	// keyed by bool, or by an enum with fewer than l constants).
	var labels []string
	for label := range byFn {
		labels = append(labels, label)
	}
	sort.Strings(labels)
	for _, label := range labels {
		lfi := w.Func(label)
		where := "generator/go/randdata"
		if lfi != nil {
			where = fnPos(w, lfi)
		}
		nLoops, unbounded := 0, ""
		for _, d := range byFn[label] {
			for _, in := range instances(d.content, 2) {
				f, err := parser.ParseFile(token.NewFileSet(), "gen.go", goSource(in.text), parser.SkipObjectResolution)
				if err != nil {
					continue
				}
				ast.Inspect(f, func(n ast.Node) bool {
					fs, ok := n.(*ast.ForStmt)
					if !ok {
						return true
					}
					nLoops++
					if why := boundedLoop(fs); why != "" && unbounded == "" {
						unbounded = why
					}
					return true
				})
			}
		}
		if nLoops == 0 {
			continue
		}
		r.cond(unbounded == "", "TPL-C15l", label, "generated loops are bounded", where, "every `for` of the generated code is a counted loop (counter stepped by the post statement, bound not assigned in the body) or a range",
			"the generated function contains "+unbounded+": it does not return when the condition can never be met (e.g. a map filled until it has l entries, with a key type that has fewer than l values — bool, a small enum)")
	}
	minLens := map[string]int{}
	// --- arrays / slices
	arr := "generator/go/randdata.(context).codeForArray"
	fixedOK, sliceOK := false, false
	nf := 0
	for _, f := range parseAll(arr) {
		for _, d := range f.Decls {
			fd, ok := d.(*ast.FuncDecl)
			if !ok {
				continue
			}
			nf++
			res := types.ExprString(fd.Type.Results.List[0].Type)
			full := fillsWholeOut(fd)
			if strings.HasPrefix(res, "[]") {
				sliceOK = full && makesOutWithLen(fd)
				if m, ok := minLength(fd); ok {
					minLens["slice"] = m
				}
			} else if strings.HasPrefix(res, "[") {
				fixedOK = full
			}
		}
	}
	fi := w.MustFunc(arr)
	r.cond(fixedOK, "TPL-C15f", fi.Name, "fixed array: every element generated", fnPos(w, fi), "`for i := range out { out[i] = rand<Elem>() }` over the array itself", "the fixed-array template does not assign every element from the element generator (e.g. copies a shorter random slice): the tail keeps zero values, which are not well-formed for unions or enums without a zero constant")
	r.cond(sliceOK, "TPL-C15f", fi.Name, "slice: every element generated", fnPos(w, fi), "out := make([]T, l); for i := range out { out[i] = rand<Elem>() }", "the slice template does not fill every element of the slice it makes")
	// --- maps
	mp := "generator/go/randdata.(context).codeForMap"
	mapOK := false
	for _, f := range parseAll(mp) {
		for _, d := range f.Decls {
			if fd, ok := d.(*ast.FuncDecl); ok {
				mapOK = mapInsertsGenerated(fd)
				if m, ok := minLength(fd); ok {
					minLens["map"] = m
				}
			}
		}
	}
	fm := w.MustFunc(mp)
	r.cond(mapOK, "TPL-C15f", fm.Name, "map: generated key -> generated value", fnPos(w, fm), "out[rand<Key>()] = rand<Elem>() in a counted loop", "the map template does not insert generated keys and values")
	// --- pointer
	pt := "generator/go/randdata.(context).codeForPointer"
	ptrOK := false
	for _, f := range parseAll(pt) {
		for _, d := range f.Decls {
			if fd, ok := d.(*ast.FuncDecl); ok {
				ast.Inspect(fd, func(n ast.Node) bool {
					if ret, ok := n.(*ast.ReturnStmt); ok && len(ret.Results) == 1 {
						if u, ok := ret.Results[0].(*ast.UnaryExpr); ok && u.Op == token.AND {
							ptrOK = true
						}
					}
					return true
				})
			}
		}
	}
	fp := w.MustFunc(pt)
	r.cond(ptrOK, "TPL-C15f", fp.Name, "pointer: address of a generated value", fnPos(w, fp), "data := rand<Elem>(); return &data", "the pointer template can return nil or an ungenerated value")
	// --- union
	checkRandUnion(w, r)
	// --- enum
	checkRandEnum(w, r, parseAll("generator/go/randdata.(context).codeForEnum"))
	// --- struct
	checkRandStruct(w, r)
	// --- termination
	eager := unionEager(parseAll("generator/go/randdata.(context).codeForUnion"))
	stop := []string{}
	if m, ok := minLens["slice"]; ok && m == 0 {
		stop = append(stop, "slice")
	}
	if m, ok := minLens["map"]; ok && m == 0 {
		stop = append(stop, "map")
	}
	if !eager {
		stop = append(stop, "union (lazy member)")
	}
	fg := w.MustFunc("generator/go/randdata.(context).generate")
	r.cond(len(stop) > 0, "TPL-C15a", fg.Name, "a recursive type has a terminating generator", fnPos(w, fg),
		"recursion can stop at: "+strings.Join(stop, ", "),
		fmt.Sprintf("no constructor through which a type can refer to itself can stop the recursion: slices always have at least %d elements, maps at least %d, pointers always point to a generated value and the union template evaluates every member's generator before choosing one; the generator of any recursive type (e.g. struct{Children []T}) never returns", minLens["slice"], minLens["map"]))
	runTPLGo(w, r, "generator/go/randdata", 2)
}

// fillsWholeOut: `for i := range out { out[i] = <call>() }` where out is the returned variable.
func fillsWholeOut(fd *ast.FuncDecl) bool {
	ok := false
	ast.Inspect(fd, func(n ast.Node) bool {
		rs, isR := n.(*ast.RangeStmt)
		if !isR || types.ExprString(rs.X) != "out" || rs.Key == nil || len(rs.Body.List) != 1 {
			return true
		}
		as, isA := rs.Body.List[0].(*ast.AssignStmt)
		if !isA || len(as.Lhs) != 1 || len(as.Rhs) != 1 {
			return true
		}
		ix, isI := as.Lhs[0].(*ast.IndexExpr)
		_, isCall := as.Rhs[0].(*ast.CallExpr)
		if isI && isCall && types.ExprString(ix.X) == "out" && types.ExprString(ix.Index) == types.ExprString(rs.Key) {
			ok = true
		}
		return true
	})
	return ok
}

func makesOutWithLen(fd *ast.FuncDecl) bool {
	ok := false
	ast.Inspect(fd, func(n ast.Node) bool {
		if as, isA := n.(*ast.AssignStmt); isA && len(as.Lhs) == 1 && types.ExprString(as.Lhs[0]) == "out" {
			if call, isC := as.Rhs[0].(*ast.CallExpr); isC && types.ExprString(call.Fun) == "make" && len(call.Args) == 2 && types.ExprString(call.Args[1]) == "l" {
				ok = true
			}
		}
		return true
	})
	return ok
}

// minLength: `l := A + rand.Intn(B)` -> A ; `l := rand.Intn(B)` -> 0
func minLength(fd *ast.FuncDecl) (int, bool) {
	res, found := 0, false
	ast.Inspect(fd, func(n ast.Node) bool {
		as, ok := n.(*ast.AssignStmt)
		if !ok || len(as.Lhs) != 1 || types.ExprString(as.Lhs[0]) != "l" {
			return true
		}
		var eval func(e ast.Expr) (int, bool)
		eval = func(e ast.Expr) (int, bool) {
			switch v := e.(type) {
			case *ast.BasicLit:
				k, err := strconv.Atoi(v.Value)
				return k, err == nil
			case *ast.ParenExpr:
				return eval(v.X)
			case *ast.CallExpr:
				if strings.HasPrefix(types.ExprString(v.Fun), "rand.Int") {
					return 0, true
				}
			case *ast.BinaryExpr:
				a, ok1 := eval(v.X)
				b, ok2 := eval(v.Y)
				if ok1 && ok2 && v.Op == token.ADD {
					return a + b, true
				}
			}
			return 0, false
		}
		if k, ok := eval(as.Rhs[0]); ok {
			res, found = k, true
		}
		return true
	})
	return res, found
}

// boundedLoop returns "" when the generated `for` statement is a counted loop, else a description of it.
func boundedLoop(fs *ast.ForStmt) string {
	desc := "the loop `for " + types.ExprString(fs.Cond) + "`"
	if fs.Cond == nil {
		// `for { ... }`: bounded only if it has no body-independent exit; not used by the templates
		return "an endless `for { }` loop"
	}
	cond, ok := fs.Cond.(*ast.BinaryExpr)
	if !ok || fs.Post == nil {
		return desc + " without a counter stepped by a post statement"
	}
	var counter string
	switch p := fs.Post.(type) {
	case *ast.IncDecStmt:
		counter = types.ExprString(p.X)
	case *ast.AssignStmt:
		if len(p.Lhs) == 1 && (p.Tok == token.ADD_ASSIGN || p.Tok == token.SUB_ASSIGN) {
			counter = types.ExprString(p.Lhs[0])
		}
	}
	if counter == "" {
		return desc + " whose post statement does not step a counter"
	}
	bound := cond.Y
	if types.ExprString(cond.X) != counter {
		if types.ExprString(cond.Y) != counter {
			return desc + " whose condition does not test the counter " + counter
		}
		bound = cond.X
	}
	// neither the counter nor the bound is assigned in the body
	bad := ""
	boundStr := types.ExprString(bound)
	if call, ok := bound.(*ast.CallExpr); ok && types.ExprString(call.Fun) == "len" && len(call.Args) == 1 {
		boundStr = types.ExprString(call.Args[0])
	}
	ast.Inspect(fs.Body, func(n ast.Node) bool {
		switch v := n.(type) {
		case *ast.AssignStmt:
			for _, l := range v.Lhs {
				if s := types.ExprString(l); s == counter || s == boundStr {
					bad = desc + " whose body assigns " + s
				}
			}
		case *ast.IncDecStmt:
			if s := types.ExprString(v.X); s == counter || s == boundStr {
				bad = desc + " whose body steps " + s
			}
		}
		return true
	})
	if bad != "" {
		return bad
	}
	if call, ok := bound.(*ast.CallExpr); ok && types.ExprString(call.Fun) != "len" {
		return desc + " whose bound is recomputed by a call at every iteration"
	}
	return ""
}

func mapInsertsGenerated(fd *ast.FuncDecl) bool {
	ok := false
	ast.Inspect(fd, func(n ast.Node) bool {
		fs, isF := n.(*ast.ForStmt)
		if !isF || len(fs.Body.List) != 1 {
			return true
		}
		as, isA := fs.Body.List[0].(*ast.AssignStmt)
		if !isA || len(as.Lhs) != 1 {
			return true
		}
		ix, isI := as.Lhs[0].(*ast.IndexExpr)
		if !isI || types.ExprString(ix.X) != "out" {
			return true
		}
		_, kc := ix.Index.(*ast.CallExpr)
		_, vc := as.Rhs[0].(*ast.CallExpr)
		// counted to l
		cond, isB := fs.Cond.(*ast.BinaryExpr)
		if kc && vc && isB && types.ExprString(cond.Y) == "l" {
			ok = true
		}
		return true
	})
	return ok
}

func unionEager(files []*ast.File) bool {
	eager := false
	for _, f := range files {
		ast.Inspect(f, func(n ast.Node) bool {
			if cl, ok := n.(*ast.CompositeLit); ok {
				for _, el := range cl.Elts {
					if _, isCall := el.(*ast.CallExpr); isCall {
						eager = true
					}
				}
			}
			return true
		})
	}
	return eager
}

func checkRandUnion(w *World, r *Result) {
	fi := w.MustFunc("generator/go/randdata.(context).codeForUnion")
	info := fi.Pkg.TypesInfo
	var loop *ast.RangeStmt
	ast.Inspect(fi.Decl.Body, func(x ast.Node) bool {
		if rs, ok := x.(*ast.RangeStmt); ok && strings.HasSuffix(es(rs.X), ".Members") {
			loop = rs
		}
		return true
	})
	if loop == nil {
		Undecided("randdata.codeForUnion: no loop over Members")
	}
	_, ok, why := loopAppendsOnce(fi, loop)
	// rand.Intn(%d) fed with len(ty.Members)
	intnOK := false
	ast.Inspect(fi.Decl.Body, func(x ast.Node) bool {
		call := sprintfView(info, x)
		if call == nil {
			return true
		}
		format, vas := verbArgs(info, call)
		i := strings.Index(format, "rand.Intn(%")
		if i < 0 {
			return true
		}
		for _, va := range vas {
			if va.start == i+len("rand.Intn(") && va.arg != nil {
				if l, isL := va.arg.(*ast.CallExpr); isL && isBuiltinCall(info, l, "len") && es(l.Args[0]) == es(loop.X) {
					intnOK = true
				}
			}
		}
		return true
	})
	r.cond(ok && intnOK, "AGR-C15u", fi.Name, "one choice per member, index below the member count", w.Pos(loop.Pos()), "the choice list grows once per member and the index is rand.Intn(len(Members)): every result is a generated, non-nil member", "the union template's choice list and its index bound are not both derived from the member list ("+why+"): an index out of range, or members that are never produced")
}

func checkRandEnum(w *World, r *Result, files []*ast.File) {
	fi := w.MustFunc("generator/go/randdata.(context).codeForEnum")
	good := false
	for _, f := range files {
		for _, d := range f.Decls {
			fd, ok := d.(*ast.FuncDecl)
			if !ok {
				continue
			}
			hasList, idx, ret := false, false, false
			ast.Inspect(fd, func(n ast.Node) bool {
				switch v := n.(type) {
				case *ast.AssignStmt:
					if len(v.Lhs) == 1 && types.ExprString(v.Lhs[0]) == "choix" {
						hasList = true
					}
					if len(v.Lhs) == 1 && types.ExprString(v.Lhs[0]) == "i" && types.ExprString(v.Rhs[0]) == "rand.Intn(len(choix))" {
						idx = true
					}
				case *ast.ReturnStmt:
					if len(v.Results) == 1 && types.ExprString(v.Results[0]) == "choix[i]" {
						ret = true
					}
				}
				return true
			})
			if hasList {
				good = idx && ret
			}
		}
	}
	r.cond(good, "AGR-C15e", fi.Name, "table-based enum: index below len(choix), returns choix[i]", fnPos(w, fi), "i := rand.Intn(len(choix)); return choix[i]", "the enum template that draws from the table of exported constants does not index it with rand.Intn(len(choix))")
}

func checkRandStruct(w *World, r *Result) {
	fi := w.MustFunc("generator/go/randdata.(context).codeForStruct")
	info := fi.Pkg.TypesInfo
	var fl *fieldLoop
	for _, l := range fieldLoops(w) {
		if l.fn == fi {
			fl = l
		}
	}
	if fl == nil {
		Undecided("randdata.codeForStruct: no field loop")
	}
	// leading guard: a single if with || of the two skip conditions
	okGuard := false
	var got []string
	if len(fl.rs.Body.List) > 0 {
		if is, ok := fl.rs.Body.List[0].(*ast.IfStmt); ok && terminates(is.Body) && is.Else == nil {
			for _, c := range disjuncts(is.Cond, true) {
				s := render(info, c.expr, fl.subst)
				if !c.truth {
					s = "!(" + s + ")"
				}
				got = append(got, s)
			}
			want := []string{"!($f.Field.Exported())", `$f.Tag.Get("gomacro-data") == "ignore"`}
			okGuard = setEq(got, want)
		}
	}
	r.cond(okGuard, "AGR-C15s", fi.Name, "skip exactly unexported fields and gomacro-data:\"ignore\"", w.Pos(fl.rs.Pos()), "the loop starts with `if !f.Field.Exported() || tag == \"ignore\" { continue }`: skipped fields keep their zero value and nothing is generated for them", "the struct loop's leading skip is {"+strings.Join(got, " || ")+"} instead of exactly {unexported, gomacro-data:\"ignore\"}: a field marked to be skipped is filled, or an unexported field is assigned")
	// assignment s.<Field.Name()> = rand<functionID(f.Type)>()
	okAssign := false
	ast.Inspect(fl.rs.Body, func(x ast.Node) bool {
		call := sprintfView(info, x)
		if call == nil {
			return true
		}
		format, vas := verbArgs(info, call)
		if strings.HasPrefix(format, "s.%s = rand%s()") && len(vas) == 2 {
			a0 := render(info, vas[0].arg, fl.subst)
			a1 := render(info, vas[1].arg, fl.subst)
			okAssign = a0 == "$f.Field.Name()" && a1 == "ctx.functionID($f.Type)"
		}
		return true
	})
	r.cond(okAssign, "AGR-C15s", fi.Name, "s.<field> = rand<functionID(field type)>()", w.Pos(fl.rs.Pos()), "each kept field is assigned from the generator of its own type", "a kept field is not assigned from the generator named functionID(field.Type)")
}

// checkDeclaredOnEveryPath (AGR-C15d): callers name the generator of a type `rand<functionID(type)>()` without
// asking whether it exists, so every code* function of randdata must return the declaration of its function on
// every path: a `return nil` (an "empty struct needs no generator" shortcut) leaves those calls undefined.
func checkDeclaredOnEveryPath(w *World, r *Result) {
	n := 0
	for _, fi := range sortedFuncs(w) {
		if w.Rel(fi.Obj.Pkg()) != "generator/go/randdata" || fi.Decl.Body == nil || !strings.HasPrefix(fi.Obj.Name(), "codeFor") {
			continue
		}
		sig := fi.Obj.Type().(*types.Signature)
		if sig.Results().Len() != 1 {
			continue
		}
		if _, isSlice := sig.Results().At(0).Type().Underlying().(*types.Slice); !isSlice {
			continue // returns one Declaration by value: cannot be empty
		}
		info := fi.Pkg.TypesInfo
		ast.Inspect(fi.Decl.Body, func(x ast.Node) bool {
			if _, ok := x.(*ast.FuncLit); ok {
				return false
			}
			ret, ok := x.(*ast.ReturnStmt)
			if !ok {
				return true
			}
			n++
			empty := false
			if len(ret.Results) == 1 {
				if tv := info.Types[ret.Results[0]]; tv.IsNil() {
					empty = true
				}
				if lit, ok := ast.Unparen(ret.Results[0]).(*ast.CompositeLit); ok && len(lit.Elts) == 0 {
					empty = true
				}
			}
			// a bare return of the named result before anything was appended to it
			if len(ret.Results) == 0 && sig.Results().At(0).Name() != "" {
				appended := false
				ast.Inspect(fi.Decl.Body, func(y ast.Node) bool {
					if as, ok := y.(*ast.AssignStmt); ok && as.Pos() < ret.Pos() {
						for _, l := range as.Lhs {
							if id := identOf(l); id != nil && id.Name == sig.Results().At(0).Name() {
								appended = true
							}
						}
					}
					return true
				})
				empty = !appended
			}
			r.cond(!empty, "AGR-C15d", fi.Name, "return at "+w.Pos(ret.Pos()), w.Pos(ret.Pos()),
				"returns the collected declarations",
				"this path returns no declaration: the type's generator is never defined, while every user of the type still calls rand<functionID>() (undefined identifier in the generated file)")
			return true
		})
	}
	if n < 5 {
		Undecided("AGR-C15d: only %d returns found in the code* functions of randdata", n)
	}
}

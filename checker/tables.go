package main

// Package-level lookup tables.
//
// A dispatch on constants can be written as a switch, as an if-chain, or as a lookup in a package-level map / array
// initialised by a composite literal. pkgTable resolves the third form to its entries so that the rules that read
// "which result for which constant" see all three alike. A table only counts when nothing in the module writes it
// after its declaration (no assignment rooted at the variable, its address never taken, never passed to a function
// of the module): it is then as constant as a switch.

import (
	"go/ast"
	"go/constant"
	"go/token"
	"go/types"
	"strings"
)

type tableEntry struct {
	key ast.Expr // nil for positional elements of arrays and slices
	val ast.Expr
}

type pkgTableInfo struct {
	obj     *types.Var
	info    *types.Info // type information of the declaring package
	entries []tableEntry
	isMap   bool
	pos     token.Pos
}

func pkgTable(w *World, info *types.Info, e ast.Expr) *pkgTableInfo {
	id := identOf(e)
	if sel, ok := ast.Unparen(e).(*ast.SelectorExpr); ok {
		id = sel.Sel
	}
	if id == nil {
		return nil
	}
	v, ok := info.Uses[id].(*types.Var)
	if !ok || v.IsField() || v.Pkg() == nil || v.Parent() != v.Pkg().Scope() {
		return nil
	}
	var lit *ast.CompositeLit
	var dinfo *types.Info
	for _, p := range w.Pkgs {
		if p.Types != v.Pkg() {
			continue
		}
		for _, f := range p.Syntax {
			for _, d := range f.Decls {
				gd, ok := d.(*ast.GenDecl)
				if !ok {
					continue
				}
				for _, sp := range gd.Specs {
					vs, ok := sp.(*ast.ValueSpec)
					if !ok {
						continue
					}
					for i, nm := range vs.Names {
						if p.TypesInfo.Defs[nm] == types.Object(v) && i < len(vs.Values) {
							lit, _ = ast.Unparen(vs.Values[i]).(*ast.CompositeLit)
							dinfo = p.TypesInfo
						}
					}
				}
			}
		}
	}
	if lit == nil {
		return nil
	}
	// read-only after its declaration
	written := false
	for _, fi := range sortedFuncs(w) {
		if fi.Decl.Body == nil || written {
			continue
		}
		finfo := fi.Pkg.TypesInfo
		root := func(x ast.Expr) bool {
			r := rootIdent(x)
			return r != nil && finfo.Uses[r] == types.Object(v)
		}
		ast.Inspect(fi.Decl.Body, func(x ast.Node) bool {
			switch s := x.(type) {
			case *ast.AssignStmt:
				for _, l := range s.Lhs {
					if root(l) {
						written = true
					}
				}
			case *ast.IncDecStmt:
				if root(s.X) {
					written = true
				}
			case *ast.UnaryExpr:
				if s.Op == token.AND && root(s.X) {
					written = true
				}
			case *ast.CallExpr:
				fn := calleeOf(finfo, s)
				if isBuiltinCall(finfo, s, "delete") || isBuiltinCall(finfo, s, "clear") {
					if len(s.Args) > 0 && root(s.Args[0]) {
						written = true
					}
				}
				if fn != nil && w.Funcs[fn] != nil {
					for _, a := range s.Args {
						if i := identOf(a); i != nil && finfo.Uses[i] == types.Object(v) {
							if _, isArr := v.Type().Underlying().(*types.Array); !isArr {
								written = true // maps and slices share storage with the callee
							}
						}
					}
				}
			}
			return !written
		})
	}
	if written {
		return nil
	}
	t := &pkgTableInfo{obj: v, info: dinfo, pos: lit.Pos()}
	_, t.isMap = v.Type().Underlying().(*types.Map)
	for _, el := range lit.Elts {
		if kv, ok := el.(*ast.KeyValueExpr); ok {
			t.entries = append(t.entries, tableEntry{kv.Key, kv.Value})
		} else {
			t.entries = append(t.entries, tableEntry{nil, el})
		}
	}
	return t
}

// tableLookup recognises `T[k]` (also as the right-hand side of `v, ok := T[k]`) on a read-only package-level map
// table and returns the table and the key expression.
func tableLookup(w *World, info *types.Info, e ast.Expr) (*pkgTableInfo, ast.Expr) {
	ix, ok := ast.Unparen(e).(*ast.IndexExpr)
	if !ok {
		return nil, nil
	}
	t := pkgTable(w, info, ix.X)
	if t == nil {
		return nil, nil
	}
	if !t.isMap { // an array or slice table is a lookup table when every element is keyed (`[...]T{k1: v1, k2: v2}`)
		for _, en := range t.entries {
			if en.key == nil {
				return nil, nil
			}
		}
	}
	return t, ix.Index
}

// constDispatch describes how a function maps the constants of one type to outcomes, whatever the syntax: a switch on
// a value of that type, equality tests against its constants, or lookups in read-only package-level tables keyed by it.
type constDispatch struct {
	found   bool
	pos     token.Pos
	covered map[string]bool     // constants with an outcome of their own
	results map[string][]string // constant string outcomes per constant (returned or assigned in the arm, or table value)
	refuses bool                // every other value is refused by a panic with a diagnostic
}

func constDispatchOf(w *World, fi *FuncInfo, typeSuffix string) constDispatch {
	info := fi.Pkg.TypesInfo
	d := constDispatch{covered: map[string]bool{}, results: map[string][]string{}}
	isK := func(e ast.Expr) bool {
		t := info.TypeOf(e)
		return t != nil && strings.HasSuffix(t.String(), typeSuffix)
	}
	constName := func(i *types.Info, e ast.Expr) string {
		var id *ast.Ident
		switch v := ast.Unparen(e).(type) {
		case *ast.Ident:
			id = v
		case *ast.SelectorExpr:
			id = v.Sel
		}
		if id == nil {
			return ""
		}
		if c, ok := i.Uses[id].(*types.Const); ok && strings.HasSuffix(c.Type().String(), typeSuffix) {
			return c.Name()
		}
		return ""
	}
	strOf := func(i *types.Info, e ast.Expr) (string, bool) {
		if tv := i.Types[e]; tv.Value != nil && tv.Value.Kind() == constant.String {
			return constant.StringVal(tv.Value), true
		}
		return "", false
	}
	// constant strings returned or assigned directly in a statement list
	outcomes := func(list []ast.Stmt) []string {
		var out []string
		for _, st := range list {
			switch s := st.(type) {
			case *ast.ReturnStmt:
				for _, res := range s.Results {
					if v, ok := strOf(info, res); ok {
						out = append(out, v)
					}
				}
			case *ast.AssignStmt:
				for _, rhs := range s.Rhs {
					if v, ok := strOf(info, rhs); ok {
						out = append(out, v)
					}
				}
			}
		}
		return out
	}
	mark := func(p token.Pos) {
		if !d.found || p < d.pos {
			d.pos = p
		}
		d.found = true
	}
	ast.Inspect(fi.Decl.Body, func(x ast.Node) bool {
		switch s := x.(type) {
		case *ast.SwitchStmt:
			tag := s.Tag
			if tag == nil || !isK(tag) {
				return true
			}
			mark(s.Pos())
			for _, cl := range s.Body.List {
				cc := cl.(*ast.CaseClause)
				if cc.List == nil && len(cc.Body) > 0 {
					if p, diag := isPanicStmt(info, cc.Body[len(cc.Body)-1]); p && diag {
						d.refuses = true
					}
				}
				for _, e := range cc.List {
					if n := constName(info, e); n != "" {
						d.covered[n] = true
						d.results[n] = append(d.results[n], outcomes(cc.Body)...)
					}
				}
			}
		case *ast.IfStmt:
			be, ok := ast.Unparen(s.Cond).(*ast.BinaryExpr)
			if !ok || be.Op != token.EQL {
				return true
			}
			for _, pr := range [][2]ast.Expr{{be.X, be.Y}, {be.Y, be.X}} {
				if n := constName(info, pr[1]); n != "" && isK(pr[0]) {
					mark(s.Pos())
					d.covered[n] = true
					d.results[n] = append(d.results[n], outcomes(s.Body.List)...)
				}
			}
		case *ast.IndexExpr:
			t, key := tableLookup(w, info, s)
			if t == nil || !isK(key) {
				return true
			}
			mark(s.Pos())
			for _, en := range t.entries {
				if n := constName(t.info, en.key); n != "" {
					d.covered[n] = true
					if v, ok := strOf(t.info, en.val); ok {
						d.results[n] = append(d.results[n], v)
					}
				}
			}
		}
		return true
	})
	// `v, ok := T[k]` followed by `if !ok { panic(diagnostic) }`
	ast.Inspect(fi.Decl.Body, func(x ast.Node) bool {
		as, ok := x.(*ast.AssignStmt)
		if !ok || len(as.Lhs) != 2 || len(as.Rhs) != 1 {
			return true
		}
		if t, key := tableLookup(w, info, as.Rhs[0]); t == nil || !isK(key) {
			return true
		}
		okID := identOf(as.Lhs[1])
		if okID == nil {
			return true
		}
		okObj := objOf(info, okID)
		ast.Inspect(fi.Decl.Body, func(y ast.Node) bool {
			is, isIf := y.(*ast.IfStmt)
			if !isIf || len(is.Body.List) == 0 {
				return true
			}
			for _, c := range splitCond(is.Cond, true) {
				if id := identOf(c.expr); id != nil && objOf(info, id) == okObj && !c.truth {
					if p, diag := isPanicStmt(info, is.Body.List[len(is.Body.List)-1]); p && diag {
						d.refuses = true
					}
				}
			}
			return true
		})
		return true
	})
	return d
}

// acceptedStrings: the string constants for which the predicate fi returns true, read from whichever spelling it
// uses: `switch s { case "A", "B": return true }`, `return s == "A" || s == "B"` (or an if returning true), a
// membership test in a read-only package-level table (`_, ok := T[s]; return ok`, `return T[s]` for a map of bool,
// `slices.Contains(T, s)`).
func acceptedStrings(w *World, fi *FuncInfo) map[string]bool {
	info := fi.Pkg.TypesInfo
	out := map[string]bool{}
	str := func(i *types.Info, e ast.Expr) (string, bool) {
		if e == nil {
			return "", false
		}
		if tv := i.Types[e]; tv.Value != nil && tv.Value.Kind() == constant.String {
			return constant.StringVal(tv.Value), true
		}
		return "", false
	}
	isTrue := func(e ast.Expr) bool {
		tv := info.Types[e]
		return tv.Value != nil && tv.Value.Kind() == constant.Bool && constant.BoolVal(tv.Value)
	}
	returnsTrue := func(list []ast.Stmt) bool {
		for _, st := range list {
			if ret, ok := st.(*ast.ReturnStmt); ok && len(ret.Results) == 1 && isTrue(ret.Results[0]) {
				return true
			}
		}
		return false
	}
	var fromCond func(e ast.Expr)
	fromCond = func(e ast.Expr) {
		e = ast.Unparen(e)
		switch v := e.(type) {
		case *ast.BinaryExpr:
			if v.Op == token.LOR {
				fromCond(v.X)
				fromCond(v.Y)
				return
			}
			if v.Op == token.EQL {
				for _, side := range []ast.Expr{v.X, v.Y} {
					if s, ok := str(info, side); ok {
						out[s] = true
					}
				}
			}
		case *ast.IndexExpr: // T[s] on a map of bool
			if t, _ := tableLookup(w, info, v); t != nil {
				for _, en := range t.entries {
					if tv := t.info.Types[en.val]; tv.Value != nil && tv.Value.Kind() == constant.Bool && constant.BoolVal(tv.Value) {
						if s, ok := str(t.info, en.key); ok {
							out[s] = true
						}
					}
				}
			}
		case *ast.CallExpr:
			if fullName(calleeOf(info, v)) == "slices.Contains" && len(v.Args) == 2 {
				if t := pkgTable(w, info, v.Args[0]); t != nil {
					for _, en := range t.entries {
						if s, ok := str(t.info, en.val); ok {
							out[s] = true
						}
					}
				}
			}
		case *ast.Ident: // ok of `_, ok := T[s]`
			for _, d := range defsIn(info, fi.Decl, objOf(info, v)) {
				if t, _ := tableLookup(w, info, d); t != nil {
					for _, en := range t.entries {
						if s, ok := str(t.info, en.key); ok {
							out[s] = true
						}
					}
				}
			}
		}
	}
	ast.Inspect(fi.Decl.Body, func(x ast.Node) bool {
		switch s := x.(type) {
		case *ast.CaseClause:
			if returnsTrue(s.Body) {
				for _, e := range s.List {
					if v, ok := str(info, e); ok {
						out[v] = true
					} else {
						fromCond(e) // tagless switch
					}
				}
			}
		case *ast.IfStmt:
			if returnsTrue(s.Body.List) {
				fromCond(s.Cond)
			}
		case *ast.ReturnStmt:
			if len(s.Results) == 1 && !isTrue(s.Results[0]) {
				fromCond(s.Results[0])
			}
		}
		return true
	})
	return out
}

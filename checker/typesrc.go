package main

// TYPE-SRC: Go type strings printed by the Go generators never come from the analysis' view of time.Time.
//
// analysis.(*Time).Type() is a synthetic named type `Time` / `Date` without package (the analysis reports time
// types as predefined); Array, Map and Pointer nodes rebuild their Go type from their children, so they carry it
// along. types.TypeString of such a type prints `Time`, `[]Time`, `map[string]Time`: undefined identifiers in the
// generated file. Obligations: every types.TypeString call of the Go generators whose argument is X.Type() with X
// an analysis node: X's static type must be a named kind (*Struct, *Named, *Enum, *Union: Type() is the stored
// *types.Named), or the enclosing function must first dispatch on X with cases for *Time and for every container
// kind (*Pointer, *Array, *Map), leaving only named kinds and basics for the TypeString call.

import (
	"go/ast"
	"go/types"
	"strings"
)

func typeSrcRule(w *World, r *Result, rels []string) int {
	n := 0
	inScope := map[string]bool{}
	for _, rel := range rels {
		inScope[rel] = true
	}
	for _, fi := range sortedFuncs(w) {
		if fi.Decl.Body == nil || !inScope[w.Rel(fi.Obj.Pkg())] {
			continue
		}
		info := fi.Pkg.TypesInfo
		ast.Inspect(fi.Decl.Body, func(x ast.Node) bool {
			call, ok := x.(*ast.CallExpr)
			if !ok || fullName(calleeOf(info, call)) != "go/types.TypeString" || len(call.Args) < 1 {
				return true
			}
			tc, ok := ast.Unparen(call.Args[0]).(*ast.CallExpr)
			if !ok || len(tc.Args) != 0 {
				return true
			}
			sel, ok := tc.Fun.(*ast.SelectorExpr)
			if !ok || sel.Sel.Name != "Type" {
				return true
			}
			rt := info.TypeOf(sel.X)
			if rt == nil || !strings.Contains(rt.String(), "/analysis.") {
				return true // a go/types object (Field.Type(), Obj().Type()): the source's own type
			}
			n++
			cons := es(call.Args[0])
			pos := w.Pos(call.Pos())
			kind := rt.String()[strings.LastIndex(rt.String(), ".")+1:]
			switch kind {
			case "Struct", "Named", "Enum", "Union":
				r.ok("TYPE-SRC", fi.Name, cons, pos, "Type() of a *"+kind+" is the stored *types.Named of the source", false)
				return true
			case "Time", "Array", "Map", "Pointer":
				r.bad("TYPE-SRC", fi.Name, cons, pos, "the Go type of a *"+kind+" node is rebuilt by the analysis and prints time.Time as the package-less `Time`: undefined identifier in the generated file")
				return true
			}
			// the interface analysis.Type: needs a dispatch on the same value before
			handled := map[string]bool{}
			ast.Inspect(fi.Decl.Body, func(y ast.Node) bool {
				ts, ok := y.(*ast.TypeSwitchStmt)
				if !ok || ts.End() > call.Pos() {
					return true
				}
				var subj ast.Expr
				switch a := ts.Assign.(type) {
				case *ast.AssignStmt:
					if ta, ok := a.Rhs[0].(*ast.TypeAssertExpr); ok {
						subj = ta.X
					}
				case *ast.ExprStmt:
					if ta, ok := a.X.(*ast.TypeAssertExpr); ok {
						subj = ta.X
					}
				}
				if subj == nil || render(info, subj, nil) != render(info, sel.X, nil) {
					return true
				}
				for _, cl := range ts.Body.List {
					cc := cl.(*ast.CaseClause)
					if len(cc.Body) == 0 || !terminates(&ast.BlockStmt{List: cc.Body}) {
						continue // the case must leave the function (return / panic)
					}
					for _, e := range cc.List {
						t := es(e)
						handled[t[strings.LastIndex(t, ".")+1:]] = true
					}
				}
				return true
			})
			var missing []string
			for _, k := range []string{"Time", "Pointer", "Array", "Map"} {
				if !handled[k] {
					missing = append(missing, k)
				}
			}
			if len(missing) == 0 {
				r.ok("TYPE-SRC", fi.Name, cons, pos, "reached only after a dispatch on the node that returns for *Time and every container kind: only named kinds and basics are printed from Type()", true)
			} else {
				r.bad("TYPE-SRC", fi.Name, cons, pos, "the Go type string is taken from Type() of an analysis node that may be (or contain) a time type -- kinds not handled before: "+strings.Join(missing, ", ")+". The analysis' view of time.Time is the package-less `Time`: `[]time.Time`, `*time.Time` or a time.Time field print as `[]Time`, `*Time`, `Time`, undefined in the generated file; print from the go/types type of the source (Field.Type()) instead")
			}
			return true
		})
	}
	return n
}

var _ types.Type

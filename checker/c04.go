package main

// C04: Postgres JSON validators.

import (
	"fmt"
	"go/ast"
	"go/constant"
	"go/token"
	"go/types"
	"strings"
)

func init() { register("C04", "other", checkC04) }

func checkC04(w *World, r *Result) {
	r.Explanation = "Decides structural necessary conditions on generator/sql/json.go and tables.go: AGR-C04a/AGR-MD every validator a function body calls (functionName(child)) is generated in the same function on the same path (codeFor(child)), and the naming function never follows a child the generator skips (REC-SHAPE): every called validator is defined in the script; AGR-C04b a jsonb column gets, in one branch, the declarations of its validators and a CHECK calling the validator named for that very type, and jsonValidations names and generates the same type; DECL-ID the CHECK declaration's ID covers table, column and validator (no two CHECKs merged away); AGR-C04n the optional fragments of the array validator are present exactly for their case: the length criterion for fixed arrays (Len >= 0), the empty-array and null acceptance only for slices; the map validator accepts null; AGR-C04l struct keys and per-key checks are appended in lock-step, once per exported field keyed by JSONName (CONS), with an unknown-key rejection (key IN …); AGR-C04u the union validator switches on the members' local Go names (AGR-C02b) and ends with ELSE RETURN FALSE; AGR-C04e the enum validator lists every member via enumTuple with the cast matching the enum's kind; EXH-b typeID and codeFor accept the same kinds; TPL-4 bracket and BEGIN/IF/CASE balance of the PL/pgSQL templates. Does not decide: acceptance or rejection of any document under PostgreSQL's three-valued semantics (needs an evaluator of PL/pgSQL). Known finding: typeID recurses through named types without a guard (`type T []T`)."
	r.Rules = []string{"AGR-MD", "REC-SHAPE", "AGR-C04b", "DECL-ID", "AGR-C04n", "AGR-C04l", "AGR-C04k", "CONS", "AGR-C04u", "AGR-C02b", "AGR-C04e", "EXH-b", "TPL-4", "REC-kind", "GEN-ID", "CONST-EXACT", "FLW-C09a", "AGR-C09b", "UTF8-SLICE", "ALIAS-APPEND", "STATE-PKG", "PRINTF", "CACHE-DROP", "MUT-AN", "AGR-C09c", "CUTSET", "BYTES-KIND"}
	bytesKindRule(w, r, "generator/sql", "generator/sql.codeFor")
	mutAnRule(w, r, func(rel string) bool { return rel == "generator/sql" })
	// which embedded fields are flattened decides the keys this generator reads and writes (rule shared with C09)
	shared(r, nil, func(sub *Result) { checkFlatten(w, sub) })
	cacheDropRule(w, r, func(rel string) bool { return rel == "generator/sql" })
	printfRule(w, r, "generator/sql")
	statePkgRule(w, r, func(rel string) bool {
		return rel == "analysis" || rel == "analysis/sql" || rel == "generator/sql" || rel == "generator"
	})
	aliasAppendRule(w, r, func(rel string) bool { return rel == "analysis" || rel == "generator/sql" || rel == "generator" })
	mentionDeclare(w, r, "AGR-MD", "generator/sql", []string{"generator/sql.functionName", "generator/sql.typeID"}, "generator/sql.codeFor", map[string]bool{"generator/sql.functionName": true, "generator/sql.codeForBasicOrTime": true, "generator/sql.codeForEnum": true, "generator/sql.jsonValidations": true})
	recursionShape(w, r, "REC-SHAPE", "generator/sql.typeID", "generator/sql.codeFor")
	siblingAgreement(w, r, "EXH-b", []string{"generator/sql.codeFor", "generator/sql.typeID"})
	checkCheckWiring(w, r)
	declIDRule(w, r, "generator/sql")
	genIDAccumulation(w, r)
	genIDRule(w, r, "generator/sql")
	utf8SliceRule(w, r, func(rel string) bool { return rel == "generator/sql" || rel == "generator" })
	if _, n := constExactRule(w, r, func(rel string) bool { return rel == "generator/sql" || rel == "generator" }); n < 1 {
		Undecided("CONST-EXACT: fewer enum value renderings than confirmed by hand")
	}
	checkArrayFragments(w, r)
	checkStructValidator(w, r)
	kindProvenance(w, r, "AGR-C02b", "generator/sql.codeForUnion", 1)
	checkUnionEnumValidators(w, r)
	runTPLBalance(w, r, "generator/sql", 2)
	tplBalanceFor(w, r, allTemplateFuncs(w, "generator/sql"))
	// termination of the naming function (shared with C18)
	sub := &Result{}
	runREC(w, sub, func(rel string) bool { return rel == "generator/sql" })
	for _, o := range sub.Obs {
		r.add(o)
	}
	subc := &Result{}
	checkJSONConsumers(w, subc, "CONS")
	// the key set itself: which fields are ignored and under which key a field is written (rules shared with C09)
	checkJSONName(w, r)
	checkExported(w, r)
	checkEmptyKeyList(w, r)
	for _, o := range subc.Obs {
		if strings.HasPrefix(o.Func, "generator/sql") {
			r.add(o)
		}
	}
}

func checkCheckWiring(w *World, r *Result) {
	jv := w.MustFunc("generator/sql.jsonValidations")
	info := jv.Pkg.TypesInfo
	var genArg, nameArg string
	ast.Inspect(jv.Decl.Body, func(x ast.Node) bool {
		if call, ok := x.(*ast.CallExpr); ok && len(call.Args) >= 1 {
			switch {
			case strings.HasSuffix(fullName(calleeOf(info, call)), "sql.codeFor"):
				genArg = es(call.Args[0])
			case strings.HasSuffix(fullName(calleeOf(info, call)), "sql.functionName"):
				nameArg = es(call.Args[0])
			}
		}
		return true
	})
	r.cond(genArg != "" && genArg == nameArg, "AGR-C04b", jv.Name, "validators generated and named for the same type", fnPos(w, jv), "codeFor("+genArg+") and functionName("+nameArg+")", "jsonValidations generates validators for "+genArg+" but returns the name for "+nameArg)
	gt := w.MustFunc("generator/sql.generateTable")
	_ = gt.Pkg.TypesInfo
	// the JSON branch: `if js, isJSON := f.SQLType.(sql.JSON); isJSON { … }`. What it must do is read over the
	// branch and the helpers of the package it calls (two levels), a helper's parameters standing for what is passed:
	// (A) jsonValidations is called once, on that very js; (B) its first result (the validator declarations) is
	// appended to the output; (C) a CHECK is formatted with SQLTableName(<table>.TableName()), the column's Go field
	// name twice, and the second result of that same call (the validator's name).
	good := false
	var pos = gt.Decl.Pos()
	ast.Inspect(gt.Decl.Body, func(x ast.Node) bool {
		// the branch for a JSON column: `if js, isJSON := f.SQLType.(sql.JSON); isJSON { … }`, or the `case sql.JSON:`
		// clause of `switch ty := f.SQLType.(type)`
		var js *ast.Ident
		var subject ast.Expr
		var branch []ast.Stmt
		switch v := x.(type) {
		case *ast.IfStmt:
			init, ok := v.Init.(*ast.AssignStmt)
			if !ok || len(init.Rhs) != 1 || !strings.Contains(es(init.Rhs[0]), "sql.JSON") {
				return true
			}
			ta, ok := ast.Unparen(init.Rhs[0]).(*ast.TypeAssertExpr)
			if !ok {
				return true
			}
			js, subject, branch = identOf(init.Lhs[0]), ta.X, v.Body.List
			pos = v.Pos()
		case *ast.TypeSwitchStmt:
			as, ok := v.Assign.(*ast.AssignStmt)
			if !ok {
				return true
			}
			for _, cl := range v.Body.List {
				cc := cl.(*ast.CaseClause)
				if len(cc.List) == 1 && strings.HasSuffix(es(cc.List[0]), "sql.JSON") {
					js, subject, branch = identOf(as.Lhs[0]), as.Rhs[0].(*ast.TypeAssertExpr).X, cc.Body
					pos = cc.Pos()
				}
			}
		default:
			return true
		}
		if js == nil || branch == nil {
			return true
		}
		is := &ast.BlockStmt{List: branch}
		colOwner := strings.TrimSuffix(es(subject), ".SQLType") // f
		jvCalls, jvArgOK, declsFlow, checkOK := 0, false, false, false
		var scan func(fi *FuncInfo, scope ast.Node, base map[types.Object]string, depth int)
		scan = func(fi *FuncInfo, scope ast.Node, base map[types.Object]string, depth int) {
			info := fi.Pkg.TypesInfo
			sub := inlineLocalsWith(info, fi.Decl, base)
			for k, v := range base {
				sub[k] = v
			}
			// (A) the call of jsonValidations and the names of its results
			ast.Inspect(scope, func(y ast.Node) bool {
				as, ok := y.(*ast.AssignStmt)
				if !ok || len(as.Lhs) != 2 || len(as.Rhs) != 1 {
					return true
				}
				call, ok := as.Rhs[0].(*ast.CallExpr)
				if !ok || calleeOf(info, call) != jv.Obj || len(call.Args) != 1 {
					return true
				}
				jvCalls++
				if a := render(info, call.Args[0], sub); a == js.Name || a == js.Name+".Type()" {
					jvArgOK = true // the column's JSON type, handed over whole or as the Go type it stores
				}
				if d, n := identOf(as.Lhs[0]), identOf(as.Lhs[1]); d != nil && n != nil {
					sub[objOf(info, d)] = "$jvDecls"
					sub[objOf(info, n)] = "$jvName"
				}
				return true
			})
			ast.Inspect(scope, func(y ast.Node) bool {
				call, ok := y.(*ast.CallExpr)
				if !ok {
					return true
				}
				// (B) the declarations are appended (to the output list, or the constraint to them)
				if isBuiltinCall(info, call, "append") {
					for _, a := range call.Args {
						if render(info, a, sub) == "$jvDecls" {
							declsFlow = true
						}
					}
				}
				// (C) the CHECK text
				if c2 := sprintfView(info, call); c2 != nil {
					format, vas := verbArgs(info, c2)
					if strings.Contains(format, "CHECK (%s(%s))") && len(vas) == 4 {
						var a [4]string
						for i := range a {
							a[i] = render(info, vas[i].arg, sub)
						}
						if strings.HasPrefix(a[0], "gen.SQLTableName(") && strings.HasSuffix(a[0], ".TableName())") && a[2] == "$jvName" && a[1] == a[3] && a[1] == colOwner+".Field.Field.Name()" {
							checkOK = true
						}
					}
					return true
				}
				// a helper of the package: its parameters stand for the arguments
				cf := w.Funcs[calleeOf(info, call)]
				if cf == nil || cf.Pkg != gt.Pkg || cf == jv || cf == fi || cf.Decl.Body == nil || depth >= 2 {
					return true
				}
				params := map[types.Object]string{}
				k := 0
				for _, f := range cf.Decl.Type.Params.List {
					for _, nm := range f.Names {
						if k < len(call.Args) {
							params[cf.Pkg.TypesInfo.Defs[nm]] = render(info, call.Args[k], sub)
						}
						k++
					}
				}
				scan(cf, cf.Decl.Body, params, depth+1)
				return true
			})
		}
		scan(gt, is, nil, 0)
		good = jvCalls == 1 && jvArgOK && declsFlow && checkOK
		return true
	})
	r.cond(good, "AGR-C04b", gt.Name, "jsonb column: validators + CHECK calling the validator of that column's type", w.Pos(pos), "one branch appends jsonValidations(js) declarations and `ALTER TABLE <table> ADD CONSTRAINT <col>_gomacro CHECK (<validator>(<col>))` with the validator name returned for the same column", "the jsonb branch does not emit both the validator declarations and a CHECK that calls the validator named for this column's type on this column")
}

// checkArrayFragments (AGR-C04n)
func checkArrayFragments(w *World, r *Result) {
	fi := w.MustFunc("generator/sql.codeForArray")
	info := fi.Pkg.TypesInfo
	type frag struct {
		marker, want, what string
	}
	frags := []frag{
		{"jsonb_array_length(data) = %d", "fixed", "length criterion"},
		{"jsonb_array_length(data) = 0 THEN RETURN TRUE", "slice", "empty-array acceptance"},
		{"'null' THEN RETURN TRUE", "slice", "null acceptance"},
	}
	// classOf evaluates the conjunction of the Len tests on the path to n over a fixed array (Len 3), an empty fixed
	// array (Len 0) and a slice (Len -1): "fixed", "slice", "always" (no test), "dead" (no array reaches n), "other"
	classOf := func(n ast.Node) string {
		onFixed, onZero, onSlice, any := true, true, true, false
		for _, c := range pathConds(fi.Decl, n) {
			if c.expr == nil || !strings.Contains(es(c.expr), ".Len") {
				continue
			}
			be, ok := c.expr.(*ast.BinaryExpr)
			if !ok {
				continue
			}
			k, isK := constInt(info, be.Y)
			if !isK {
				continue
			}
			any = true
			onFixed = onFixed && evalCmp(be.Op, 3, k) == c.truth
			onZero = onZero && evalCmp(be.Op, 0, k) == c.truth
			onSlice = onSlice && evalCmp(be.Op, -1, k) == c.truth
		}
		switch {
		case !any:
			return "always"
		case onFixed && onZero && !onSlice:
			return "fixed"
		case !onFixed && !onZero && onSlice:
			return "slice"
		case !onFixed && !onZero && !onSlice:
			return "dead"
		}
		return "other"
	}
	for _, f := range frags {
		var sites []ast.Node
		ast.Inspect(fi.Decl.Body, func(x ast.Node) bool {
			// a declaration of a named constant is not a use: its uses are
			if gd, ok := x.(*ast.GenDecl); ok && gd.Tok == token.CONST {
				return false
			}
			switch v := x.(type) {
			case *ast.BasicLit:
				tv := info.Types[v]
				if tv.Value != nil && tv.Value.Kind() == constant.String && strings.Contains(constant.StringVal(tv.Value), f.marker) {
					sites = append(sites, v)
				}
			case *ast.Ident:
				if c, ok := info.Uses[v].(*types.Const); ok && c.Val().Kind() == constant.String && strings.Contains(constant.StringVal(c.Val()), f.marker) {
					sites = append(sites, v)
				}
			}
			return true
		})
		// sites that no array reaches (a default clause after `Len >= 0` and `Len == -1`) say nothing
		var live []ast.Node
		for _, s := range sites {
			if classOf(s) != "dead" {
				live = append(live, s)
			}
		}
		sites = live
		if len(sites) == 0 {
			r.bad("AGR-C04n", fi.Name, f.what, fnPos(w, fi), "the "+f.what+" fragment is no longer part of the array validator")
			continue
		}
		for _, s := range sites {
			got := classOf(s)
			r.cond(got == f.want, "AGR-C04n", fi.Name, f.what+" only for "+f.want+" arrays", w.Pos(s.Pos()), "set under a test of Len that selects exactly the "+f.want+" case", "the "+f.what+" is set for '"+got+"' arrays instead of exactly the "+f.want+" case: e.g. `[]` is accepted for a fixed-length array, or null/empty rejected for a slice")
		}
	}
	// the length criterion is a conjunct of the RETURN expression, outside the aggregate sub-select: inside
	// bool_and(...) it is evaluated once per element -- never for an empty array, where the aggregate is NULL and the
	// CHECK passes
	pa := w.ByRel["generator/sql"]
	if va, _ := pa.Types.Scope().Lookup("vArray").(*types.Const); va != nil {
		tpl := constant.StringVal(va.Val())
		ri := strings.Index(tpl, "RETURN (SELECT")
		if ri < 0 {
			Undecided("AGR-C04n: the array validator no longer returns a (SELECT bool_and(...)) expression")
		}
		// position where the parenthesis opened by "(SELECT" closes
		depth, closeAt := 0, -1
		for i := ri + len("RETURN "); i < len(tpl); i++ {
			if tpl[i] == '(' {
				depth++
			} else if tpl[i] == ')' {
				depth--
				if depth == 0 {
					closeAt = i
					break
				}
			}
		}
		// holes of the template in order; the criterion is the hole filled from the variable set under Len >= 0
		holes := verbRe.FindAllStringIndex(tpl, -1)
		inside := 0
		for _, h := range holes {
			if h[0] > ri && h[0] < closeAt {
				inside++
			}
		}
		// exactly one hole may sit inside the sub-select: the element validator's name
		r.cond(closeAt > 0 && inside == 1, "AGR-C04n", "generator/sql.<package-level>", "length criterion outside the aggregate", w.Pos(va.Pos()),
			"the sub-select holds only the element validator; the criterion follows its closing parenthesis",
			fmt.Sprintf("%d holes are filled inside (SELECT bool_and(...)): a criterion placed inside the aggregate is evaluated per element and never for `[]`, for which bool_and is NULL -- an empty array then passes the CHECK of a fixed-length array", inside))
	}
	// map accepts null
	p := w.ByRel["generator/sql"]
	vm, _ := p.Types.Scope().Lookup("vMap").(*types.Const)
	if vm == nil {
		r.warn("template constant vMap not found")
		return
	}
	s := constant.StringVal(vm.Val())
	r.cond(strings.Contains(s, "jsonb_typeof(data) = 'null'") && strings.Contains(s, "RETURN TRUE"), "AGR-C04n", "generator/sql.<package-level>", "map validator accepts null", w.Pos(vm.Pos()), "nil maps are encoded as null", "the map validator no longer accepts null (a nil Go map)")
}

func checkStructValidator(w *World, r *Result) {
	fi := w.MustFunc("generator/sql.codeForStruct")
	info := fi.Pkg.TypesInfo
	var fl *fieldLoop
	for _, l := range fieldLoops(w) {
		if l.fn == fi {
			fl = l
		}
	}
	if fl == nil {
		Undecided("sql.codeForStruct: no field loop")
	}
	apps := appendStmts(info, fl.rs.Body, "")
	names := map[string]string{}
	lock := true
	// every list grows under the same conditions (the Exported() filter, however it is spelled) and nothing else
	filter, accs := loopFilterSplit(info, fi.Decl, fl.rs, fl.subst)
	_ = filter
	for _, a := range accs {
		if len(a.own) != 0 {
			lock = false
		}
	}
	for _, a := range apps {
		target := es(a.Lhs[0])
		names[target] = render(info, a.Rhs[0].(*ast.CallExpr).Args[1], fl.subst)
	}
	r.cond(len(apps) >= 3 && lock, "AGR-C04l", fi.Name, "keys, checks and member validators appended in lock-step", w.Pos(fl.rs.Pos()), "one append to each list per exported field, in the same block", "the key list and the per-key checks are not appended together once per exported field: a key is allowed without being checked, or checked without being allowed")
	// the key IN (...) rejection exists
	hasKeyIn := false
	ast.Inspect(fi.Decl.Body, func(x ast.Node) bool {
		if lit, ok := x.(*ast.BasicLit); ok && strings.Contains(lit.Value, "key IN (") {
			hasKeyIn = true
		}
		return true
	})
	r.cond(hasKeyIn, "AGR-C04l", fi.Name, "unknown keys rejected (key IN …)", fnPos(w, fi), "bool_and(key IN (<known keys>)) over jsonb_each", "the struct validator no longer rejects unknown object keys")
	// each check calls the validator of the field's own type on the field's own key
	okCheck := false
	ast.Inspect(fl.rs.Body, func(x ast.Node) bool {
		call := sprintfView(info, x)
		if call == nil {
			return true
		}
		format, vas := verbArgs(info, call)
		if strings.Contains(format, "%s(data->'%s')") && len(vas) == 2 {
			a0 := render(info, vas[0].arg, fl.subst)
			// key: local defined from f.JSONName()
			keyOK := false
			if id := identOf(vas[1].arg); id != nil {
				for _, d := range defsIn(info, fi.Decl, objOf(info, id)) {
					if render(info, d, fl.subst) == "$f.JSONName()" {
						keyOK = true
					}
				}
			}
			if a0 == "functionName($f.Type)" && keyOK {
				okCheck = true
			}
		}
		return true
	})
	r.cond(okCheck, "AGR-C04l", fi.Name, "check = validator(field type)(data->'JSONName')", w.Pos(fl.rs.Pos()), "AND functionName(f.Type)(data->'<f.JSONName()>')", "a field's check does not apply the validator of the field's own type to the field's own JSON key")
}

func checkUnionEnumValidators(w *World, r *Result) {
	fi := w.MustFunc("generator/sql.codeForUnion")
	info := fi.Pkg.TypesInfo
	elseFalse := false
	isElse := func(e ast.Expr) bool {
		tv := info.Types[e]
		return tv.Value != nil && tv.Value.Kind() == constant.String && strings.Contains(constant.StringVal(tv.Value), "ELSE RETURN FALSE")
	}
	var loops []ast.Node
	ast.Inspect(fi.Decl.Body, func(x ast.Node) bool {
		switch x.(type) {
		case *ast.RangeStmt, *ast.ForStmt:
			loops = append(loops, x)
		}
		return true
	})
	ast.Inspect(fi.Decl.Body, func(x ast.Node) bool {
		as, ok := x.(*ast.AssignStmt)
		if !ok || len(as.Lhs) != 1 || len(as.Rhs) != 1 {
			return true
		}
		// `cases = append(cases, "ELSE …")`, or a store of the constant into the last cell of a pre-sized slice
		adds := false
		if call, ok := as.Rhs[0].(*ast.CallExpr); ok && isBuiltinCall(info, call, "append") && len(call.Args) == 2 && isElse(call.Args[1]) {
			adds = true
		}
		if _, isIx := as.Lhs[0].(*ast.IndexExpr); isIx && isElse(as.Rhs[0]) {
			adds = true
		}
		if !adds {
			return true
		}
		inLoop := false
		for _, l := range loops {
			if l.Pos() <= as.Pos() && as.End() <= l.End() {
				inLoop = true
			}
		}
		elseFalse = !inLoop && len(pathCondsNoLoop(fi, as)) == 0
		return true
	})
	// the cases may be written into a strings.Builder: `cases.WriteString("ELSE RETURN FALSE;")` after the loop
	ast.Inspect(fi.Decl.Body, func(x ast.Node) bool {
		es0, ok := x.(*ast.ExprStmt)
		if !ok || textAccumTarget(info, es0) == "" {
			return true
		}
		call := es0.X.(*ast.CallExpr)
		has := false
		for _, a := range call.Args {
			if isElse(a) {
				has = true
			}
		}
		if !has {
			return true
		}
		inLoop := false
		for _, l := range loops {
			if l.Pos() <= es0.Pos() && es0.End() <= l.End() {
				inLoop = true
			}
		}
		elseFalse = !inLoop && len(pathCondsNoLoop(fi, es0)) == 0
		return true
	})
	r.cond(elseFalse, "AGR-C04u", fi.Name, "unknown Kind => FALSE", fnPos(w, fi), "the CASE ends with ELSE RETURN FALSE, appended unconditionally after the member cases", "the union validator no longer rejects an unknown Kind")
	// member case calls the member's validator on Data
	okCase := false
	ast.Inspect(fi.Decl.Body, func(x ast.Node) bool {
		call := sprintfView(info, x)
		if call == nil {
			return true
		}
		format, vas := verbArgs(info, call)
		if strings.Contains(format, "RETURN %s(data->'Data')") && len(vas) == 2 && vas[1].arg != nil {
			if c2, ok := vas[1].arg.(*ast.CallExpr); ok && strings.HasSuffix(fullName(calleeOf(info, c2)), "sql.functionName") {
				okCase = true
			}
		}
		return true
	})
	// one case per member: the append of the WHEN branch is not under any condition inside the member loop
	for _, as := range appendStmts(info, fi.Decl.Body, "") {
		call := as.Rhs[0].(*ast.CallExpr)
		if len(call.Args) != 2 {
			continue
		}
		sp := sprintfView(info, ast.Unparen(call.Args[1]))
		if sp == nil {
			continue
		}
		if f, _ := verbArgs(info, sp); !strings.Contains(f, "WHEN data->>'Kind'") {
			continue
		}
		var cs []string
		for _, c := range pathCondsNoLoop(fi, as) {
			if c.expr != nil {
				t := es(c.expr)
				if !c.truth {
					t = "!(" + t + ")"
				}
				cs = append(cs, t)
			}
		}
		r.cond(len(cs) == 0, "AGR-C04u", fi.Name, "one WHEN branch per member", w.Pos(as.Pos()), "the branch is appended on every iteration of the loop over Members", "the WHEN branch of a member is only appended when {"+strings.Join(cs, ", ")+"}: a member without branch falls into ELSE RETURN FALSE, so documents Go emits for it are rejected")
	}
	r.cond(okCase, "AGR-C04u", fi.Name, "case <Kind> => validator(member)(Data)", fnPos(w, fi), "RETURN functionName(member)(data->'Data')", "a member case does not validate Data with the member's own validator")
	// enum
	ef := w.MustFunc("generator/sql.codeForEnum")
	einfo := ef.Pkg.TypesInfo
	tuple, cast := false, false
	ast.Inspect(ef.Decl.Body, func(x ast.Node) bool {
		if call, ok := x.(*ast.CallExpr); ok && strings.HasSuffix(fullName(calleeOf(einfo, call)), "sql.enumTuple") {
			tuple = true
		}
		if is, ok := x.(*ast.IfStmt); ok && strings.HasSuffix(es(is.Cond), ".IsInteger()") {
			for _, st := range is.Body.List {
				if as, ok := st.(*ast.AssignStmt); ok {
					if tv := einfo.Types[as.Rhs[0]]; tv.Value != nil && strings.Contains(constant.StringVal(tv.Value), "::int") {
						cast = true
					}
				}
			}
		}
		return true
	})
	r.cond(tuple && cast, "AGR-C04e", ef.Name, "enum validator: IN enumTuple(all members), integer cast iff integer enum", fnPos(w, ef), "value IN (every member), compared as int for integer enums and as text otherwise", "the enum validator does not compare the (correctly cast) value with the tuple of all members")
	et := w.MustFunc("generator/sql.enumTuple")
	etinfo := et.Pkg.TypesInfo
	all := false
	ast.Inspect(et.Decl.Body, func(x ast.Node) bool {
		if rs, ok := x.(*ast.RangeStmt); ok && strings.HasSuffix(es(rs.X), ".Members") {
			v := etinfo.Defs[identOf(rs.Value)]
			conds, uniform, nacc := loopFilter(etinfo, et.Decl, rs, map[types.Object]string{v: "$m"})
			all = nacc > 0 && uniform && len(conds) == 0
		}
		return true
	})
	for _, vr := range virtualRanges(w, et) {
		// `mapTo(e.Members, func(_ int, m EnumMember) string { return … })`: one element per member, unconditionally
		if strings.HasSuffix(es(vr.X), ".Members") && vr.ret != nil {
			all = true
			r.cond(rendersConstVal(etinfo, vr.ret, vr.val), "AGR-C04e", et.Name, "tuple element "+es(vr.ret), w.Pos(vr.ret.Pos()),
				"the element is the value of the member's constant",
				"a tuple element is `"+es(vr.ret)+"`, not the value of the member's constant: positions equal values only for the exported members of an iota enum")
		}
	}
	r.cond(all, "AGR-C04e", et.Name, "tuple lists every member", fnPos(w, et), "no filter: every value Go can emit is in the tuple", "enumTuple filters members: a value Go can emit is rejected")
	// every element of the tuple is the value of its member's constant (never its position: IsIota only speaks of the
	// exported members, an unexported outlier keeps its own value)
	ast.Inspect(et.Decl.Body, func(x ast.Node) bool {
		rs, ok := x.(*ast.RangeStmt)
		if !ok || !strings.HasSuffix(es(rs.X), ".Members") || identOf(rs.Value) == nil {
			return true
		}
		v := etinfo.Defs[identOf(rs.Value)]
		ast.Inspect(rs.Body, func(y ast.Node) bool {
			as, ok := y.(*ast.AssignStmt)
			if !ok || len(as.Lhs) != 1 || len(as.Rhs) != 1 {
				return true
			}
			isStore := false
			if _, isIx := ast.Unparen(as.Lhs[0]).(*ast.IndexExpr); isIx {
				isStore = true
			}
			if call, ok := ast.Unparen(as.Rhs[0]).(*ast.CallExpr); ok && isBuiltinCall(etinfo, call, "append") {
				isStore = true
			}
			if !isStore {
				return true
			}
			val := as.Rhs[0]
			if call, ok := ast.Unparen(val).(*ast.CallExpr); ok && isBuiltinCall(etinfo, call, "append") && len(call.Args) == 2 {
				val = call.Args[1]
			}
			r.cond(rendersConstVal(etinfo, val, v), "AGR-C04e", et.Name, "tuple element "+es(val), w.Pos(as.Pos()),
				"the element is the value of the member's constant",
				"a tuple element is `"+es(val)+"`, not the value of the member's constant: positions equal values only for the exported members of an iota enum, so an unexported member with another value (deleted = 100) is listed under its position and the value Go emits is rejected")
			return true
		})
		return true
	})
}

// checkEmptyKeyList (AGR-C04k): `key IN (<joined keys>)` is not valid SQL for an empty list, so the struct
// validator replaces it by TRUE. The replacement must be guarded by the emptiness of the very list that is joined
// (the keys kept after the Exported() filter), not of a list that is merely usually as long (all the fields).
func checkEmptyKeyList(w *World, r *Result) {
	fi := w.MustFunc("generator/sql.codeForStruct")
	info := fi.Pkg.TypesInfo
	var joined ast.Expr
	var target types.Object
	var inAssign *ast.AssignStmt
	ast.Inspect(fi.Decl.Body, func(x ast.Node) bool {
		as, ok := x.(*ast.AssignStmt)
		if !ok || len(as.Lhs) != 1 || len(as.Rhs) != 1 {
			return true
		}
		if !strings.Contains(es(as.Rhs[0]), "IN (") {
			return true
		}
		ast.Inspect(as.Rhs[0], func(y ast.Node) bool {
			if call, ok := y.(*ast.CallExpr); ok && fullName(calleeOf(info, call)) == "strings.Join" && len(call.Args) == 2 {
				joined = call.Args[0]
				if id := identOf(as.Lhs[0]); id != nil {
					target = objOf(info, id)
					inAssign = as
				}
			}
			return true
		})
		return true
	})
	if joined == nil || target == nil {
		Undecided("AGR-C04k: the `key IN (...)` list of the struct validator was not found")
	}
	// emptiness(c) classifies a path condition as a test on the length of the joined list: +1 "the list is empty",
	// -1 "the list is not empty", 0 anything else
	emptiness := func(c pcond) int {
		be, ok := ast.Unparen(c.expr).(*ast.BinaryExpr)
		if !ok {
			return 0
		}
		call, ok := ast.Unparen(be.X).(*ast.CallExpr)
		if !ok || !isBuiltinCall(info, call, "len") || len(call.Args) != 1 || render(info, call.Args[0], nil) != render(info, joined, nil) {
			return 0
		}
		k, isK := constInt(info, be.Y)
		if !isK {
			return 0
		}
		at := func(n int) bool { return evalCmp(be.Op, n, k) == c.truth }
		switch {
		case at(0) && !at(1) && !at(2) && !at(3):
			return 1
		case !at(0) && at(1) && at(2) && at(3):
			return -1
		}
		return 0
	}
	classify := func(n ast.Node) (kind int, other string) {
		for _, c := range pathConds(fi.Decl, n) {
			if c.expr == nil || c.loop {
				continue
			}
			if e := emptiness(c); e != 0 {
				kind = e
			} else {
				other = es(c.expr)
			}
		}
		return
	}
	inKind, inOther := classify(inAssign)
	switch {
	case inKind == -1 && inOther == "":
		// `key IN (…)` is only built for a non-empty list; the other value must be the fallback
		r.ok("AGR-C04k", fi.Name, "`key IN (…)` built only for a non-empty list", w.Pos(inAssign.Pos()), "the assignment is guarded by the non-emptiness of the joined list itself ("+es(joined)+")", true)
	case inKind == 0 && inOther == "":
		// built unconditionally: a later assignment under "the joined list is empty" must replace it
		found, good := false, false
		why := ""
		ast.Inspect(fi.Decl.Body, func(x ast.Node) bool {
			as, ok := x.(*ast.AssignStmt)
			if !ok || as == inAssign || len(as.Lhs) != 1 || as.Pos() < inAssign.Pos() {
				return true
			}
			if id := identOf(as.Lhs[0]); id == nil || objOf(info, id) != target {
				return true
			}
			found = true
			k, other := classify(as)
			if k == 1 && other == "" {
				good = true
			} else {
				var cs []string
				for _, c := range pathConds(fi.Decl, as) {
					if c.expr != nil {
						cs = append(cs, es(c.expr))
					}
				}
				why = strings.Join(cs, " && ")
			}
			return true
		})
		if !found {
			r.bad("AGR-C04k", fi.Name, "empty key list replaced by TRUE", fnPos(w, fi), "no fallback for an empty key list: a struct without serialised fields yields `key IN ()`, which is not valid SQL")
		} else {
			r.cond(good, "AGR-C04k", fi.Name, "empty key list replaced by TRUE", w.Pos(inAssign.Pos()),
				"the replacement is guarded by the emptiness of the joined list itself ("+es(joined)+")",
				"the `key IN (...)` fallback is guarded by `"+why+"`, which is not the emptiness of the joined list "+es(joined)+": a struct whose fields are all ignored (unexported, json:\"-\") yields `key IN ()`, which is not valid SQL, and adding an ignored field changes the output")
		}
	default:
		r.bad("AGR-C04k", fi.Name, "empty key list replaced by TRUE", w.Pos(inAssign.Pos()),
			"the `key IN (...)` text is built under `"+inOther+"`, which is not the non-emptiness of the joined list "+es(joined)+": a struct whose fields are all ignored (unexported, json:\"-\") yields `key IN ()`, which is not valid SQL, and adding an ignored field changes the output")
	}
}

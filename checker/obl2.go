package main

import (
	"fmt"
	"go/ast"
	"go/token"
	"go/types"
	"strings"
)

// ---------- curated nil sources ----------

func isNilable(t types.Type) bool {
	if t == nil {
		return false
	}
	switch t.Underlying().(type) {
	case *types.Pointer, *types.Interface:
		return true
	}
	return false
}

// mayReturnNil: module function with a pointer/interface result that has a `return nil`
// or returns a map lookup / other nullable source directly.
func (c *oblCtx) mayReturnNil(fn *types.Func, depth int) bool {
	fi := c.w.Funcs[fn]
	if fi == nil || depth > 2 {
		return false
	}
	sig := fn.Type().(*types.Signature)
	if sig.Results().Len() != 1 || !isNilable(sig.Results().At(0).Type()) {
		return false
	}
	res := false
	sub := &oblCtx{w: c.w, pkg: fi.Pkg, fn: fi.Decl, fname: fi.Name, out: &[]Ob{}, commaOk: map[ast.Node]bool{}}
	ast.Inspect(fi.Decl.Body, func(n ast.Node) bool {
		if _, ok := n.(*ast.FuncLit); ok {
			return false
		}
		if r, ok := n.(*ast.ReturnStmt); ok && len(r.Results) == 1 {
			if id, ok := ast.Unparen(r.Results[0]).(*ast.Ident); ok && id.Name == "nil" {
				res = true
			} else if _, ok := sub.nullableSourceD(r.Results[0], depth+1); ok {
				res = true
			}
		}
		return true
	})
	return res
}

func (c *oblCtx) nullableSource(e ast.Expr) (string, bool) { return c.nullableSourceD(e, 0) }

func (c *oblCtx) nullableSourceD(e ast.Expr, depth int) (string, bool) {
	e = ast.Unparen(e)
	switch x := e.(type) {
	case *ast.CallExpr:
		fn := calleeOf(c.info(), x)
		if fn == nil {
			return "", false
		}
		switch fn.FullName() {
		case "(*go/types.Scope).Lookup":
			// N2: Lookup(name) with name ranging over the same scope's Names()
			if len(x.Args) == 1 {
				if c.rangesOverNames(x.Args[0], x.Fun.(*ast.SelectorExpr).X) {
					return "", false
				}
			}
			return "(*types.Scope).Lookup returns nil for an unknown name", true
		case "(*go/types.Info).TypeOf", "(*go/types.Info).ObjectOf":
			return fn.Name() + " returns nil when the expression/identifier is not recorded", true
		}
		if c.mayReturnNil(fn, depth) {
			return fn.Name() + " has a path returning nil", true
		}
	case *ast.IndexExpr:
		t := c.info().TypeOf(x.X)
		if t == nil {
			return "", false
		}
		if m, ok := t.Underlying().(*types.Map); ok && isNilable(m.Elem()) {
			if c.sourceTypesInvariant(x) {
				return "", false
			}
			return "map lookup yields nil for a missing key", true
		}
	case *ast.SelectorExpr:
		if sel, ok := c.info().Selections[x]; ok && sel.Kind() == types.FieldVal {
			if sel.Obj().Name() == "Value" && strings.HasSuffix(sel.Recv().String(), "go/types.TypeAndValue") {
				return "TypeAndValue.Value is nil for a non-constant expression", true
			}
			// optional children of go/ast nodes ("or nil" in the go/ast documentation): comment groups and field lists
			if v, ok := sel.Obj().(*types.Var); ok && v.Pkg() != nil && v.Pkg().Path() == "go/ast" {
				switch v.Type().String() {
				case "*go/ast.CommentGroup":
					return "go/ast: " + v.Name() + " is nil when the declaration carries no such comment", true
				case "*go/ast.FieldList":
					if v.Name() == "Recv" || v.Name() == "TypeParams" || v.Name() == "Results" {
						return "go/ast: " + v.Name() + " is nil when absent from the declaration", true
					}
				}
			}
		}
	}
	return "", false
}

// rangesOverNames: arg is the range value of `for _, arg := range S.Names()` with S == scopeExpr.
func (c *oblCtx) rangesOverNames(arg ast.Expr, scopeExpr ast.Expr) bool {
	id, ok := ast.Unparen(arg).(*ast.Ident)
	if !ok || c.fn == nil {
		return false
	}
	obj := objOf(c.info(), id)
	found := false
	ast.Inspect(c.fn, func(n ast.Node) bool {
		rs, ok := n.(*ast.RangeStmt)
		if !ok {
			return true
		}
		vid, ok := rs.Value.(*ast.Ident)
		if !ok || c.info().Defs[vid] != obj {
			return true
		}
		if call, ok := rs.X.(*ast.CallExpr); ok {
			if fn := calleeOf(c.info(), call); fn != nil && fn.FullName() == "(*go/types.Scope).Names" {
				if es(call.Fun.(*ast.SelectorExpr).X) == es(scopeExpr) {
					found = true
				}
			}
		}
		return true
	})
	return found
}

// sourceTypesInvariant: X.Types[t] with t ranging over X.Source (same X): populateTypes registers
// every Source element (side condition re-checked by ruleSourceRegistered).
func (c *oblCtx) sourceTypesInvariant(ix *ast.IndexExpr) bool {
	sel, ok := ix.X.(*ast.SelectorExpr)
	if !ok || sel.Sel.Name != "Types" {
		return false
	}
	if v, ok := c.info().Uses[sel.Sel].(*types.Var); !ok || !v.IsField() || c.w.Rel(v.Pkg()) != "analysis" {
		return false
	}
	id, ok := ast.Unparen(ix.Index).(*ast.Ident)
	if !ok || c.fn == nil {
		return false
	}
	obj := objOf(c.info(), id)
	base := es(sel.X)
	found := false
	ast.Inspect(c.fn, func(n ast.Node) bool {
		rs, ok := n.(*ast.RangeStmt)
		if !ok {
			return true
		}
		vid, ok := rs.Value.(*ast.Ident)
		if !ok || c.info().Defs[vid] != obj {
			return true
		}
		if s2, ok := rs.X.(*ast.SelectorExpr); ok && s2.Sel.Name == "Source" && es(s2.X) == base {
			found = true
		}
		return true
	})
	return found
}

func (c *oblCtx) isNonNil(x string) bool {
	for _, f := range c.facts {
		if f.nonNil == x && x != "" {
			return true
		}
	}
	return false
}

// nullableVar: a local variable one of whose definitions is a nullable source or the zero value.
func (c *oblCtx) nullableVar(id *ast.Ident) (string, bool) {
	obj := objOf(c.info(), id)
	v, ok := obj.(*types.Var)
	if !ok || v.IsField() || !isNilable(v.Type()) || c.fn == nil {
		return "", false
	}
	if v.Parent() == nil || v.Parent() == v.Pkg().Scope() {
		return "", false
	}
	// bound by a comma-ok type assertion: nil (the zero value) when the assertion fails
	commaOK := false
	ast.Inspect(c.fn, func(n ast.Node) bool {
		as, ok := n.(*ast.AssignStmt)
		if !ok || len(as.Lhs) != 2 || len(as.Rhs) != 1 {
			return true
		}
		if _, isTA := ast.Unparen(as.Rhs[0]).(*ast.TypeAssertExpr); !isTA {
			return true
		}
		if l, ok := as.Lhs[0].(*ast.Ident); ok && objOf(c.info(), l) == obj {
			commaOK = true
		}
		return true
	})
	if commaOK {
		return "bound by a comma-ok type assertion, nil when the assertion fails", true
	}
	for _, d := range c.defsOf(obj) {
		if d == nil {
			if c.definitelyAssignedAfterDecl(obj) {
				continue
			}
			return "declared without a value and only conditionally assigned", true
		}
		if why, ok := c.nullableSource(d); ok {
			if c.isNonNil(es(d)) {
				continue // the defining expression itself is known non-nil here (tested before the copy)
			}
			return why, true
		}
	}
	return "", false
}

// checkNilSel: x.f / x.M with x a nullable source or nullable variable without a dominating nil test.
func (c *oblCtx) checkNilSel(sel *ast.SelectorExpr) {
	if _, isPkg := c.info().Uses[identOf(sel.X)].(*types.PkgName); isPkg {
		return
	}
	s, ok := c.info().Selections[sel]
	if !ok {
		return
	}
	// only dereferencing selections: interface method call, or field/method through a pointer
	rt := c.info().TypeOf(sel.X)
	if !isNilable(rt) {
		return
	}
	if fn, ok := s.Obj().(*types.Func); ok && fn.FullName() == "(*go/ast.CommentGroup).Text" {
		return // documented nil-safe
	}
	x := ast.Unparen(sel.X)
	var why string
	if w, ok := c.nullableSource(x); ok {
		why = w
	} else if id, ok := x.(*ast.Ident); ok {
		if w, ok := c.nullableVar(id); ok {
			why = w
		}
	}
	if why == "" {
		return
	}
	construct := es(sel)
	if c.isNonNil(es(x)) {
		c.add("OBL-NIL", sel, construct, VOK, "N1: dominated by a nil test of "+es(x), true)
		return
	}
	if j, ok := c.justifiedFor(sel, construct); ok {
		c.add("OBL-NIL", sel, construct, VJustified, j, true)
		return
	}
	c.add("OBL-NIL", sel, construct, VViolation, "dereference of a value that may be nil ("+why+") without a dominating nil test: nil pointer dereference instead of a diagnostic", true)
}

func identOf(e ast.Expr) *ast.Ident {
	id, _ := ast.Unparen(e).(*ast.Ident)
	return id
}

// paramDerefd: does module function fn dereference its i-th parameter without a nil test?
func (c *oblCtx) paramDerefd(fn *types.Func, i int) bool {
	fi := c.w.Funcs[fn]
	if fi == nil {
		return false
	}
	idx := 0
	var pobj types.Object
	for _, f := range fi.Decl.Type.Params.List {
		for _, nm := range f.Names {
			if idx == i {
				pobj = fi.Pkg.TypesInfo.Defs[nm]
			}
			idx++
		}
	}
	if pobj == nil || !isNilable(pobj.Type()) {
		return false
	}
	derefd := false
	tested := false
	ast.Inspect(fi.Decl.Body, func(n ast.Node) bool {
		switch n := n.(type) {
		case *ast.SelectorExpr:
			if id := identOf(n.X); id != nil && fi.Pkg.TypesInfo.Uses[id] == pobj {
				derefd = true
			}
		case *ast.BinaryExpr:
			if (n.Op == token.EQL || n.Op == token.NEQ) && identOf(n.Y) != nil && identOf(n.Y).Name == "nil" {
				if id := identOf(n.X); id != nil && fi.Pkg.TypesInfo.Uses[id] == pobj {
					tested = true
				}
			}
		case *ast.TypeSwitchStmt:
			// a type switch on the parameter tolerates nil (default / no case)
			var x ast.Expr
			switch a := n.Assign.(type) {
			case *ast.AssignStmt:
				x = a.Rhs[0].(*ast.TypeAssertExpr).X
			case *ast.ExprStmt:
				x = a.X.(*ast.TypeAssertExpr).X
			}
			if id := identOf(x); id != nil && fi.Pkg.TypesInfo.Uses[id] == pobj {
				hasDefaultPanic := false
				for _, cl := range n.Body.List {
					cc := cl.(*ast.CaseClause)
					if cc.List == nil && len(cc.Body) > 0 {
						if es0, ok := cc.Body[len(cc.Body)-1].(*ast.ExprStmt); ok {
							if call, ok := es0.X.(*ast.CallExpr); ok && es(call.Fun) == "panic" {
								hasDefaultPanic = true
							}
						}
					}
				}
				if hasDefaultPanic {
					// a nil value lands in the default case: an explicit (string) panic, i.e. a diagnostic
					tested = true
				}
			}
		}
		return true
	})
	return derefd && !tested
}

// checkNilRecv handles nullable values passed as arguments to module functions that dereference them.
func (c *oblCtx) checkNilRecv(call *ast.CallExpr, fn *types.Func) {
	if fn == nil || c.w.Funcs[fn] == nil {
		return
	}
	for i, a := range call.Args {
		a = ast.Unparen(a)
		var why string
		if w, ok := c.nullableSource(a); ok {
			why = w
		} else if id, ok := a.(*ast.Ident); ok {
			if w, ok := c.nullableVar(id); ok {
				why = w
			}
		}
		if why == "" {
			continue
		}
		if !c.paramDerefd(fn, i) {
			continue
		}
		construct := es(call.Fun) + "(… " + es(a) + " …)"
		if c.isNonNil(es(a)) {
			c.add("OBL-NIL", call, construct, VOK, "N1: argument dominated by a nil test", true)
			continue
		}
		if j, ok := c.justifiedFor(call, construct); ok {
			c.add("OBL-NIL", call, construct, VJustified, j, true)
			continue
		}
		c.add("OBL-NIL", call, construct, VViolation, "a value that may be nil ("+why+") is passed to "+fn.Name()+", which dereferences that parameter unconditionally", true)
	}
}

// ---------- statement walker ----------

func (c *oblCtx) walkStmt(s ast.Stmt) {
	switch s := s.(type) {
	case *ast.BlockStmt:
		c.walkBlock(s)
	case *ast.IfStmt:
		saved0 := c.facts
		if s.Init != nil {
			c.walkStmt(s.Init)
			c.facts = append(c.facts, c.initFacts(s.Init)...)
		}
		c.checkExpr(s.Cond)
		saved := c.facts
		c.facts = append(append([]fact{}, saved...), c.condFacts(s.Cond, true)...)
		c.facts = append(c.facts, c.okFacts(s.Init, s.Cond, true)...)
		c.walkBlock(s.Body)
		c.facts = append(append([]fact{}, saved...), c.condFacts(s.Cond, false)...)
		c.facts = append(c.facts, c.okFacts(s.Init, s.Cond, false)...)
		if s.Else != nil {
			c.walkStmt(s.Else)
		}
		c.facts = saved0
	case *ast.ForStmt:
		saved := c.facts
		if s.Init != nil {
			c.walkStmt(s.Init)
		}
		if s.Cond != nil {
			c.checkExpr(s.Cond)
			// the loop condition bounds the counter only if the body does not modify it
			c.facts = append(append([]fact{}, c.facts...), c.condFacts(s.Cond, true)...)
		}
		c.walkBlock(s.Body)
		if s.Post != nil {
			c.walkStmt(s.Post)
		}
		c.facts = saved
	case *ast.RangeStmt:
		c.checkExpr(s.X)
		saved := c.facts
		c.facts = append([]fact{}, saved...)
		if id, ok := s.Key.(*ast.Ident); ok && id.Name != "_" {
			if t := c.info().TypeOf(s.X); t != nil {
				switch u := t.Underlying().(type) {
				case *types.Slice, *types.Array:
					c.facts = append(c.facts, fact{idx: id.Name, idxOf: es(s.X)})
				case *types.Basic:
					if u.Info()&types.IsString != 0 {
						c.facts = append(c.facts, fact{idx: id.Name, idxOf: es(s.X)})
					} else if u.Info()&types.IsInteger != 0 {
						// range over int n: i < n; if n is X.Len()/NumFields() this bounds the accessor
						if l, ok := c.lenArg(s.X); ok {
							c.facts = append(c.facts, fact{idx: id.Name, idxOf: l})
						}
					}
				}
			}
		}
		c.walkBlock(s.Body)
		c.facts = saved
	case *ast.TypeSwitchStmt:
		saved0 := c.facts
		if s.Init != nil {
			c.walkStmt(s.Init)
		}
		var x ast.Expr
		var bind string
		switch a := s.Assign.(type) {
		case *ast.AssignStmt:
			x = a.Rhs[0].(*ast.TypeAssertExpr).X
			bind = a.Lhs[0].(*ast.Ident).Name
		case *ast.ExprStmt:
			x = a.X.(*ast.TypeAssertExpr).X
		}
		c.checkExpr(x)
		for _, cl := range s.Body.List {
			cc := cl.(*ast.CaseClause)
			saved := c.facts
			var set []string
			for _, t := range cc.List {
				if tt := c.info().TypeOf(t); tt != nil {
					set = append(set, tt.String())
				}
			}
			if len(set) > 0 {
				c.facts = append(append([]fact{}, saved...), fact{tyExpr: es(x), tySet: set})
				if bind != "" {
					c.facts = append(c.facts, fact{tyExpr: bind, tySet: set}, fact{alias: bind, aliasOf: es(x)})
				}
			}
			c.walkStmts(cc.Body)
			c.facts = saved
		}
		c.facts = saved0
	case *ast.SwitchStmt:
		saved0 := c.facts
		if s.Init != nil {
			c.walkStmt(s.Init)
		}
		if s.Tag != nil {
			c.checkExpr(s.Tag)
		}
		for _, cl := range s.Body.List {
			cc := cl.(*ast.CaseClause)
			saved := c.facts
			for _, e := range cc.List {
				c.checkExpr(e)
				if s.Tag == nil && len(cc.List) == 1 {
					c.facts = append(append([]fact{}, c.facts...), c.condFacts(e, true)...)
				}
			}
			c.walkStmts(cc.Body)
			c.facts = saved
		}
		c.facts = saved0
	case *ast.AssignStmt:
		for _, r := range s.Rhs {
			c.checkExpr(r)
		}
		for _, l := range s.Lhs {
			c.checkExpr(l)
		}
		c.killFacts(s.Lhs)
		if len(s.Lhs) == 2 && len(s.Rhs) == 1 {
			if _, isTA := ast.Unparen(s.Rhs[0]).(*ast.TypeAssertExpr); isTA {
				if okId, ok := s.Lhs[1].(*ast.Ident); ok && okId.Name != "_" {
					if c.okBind == nil {
						c.okBind = map[types.Object]*ast.AssignStmt{}
					}
					c.okBind[objOf(c.info(), okId)] = s
				}
			}
		}
	case *ast.IncDecStmt:
		c.checkExpr(s.X)
	case *ast.ExprStmt:
		c.checkExpr(s.X)
	case *ast.ReturnStmt:
		for _, r := range s.Results {
			c.checkExpr(r)
		}
	case *ast.DeclStmt:
		if gd, ok := s.Decl.(*ast.GenDecl); ok {
			for _, sp := range gd.Specs {
				if vs, ok := sp.(*ast.ValueSpec); ok {
					for _, v := range vs.Values {
						c.checkExpr(v)
					}
				}
			}
		}
	case *ast.GoStmt:
		c.checkExpr(s.Call)
	case *ast.DeferStmt:
		c.checkExpr(s.Call)
	case *ast.LabeledStmt:
		c.walkStmt(s.Stmt)
	case *ast.SendStmt:
		c.checkExpr(s.Chan)
		c.checkExpr(s.Value)
	case *ast.SelectStmt:
		for _, cl := range s.Body.List {
			cc := cl.(*ast.CommClause)
			if cc.Comm != nil {
				c.walkStmt(cc.Comm)
			}
			c.walkStmts(cc.Body)
		}
	}
}

// killFacts removes length/index facts about variables that are re-assigned.
func (c *oblCtx) killFacts(lhs []ast.Expr) {
	for _, l := range lhs {
		name := es(l)
		var kept []fact
		for _, f := range c.facts {
			if f.lenOf == name || f.idx == name || f.idxOf == name || f.nonNil == name {
				continue
			}
			kept = append(kept, f)
		}
		c.facts = kept
	}
}

// initFacts: `m := re.FindStringSubmatch(s)` etc. give nothing by themselves; reserved.
func (c *oblCtx) initFacts(init ast.Stmt) []fact { return nil }

// okFacts: `if v, ok := x.(T); ok {` narrows x (and v) to T in the true branch.
func (c *oblCtx) okFacts(init ast.Stmt, cond ast.Expr, truth bool) []fact {
	as, ok := init.(*ast.AssignStmt)
	if !ok || len(as.Lhs) != 2 || len(as.Rhs) != 1 {
		// a comma-ok assertion made by an earlier statement of the same function
		as = nil
		ast.Inspect(cond, func(n ast.Node) bool {
			if id, ok := n.(*ast.Ident); ok && c.okBind != nil {
				if a := c.okBind[objOf(c.info(), id)]; a != nil {
					as = a
				}
			}
			return true
		})
		if as == nil {
			return nil
		}
	}
	okId, ok := as.Lhs[1].(*ast.Ident)
	if !ok {
		return nil
	}
	// cond must be `ok` (possibly the left operand of &&) for truth, or `!ok` for falsity
	holds := false
	var scan func(e ast.Expr, t bool)
	scan = func(e ast.Expr, t bool) {
		switch e := ast.Unparen(e).(type) {
		case *ast.Ident:
			if e.Name == okId.Name && t {
				holds = true
			}
		case *ast.UnaryExpr:
			if e.Op == token.NOT {
				scan(e.X, !t)
			}
		case *ast.BinaryExpr:
			if e.Op == token.LAND && t {
				scan(e.X, true)
				scan(e.Y, true)
			}
			if e.Op == token.LOR && !t {
				scan(e.X, false)
				scan(e.Y, false)
			}
		}
	}
	scan(cond, truth)
	if !holds {
		return nil
	}
	var out []fact
	if ta, ok := ast.Unparen(as.Rhs[0]).(*ast.TypeAssertExpr); ok && ta.Type != nil {
		if tt := c.info().TypeOf(ta.Type); tt != nil {
			out = append(out, fact{tyExpr: es(ta.X), tySet: []string{tt.String()}})
			if v, ok := as.Lhs[0].(*ast.Ident); ok && v.Name != "_" {
				out = append(out, fact{tyExpr: v.Name, tySet: []string{tt.String()}}, fact{nonNil: v.Name}, fact{alias: v.Name, aliasOf: es(ta.X)})
			}
		}
	}
	return out
}

func (c *oblCtx) walkStmts(list []ast.Stmt) {
	saved := c.facts
	for _, st := range list {
		c.walkStmt(st)
		if is, ok := st.(*ast.IfStmt); ok && is.Else == nil && !terminates(is.Body) {
			// if x == nil { x = <fresh value> }  =>  x != nil afterwards
			if be, ok := ast.Unparen(is.Cond).(*ast.BinaryExpr); ok && be.Op == token.EQL && identOf(be.Y) != nil && identOf(be.Y).Name == "nil" {
				for _, bs := range is.Body.List {
					if as, ok := bs.(*ast.AssignStmt); ok && len(as.Lhs) == 1 && len(as.Rhs) == 1 && es(as.Lhs[0]) == es(be.X) {
						if isFreshValue(as.Rhs[0]) {
							c.facts = append(append([]fact{}, c.facts...), fact{nonNil: es(be.X)})
						}
					}
				}
			}
		}
		if is, ok := st.(*ast.IfStmt); ok && is.Else == nil && !terminates(is.Body) {
			// `if !ok { v = other(); if v == nil { return } }`: v is non-nil after the if when it is both on the
			// path that skips the body and at the end of the body
			for _, f := range append(c.condFacts(is.Cond, false), c.okFacts(is.Init, is.Cond, false)...) {
				if f.nonNil != "" && nonNilAtEnd(is.Body.List, f.nonNil) {
					c.facts = append(append([]fact{}, c.facts...), fact{nonNil: f.nonNil})
				}
			}
		}
		if is, ok := st.(*ast.IfStmt); ok && is.Else == nil && !terminates(is.Body) {
			// v, has := m[k]; if !has { v = <fresh value> }  =>  v != nil afterwards, when m only ever stores non-nil values
			if x := c.absentRepair(is); x != "" {
				c.facts = append(append([]fact{}, c.facts...), fact{nonNil: x})
			}
		}
		if is, ok := st.(*ast.IfStmt); ok && is.Else == nil && terminates(is.Body) {
			c.facts = append(append([]fact{}, c.facts...), c.condFacts(is.Cond, false)...)
			c.facts = append(c.facts, c.okFacts(is.Init, is.Cond, false)...)
		}
	}
	c.facts = saved
}

// definitelyAssignedAfterDecl: `var x T` is immediately followed (in the same block) by a statement
// every non-terminating branch of which assigns x.
func (c *oblCtx) definitelyAssignedAfterDecl(obj types.Object) bool {
	res := false
	ast.Inspect(c.fn, func(n ast.Node) bool {
		var list []ast.Stmt
		switch b := n.(type) {
		case *ast.BlockStmt:
			list = b.List
		case *ast.CaseClause:
			list = b.Body
		default:
			return true
		}
		for i, st := range list {
			ds, ok := st.(*ast.DeclStmt)
			if !ok {
				continue
			}
			gd, ok := ds.Decl.(*ast.GenDecl)
			if !ok {
				continue
			}
			declares := false
			for _, sp := range gd.Specs {
				if vs, ok := sp.(*ast.ValueSpec); ok {
					for _, nm := range vs.Names {
						if c.info().Defs[nm] == obj {
							declares = true
						}
					}
				}
			}
			if !declares {
				continue
			}
			for _, nx := range list[i+1:] {
				if c.assignsOnAllPaths(nx, obj) {
					res = true
					break
				}
				if usesObj(c.info(), nx, obj) {
					break
				}
			}
		}
		return true
	})
	return res
}

// absentRepair recognises `if !has { v = <fresh value>; ... }` where `v, has := m[k]` is the only other
// definition of v and has, m is a map created in this function, and every store m[..] = e in the function has
// e fresh or e == v. Then v is non-nil after the if: either it was just assigned a fresh value, or it is a value
// that was stored in m, and only non-nil values are.
func (c *oblCtx) absentRepair(is *ast.IfStmt) string {
	if c.fn == nil {
		return ""
	}
	un, ok := ast.Unparen(is.Cond).(*ast.UnaryExpr)
	if !ok || un.Op != token.NOT {
		return ""
	}
	hasID := identOf(un.X)
	if hasID == nil {
		return ""
	}
	info := c.info()
	hasObj := objOf(info, hasID)
	// the comma-ok lookup binding has
	var lookup *ast.AssignStmt
	nHasDefs := 0
	ast.Inspect(c.fn, func(n ast.Node) bool {
		as, ok := n.(*ast.AssignStmt)
		if !ok {
			return true
		}
		for i, l := range as.Lhs {
			if id := identOf(l); id != nil && objOf(info, id) == hasObj {
				nHasDefs++
				if i == 1 && len(as.Lhs) == 2 && len(as.Rhs) == 1 {
					if _, isIx := ast.Unparen(as.Rhs[0]).(*ast.IndexExpr); isIx {
						lookup = as
					}
				}
			}
		}
		return true
	})
	if lookup == nil || nHasDefs != 1 || lookup.End() > is.Pos() {
		return ""
	}
	vID := identOf(lookup.Lhs[0])
	ix := ast.Unparen(lookup.Rhs[0]).(*ast.IndexExpr)
	mID := identOf(ix.X)
	if vID == nil || mID == nil || vID.Name == "_" {
		return ""
	}
	if _, isMap := info.TypeOf(ix.X).Underlying().(*types.Map); !isMap {
		return ""
	}
	vObj, mObj := objOf(info, vID), objOf(info, mID)
	// the repair inside the if
	repaired := false
	var repairPos token.Pos
	for _, bs := range is.Body.List {
		if as, ok := bs.(*ast.AssignStmt); ok && len(as.Lhs) == 1 && len(as.Rhs) == 1 {
			if id := identOf(as.Lhs[0]); id != nil && objOf(info, id) == vObj && isFreshValue(as.Rhs[0]) && !repaired {
				repaired = true
				repairPos = as.End()
			}
		}
	}
	if !repaired {
		return ""
	}
	// v: defined only by the lookup and by fresh values; m: created here, stores only fresh values or v
	okAll := true
	mCreated := false
	ast.Inspect(c.fn, func(n ast.Node) bool {
		as, ok := n.(*ast.AssignStmt)
		if !ok {
			return true
		}
		for i, l := range as.Lhs {
			var rhs ast.Expr
			if len(as.Rhs) == len(as.Lhs) {
				rhs = as.Rhs[i]
			}
			if id := identOf(l); id != nil {
				switch objOf(info, id) {
				case vObj:
					if as != lookup && (rhs == nil || !isFreshValue(rhs)) {
						okAll = false
					}
				case mObj:
					if rhs != nil && isFreshValue(rhs) {
						mCreated = true
					} else {
						okAll = false
					}
				}
				continue
			}
			if lx, ok := ast.Unparen(l).(*ast.IndexExpr); ok {
				if id := identOf(lx.X); id != nil && objOf(info, id) == mObj {
					if rhs == nil {
						okAll = false
					} else if rid := identOf(rhs); rid != nil && objOf(info, rid) == vObj && as.Pos() >= repairPos {
						// stores v after the repair (textually after it, v being re-bound by the lookup on every iteration)
					} else if !isFreshValue(rhs) {
						okAll = false
					}
				}
			}
		}
		return true
	})
	if !okAll || !mCreated {
		return ""
	}
	return vID.Name
}

// nonNilAtEnd: scanning the top-level statements of a block, x is assigned and then established non-nil (a fresh
// value, or `if x == nil { <terminates> }`), and not re-assigned afterwards.
func nonNilAtEnd(list []ast.Stmt, x string) bool {
	state := false
	assigned := false
	okName := "" // ok of `x, ok = y.(T)`: x is non-nil once ok is known to hold
	for _, st := range list {
		switch s := st.(type) {
		case *ast.AssignStmt:
			if s.Tok != token.DEFINE && len(s.Lhs) == 2 && len(s.Rhs) == 1 && es(s.Lhs[0]) == x {
				if ta, isTA := ast.Unparen(s.Rhs[0]).(*ast.TypeAssertExpr); isTA && ta.Type != nil {
					assigned, state = true, false
					okName = es(s.Lhs[1])
					continue
				}
			}
			if s.Tok == token.DEFINE {
				// `x := ...` inside the block declares a new variable that shadows x: the outer x is untouched,
				// and every later mention of the name in this block is about the inner one
				for _, l := range s.Lhs {
					if es(l) == x {
						return false
					}
				}
				continue
			}
			for i, l := range s.Lhs {
				if es(l) == x {
					assigned = true
					state = len(s.Rhs) == len(s.Lhs) && isFreshValue(s.Rhs[i])
				}
			}
		case *ast.IfStmt:
			if be, ok := ast.Unparen(s.Cond).(*ast.BinaryExpr); ok && be.Op == token.EQL && es(be.X) == x && es(be.Y) == "nil" && terminates(s.Body) && s.Else == nil {
				state = true
				continue
			}
			// `if !ok { <terminates> }` after `x, ok = y.(T)`
			if u, ok := ast.Unparen(s.Cond).(*ast.UnaryExpr); ok && u.Op == token.NOT && okName != "" && es(u.X) == okName && terminates(s.Body) && s.Else == nil && s.Init == nil {
				state = true
				continue
			}
			// any other statement that may assign x resets the knowledge
			if assignsTo(s, x) {
				state = false
			}
		default:
			if assignsTo(st, x) {
				state = false
			}
		}
	}
	return assigned && state
}

func assignsTo(n ast.Node, x string) bool {
	found := false
	ast.Inspect(n, func(m ast.Node) bool {
		if as, ok := m.(*ast.AssignStmt); ok {
			for _, l := range as.Lhs {
				if es(l) == x {
					found = true
				}
			}
		}
		return true
	})
	return found
}

func isFreshValue(e ast.Expr) bool {
	switch x := ast.Unparen(e).(type) {
	case *ast.UnaryExpr:
		_, isLit := x.X.(*ast.CompositeLit)
		return x.Op == token.AND && isLit
	case *ast.CallExpr:
		if id := identOf(x.Fun); id != nil && (id.Name == "new" || id.Name == "make") {
			return true
		}
	case *ast.CompositeLit:
		return true
	}
	return false
}

func usesObj(info *types.Info, n ast.Node, obj types.Object) bool {
	found := false
	ast.Inspect(n, func(m ast.Node) bool {
		if id, ok := m.(*ast.Ident); ok && info.Uses[id] == obj {
			found = true
		}
		return true
	})
	return found
}

// assignsOnAllPaths: every path through st that falls out of it assigns obj.
func (c *oblCtx) assignsOnAllPaths(st ast.Stmt, obj types.Object) bool {
	blockAssigns := func(list []ast.Stmt) bool {
		if terminates(&ast.BlockStmt{List: list}) {
			return true
		}
		for _, s := range list {
			if c.assignsOnAllPaths(s, obj) {
				return true
			}
		}
		return false
	}
	switch s := st.(type) {
	case *ast.AssignStmt:
		for _, l := range s.Lhs {
			if id := identOf(l); id != nil && objOf(c.info(), id) == obj {
				return true
			}
		}
	case *ast.BlockStmt:
		return blockAssigns(s.List)
	case *ast.IfStmt:
		if s.Else == nil {
			return false
		}
		return blockAssigns(s.Body.List) && c.assignsOnAllPaths(s.Else, obj)
	case *ast.SwitchStmt:
		hasDefault := false
		for _, cl := range s.Body.List {
			cc := cl.(*ast.CaseClause)
			if cc.List == nil {
				hasDefault = true
			}
			if !blockAssigns(cc.Body) {
				return false
			}
		}
		return hasDefault
	case *ast.TypeSwitchStmt:
		hasDefault := false
		for _, cl := range s.Body.List {
			cc := cl.(*ast.CaseClause)
			if cc.List == nil {
				hasDefault = true
			}
			if !blockAssigns(cc.Body) {
				return false
			}
		}
		return hasDefault
	}
	return false
}

func (c *oblCtx) walkBlock(b *ast.BlockStmt) {
	if b != nil {
		c.walkStmts(b.List)
	}
}

// runOBL enumerates and discharges the partial-operation obligations of the given packages
// (nil filter = all production packages).
func runOBL(w *World, only func(rel string) bool) []Ob {
	var out []Ob
	for _, p := range w.Pkgs {
		rel := w.Rel(p.Types)
		if only != nil && !only(rel) {
			continue
		}
		for _, f := range p.Syntax {
			for _, d := range f.Decls {
				switch d := d.(type) {
				case *ast.FuncDecl:
					if d.Body == nil {
						continue
					}
					obj, _ := p.TypesInfo.Defs[d.Name].(*types.Func)
					if obj == nil {
						continue
					}
					c := &oblCtx{w: w, pkg: p, fn: d, fname: w.QualName(obj), out: &out, commaOk: map[ast.Node]bool{}}
					markCommaOk(d, c.commaOk)
					// sort.Interface methods: Swap/Less index the fields Len() measures
					if d.Recv != nil && (d.Name.Name == "Swap" || d.Name.Name == "Less") && implementsSortInterface(obj) {
						for _, prm := range d.Type.Params.List {
							for _, nm := range prm.Names {
								c.facts = append(c.facts, fact{idx: nm.Name, idxOf: "@sortiface"})
							}
						}
					}
					// a helper only ever called on a regexp match inherits the minimal length of the match
					if fi := w.Funcs[obj]; fi != nil {
						for _, prm := range d.Type.Params.List {
							for _, nm := range prm.Names {
								if b, ok := p.TypesInfo.TypeOf(nm).Underlying().(*types.Basic); ok && b.Kind() == types.String {
									if pat, ok := paramRegexpOrigin(w, fi, p.TypesInfo.Defs[nm]); ok {
										c.facts = append(c.facts, fact{lenOf: nm.Name, min: minMatchLen(pat)})
									}
								}
							}
						}
					}
					c.walkBlock(d.Body)
				case *ast.GenDecl:
					c := &oblCtx{w: w, pkg: p, fname: rel + ".<package-level>", out: &out, commaOk: map[ast.Node]bool{}}
					markCommaOk(d, c.commaOk)
					for _, sp := range d.Specs {
						if vs, ok := sp.(*ast.ValueSpec); ok {
							for _, v := range vs.Values {
								c.checkExpr(v)
							}
						}
					}
				}
			}
		}
	}
	return out
}

func implementsSortInterface(m *types.Func) bool {
	sig := m.Type().(*types.Signature)
	if sig.Recv() == nil {
		return false
	}
	ms := types.NewMethodSet(sig.Recv().Type())
	return ms.Lookup(nil, "Len") != nil && ms.Lookup(nil, "Less") != nil && ms.Lookup(nil, "Swap") != nil ||
		hasMethods(ms, "Len", "Less", "Swap")
}

func hasMethods(ms *types.MethodSet, names ...string) bool {
	for _, n := range names {
		found := false
		for i := 0; i < ms.Len(); i++ {
			if ms.At(i).Obj().Name() == n {
				found = true
			}
		}
		if !found {
			return false
		}
	}
	return true
}

// justifiedOBL: frozen table of partial operations that are safe for a non-local reason.
// key: qualified function | construct (types.ExprString). One line of reason each.
// keys: function | construct with local variables replaced by `$<type>` (normLocals): renaming a local keeps the entry
var justifiedOBL = map[string]string{
	"analysis.fetchStructComments|$types.Object.Type().(*types.Named)":                "scope is the TypeName looked up by the name of a *types.Named declared in that package: a defined (non-alias) type name, whose Type() is *types.Named",
	"analysis.(*Enum).Underlying|$analysis.Enum.Type().Underlying().(*types.Basic)":   "an Enum is only created for the type of a typed constant (fetchPkgEnums); the Go spec allows constants of basic underlying types only",
	"analysis/sql.(Array).Name|$sql.Array.A.Elem.(*an.Basic)":                         "constructor invariant: newType builds sql.Array only when Elem is *an.Basic or an integer *an.Enum (checked by side condition SIDE-sqlArray); the enum case is tested first",
	"generator/go/gounions.jsonForArray|$analysis.Named.Underlying.(*an.Array)":       "caller-guarded: only called from codeForNamed inside `case *an.Array` with Elem.(*an.Union) tested (side condition SIDE-callers)",
	"generator/go/gounions.jsonForArray|$analysis.Array.Elem.(*an.Union)":             "caller-guarded: see above",
	"generator/go/gounions.jsonForMap|$analysis.Named.Underlying.(*an.Map)":           "caller-guarded: only called from codeForNamed inside `case *an.Map` with Elem.(*an.Union) tested (side condition SIDE-callers)",
	"generator/go/gounions.jsonForMap|$analysis.Map.Elem.(*an.Union)":                 "caller-guarded: see above",
	"analysis/httpapi.parseCallWithString|$types.Tuple.At(0)":                         "a call expression used as the right-hand side of an assignment has at least one result; go/types gives it a Tuple type only when it has two or more",
	"analysis/sql.(Composite).SQLType|$sql.Composite.t.Fields[$int]":                  "caller-guarded: the only caller (compositeDecl) passes the range index over the same struct's Fields (side condition SIDE-callers)",
	"generator/go/randdata.(context).codeForEnum|strings.Fields($string)[1]":          "types.ObjectString of a *types.Const is `const <name> <type>`: at least three fields",
	"generator/go/sqlcrud.(context).generatePrimaryTable|$sql.Table.Columns[$int]":    "caller-guarded: generateTable calls generatePrimaryTable only when ta.Primary() >= 0, and Primary returns an index of Columns (side condition SIDE-callers)",
	"analysis.LocalName|$analysis.Type.Type().(*types.Named)":                         "caller-guarded: every call site carries an OBL-PRE obligation that its argument is a named-kind node",
	"analysis/httpapi.resolveVarType|resolveIdentifier($ast.Ident, $types.Info).Type": "every identifier used as an operand in a type-checked file is recorded in Info.Uses or Info.Defs; arg is an operand of a call in such a file",
}

// runNilMap (OBL-NILMAP): a store `x.f[k] = v` into a map-typed struct field requires that every way of
// building the struct initialises f: every composite literal of the struct type sets the field, or the
// storing function assigns it (make/literal) before the store.
func runNilMap(w *World, only func(rel string) bool) []Ob {
	var out []Ob
	type site struct {
		fi    *FuncInfo
		as    *ast.AssignStmt
		field *types.Var
		recv  string
	}
	var sites []site
	for _, fi := range sortedFuncs(w) {
		if only != nil && !only(w.Rel(fi.Obj.Pkg())) {
			continue
		}
		info := fi.Pkg.TypesInfo
		ast.Inspect(fi.Decl.Body, func(x ast.Node) bool {
			as, ok := x.(*ast.AssignStmt)
			if !ok {
				return true
			}
			for _, l := range as.Lhs {
				ix, ok := l.(*ast.IndexExpr)
				if !ok {
					continue
				}
				sel, ok := ast.Unparen(ix.X).(*ast.SelectorExpr)
				if !ok {
					continue
				}
				fv, ok := info.Uses[sel.Sel].(*types.Var)
				if !ok || !fv.IsField() {
					continue
				}
				if _, isMap := fv.Type().Underlying().(*types.Map); !isMap {
					continue
				}
				sites = append(sites, site{fi, as, fv, es(sel.X)})
			}
			return true
		})
	}
	for _, s := range sites {
		info := s.fi.Pkg.TypesInfo
		cons := es(s.as.Lhs[0]) + " = …"
		// (a) assigned in the same function before the store
		local := false
		ast.Inspect(s.fi.Decl.Body, func(x ast.Node) bool {
			as, ok := x.(*ast.AssignStmt)
			if !ok || as.Pos() >= s.as.Pos() {
				return true
			}
			for i, l := range as.Lhs {
				if sel, ok := l.(*ast.SelectorExpr); ok && info.Uses[sel.Sel] == types.Object(s.field) && i < len(as.Rhs) && isFreshValue(as.Rhs[i]) {
					local = true
				}
			}
			return true
		})
		if local {
			out = append(out, Ob{Rule: "OBL-NILMAP", Func: s.fi.Name, Construct: cons, Pos: w.Pos(s.as.Pos()), Verdict: VOK, How: "M1: the field is assigned a fresh map earlier in the same function", Nontrivial: true})
			continue
		}
		// (b) every composite literal of the owning struct type initialises the field
		var owner *types.Named
		for _, p := range w.Pkgs {
			for _, name := range p.Types.Scope().Names() {
				if tn, ok := p.Types.Scope().Lookup(name).(*types.TypeName); ok {
					if st, ok := tn.Type().Underlying().(*types.Struct); ok {
						for i := 0; i < st.NumFields(); i++ {
							if st.Field(i) == s.field {
								owner, _ = tn.Type().(*types.Named)
							}
						}
					}
				}
			}
		}
		nlit, ninit := 0, 0
		zeroDecl := false
		if owner != nil {
			for _, fi2 := range sortedFuncs(w) {
				inf := fi2.Pkg.TypesInfo
				ast.Inspect(fi2.Decl.Body, func(x ast.Node) bool {
					switch v := x.(type) {
					case *ast.CompositeLit:
						if t := inf.TypeOf(v); t != nil && types.Identical(t, owner) {
							nlit++
							for _, el := range v.Elts {
								if kv, ok := el.(*ast.KeyValueExpr); ok {
									if id := identOf(kv.Key); id != nil && inf.Uses[id] == types.Object(s.field) && isFreshValue(kv.Value) {
										ninit++
									}
								}
							}
						}
					case *ast.ValueSpec:
						if v.Type != nil && len(v.Values) == 0 {
							if t := inf.TypeOf(v.Type); t != nil && types.Identical(t, owner) {
								zeroDecl = true
							}
						}
					}
					return true
				})
			}
		}
		if owner != nil && nlit > 0 && nlit == ninit && !zeroDecl {
			out = append(out, Ob{Rule: "OBL-NILMAP", Func: s.fi.Name, Construct: cons, Pos: w.Pos(s.as.Pos()), Verdict: VOK, How: fmt.Sprintf("M2: all %d composite literals of %s initialise the field with a fresh map", nlit, owner.Obj().Name()), Nontrivial: true})
			continue
		}
		// (c) every chain of callers reaches, before any exported entry point, a function that assigns the
		// field a fresh map before the call
		if how, ok := initialisedByCallers(w, s.fi, s.field); ok {
			out = append(out, Ob{Rule: "OBL-NILMAP", Func: s.fi.Name, Construct: cons, Pos: w.Pos(s.as.Pos()), Verdict: VOK, How: how, Nontrivial: true})
			continue
		}
		if why, ok := justifiedOBL[s.fi.Name+"|"+cons]; ok {
			out = append(out, Ob{Rule: "OBL-NILMAP", Func: s.fi.Name, Construct: cons, Pos: w.Pos(s.as.Pos()), Verdict: VJustified, How: why, Nontrivial: true})
			continue
		}
		out = append(out, Ob{Rule: "OBL-NILMAP", Func: s.fi.Name, Construct: cons, Pos: w.Pos(s.as.Pos()), Verdict: VViolation, How: "store into a map-typed struct field that is not initialised on every way of building the struct: 'assignment to entry in nil map' at run time", Nontrivial: true})
	}
	return out
}

// initialisedByCallers: walking the static call graph upwards from fi, every path meets a function in
// which `X.field = <fresh map>` precedes the call, before it meets an exported function or a root.
func initialisedByCallers(w *World, fi *FuncInfo, field *types.Var) (string, bool) {
	callers := map[*FuncInfo][]struct {
		from *FuncInfo
		call *ast.CallExpr
	}{}
	for _, f2 := range sortedFuncs(w) {
		inf := f2.Pkg.TypesInfo
		ast.Inspect(f2.Decl.Body, func(x ast.Node) bool {
			if call, ok := x.(*ast.CallExpr); ok {
				if fn := calleeOf(inf, call); fn != nil {
					if t := w.Funcs[fn]; t != nil {
						callers[t] = append(callers[t], struct {
							from *FuncInfo
							call *ast.CallExpr
						}{f2, call})
					}
				}
			}
			return true
		})
	}
	assignsBefore := func(f2 *FuncInfo, pos token.Pos) bool {
		ok := false
		ast.Inspect(f2.Decl.Body, func(x ast.Node) bool {
			as, isA := x.(*ast.AssignStmt)
			if !isA || as.Pos() >= pos {
				return true
			}
			for i, l := range as.Lhs {
				if sel, isS := l.(*ast.SelectorExpr); isS && f2.Pkg.TypesInfo.Uses[sel.Sel] == types.Object(field) && i < len(as.Rhs) && isFreshValue(as.Rhs[i]) {
					ok = true
				}
			}
			return true
		})
		return ok
	}
	seen := map[*FuncInfo]bool{}
	initialisers := map[string]bool{}
	var up func(f *FuncInfo) bool
	up = func(f *FuncInfo) bool {
		if seen[f] {
			return true
		}
		seen[f] = true
		cs := callers[f]
		if len(cs) == 0 || f.Obj.Exported() {
			return false // an entry point reached without initialisation
		}
		for _, c := range cs {
			if c.from == f {
				continue
			}
			if assignsBefore(c.from, c.call.Pos()) {
				initialisers[c.from.Name] = true
				continue
			}
			if !up(c.from) {
				return false
			}
		}
		return true
	}
	if !up(fi) {
		return "", false
	}
	var names []string
	for n := range initialisers {
		names = append(names, n)
	}
	if len(names) == 0 {
		return "", false
	}
	return "M3: every chain of callers passes through " + strings.Join(names, ", ") + ", which assigns the field a fresh map before the call", true
}
